#!/usr/bin/env python3
"""Regenerate the table of seeded changes in DESIGN.md (between the SEEDED-TABLE markers) from seeded/*/meta.json."""
import json, os, re
HERE = os.path.dirname(os.path.dirname(os.path.abspath(__file__)))
rows = []
for name in sorted(os.listdir(os.path.join(HERE, 'seeded'))):
    mp = os.path.join(HERE, 'seeded', name, 'meta.json')
    if not os.path.exists(mp):
        continue
    m = json.load(open(mp))
    notes = os.path.join(HERE, 'seeded', name, 'notes.md')
    title = ''
    if os.path.exists(notes):
        for l in open(notes, errors='replace'):
            l = l.strip().lstrip('#').strip()
            if l:
                title = re.sub(r'^(Change|Seeded change|Mutant)\s*\d+\s*[-:—–.]*\s*', '', l, flags=re.I)[:110]
                break
    res = m.get('detected_by') or {}
    tier = 'quick' if (res.get('quick') or {}).get('rc') == 1 else 'thorough' if (res.get('thorough') or {}).get('rc') == 1 else '-'
    fps = (res.get(tier) or {}).get('fingerprints', []) if tier != '-' else []
    fp = '; '.join(f.split(':', 1)[1] if ':' in f else f for f in fps[:2])[:120]
    note = m.get('note', '')
    if tier != '-':
        det = 'yes (' + tier + ')'
    elif m.get('detected_by_other_check'):
        o = m['detected_by_other_check']
        det = f"by {o['check']} ({o.get('tier', 'quick')})"
        fp = '; '.join(o.get('fingerprints', [])[:2])
    elif m.get('neutralised_by_fix'):
        nf = m['neutralised_by_fix']
        det = 'neutralised by fix ' + (nf['fix'].split()[0] if isinstance(nf, dict) else str(nf).split()[0])
    else:
        det = 'NO'
    if m.get('also_detected_by'):
        o = m['also_detected_by']
        note = (note + ' ' if note else '') + f"also detected by {o['check']} ({'; '.join(o.get('fingerprints', [])[:1])})"
    rows.append(f"| {name} | {title.replace('|', '/')} | {det} | {fp.replace('|', '/')} | {note} |")
table = ['| Seeded change | What it does (sub-agent\'s title) | Detected | By (first fingerprints) | Note |', '|---|---|---|---|---|'] + rows
p = os.path.join(HERE, 'DESIGN.md')
s = open(p).read()
a, b = '<!-- SEEDED-TABLE-BEGIN -->', '<!-- SEEDED-TABLE-END -->'
if a in s:
    s = s[:s.index(a) + len(a)] + '\n' + '\n'.join(table) + '\n' + s[s.index(b):]
    open(p, 'w').write(s)
print(len(rows), 'rows;', sum('| NO |' in r for r in rows), 'missed')

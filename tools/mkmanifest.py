#!/usr/bin/env python3
"""Assemble /verif/MANIFEST.json from manifest.d/*.json fragments."""
import glob, json, os, sys
HERE = os.path.dirname(os.path.dirname(os.path.abspath(__file__)))
props = [json.loads(l)['id'] for l in open(os.path.join(HERE, 'properties.jsonl')) if l.strip()]
checks, na = [], []
frag = {os.path.basename(p)[:-5]: json.load(open(p)) for p in sorted(glob.glob(os.path.join(HERE, 'manifest.d', '*.json')))}
na_reasons = frag.pop('_not_applicable', {})
integrated = set(frag.pop('_integrated', list(frag)))   # only checks reviewed, run on /repo and committed
hooks = frag.pop('_hooks', None)
for pid in props:
    if pid in frag and pid in integrated:
        checks.append(frag[pid])
    else:
        na.append(dict(property_id=pid, reason=na_reasons.get(pid, 'check not built yet (work in progress; see DESIGN.md section 7)')))
m = dict(
    version=1,
    setup_cmd='./tools/setup.sh',
    hooks=hooks or dict(
        guard='AIOSLSK_VERIF',
        enable='no source hooks: checks observe public surfaces (event bus, state listeners, frames on simulated connections) and patch asyncio.open_connection/start_server, the executor and the clock inside the harness process only; AIOSLSK_VERIF=1 is exported by ./check but nothing in /repo reads it',
        baseline_off_cmd='cd /repo && /venv/bin/python -m pytest -ra -q -p no:cacheprovider --timeout=900 --continue-on-collection-errors',
        source_commits=[],
        add_only=True),
    engines=[dict(name='tlc', path='/opt/veriftools/tla/tla2tools.jar', serves_properties=[c['property_id'] for c in checks],
                  kind_free_text='TLA+ specifications in /verif/specs checked with TLC 1.8 (exhaustive, -simulate, state-graph dump, batch trace validation); Python harness in /verif/harness drives the implementation in a virtual-time asyncio loop over an in-memory network')],
    checks=checks,
    notes='Every check: (1) TLC model-checks the design spec, (2) TLC-generated behaviours / enumerated schedules are executed on the real code, (3) the recorded executions are validated by TLC against the trace spec; the verdict comes from (3). Known findings: known_findings.json. See DESIGN.md.',
    not_applicable=na)
json.dump(m, open(os.path.join(HERE, 'MANIFEST.json'), 'w'), indent=1)
print(f'{len(checks)} checks, {len(na)} not applicable')

#!/usr/bin/env python3
"""Run the registered checks (from MANIFEST.json) and print a table. Usage: tools/run_all.py [--tier T] [--jobs N] [ids...]"""
import argparse, json, os, subprocess, sys, time
from concurrent.futures import ThreadPoolExecutor
HERE = os.path.dirname(os.path.dirname(os.path.abspath(__file__)))
ap = argparse.ArgumentParser()
ap.add_argument('--tier', default='quick')
ap.add_argument('--jobs', type=int, default=1)
ap.add_argument('--repo', default=None)
ap.add_argument('ids', nargs='*')
a = ap.parse_args()
m = json.load(open(os.path.join(HERE, 'MANIFEST.json')))
checks = [c for c in m['checks'] if not a.ids or c['property_id'] in a.ids]
env = dict(os.environ)
if a.repo:
    env['VERIF_REPO'] = a.repo

def run(c):
    cmd = c['quick_cmd'] if a.tier == 'quick' else c.get('thorough_cmd', c['quick_cmd'])
    t0 = time.time()
    p = subprocess.run(cmd, shell=True, cwd=HERE, env=env, stdout=subprocess.PIPE, stderr=subprocess.STDOUT, text=True)
    dt = time.time() - t0
    lines = p.stdout.splitlines()
    viol = [l for l in lines if l.startswith('VIOLATION')]
    kf = [l for l in lines if l.startswith('KNOWN-FINDING')]
    fps = sorted({l.split('fingerprint=')[1].split(' ::')[0] for l in lines if 'fingerprint=' in l})
    return c['property_id'], p.returncode, dt, len(viol), len(kf), fps, lines[-3:]

with ThreadPoolExecutor(a.jobs) as ex:
    for pid, rc, dt, nv, nk, fps, tail in ex.map(run, checks):
        print(f'{pid} rc={rc} {dt:6.1f}s violations={nv} known={nk} {fps[:6]}')
        if rc not in (0, 1):
            print('    ' + '\n    '.join(tail))

#!/usr/bin/env python3
"""Fill seeded/<name>/meta.json from the sub-agent's notes.md and the stored result.json."""
import json, os, re, sys
HERE = os.path.dirname(os.path.dirname(os.path.abspath(__file__)))
for name in sys.argv[1:]:
    d = os.path.join(HERE, 'seeded', name)
    meta = json.load(open(os.path.join(d, 'meta.json')))
    notes = open(os.path.join(d, 'notes.md'), errors='replace').read() if os.path.exists(os.path.join(d, 'notes.md')) else ''
    paras = [p.strip() for p in re.split(r'\n\s*\n', notes) if p.strip()]
    res = json.load(open(os.path.join(d, 'result.json'))) if os.path.exists(os.path.join(d, 'result.json')) else {}
    meta.update(
        source='independent sub-agent given only the property text and its own scratch worktree of /repo (nothing from /verif)',
        what_and_needs=' '.join(paras[:3])[:1500],
        ran='tools/seeded.py: patch applied in a scratch worktree of /repo HEAD, ./check <property> run with VERIF_REPO pointing at it, worktree removed; the demonstration and the full-suite result are in notes.md (sub-agent) and, where run, under "demo" in detected_by',
        detected=bool(res.get('detected') or meta.get('detected_by_other_check') or meta.get('neutralised_by_fix')), detected_by=res)
    json.dump(meta, open(os.path.join(d, 'meta.json'), 'w'), indent=1)
    print(name, meta['detected'])

#!/usr/bin/env python3
"""Print the prompt for an independent 'seed a breaking change' sub-agent: property text + scratch worktree only."""
import json, sys
pid, tag = sys.argv[1], sys.argv[2]
n = int(sys.argv[3]) if len(sys.argv) > 3 else 3
p = {json.loads(l)['id']: json.loads(l) for l in open('/verif/properties.jsonl')}[pid]
wt = f'/tmp/mut-{pid.lower()}-{tag}'
files = ', '.join(p['anchors']['files'])
print(f"""You are helping test a verification effort for the Python asyncio library aioslsk (a SoulSeek P2P client). You get ONE semantic property of the library and your own scratch git worktree of the repository. Your task: produce {n} different, realistic changes ("seeded bugs") to the library source, each of which breaks the property while the code still imports/compiles and the repository's existing test suite still passes, plus for each a demonstration (a small pytest test file named demo_test.py, or a standalone script demo.py exiting non-zero on failure) that FAILS with the change applied and PASSES without it.

Setup (do this first):
  git -C /repo worktree add --detach {wt} HEAD
Work ONLY inside {wt} (library source under {wt}/src/aioslsk, tests under {wt}/tests). Do not touch /repo itself, and do not read or use anything under /verif (off limits, so that your changes are independent of the existing checks). Python: /venv/bin/python. The package is installed in editable mode pointing at /repo, so run things against your worktree with `cd {wt} && PYTHONPATH={wt}/src /venv/bin/python -m pytest -q -p no:cacheprovider <paths>` (verify with `PYTHONPATH={wt}/src /venv/bin/python -c "import aioslsk; print(aioslsk.__file__)"`). The full suite (`tests/`, ~780 tests, about 1 minute; the machine is busy, allow several minutes) must still pass with each change applied on its own.

The property ({pid} - "{p['title']}"):
"{p['statement']}"
It is quantified: "{p['quantifier']['text']}".
Relevant code: {files}.

Requirements for each change:
- It must be the kind of mistake a developer could plausibly make (a refactor, an "optimisation", a misplaced line, a slightly wrong condition, two cooperating sites that each look fine alone) - not vandalism, not a syntax error, not something ordinary use would expose at once.
- It should need something specific to manifest: a particular interleaving, a crash or fault at a particular point, a multi-step sequence of operations, an unusual input, a rare state.
- The existing test suite must still pass with it. The change must be to library code under src/ only.
- Make the {n} changes different in nature and spread over different parts of the property statement.
For each change i in 1..{n} write, under {wt}-out/<i>/: `patch.diff` (`git diff` in the worktree with only that change applied), `demo_test.py` or `demo.py`, and `notes.md` (what the change is, which clause of the property it breaks and why, what it needs to manifest, the exact commands you ran and their outcomes: demo fails with / passes without the change; full suite passes with it). Reset the worktree (`git checkout -- .`) between changes. When finished remove the worktree (`git -C /repo worktree remove --force {wt}`) and reply with a short summary of the changes.""")

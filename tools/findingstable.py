#!/usr/bin/env python3
"""Regenerate the 'Open' and 'Fixed' lists of DESIGN.md section 10 from known_findings.json."""
import json, os, re
HERE = os.path.dirname(os.path.dirname(os.path.abspath(__file__)))
k = json.load(open(os.path.join(HERE, 'known_findings.json')))
out = ['### Open (KNOWN-FINDING, exit 0)', '']
for f in k['findings']:
    out.append(f"* `{f['fingerprint']}` ({f['property']}) — {f.get('what', f.get('description', ''))}")
out += ['', '### Fixed', '', '| Property | Commit | What failed |', '|---|---|---|']
for line in k['fixed']:
    m = re.match(r'fixed: property=(\S+) (\S+) (.*)', line)
    out.append(f'| {m.group(1)} | `{m.group(2)}` | {m.group(3)} |')
p = os.path.join(HERE, 'DESIGN.md')
s = open(p).read()
i = s.index('### Open (KNOWN-FINDING, exit 0)')
j = s.find('\n---------', i)
tail = s[j:] if j >= 0 else '\n'
s = s[:i] + '\n'.join(out) + '\n' + tail
s = re.sub(r'\d+ repaired by `fix:` commits, \d+\s+open', f"{len(k['fixed'])} repaired by `fix:` commits, {len(k['findings'])} open", s)
open(p, 'w').write(s)
print(len(k['fixed']), 'fixed,', len(k['findings']), 'open')

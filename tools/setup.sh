#!/bin/sh
# Offline setup: nothing to compile. Syntax-check the specs of every registered check with SANY
# and import-check the harness modules of every registered check.
HERE="$(cd "$(dirname "$0")/.." && pwd)"
cd "$HERE"
mkdir -p evidence replays
PYTHONPATH="$HERE" PYTHONDONTWRITEBYTECODE=1 /venv/bin/python - <<'PY'
import glob, importlib, json, os, subprocess, sys
rc = 0
from harness import tlc, vloop, simnet, core, simserver  # noqa
for d in json.load(open('MANIFEST.json'))['checks']:
    pid = d['property_id']
    try:
        importlib.import_module('harness.props.' + pid.lower())
    except Exception as exc:
        print(f'IMPORT FAILED for {pid}: {exc!r}')
        rc = 1
    sd = d.get('spec_dir')
    for f in sorted(glob.glob(os.path.join(sd, '*.tla'))) if sd else []:
        try:
            tlc.sany(os.path.abspath(f))
        except Exception as exc:
            print(f'SANY FAILED: {f}\n{str(exc)[-1500:]}')
            rc = 1
print('setup ok' if rc == 0 else 'setup FAILED')
sys.exit(rc)
PY

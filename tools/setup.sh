#!/bin/sh
# Offline setup: nothing to compile. Syntax-check every spec with SANY and import-check the harness.
set -e
HERE="$(cd "$(dirname "$0")/.." && pwd)"
cd "$HERE"
mkdir -p evidence replays
rc=0
for f in specs/*/*.tla; do
  out=$(cd "$(dirname "$f")" && java -cp /opt/veriftools/tla/tla2tools.jar:/opt/veriftools/tla/CommunityModules-deps.jar tla2sany.SANY "$(basename "$f")" 2>&1) || true
  if echo "$out" | grep -q "Fatal errors\|\*\*\* Errors\|Could not parse\|Semantic errors"; then
    echo "SANY FAILED: $f"; echo "$out" | tail -20; rc=1
  fi
done
PYTHONPATH="$HERE" PYTHONDONTWRITEBYTECODE=1 /venv/bin/python - <<'PY'
import importlib, pkgutil, harness.props
from harness import tlc, vloop, simnet, core
for m in pkgutil.iter_modules(harness.props.__path__):
    importlib.import_module('harness.props.' + m.name)
print('harness import ok')
PY
exit $rc

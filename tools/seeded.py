#!/usr/bin/env python3
"""Run the checks against the seeded changes kept under /verif/seeded/<name>/.

Each directory holds patch.diff, a demonstration (demo_test.py / demo.py) and meta.json
({"property": "C03", ...}).  For every seeded change a scratch worktree of /repo HEAD is created
under /tmp, the patch applied there, the property's check run with VERIF_REPO pointing at it
(equivalent to `git -C /repo apply`, but /repo itself is never touched), and the worktree removed.
Results go to seeded/<name>/result.json.   usage: tools/seeded.py [--tier quick|thorough|both] [--demo] [names...]
"""
import argparse, json, os, shutil, subprocess, sys, time
HERE = os.path.dirname(os.path.dirname(os.path.abspath(__file__)))
SEEDED = os.path.join(HERE, 'seeded')


def sh(cmd, **kw):
    return subprocess.run(cmd, shell=True, stdout=subprocess.PIPE, stderr=subprocess.STDOUT, text=True, **kw)


def run_one(name, tier, demo, suite=False):
    d = os.path.join(SEEDED, name)
    meta = json.load(open(os.path.join(d, 'meta.json')))
    pid = meta['property']
    wt = f'/tmp/seed-{name}-{os.getpid()}'
    sh(f'git -C /repo worktree remove --force {wt}')
    r = sh(f'git -C /repo worktree add --detach {wt} HEAD')
    if r.returncode:
        return dict(error='worktree: ' + r.stdout[-300:])
    res = dict(property=pid, head=sh('git -C /repo rev-parse --short HEAD').stdout.strip())
    try:
        r = sh(f'git -C {wt} apply {os.path.join(d, "patch.diff")}')
        if r.returncode:
            res['error'] = 'patch does not apply: ' + r.stdout[-300:]
            return res
        env = dict(os.environ, VERIF_REPO=wt)
        tiers = ['quick', 'thorough'] if tier == 'both' else [tier]
        for t in tiers:
            t0 = time.time()
            r = sh(f'./check {pid} --tier {t}', cwd=HERE, env=env)
            lines = r.stdout.splitlines()
            fps = sorted({l.split('fingerprint=')[1].split(' ::')[0] for l in lines if 'fingerprint=' in l})
            res[t] = dict(rc=r.returncode, wall_s=round(time.time() - t0, 1),
                          violations=sum(l.startswith('VIOLATION') for l in lines), fingerprints=fps[:8],
                          tail=lines[-2:] if r.returncode not in (0, 1) else [])
            if r.returncode == 1 and tier == 'both':
                break
        if demo:
            dm = next((f for f in ('demo_test.py', 'demo.py') if os.path.exists(os.path.join(d, f))), None)
            if dm:
                cmd = (f'/venv/bin/python -m pytest -q -p no:cacheprovider {os.path.join(d, dm)}' if dm.endswith('_test.py')
                       else f'/venv/bin/python {os.path.join(d, dm)}')
                with_p = sh(cmd, cwd=wt, env=dict(os.environ, PYTHONPATH=f'{wt}/src'))
                sh(f'git -C {wt} checkout -- .')
                without = sh(cmd, cwd=wt, env=dict(os.environ, PYTHONPATH=f'{wt}/src'))
                res['demo'] = dict(with_patch_rc=with_p.returncode, without_patch_rc=without.returncode)
        if suite:
            # own confirmation that the repository's suite still passes with the change (private network
            # namespace: the e2e tests bind fixed ports)
            sh(f'git -C {wt} checkout -- . && git -C {wt} apply {os.path.join(d, "patch.diff")}')
            r = sh(f"unshare -rn sh -c 'ip link set lo up; cd {wt}; PYTHONPATH={wt}/src /venv/bin/python -m pytest -q "
                   f"-p no:cacheprovider --timeout=900 2>&1 | tail -3'")
            last = [l for l in r.stdout.splitlines() if ' passed' in l or ' failed' in l or 'error' in l.lower()]
            res['suite'] = dict(summary=(last[-1] if last else r.stdout[-200:]).strip(),
                                passed=bool(last) and ' failed' not in last[-1] and 'error' not in last[-1].lower())
        res['detected'] = any(res.get(t, {}).get('rc') == 1 for t in ('quick', 'thorough'))
        return res
    finally:
        sh(f'git -C /repo worktree remove --force {wt}')
        shutil.rmtree(wt, ignore_errors=True)
        # evidence written during the run belongs to the patched tree: restore the committed one
        sh(f'git checkout -- evidence/{pid}.json', cwd=HERE)


if __name__ == '__main__':
    ap = argparse.ArgumentParser()
    ap.add_argument('--tier', default='both')
    ap.add_argument('--demo', action='store_true')
    ap.add_argument('--suite', action='store_true')
    ap.add_argument('names', nargs='*')
    a = ap.parse_args()
    names = a.names or sorted(n for n in os.listdir(SEEDED) if os.path.exists(os.path.join(SEEDED, n, 'meta.json')))
    for n in names:
        res = run_one(n, a.tier, a.demo, a.suite)
        json.dump(res, open(os.path.join(SEEDED, n, 'result.json'), 'w'), indent=1)
        print(n, json.dumps({k: v for k, v in res.items() if k != 'head'}))

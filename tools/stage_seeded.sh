#!/bin/sh
# usage: stage_seeded.sh <PID> <round letter>   copies /tmp/mut-<pid>-<r>-out/<i>/* to seeded/<PID>-<r><i>/
pid=$1; r=$2; low=$(echo $pid | tr A-Z a-z)
for i in 1 2 3 4; do src=/tmp/mut-$low-$r-out/$i; [ -d $src ] || continue; d=/verif/seeded/$pid-$r$i; mkdir -p $d; cp $src/patch.diff $src/notes.md $d/ 2>/dev/null; cp $src/demo_test.py $src/demo.py $d/ 2>/dev/null; echo "{\"property\": \"$pid\"}" > $d/meta.json; done

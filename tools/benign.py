#!/usr/bin/env python3
"""Run the checks against behaviour-preserving refactorings kept under /verif/benign/<name>/ (patch.diff, notes.md).
Every check must exit 0 on them: anything else is a false alarm (rc 1) or brittleness (rc 2) of the machinery.
usage: tools/benign.py [--jobs N] [--checks C01,C02,...] [names...]"""
import argparse, json, os, shutil, subprocess, sys, time
from concurrent.futures import ThreadPoolExecutor
HERE = os.path.dirname(os.path.dirname(os.path.abspath(__file__)))
B = os.path.join(HERE, 'benign')


def sh(cmd, **kw):
    return subprocess.run(cmd, shell=True, stdout=subprocess.PIPE, stderr=subprocess.STDOUT, text=True, **kw)


def run_one(name, checks, jobs):
    d = os.path.join(B, name)
    wt = f'/tmp/benign-{name}-{os.getpid()}'
    sh(f'git -C /repo worktree remove --force {wt}')
    r = sh(f'git -C /repo worktree add --detach {wt} HEAD')
    res = dict(head=sh('git -C /repo rev-parse --short HEAD').stdout.strip(), checks={})
    try:
        r = sh(f'git -C {wt} apply {os.path.join(d, "patch.diff")}')
        if r.returncode:
            res['error'] = 'patch does not apply: ' + r.stdout[-300:]
            return res
        env = dict(os.environ, VERIF_REPO=wt)

        def one(pid):
            t0 = time.time()
            p = sh(f'./check {pid} --tier quick', cwd=HERE, env=env)
            lines = p.stdout.splitlines()
            fps = sorted({l.split('fingerprint=')[1].split(' ::')[0] for l in lines if 'fingerprint=' in l})
            return pid, dict(rc=p.returncode, wall_s=round(time.time() - t0, 1), fingerprints=fps[:6],
                             tail=lines[-3:] if p.returncode else [])
        with ThreadPoolExecutor(jobs) as ex:
            for pid, r1 in ex.map(one, checks):
                res['checks'][pid] = r1
        res['all_pass'] = all(v['rc'] == 0 for v in res['checks'].values())
        return res
    finally:
        sh(f'git -C /repo worktree remove --force {wt}')
        shutil.rmtree(wt, ignore_errors=True)
        sh('git checkout -- evidence', cwd=HERE)


if __name__ == '__main__':
    ap = argparse.ArgumentParser()
    ap.add_argument('--jobs', type=int, default=4)
    ap.add_argument('--checks', default='')
    ap.add_argument('names', nargs='*')
    a = ap.parse_args()
    allc = [c['property_id'] for c in json.load(open(os.path.join(HERE, 'MANIFEST.json')))['checks']]
    checks = a.checks.split(',') if a.checks else allc
    names = a.names or sorted(n for n in os.listdir(B) if os.path.exists(os.path.join(B, n, 'patch.diff')))
    for n in names:
        res = run_one(n, checks, a.jobs)
        rp = os.path.join(B, n, 'result.json')
        if a.checks and os.path.exists(rp) and 'checks' in res:
            # partial run: merge into the previous result, remembering which head each verdict is from
            old = json.load(open(rp))
            merged = {k: dict(v, head=v.get('head', old.get('head'))) for k, v in old.get('checks', {}).items()}
            merged.update({k: dict(v, head=res['head']) for k, v in res['checks'].items()})
            res = dict(head=res['head'], checks=dict(sorted(merged.items())),
                       all_pass=all(v['rc'] == 0 for v in merged.values()))
        json.dump(res, open(rp, 'w'), indent=1)
        bad = {k: (v['rc'], v['fingerprints'][:2]) for k, v in res.get('checks', {}).items() if v['rc'] != 0}
        print(n, 'ALL PASS' if res.get('all_pass') else f'PROBLEMS: {bad or res.get("error")}', flush=True)

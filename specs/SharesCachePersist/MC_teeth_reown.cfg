SPECIFICATION Spec
CONSTANTS
  Dirs <- MC_Dirs2
  Files <- MC_Files2
  Shares <- MC_Shares1
  InitConfs <- MC_ConfsA
  InitDisk <- MC_Disk2
  Queries <- MC_Queries
  MaxVer = 2
  MaxLives = 3
  MaxDisk = 0
  MaxConf = 1
  MaxRun = 1
  ReadReowns = TRUE
  StopCancelsScan = TRUE
INVARIANT TypeOK
INVARIANT PlacedInnermost
INVARIANT TermMapExact
INVARIANT QueriesExact
INVARIANT StopEndsScan
PROPERTY FreshIndexIsDisk
PROPERTY LoadedEqualsWritten
PROPERTY ReloadOK
PROPERTY CacheIsLastWrite
PROPERTY ScanOnStart
PROPERTY KeepsUnchanged
PROPERTY ReadsOnlyMissing
PROPERTY FilesPhaseIsMidScan
VIEW View
CHECK_DEADLOCK FALSE

SPECIFICATION Spec
CONSTANTS
  Dirs <- MC_Dirs1
  Files <- MC_Files1
  Shares <- MC_Shares1
  InitConfs <- MC_ConfsA
  InitDisk <- MC_Disk1
  Queries <- MC_Queries
  MaxVer = 2
  MaxLives = 3
  MaxDisk = 2
  MaxConf = 0
  MaxRun = 0
  ReadReowns = FALSE
  StopCancelsScan = FALSE
INVARIANT TypeOK
INVARIANT PlacedInnermost
INVARIANT TermMapExact
INVARIANT QueriesExact
INVARIANT StopEndsScan
PROPERTY FreshIndexIsDisk
PROPERTY LoadedEqualsWritten
PROPERTY ReloadOK
PROPERTY CacheIsLastWrite
PROPERTY ScanOnStart
PROPERTY KeepsUnchanged
PROPERTY ReadsOnlyMissing
PROPERTY FilesPhaseIsMidScan
VIEW View
CHECK_DEADLOCK FALSE

------------------------- MODULE SharesCachePersist -------------------------
(***************************************************************************)
(* X04 - persistence and start-up of the shares.                           *)
(*                                                                         *)
(* Written from docs/source/USAGE.rst ("Sharing", "Adding / Removing /     *)
(* Scanning Directories"), docs/source/SETTINGS.rst (shares.directories,   *)
(* shares.scan_on_start: "Schedule a scan as soon as the client starts up  *)
(* (after reading the cache)") and the docstrings of SharesManager         *)
(* (load_from_settings: "Existing directories will be updated,             *)
(* non-existing directories added, directories that no longer exist will   *)
(* be removed"; add_shared_directory: "will not scan the directory,        *)
(* however if the directory is a (sub)child of an already registered       *)
(* shared directory the items from that directory will be removed from     *)
(* the parent directory to the new directory"; SoulSeekClient.start /      *)
(* stop: "Calls load_data on all defined services", "Write the transfer    *)
(* and shares caches").                                                    *)
(*                                                                         *)
(* The state is what a user of the library can see:                        *)
(*   disk    the files under the temporary tree (mtime, content version)   *)
(*   conf    settings.shares.directories: directory -> share (mode, users)  *)
(*   sos     settings.shares.scan_on_start                                  *)
(*   up      a client / manager is alive                                   *)
(*   shared  its shared directories: directory -> [sh share, al alias]      *)
(*   items   its index: [d holder, own item.shared_directory, sub path     *)
(*           below own, v modified time, a attributes (0 = not read yet,   *)
(*           -1 = read but empty, c > 0 = read from content version c)]    *)
(*   tm      the items the term map refers to (as keys [own, sub, v])      *)
(*   cache   what the shares cache holds: [dirs, items]                    *)
(*   scan    a scan() in flight: "idle", "files" (directory walks in the   *)
(*           executor, nothing applied), "attrs" (index reconciled,        *)
(*           attribute extraction in the executor)                         *)
(*   reads   files whose attributes the attribute phase that just ended    *)
(*           extracted                                                     *)
(*   auto    the scan in flight is the one start() scheduled                *)
(*   zombie  a scan() task of a stopped client is still pending            *)
(*                                                                         *)
(* A path is the sequence of its component names below the temporary base; *)
(* a component is the sequence of its words (what a search term can hit).  *)
(* "Under" is the strict prefix relation.  No action refers to the         *)
(* constants Dirs / Files, so the trace spec applies the same actions to   *)
(* the trees the harness recorded.                                         *)
(*                                                                         *)
(* One action per critical section of the code (file:lines at each one):   *)
(* the calls are synchronous except scan(), which suspends twice in        *)
(* run_in_executor (manager.py:547 and :606-622); stop()/write/crash and   *)
(* settings changes may fall between its phases.                           *)
(*                                                                         *)
(* A restart is a new life: Start reads the cache and the settings, no     *)
(* matter whether the objects are new (fresh client, fresh process) or the *)
(* same client is started again.                                           *)
(*                                                                         *)
(* Configurations: MC_q_nested / MC_q_attrs / MC_q_modes (quick, one facet *)
(* each), MC_mid, MC_big (thorough), MC_live (FairSpec: a scheduled scan   *)
(* completes), MC_sim (constants for -simulate), and two that are MEANT to *)
(* fail, showing that the properties have teeth: MC_teeth_reown            *)
(* (ReadReowns = TRUE, the code's cache reader: LoadedEqualsWritten fails)  *)
(* and MC_teeth_zombie (StopCancelsScan = FALSE, the code's stop():         *)
(* StopEndsScan fails).  Both deviations are reported by ./check X04 as     *)
(* observations (marked paths of the trace spec), not as violations.        *)
(***************************************************************************)
EXTENDS Integers, Sequences, FiniteSets, TLC

CONSTANTS
  Dirs,        \* directories that may be configured / shared
  Files,       \* files that may exist on disk
  Shares,      \* values of (share_mode, users): records [m, u]
  InitConfs,   \* initial values of settings.shares.directories
  InitDisk,    \* files present at the beginning
  Queries,     \* queries used by the design-level invariants: [inc, exc] sets of words
  MaxVer,      \* a modification time / content version is one of 1..MaxVer
  MaxLives,    \* number of starts
  MaxDisk,     \* budget of disk changes
  MaxConf,     \* budget of settings changes
  MaxRun,      \* budget of add / remove / update / reload calls on a live manager
  \* deviation switch: TRUE = what shares/cache.py:38-47 does at the pinned commit (every item
  \* read from the cache is given the directory that HOLDS it as its shared_directory),
  \* FALSE = the documented round trip (an item comes back as it was written)
  ReadReowns,
  \* deviation switch: FALSE = what client.py:107-157 does at the pinned commit (the scan() task that
  \* start() creates for scan_on_start is not kept anywhere, stop() cannot cancel it),
  \* TRUE = stop() as documented ("Cancel all pending tasks and waiting for them to complete")
  StopCancelsScan

----------------------------------------------------------------------------
(* Paths                                                                   *)
IsUnder(x, d) == Len(d) < Len(x) /\ SubSeq(x, 1, Len(d)) = d
Rel(x, d) == SubSeq(x, Len(d) + 1, Len(x))
Folder(f) == SubSeq(f, 1, Len(f) - 1)
ParentsOf(d, S) == {p \in S : IsUnder(d, p)}
Deepest(S) == CHOOSE p \in S : \A x \in S : Len(x) <= Len(p)
Holders(f, S) == {d \in S : IsUnder(f, d)}
Holder(f, S) == Deepest(Holders(f, S))

F(i) == i.own \o i.sub                      \* item.get_absolute_path()
Key(i) == [own |-> i.own, sub |-> i.sub, v |-> i.v]    \* identity of a SharedItem (model.py:80-92)
Keys(its) == {Key(i) : i \in its}
Words(k) == UNION {{k.sub[j][n] : n \in 1..Len(k.sub[j])} : j \in 1..Len(k.sub)}   \* of the query path

Ext(fn, d, val) == [x \in DOMAIN fn \cup {d} |-> IF x = d THEN val ELSE fn[x]]
Without(fn, d) == [x \in DOMAIN fn \ {d} |-> fn[x]]
EmptyFn == [x \in {} |-> 0]
EmptyCache == [dirs |-> EmptyFn, items |-> {}]

VARIABLES disk, conf, sos, up, shared, items, tm, cache, scan, auto, reads, zombie, life, nDisk, nConf, nRun
vars == <<disk, conf, sos, up, shared, items, tm, cache, scan, auto, reads, zombie, life, nDisk, nConf, nRun>>
\* reads is an observation: it never influences a later step (exhaustive configurations: VIEW)
View == <<disk, conf, sos, up, shared, items, tm, cache, scan, auto, zombie, life, nDisk, nConf, nRun>>

S == DOMAIN shared
Idle == up /\ scan = "idle"

Init ==
  /\ disk = InitDisk
  /\ conf \in InitConfs /\ sos \in BOOLEAN
  /\ up = FALSE /\ shared = EmptyFn /\ items = {} /\ tm = {}
  /\ cache = EmptyCache
  /\ scan = "idle" /\ auto = FALSE /\ reads = {} /\ zombie = FALSE
  /\ life = 0 /\ nDisk = 0 /\ nConf = 0 /\ nRun = 0

Budgets == UNCHANGED <<zombie, life, nDisk, nConf, nRun>>
RunStep == nRun < MaxRun /\ nRun' = nRun + 1 /\ UNCHANGED <<zombie, life, nDisk, nConf>>

----------------------------------------------------------------------------
(* The live manager                                                        *)

\* manager.py:405-412  items under the new directory move from its innermost shared parent;
\* the items themselves (owner, sub path, attributes) do not change
MoveOnAdd(its, SS, d) ==
  IF ParentsOf(d, SS) = {} THEN its
  ELSE LET p == Deepest(ParentsOf(d, SS)) IN
       {IF i.d = p /\ IsUnder(F(i), d) THEN [i EXCEPT !.d = d] ELSE i : i \in its}

\* manager.py:368-418  add_shared_directory: no scan, term map untouched
AddAs(d, sh, al) ==
  /\ Idle /\ d \notin S
  /\ shared' = Ext(shared, d, [sh |-> sh, al |-> al])
  /\ items' = MoveOnAdd(items, S, d)
  /\ reads' = {} /\ RunStep
  /\ UNCHANGED <<disk, conf, sos, up, tm, cache, scan, auto>>
\* (the alias of a directory added in life k is k: an alias is only ever compared for equality)
Add(d, sh) == up /\ AddAs(d, sh, life)

\* manager.py:447-503  remove_shared_directory: items go to the innermost remaining shared
\* parent, if any; the term map is rebuilt
Remove(d) ==
  /\ Idle /\ d \in S
  /\ shared' = Without(shared, d)
  /\ items' = IF ParentsOf(d, S \ {d}) = {} THEN {i \in items : i.d # d}
              ELSE LET p == Deepest(ParentsOf(d, S \ {d})) IN
                   {IF i.d = d THEN [i EXCEPT !.d = p] ELSE i : i \in items}
  /\ tm' = Keys(items')
  /\ reads' = {} /\ RunStep
  /\ UNCHANGED <<disk, conf, sos, up, cache, scan, auto>>

\* manager.py:420-445  update_shared_directory
Update(d, sh) ==
  /\ Idle /\ d \in S /\ shared[d].sh # sh
  /\ shared' = [shared EXCEPT ![d].sh = sh]
  /\ reads' = {} /\ RunStep
  /\ UNCHANGED <<disk, conf, sos, up, items, tm, cache, scan, auto>>

\* manager.py:234-262  load_from_settings on directories cd (directory -> [sh, al]) holding its:
\* configured directories that are known are updated from the settings (they keep their alias),
\* the others are added in turn (with the moving rule, against the list that still contains the
\* directories about to be dropped); directories that are not configured are dropped.  The code
\* forgets the items of a dropped directory; handing them to the innermost configured directory
\* (what remove_shared_directory does) is equally within the documentation: handover = TRUE is
\* used by the trace spec only.
RECURSIVE LoadFold(_, _, _)
LoadFold(N, SS, its) ==
  IF N = {} THEN its
  ELSE LET n == CHOOSE x \in N : TRUE IN LoadFold(N \ {n}, SS \cup {n}, MoveOnAdd(its, SS, n))

Loaded(cd, its, al, handover) ==
  LET C == DOMAIN conf
      folded == LoadFold(C \ DOMAIN cd, DOMAIN cd, its)
  IN [dirs  |-> [d \in C |-> [sh |-> conf[d], al |-> IF d \in DOMAIN cd THEN cd[d].al ELSE al[d]]],
      items |-> {i \in folded : i.d \in C} \cup
                (IF handover
                   THEN {[i EXCEPT !.d = Holder(F(i), C)] : i \in {j \in folded : j.d \notin C /\ Holders(F(j), C) # {}}}
                   ELSE {})]

Reload(al, handover) ==
  /\ Idle
  /\ LET r == Loaded(shared, items, al, handover) IN
       /\ r.dirs # shared            \* (a reload that changes nothing is not a step of the model)
       /\ shared' = r.dirs /\ items' = r.items
  /\ tm' = Keys(items')
  /\ reads' = {} /\ RunStep
  /\ UNCHANGED <<disk, conf, sos, up, cache, scan, auto>>

\* client.py:144-157 + manager.py:231, 271-276  what write_cache() / store_data() persists
Snapshot == [dirs |-> shared, items |-> items]

Write ==
  /\ up /\ cache # Snapshot
  /\ cache' = Snapshot
  /\ reads' = {} /\ Budgets
  /\ UNCHANGED <<disk, conf, sos, up, shared, items, tm, scan, auto>>

Down ==
  /\ up' = FALSE /\ shared' = EmptyFn /\ items' = {} /\ tm' = {}
  /\ scan' = "idle" /\ auto' = FALSE /\ reads' = {}

\* client.py:144-157  stop(): the caches are written, the objects are gone; z: a scan() that was
\* in flight stays pending
NoBudget == UNCHANGED <<life, nDisk, nConf, nRun>>
StopWith(z) == up /\ cache' = Snapshot /\ Down /\ zombie' = z /\ NoBudget /\ UNCHANGED <<disk, conf, sos>>
Stop  == up /\ StopWith(~StopCancelsScan /\ scan # "idle" /\ auto)
\* the process dies: nothing is written, nothing survives
Crash == up /\ Down /\ zombie' = FALSE /\ NoBudget /\ UNCHANGED <<disk, conf, sos, cache>>

\* cache.py:38-47  SharesShelveCache.read()
ReadItems(w, reown) == IF reown THEN {[i EXCEPT !.own = i.d] : i \in w.items} ELSE w.items

\* client.py:107-131  start(): load_data = read_cache + load_from_settings (manager.py:227-262),
\* then scan() as a task when settings.shares.scan_on_start is set (sc = resulting scan state)
StartWith(al, sc, reown, handover) ==
  /\ ~up /\ life < MaxLives
  /\ LET r == Loaded(cache.dirs, ReadItems(cache, reown), al, handover) IN
       shared' = r.dirs /\ items' = r.items
  /\ tm' = Keys(items')
  /\ up' = TRUE /\ scan' = sc /\ auto' = (sc # "idle")
  /\ reads' = {} /\ zombie' = FALSE      \* (a new life: fresh objects, out of reach of the old ones)
  /\ life' = life + 1
  /\ UNCHANGED <<disk, conf, sos, cache, nDisk, nConf, nRun>>

Start == ~up /\ StartWith([d \in DOMAIN conf |-> life + 1], IF sos THEN "files" ELSE "idle", ReadReowns, FALSE)

\* manager.py:633-660  scan() called by the application
ScanBegin ==
  /\ Idle
  /\ scan' = "files" /\ auto' = FALSE /\ reads' = {} /\ Budgets
  /\ UNCHANGED <<disk, conf, sos, up, shared, items, tm, cache>>

\* manager.py:64-105, 531-588  the walks return: each directory's items are reconciled with what
\* is on disk below it (shared children are skipped).  An item is (owner, sub path, name, mtime):
\* one that is found again keeps its attributes; a touched, moved or re-owned one is dropped and
\* found anew without attributes.
Found(SS, dsk) ==
  {[d |-> Holder(x.f, SS), own |-> Holder(x.f, SS), sub |-> Rel(x.f, Holder(x.f, SS)), v |-> x.v, a |-> 0] :
     x \in {y \in dsk : Holders(y.f, SS) # {}}}
KeepOrNew(its, y) ==
  IF \E i \in its : i.d = y.d /\ Key(i) = Key(y)
    THEN CHOOSE i \in its : i.d = y.d /\ Key(i) = Key(y)
    ELSE y
FilesPhase(its, SS, dsk) == {KeepOrNew(its, y) : y \in Found(SS, dsk)}
ScanFilesDone ==
  /\ up /\ scan = "files"
  /\ items' = FilesPhase(items, S, disk)
  /\ tm' = Keys(items')
  /\ scan' = "attrs" /\ reads' = {} /\ Budgets /\ UNCHANGED auto
  /\ UNCHANGED <<disk, conf, sos, up, shared, cache>>

\* manager.py:590-631, 648-660  attributes of the items that have none are extracted (a file that
\* cannot be read yields empty attributes), ScanCompleteEvent, report to the server
AttrOf(f, dsk) == IF \E x \in dsk : x.f = f THEN (CHOOSE x \in dsk : x.f = f).c ELSE -1
AttrsPhase(its, dsk) == {IF i.a = 0 THEN [i EXCEPT !.a = AttrOf(F(i), dsk)] ELSE i : i \in its}
Unread(its) == {F(i) : i \in {j \in its : j.a = 0}}
ScanAttrsDone ==
  /\ up /\ scan = "attrs"
  /\ items' = AttrsPhase(items, disk)
  /\ reads' = Unread(items)
  /\ scan' = "idle" /\ auto' = FALSE /\ Budgets
  /\ UNCHANGED <<disk, conf, sos, up, shared, tm, cache>>

----------------------------------------------------------------------------
(* The settings (the application edits them at any time; nothing reads     *)
(* them before the next start / reload)                                    *)
ConfStep == nConf < MaxConf /\ nConf' = nConf + 1 /\ reads' = {}
            /\ UNCHANGED <<disk, up, shared, items, tm, cache, scan, auto, zombie, life, nDisk, nRun>>
ConfAdd(d, sh)    == d \notin DOMAIN conf /\ conf' = Ext(conf, d, sh) /\ ConfStep /\ UNCHANGED sos
ConfRemove(d)     == d \in DOMAIN conf /\ conf' = Without(conf, d) /\ ConfStep /\ UNCHANGED sos
ConfUpdate(d, sh) == d \in DOMAIN conf /\ conf[d] # sh /\ conf' = [conf EXCEPT ![d] = sh] /\ ConfStep /\ UNCHANGED sos
ConfSos(b)        == sos # b /\ sos' = b /\ ConfStep /\ UNCHANGED conf

(* The world outside (not while a scan is in flight: C07 has those histories) *)
DiskStep == scan = "idle" /\ nDisk < MaxDisk /\ nDisk' = nDisk + 1 /\ reads' = {}
            /\ UNCHANGED <<conf, sos, up, shared, items, tm, cache, scan, auto, zombie, life, nConf, nRun>>
Present(f) == \E x \in disk : x.f = f
Create(f, v) == ~Present(f) /\ disk' = disk \cup {[f |-> f, v |-> v, c |-> v]} /\ DiskStep
Delete(f)    == Present(f) /\ disk' = {x \in disk : x.f # f} /\ DiskStep
\* the file is modified: new modification time, new content
Touch(f, v)  == /\ \E x \in disk : x.f = f /\ x.v # v
                /\ disk' = {x \in disk : x.f # f} \cup {[f |-> f, v |-> v, c |-> v]} /\ DiskStep
\* the content changes, the modification time is put back
Rewrite(f, c) == /\ \E x \in disk : x.f = f /\ x.c # c
                 /\ disk' = {IF x.f = f THEN [x EXCEPT !.c = c] ELSE x : x \in disk} /\ DiskStep

Next ==
  \/ Start
  \/ Stop \/ Crash \/ Write
  \/ ScanBegin \/ ScanFilesDone \/ ScanAttrsDone
  \/ \E d \in Dirs, sh \in Shares : Add(d, sh)
  \/ \E d \in Dirs : Remove(d)
  \/ \E d \in Dirs, sh \in Shares : Update(d, sh)
  \/ Reload([d \in DOMAIN conf |-> life], FALSE)
  \/ \E d \in Dirs, sh \in Shares : ConfAdd(d, sh)
  \/ \E d \in Dirs : ConfRemove(d)
  \/ \E d \in Dirs, sh \in Shares : ConfUpdate(d, sh)
  \/ \E b \in BOOLEAN : ConfSos(b)
  \/ \E f \in Files, v \in 1..MaxVer : Create(f, v)
  \/ \E f \in Files : Delete(f)
  \/ \E f \in Files, v \in 1..MaxVer : Touch(f, v)
  \/ \E f \in Files, c \in 1..MaxVer : Rewrite(f, c)

Spec == Init /\ [][Next]_vars
FairSpec == Spec /\ WF_vars(ScanFilesDone) /\ WF_vars(ScanAttrsDone)

----------------------------------------------------------------------------
(* Observables derived from the state                                      *)

Matches(k, q) == q.inc \subseteq Words(k) /\ q.exc \cap Words(k) = {}
Answerable(q) == q.inc # {}
\* manager.py:665-777  query(): term map prefilter, then the matchers
CodeAnswer(q) == IF Answerable(q) THEN {k \in tm : Matches(k, q)} ELSE {}
RefAnswer(its, q) == IF Answerable(q) THEN {k \in Keys(its) : Matches(k, q)} ELSE {}
\* manager.py:944-974  for user "u1", who is nobody's friend; sf: directory -> [sh, al]
LockedDir(sf, d) == d \notin DOMAIN sf \/ sf[d].sh.m = "friends"
                    \/ (sf[d].sh.m = "users" /\ \A n \in 1..Len(sf[d].sh.u) : sf[d].sh.u[n] # "u1")
LockedKeys(sf, its) == {Key(i) : i \in {j \in its : LockedDir(sf, j.d)}}
\* manager.py:779-792  get_stats(): folders that hold a file, files
StatsOf(its) == <<Cardinality({Folder(F(i)) : i \in its}), Cardinality(its)>>

----------------------------------------------------------------------------
(* Properties                                                              *)

TypeOK ==
  /\ up \in BOOLEAN /\ scan \in {"idle", "files", "attrs"} /\ (~up => scan = "idle" /\ S = {} /\ items = {})
  /\ auto \in BOOLEAN /\ (scan = "idle" => ~auto)
  /\ \A x \in disk, y \in disk : x.f = y.f => x = y
  /\ \A i \in items : i.d \in S

\* every item is held by a shared directory that contains its file, the innermost one
PlacedInnermost == \A i \in items : IsUnder(F(i), i.d) /\ i.d = Holder(F(i), S)

\* the term map answers for the index, nothing else (USAGE.rst: shared items are read from the
\* cache "based on what you configured"; a query after a restart is answered as before it)
TermMapExact == up => tm = Keys(items)
QueriesExact == up => \A q \in Queries : CodeAnswer(q) = RefAnswer(items, q)

\* What a start must produce from the written cache w and the settings cf:
\*  - the shared directories are exactly the configured ones (removed ones are gone, added ones
\*    appear), with the share mode and users of the SETTINGS;
\*  - a directory that was written keeps its alias (remote paths handed out stay valid);
\*  - every item written for a directory that is still configured is there, unchanged (owner, path,
\*    modification time, attributes), in that directory - or in the innermost NEWLY configured
\*    directory below it that contains the file (the documented moving rule);
\*  - nothing else, except that items of directories that are no longer configured may have been
\*    handed to a configured directory that contains them;
\*  so a newly configured directory that is not below a written one is empty until scanned.
RefHolder(j, N) == Deepest({j.d} \cup {n \in N : IsUnder(n, j.d) /\ IsUnder(F(j), n)})
LoadOK(w, cf, sh2, its2) ==
  LET C == DOMAIN cf
      N == C \ DOMAIN w.dirs
      kept == {[j EXCEPT !.d = RefHolder(j, N)] : j \in {x \in w.items : x.d \in C}}
  IN /\ DOMAIN sh2 = C
     /\ \A d \in C : sh2[d].sh = cf[d]
     /\ \A d \in C \cap DOMAIN w.dirs : sh2[d].al = w.dirs[d].al
     /\ kept \subseteq its2
     /\ \A i \in its2 \ kept :
          \E j \in w.items : j.d \notin C /\ Key(i) = Key(j) /\ i.a = j.a /\ i.d \in C /\ IsUnder(F(i), i.d)

LoadedEqualsWrittenA == (~up /\ up') => LoadOK(cache, conf, shared', items')
LoadedEqualsWritten == [][LoadedEqualsWrittenA]_vars

\* the same at run time for load_from_settings
ReloadOK == [][(\E h \in BOOLEAN : Reload([d \in DOMAIN conf |-> life], h))
                 => LoadOK([dirs |-> shared, items |-> items], conf, shared', items')]_vars

\* what the cache holds is the index at the last write_cache() / stop(); a crash changes nothing
CacheIsLastWriteA == cache' # cache => (up /\ cache' = Snapshot)
CacheIsLastWrite == [][CacheIsLastWriteA]_vars

\* stop() leaves nothing of the client running (client.py stop(): "Cancel all pending tasks and
\* waiting for them to complete")
StopEndsScan == ~zombie

\* scan_on_start: start schedules a scan exactly when the setting says so (SETTINGS.rst) ...
ScanOnStartA == (~up /\ up') => ((scan' # "idle") <=> sos)
ScanOnStart == [][ScanOnStartA]_vars
\* ... and, left alone, a scan completes (FairSpec)
ScanCompletes == (scan # "idle") ~> (scan = "idle")

\* a rescan extracts attributes only for files that are new or modified (USAGE.rst: "Attributes
\* will be scanned for the newly found files and files that have been modified"):
\* (a) an item whose file is still there with the same modification time, in the same shared
\*     directory, survives the file phase with its attributes;
Unchanged(i) == i.own = i.d /\ i.d = Holder(F(i), S) /\ \E x \in disk : x.f = F(i) /\ x.v = i.v
KeepsUnchangedA == (scan = "files" /\ scan' = "attrs") => \A i \in items : Unchanged(i) => i \in items'
KeepsUnchanged == [][KeepsUnchangedA]_vars
\* (b) the attribute phase reads exactly the files of the items that have no attributes, leaves
\*     the others alone, and leaves no item without attributes
ReadsOnlyMissingA ==
  (scan = "attrs" /\ scan' = "idle" /\ up')
    => /\ reads' = Unread(items)
       /\ \A i \in items : i.a # 0 => i \in items'
       /\ \A i \in items' : i.a # 0
ReadsOnlyMissing == [][ReadsOnlyMissingA]_vars

\* when a scan completes the index is the disk below the shared directories: every file once,
\* in and owned by the innermost shared directory, with attributes
IndexIsDisk(its, SS, dsk) ==
  /\ {[f |-> F(i), v |-> i.v] : i \in its} = {[f |-> x.f, v |-> x.v] : x \in {y \in dsk : Holders(y.f, SS) # {}}}
  /\ \A i \in its, j \in its : F(i) = F(j) => i = j
  /\ \A i \in its : i.own = i.d /\ i.d = Holder(F(i), SS) /\ i.a # 0
FreshIndexIsDiskA == (scan = "attrs" /\ scan' = "idle" /\ up') => IndexIsDisk(items', DOMAIN shared', disk')
FreshIndexIsDisk == [][FreshIndexIsDiskA]_vars

\* What may be seen between the two phases of a scan (the documentation says nothing about the
\* order in which a scan in flight works; the trace spec accepts any state like this): every item
\* is one that was there before or one that is on disk now
MidScanOK(before, its, SS, dsk) ==
  \A i \in its : i \in before \/ \E y \in Found(SS, dsk) : i.d = y.d /\ Key(i) = Key(y) /\ i.a \in {0, AttrOf(F(i), dsk)}
FilesPhaseIsMidScan == [][(scan = "files" /\ scan' = "attrs") => MidScanOK(items, items', S, disk)]_vars

----------------------------------------------------------------------------
(* Constants of the model-checking configurations                          *)
cP == <<"rock">>
cC == <<"live", "set">>
cQ == <<"jazz">>
dP  == <<cP>>
dPC == <<cP, cC>>
dQ  == <<cQ>>
fX == <<cP, <<"song", "wav">>>>
fY == <<cP, cC, <<"tune", "wav">>>>
fZ == <<cQ, <<"song", "two", "wav">>>>
shE == [m |-> "everyone", u |-> <<>>]
shU == [m |-> "users", u |-> <<"u1">>]
shF == [m |-> "friends", u |-> <<>>]

MC_Dirs1 == {dP}
MC_Dirs2 == {dP, dPC}
MC_Dirs3 == {dP, dPC, dQ}
MC_Files1 == {fX}
MC_Files2 == {fX, fY}
MC_Files3 == {fX, fY, fZ}
MC_Shares1 == {shE}
MC_Shares2 == {shE, shU}
MC_Shares3 == {shE, shU, shF}
MC_Disk1 == {[f |-> fX, v |-> 1, c |-> 1]}
MC_Disk2 == MC_Disk1 \cup {[f |-> fY, v |-> 1, c |-> 1]}
MC_Disk3 == MC_Disk2 \cup {[f |-> fZ, v |-> 1, c |-> 1]}
MC_ConfsA == {(dP :> shE)}
MC_ConfsB == {(dP :> shE), EmptyFn, (dP :> shU) @@ (dPC :> shE), (dPC :> shE)}
MC_ConfsC == {(dP :> shE) @@ (dQ :> shU), (dPC :> shF), EmptyFn}
Q(i, e) == [inc |-> i, exc |-> e]
MC_Queries == {Q({"song"}, {}), Q({"wav"}, {"tune"}), Q({"live", "tune"}, {}), Q({"set"}, {}), Q({}, {"song"}), Q({"rock"}, {})}
=============================================================================

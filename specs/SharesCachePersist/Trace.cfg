SPECIFICATION TSpec
CONSTANTS
  Dirs = {}
  Files = {}
  Shares = {}
  InitConfs = {}
  InitDisk = {}
  Queries = {}
  MaxVer = 1000
  MaxLives = 100000
  MaxDisk = 100000
  MaxConf = 100000
  MaxRun = 100000
  ReadReowns = FALSE
  StopCancelsScan = TRUE
CONSTRAINT DirsAsSpecified
CONSTRAINT IndexAsSpecified
CONSTRAINT PlacedInnermost
CONSTRAINT StatsEqualIndexT
CONSTRAINT ReportsEqualIndexT
CONSTRAINT QueriesExactT
CONSTRAINT ReadbackIsWrittenT
CONSTRAINT StopEndsScanT
ACTION_CONSTRAINT LoadedEqualsWrittenT
ACTION_CONSTRAINT ReloadOKT
ACTION_CONSTRAINT CacheIsLastWriteA
ACTION_CONSTRAINT ScanOnStartA
ACTION_CONSTRAINT KeepsUnchangedA
ACTION_CONSTRAINT MidScanAsAllowedT
ACTION_CONSTRAINT ReadsOnlyMissingT
ACTION_CONSTRAINT FreshIndexIsDiskA
CHECK_DEADLOCK FALSE

SPECIFICATION FairSpec
CONSTANTS
  Dirs <- MC_Dirs1
  Files <- MC_Files1
  Shares <- MC_Shares1
  InitConfs <- MC_ConfsA
  InitDisk <- MC_Disk1
  Queries <- MC_Queries
  MaxVer = 2
  MaxLives = 2
  MaxDisk = 1
  MaxConf = 1
  MaxRun = 0
  ReadReowns = FALSE
  StopCancelsScan = TRUE
PROPERTY ScanCompletes
CHECK_DEADLOCK FALSE

---------------------- MODULE SharesCachePersistTrace ----------------------
(***************************************************************************)
(* Trace validation for X04: histories executed on a real SoulSeekClient   *)
(* (its SharesManager + SharesShelveCache over a temporary data directory, *)
(* real files in a temporary tree; a restart is a fresh client, in the     *)
(* thorough tier a fresh Python process) are checked against               *)
(* SharesCachePersist.  Written by harness/props/x04.py.                   *)
(*                                                                         *)
(* A path is the list of its components below the temporary base, a        *)
(* component the list of its words (the harness generated every name from  *)
(* its words; a name it does not know is the component ["?", name]).       *)
(*                                                                         *)
(* Records:                                                                *)
(*   init        disk [[f, v, c]], conf [[d, sh]], sos         (first one) *)
(*   create / touch (f, v)   delete (f)   rewrite (f, c)                   *)
(*   conf_add (d, sh)  conf_remove (d)  conf_update (d, sh)  conf_sos (b)  *)
(*   start (scan: "none" | "flight")    stop (rb, zombie)    crash         *)
(*   add (d, sh)  remove (d)  update (d, sh)  reload  write (rb)           *)
(*   scan_begin   scan_files   scan_end (reads)                            *)
(* exc is "none" or the name of the exception the call raised (an          *)
(* exception is an observation: no action matches it).  Records of a live  *)
(* client carry obs, taken right after the call and the loop settled:      *)
(*   obs.dirs    [d, sh [m, u], al] for every shared directory             *)
(*   obs.items   [d, own, sub, v, a] for every item of every directory     *)
(*   obs.stats   get_stats() as [folders, files]                           *)
(*   obs.told    counts of every ScanCompleteEvent / SharedFoldersFiles    *)
(*               report to the server during the call                      *)
(*   obs.queries [inc, exc, vis, lck]: words of the query, and the keys    *)
(*               [own, sub, v] of the visible / locked items query()       *)
(*               returned for user "u1"                                    *)
(* rb = what a fresh SharesShelveCache over the data directory reads back: *)
(*   rb.dirs [d, sh, al], rb.items [d, sub, v, a].                         *)
(* zombie = number of tasks of the library still pending after stop().     *)
(*                                                                         *)
(* The model follows the calls with the actions of SharesCachePersist      *)
(* (arguments and aliases from the log); the properties, evaluated on the  *)
(* RECORDED observations, are the CONSTRAINT / ACTION_CONSTRAINT lines of  *)
(* Trace.cfg.  Two choices the documentation leaves open are accepted      *)
(* silently (items of a directory dropped by load_from_settings forgotten  *)
(* or handed over; any intermediate state of a scan in flight).  One       *)
(* behaviour that contradicts the documented round trip is tolerated and   *)
(* MARKED (the harness prints it as an observation): SharesShelveCache.read *)
(* makes the holding directory the owner of every item it reads, which     *)
(* breaks the path of items that were moved by add / remove of a nested    *)
(* directory and not rescanned.  The mark is taken only when no unmarked   *)
(* reading explains the observation, and LoadedEqualsWritten then judges   *)
(* the load against the re-owned cache, i.e. every other difference is     *)
(* still a rejection.  A second one: stop() does not cancel the scan() task *)
(* that start() created for scan_on_start (mark "scan-survives-stop",      *)
(* taken only when a scan was in flight at the stop).                      *)
(***************************************************************************)
EXTENDS SharesCachePersist, Json, IOUtils

Traces == JsonDeserialize(IOEnv.TRACE_FILE)

VARIABLES tid, l, marks, dev, pre
tvars == <<vars, tid, l, marks, dev, pre>>

T == Traces[tid]
Rec == T[l]
ToSet(s) == {s[k] : k \in 1..Len(s)}

FnOf(seq) == [d \in {seq[k].d : k \in 1..Len(seq)} |->
                LET r == seq[CHOOSE k \in 1..Len(seq) : seq[k].d = d] IN [sh |-> r.sh, al |-> r.al]]
ObsDirs(o) == FnOf(o.dirs)
ObsItems(o) == ToSet(o.items)
ConfOf(seq) == [d \in {seq[k].d : k \in 1..Len(seq)} |-> seq[CHOOSE k \in 1..Len(seq) : seq[k].d = d].sh]
AlOf(o) == [d \in DOMAIN conf |-> IF d \in DOMAIN ObsDirs(o) THEN ObsDirs(o)[d].al ELSE "?"]
Mark == "read-reowns-moved-items"
ZMark == "scan-survives-stop"

TInit ==
  /\ tid \in 1..Len(Traces)
  /\ l = 2
  /\ Len(Traces[tid]) >= 1 /\ Traces[tid][1].ev = "init"
  /\ disk = ToSet(Traces[tid][1].disk)
  /\ conf = ConfOf(Traces[tid][1].conf) /\ sos = Traces[tid][1].sos
  /\ up = FALSE /\ shared = EmptyFn /\ items = {} /\ tm = {}
  /\ cache = EmptyCache
  /\ scan = "idle" /\ auto = FALSE /\ reads = {} /\ zombie = FALSE
  /\ life = 0 /\ nDisk = 0 /\ nConf = 0 /\ nRun = 0
  /\ marks = {} /\ dev = {} /\ pre = {}

IsEv(e) == l <= Len(T) /\ Rec.ev = e
Consume == l' = l + 1 /\ UNCHANGED tid
Plain == dev' = {} /\ UNCHANGED <<marks, pre>>
NoExc == Rec.exc = "none"
Nothing == UNCHANGED vars

TCreate  == IsEv("create")  /\ Create(Rec.f, Rec.v)  /\ Plain /\ Consume
TDelete  == IsEv("delete")  /\ Delete(Rec.f)         /\ Plain /\ Consume
TTouch   == IsEv("touch")   /\ Touch(Rec.f, Rec.v)   /\ Plain /\ Consume
TRewrite == IsEv("rewrite") /\ Rewrite(Rec.f, Rec.c) /\ Plain /\ Consume

TConfAdd    == IsEv("conf_add")    /\ ConfAdd(Rec.d, Rec.sh)    /\ Plain /\ Consume
TConfRemove == IsEv("conf_remove") /\ ConfRemove(Rec.d)         /\ Plain /\ Consume
TConfUpdate == IsEv("conf_update") /\ ConfUpdate(Rec.d, Rec.sh) /\ Plain /\ Consume
TConfSos    == IsEv("conf_sos")    /\ ConfSos(Rec.b)            /\ Plain /\ Consume

\* the readings of a load: <<reown, handover>>
Clean == {<<FALSE, FALSE>>, <<FALSE, TRUE>>}
Explains(r, o) == r.dirs = ObsDirs(o) /\ r.items = ObsItems(o)
StartResult(x, o) == Loaded(cache.dirs, ReadItems(cache, x[1]), AlOf(o), x[2])
TStart ==
  /\ IsEv("start") /\ NoExc
  /\ \E x \in BOOLEAN \X BOOLEAN :
       /\ \/ x \in Clean /\ Explains(StartResult(x, Rec.obs), Rec.obs)
          \/ /\ x \notin Clean
             /\ \A y \in Clean : ~Explains(StartResult(y, Rec.obs), Rec.obs)
             /\ Explains(StartResult(x, Rec.obs), Rec.obs)
          \/ /\ x = <<FALSE, FALSE>>            \* nothing explains it: IndexAsSpecified will say so
             /\ \A y \in BOOLEAN \X BOOLEAN : ~Explains(StartResult(y, Rec.obs), Rec.obs)
       /\ StartWith(AlOf(Rec.obs), IF Rec.scan = "flight" THEN "files" ELSE "idle", x[1], x[2])
       /\ dev' = IF x[1] THEN {Mark} ELSE {}
  /\ marks' = marks \cup dev' /\ pre' = items'
  /\ Consume

TStop ==
  /\ IsEv("stop") /\ NoExc
  /\ dev' = IF Rec.zombie > 0 /\ scan # "idle" /\ auto THEN {ZMark} ELSE {}
  /\ StopWith(Rec.zombie > 0)
  /\ marks' = marks \cup dev' /\ UNCHANGED pre /\ Consume
TCrash == IsEv("crash") /\ Crash /\ Plain /\ Consume
TWrite == IsEv("write") /\ NoExc /\ (Write \/ (up /\ cache = Snapshot /\ Nothing)) /\ Plain /\ Consume

TAdd    == IsEv("add")    /\ NoExc /\ Rec.d \in DOMAIN ObsDirs(Rec.obs)
           /\ AddAs(Rec.d, Rec.sh, ObsDirs(Rec.obs)[Rec.d].al) /\ Plain /\ Consume
TRemove == IsEv("remove") /\ NoExc /\ Remove(Rec.d) /\ Plain /\ Consume
TUpdate == IsEv("update") /\ NoExc
           /\ (Update(Rec.d, Rec.sh) \/ (Idle /\ Rec.d \in S /\ shared[Rec.d].sh = Rec.sh /\ Nothing))
           /\ Plain /\ Consume
ReloadResult(h, o) == Loaded(shared, items, AlOf(o), h)
TReload ==
  /\ IsEv("reload") /\ NoExc
  /\ \/ \E h \in BOOLEAN :
          /\ \/ Explains(ReloadResult(h, Rec.obs), Rec.obs)
             \/ h = FALSE /\ \A g \in BOOLEAN : ~Explains(ReloadResult(g, Rec.obs), Rec.obs)
          /\ Reload(AlOf(Rec.obs), h)
     \/ Idle /\ ReloadResult(FALSE, Rec.obs).dirs = shared /\ Nothing
  /\ Plain /\ Consume

TScanBegin == IsEv("scan_begin") /\ NoExc /\ ScanBegin /\ dev' = {} /\ pre' = items /\ UNCHANGED marks /\ Consume
\* between the phases: whatever the log shows (MidScanAsAllowed judges it)
TScanFiles ==
  /\ IsEv("scan_files") /\ up /\ scan = "files"
  /\ items' = ObsItems(Rec.obs) /\ tm' = Keys(items')
  /\ scan' = "attrs" /\ reads' = {} /\ Budgets
  /\ UNCHANGED <<disk, conf, sos, up, shared, cache, auto>>
  /\ Plain /\ Consume
\* the scan is complete: the result of both phases on the index the scan started from
TScanEnd ==
  /\ IsEv("scan_end") /\ NoExc /\ up /\ scan = "attrs"
  /\ items' = AttrsPhase(FilesPhase(pre, S, disk), disk) /\ tm' = Keys(items')
  /\ reads' = ToSet(Rec.reads)
  /\ scan' = "idle" /\ auto' = FALSE /\ Budgets
  /\ UNCHANGED <<disk, conf, sos, up, shared, cache>>
  /\ Plain /\ Consume

Done == l = Len(T) + 1 /\ PrintT(<<"ACCEPT", tid, marks>>) /\ l' = l + 1 /\ UNCHANGED <<vars, tid, marks, dev, pre>>
Finished == l = Len(T) + 2 /\ UNCHANGED tvars

TNext ==
  \/ TCreate \/ TDelete \/ TTouch \/ TRewrite
  \/ TConfAdd \/ TConfRemove \/ TConfUpdate \/ TConfSos
  \/ TStart \/ TStop \/ TCrash \/ TWrite
  \/ TAdd \/ TRemove \/ TUpdate \/ TReload
  \/ TScanBegin \/ TScanFiles \/ TScanEnd
  \/ Done \/ Finished
TSpec == TInit /\ [][TNext]_tvars

----------------------------------------------------------------------------
(* The properties on the recorded observations.  Prev is the record just   *)
(* consumed.                                                               *)
HasPrev == l >= 3 /\ l <= Len(T) + 1
Prev == T[l - 1]
WithObs == {"start", "write", "add", "remove", "update", "reload", "scan_begin", "scan_files", "scan_end"}
HasObs == HasPrev /\ Prev.ev \in WithObs
O == Prev.obs

\* the shared directories / the index a user sees are the ones the documentation specifies for the
\* history so far
DirsAsSpecified ==
  HasObs => /\ Len(O.dirs) = Cardinality(DOMAIN ObsDirs(O))
            /\ ObsDirs(O) = shared
IndexAsSpecified == HasObs => ObsItems(O) = items
\* get_stats() is the index
StatsEqualIndexT == HasObs => O.stats = StatsOf(ObsItems(O))
\* every count announced (ScanCompleteEvent, report to the server) is the index
ReportsEqualIndexT == HasObs => \A k \in 1..Len(O.told) : O.told[k] = StatsOf(ObsItems(O))
\* query() answers for the index, split by the share mode and users of the holding directory
QueriesExactT ==
  HasObs => \A k \in 1..Len(O.queries) :
     LET q == O.queries[k]
         qq == [inc |-> ToSet(q.inc), exc |-> ToSet(q.exc)]
         ref == RefAnswer(ObsItems(O), qq)
         lk == LockedKeys(ObsDirs(O), ObsItems(O))
     IN /\ ToSet(q.vis) = ref \ lk /\ ToSet(q.lck) = ref \cap lk
        /\ Len(q.vis) = Cardinality(ToSet(q.vis)) /\ Len(q.lck) = Cardinality(ToSet(q.lck))
\* a fresh cache object reads back what the model says was written
ReadbackIsWrittenT ==
  (HasPrev /\ Prev.ev \in {"write", "stop"}) =>
     /\ FnOf(Prev.rb.dirs) = cache.dirs
     /\ ToSet(Prev.rb.items) = {[d |-> i.d, sub |-> i.sub, v |-> i.v, a |-> i.a] : i \in cache.items}

\* LoadedEqualsWritten, with the marked deviation's contribution excluded and nothing else
LoadedEqualsWrittenT ==
  (~up /\ up') => LoadOK(IF Mark \in dev' THEN [cache EXCEPT !.items = ReadItems(cache, TRUE)] ELSE cache,
                         conf, shared', items')
ReloadOKT == (IsEv("reload") /\ l' = l + 1) => LoadOK([dirs |-> shared, items |-> items], conf, shared', items')
MidScanAsAllowedT == (scan = "files" /\ scan' = "attrs") => MidScanOK(items, items', S, disk)
\* the whole scan read the attributes of exactly the files that are new or modified (or never had
\* any), left the attributes of the others alone and left no item without
ReadsOnlyMissingT ==
  (scan = "attrs" /\ scan' = "idle" /\ up')
    => /\ reads' = Unread(FilesPhase(pre, S, disk))
       /\ \A i \in pre : (Unchanged(i) /\ i.a # 0) => i \in items'
       /\ \A i \in items' : i.a # 0

\* stop() leaves nothing running - except, marked, the scan that start() scheduled
StopEndsScanT == zombie => ZMark \in marks

----------------------------------------------------------------------------
(* The same as temporal formulas, for TraceDiag.cfg                         *)
LoadedEqualsWrittenP == [][LoadedEqualsWrittenT]_tvars
ReloadOKP == [][ReloadOKT]_tvars
CacheIsLastWriteP == [][CacheIsLastWriteA]_tvars
ScanOnStartP == [][ScanOnStartA]_tvars
KeepsUnchangedP == [][KeepsUnchangedA]_tvars
MidScanAsAllowedP == [][MidScanAsAllowedT]_tvars
ReadsOnlyMissingP == [][ReadsOnlyMissingT]_tvars
FreshIndexIsDiskP == [][FreshIndexIsDiskA]_tvars
=============================================================================

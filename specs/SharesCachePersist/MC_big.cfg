SPECIFICATION Spec
CONSTANTS
  Dirs <- MC_Dirs3
  Files <- MC_Files3
  Shares <- MC_Shares2
  InitConfs <- MC_ConfsC
  InitDisk <- MC_Disk3
  Queries <- MC_Queries
  MaxVer = 2
  MaxLives = 2
  MaxDisk = 1
  MaxConf = 1
  MaxRun = 1
  ReadReowns = FALSE
  StopCancelsScan = TRUE
INVARIANT TypeOK
INVARIANT PlacedInnermost
INVARIANT TermMapExact
INVARIANT QueriesExact
INVARIANT StopEndsScan
PROPERTY FreshIndexIsDisk
PROPERTY LoadedEqualsWritten
PROPERTY ReloadOK
PROPERTY CacheIsLastWrite
PROPERTY ScanOnStart
PROPERTY KeepsUnchanged
PROPERTY ReadsOnlyMissing
PROPERTY FilesPhaseIsMidScan
VIEW View
CHECK_DEADLOCK FALSE

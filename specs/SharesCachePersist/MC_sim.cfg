SPECIFICATION Spec
CONSTANTS
  Dirs <- MC_Dirs3
  Files <- MC_Files3
  Shares <- MC_Shares3
  InitConfs <- MC_ConfsB
  InitDisk <- MC_Disk3
  Queries <- MC_Queries
  MaxVer = 3
  MaxLives = 4
  MaxDisk = 3
  MaxConf = 3
  MaxRun = 3
  ReadReowns = FALSE
  StopCancelsScan = TRUE
INVARIANT TypeOK
INVARIANT PlacedInnermost
INVARIANT TermMapExact
INVARIANT QueriesExact
INVARIANT StopEndsScan
PROPERTY FreshIndexIsDisk
PROPERTY LoadedEqualsWritten
PROPERTY ReloadOK
PROPERTY CacheIsLastWrite
PROPERTY ScanOnStart
PROPERTY KeepsUnchanged
PROPERTY ReadsOnlyMissing
PROPERTY FilesPhaseIsMidScan
CHECK_DEADLOCK FALSE

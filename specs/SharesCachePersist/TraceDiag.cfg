SPECIFICATION TSpec
CONSTANTS
  Dirs = {}
  Files = {}
  Shares = {}
  InitConfs = {}
  InitDisk = {}
  Queries = {}
  MaxVer = 1000
  MaxLives = 100000
  MaxDisk = 100000
  MaxConf = 100000
  MaxRun = 100000
  ReadReowns = FALSE
  StopCancelsScan = TRUE
INVARIANT DirsAsSpecified
INVARIANT IndexAsSpecified
INVARIANT PlacedInnermost
INVARIANT StatsEqualIndexT
INVARIANT ReportsEqualIndexT
INVARIANT QueriesExactT
INVARIANT ReadbackIsWrittenT
INVARIANT StopEndsScanT
PROPERTY LoadedEqualsWrittenP
PROPERTY ReloadOKP
PROPERTY CacheIsLastWriteP
PROPERTY ScanOnStartP
PROPERTY KeepsUnchangedP
PROPERTY MidScanAsAllowedP
PROPERTY ReadsOnlyMissingP
PROPERTY FreshIndexIsDiskP
CHECK_DEADLOCK TRUE

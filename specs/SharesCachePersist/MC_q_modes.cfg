SPECIFICATION Spec
CONSTANTS
  Dirs <- MC_Dirs1
  Files <- MC_Files1
  Shares <- MC_Shares3
  InitConfs <- MC_ConfsA
  InitDisk <- MC_Disk1
  Queries <- MC_Queries
  MaxVer = 2
  MaxLives = 2
  MaxDisk = 0
  MaxConf = 1
  MaxRun = 1
  ReadReowns = FALSE
  StopCancelsScan = TRUE
INVARIANT TypeOK
INVARIANT PlacedInnermost
INVARIANT TermMapExact
INVARIANT QueriesExact
INVARIANT StopEndsScan
PROPERTY FreshIndexIsDisk
PROPERTY LoadedEqualsWritten
PROPERTY ReloadOK
PROPERTY CacheIsLastWrite
PROPERTY ScanOnStart
PROPERTY KeepsUnchanged
PROPERTY ReadsOnlyMissing
PROPERTY FilesPhaseIsMidScan
VIEW View
CHECK_DEADLOCK FALSE

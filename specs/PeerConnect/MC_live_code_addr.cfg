SPECIFICATION LiveSpec
CONSTANTS
  Modes = {"fallback", "race"}
  GivenChoices = {TRUE, FALSE}
  SendFailChoices = {TRUE, FALSE}
  BadPortChoices = {FALSE}
  WithRequest = TRUE
  WithConnectBack = FALSE
  Cancellable = TRUE
  FineGrained = FALSE
  FixWaiters = TRUE
  FixDirect = TRUE
  FixCancel = TRUE
  AddrWaitBounded = FALSE
CHECK_DEADLOCK FALSE
PROPERTY Termination

SPECIFICATION Spec
CONSTANTS
  Modes = {"fallback", "race"}
  GivenChoices = {TRUE, FALSE}
  SendFailChoices = {TRUE, FALSE}
  BadPortChoices = {FALSE}
  WithRequest = TRUE
  WithConnectBack = FALSE
  Cancellable = TRUE
  FineGrained = FALSE
  FixWaiters = TRUE
  FixDirect = TRUE
  FixCancel = FALSE
  AddrWaitBounded = TRUE
INVARIANT NoOrphanTask
CHECK_DEADLOCK FALSE

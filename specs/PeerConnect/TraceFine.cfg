SPECIFICATION TSpec
CONSTANTS
  Modes = {"fallback", "race"}
  GivenChoices = {TRUE, FALSE}
  SendFailChoices = {TRUE, FALSE}
  BadPortChoices = {TRUE, FALSE}
  WithRequest = TRUE
  WithConnectBack = TRUE
  Cancellable = TRUE
  FineGrained = TRUE
  FixWaiters = TRUE
  FixDirect = TRUE
  FixCancel = TRUE
  AddrWaitBounded = TRUE
CONSTRAINT NoWaiterLeftObs
CONSTRAINT NoOrphanConnectionObs
CONSTRAINT NoOrphanTaskObs
CONSTRAINT NoWaiterLeftAtReturn
CONSTRAINT ConnectBackCleanObs
CHECK_DEADLOCK FALSE

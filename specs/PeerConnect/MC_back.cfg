SPECIFICATION LiveSpec
CONSTANTS
  Modes = {"race"}
  GivenChoices = {FALSE}
  SendFailChoices = {FALSE}
  BadPortChoices = {FALSE}
  WithRequest = FALSE
  WithConnectBack = TRUE
  Cancellable = FALSE
  FineGrained = FALSE
  FixWaiters = TRUE
  FixDirect = TRUE
  FixCancel = TRUE
  AddrWaitBounded = TRUE
INVARIANT TypeOK
INVARIANT ReturnsUsable
INVARIANT FailsOnlyIfNoPath
INVARIANT SucceedsIfPath
INVARIANT NoWaiterLeft
INVARIANT NoOrphanConnection
INVARIANT NoOrphanTask
INVARIANT ConnectBackAnswered
CHECK_DEADLOCK FALSE
PROPERTY BackTermination

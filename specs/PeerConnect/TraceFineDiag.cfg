SPECIFICATION TSpec
CONSTANTS
  Modes = {"fallback", "race"}
  GivenChoices = {TRUE, FALSE}
  SendFailChoices = {TRUE, FALSE}
  BadPortChoices = {TRUE, FALSE}
  WithRequest = TRUE
  WithConnectBack = TRUE
  Cancellable = TRUE
  FineGrained = TRUE
  FixWaiters = TRUE
  FixDirect = TRUE
  FixCancel = TRUE
  AddrWaitBounded = TRUE
INVARIANT NoWaiterLeftObs
INVARIANT NoOrphanConnectionObs
INVARIANT NoOrphanTaskObs
INVARIANT NoWaiterLeftAtReturn
INVARIANT ConnectBackCleanObs
CHECK_DEADLOCK TRUE

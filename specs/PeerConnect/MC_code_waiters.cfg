SPECIFICATION Spec
CONSTANTS
  Modes = {"fallback", "race"}
  GivenChoices = {TRUE, FALSE}
  SendFailChoices = {TRUE, FALSE}
  BadPortChoices = {FALSE}
  WithRequest = TRUE
  WithConnectBack = FALSE
  Cancellable = TRUE
  FineGrained = FALSE
  FixWaiters = FALSE
  FixDirect = TRUE
  FixCancel = TRUE
  AddrWaitBounded = TRUE
INVARIANT NoWaiterLeft
CHECK_DEADLOCK FALSE

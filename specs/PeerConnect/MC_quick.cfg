SPECIFICATION LiveSpec
CONSTANTS
  Modes = {"fallback", "race"}
  GivenChoices = {TRUE, FALSE}
  SendFailChoices = {TRUE, FALSE}
  BadPortChoices = {TRUE, FALSE}
  WithRequest = TRUE
  WithConnectBack = FALSE
  Cancellable = TRUE
  FineGrained = FALSE
  FixWaiters = TRUE
  FixDirect = TRUE
  FixCancel = TRUE
  AddrWaitBounded = TRUE
INVARIANT TypeOK
INVARIANT ReturnsUsable
INVARIANT FailsOnlyIfNoPath
INVARIANT SucceedsIfPath
INVARIANT NoWaiterLeft
INVARIANT NoOrphanConnection
INVARIANT NoOrphanTask
INVARIANT ConnectBackAnswered
CHECK_DEADLOCK FALSE
PROPERTY Termination

---------------------------- MODULE PeerConnect ----------------------------
(***************************************************************************)
(* C11 - connecting to a peer succeeds iff a path works, and leaves        *)
(* nothing behind.                                                         *)
(*                                                                         *)
(* Mirrors src/aioslsk/network/network.py                                  *)
(*   create_peer_connection / _create_peer_connection_fallback / _race     *)
(*   (522-623), _get_peer_address (625-647), _make_direct_connection       *)
(*   (806-848), _make_indirect_connection (850-903), on_peer_accepted      *)
(*   (1079-1146, the PeerPierceFirewall branch), _handle_connect_to_peer   *)
(*   (905-945) and DataConnection.connect/disconnect (connection.py        *)
(*   219-281).                                                             *)
(*                                                                         *)
(* One request.  Processes: O = the coroutine create_peer_connection,      *)
(* D = the direct attempt, I = the indirect attempt (tasks in race mode,   *)
(* phases of O in fallback mode), P = the accept task of an incoming       *)
(* connection that presents PeerPierceFirewall, B = the task that handles  *)
(* a ConnectToPeer request of another peer (the inbound mirror).           *)
(* An action is either an ENVIRONMENT stimulus (server reply, connect      *)
(* outcome, peer pierces, a timer expires, the caller cancels) or ONE STEP *)
(* of a process from one suspending await to the next.  A pc is "blocked"  *)
(* (only the environment can move it) or "ready" (its next step is in the  *)
(* loop's ready queue).  Quiescent = nothing is ready.                     *)
(*                                                                         *)
(* Fix* constants: TRUE = repaired design, FALSE = the code as found.      *)
(*                                                                         *)
(* Ways the direct attempt (and the connect-back) can fail to connect:     *)
(* refused, 10 s timeout, and "invalid": the port the peer is known under  *)
(* is not a TCP port (ports are uint32 on the wire), so the connect call   *)
(* itself raises something that is not an OSError.  All of them are "the   *)
(* direct path does not work": the property promises the indirect attempt  *)
(* resp. a PeerConnectionError resp. a CannotConnect report, whatever the  *)
(* exception class underneath.                                             *)
(***************************************************************************)
EXTENDS Naturals, FiniteSets, TLC

CONSTANTS
  Modes,         \* subset of {"fallback", "race"}
  GivenChoices,  \* subset of BOOLEAN: TRUE = the caller passes ip/port (no GetPeerAddress)
  BadPortChoices, \* subset of BOOLEAN: TRUE = the port the peer is known under (GetPeerAddress reply, caller's
                 \* argument) is not a TCP port - ports are uint32 on the wire, > 65535 is legal input - so the
                 \* connect call itself raises (OverflowError, not an OSError) instead of being refused
  SendFailChoices, \* subset of BOOLEAN: TRUE = writing ConnectToPeer to the server fails
  WithRequest,   \* the outgoing request is part of the model
  WithConnectBack, \* the inbound mirror is part of the model
  Cancellable,   \* the caller may cancel the request
  FineGrained,   \* TRUE: stimuli may arrive between two steps; FALSE: only at quiescence
  FixWaiters,    \* indirect attempt unregisters its waiters (and closes an accepted, unreturned
                 \* connection) on every way out                              [defect 1]
  FixDirect,     \* direct attempt closes its connection when it does not complete   [defect 2]
  FixCancel,     \* race: cancelling the request cancels and awaits both attempts            [defect 3]
  AddrWaitBounded \* the wait for the GetPeerAddress reply ends when the server connection is lost

Conns == {"d", "p", "b"}      \* direct, pierce (incoming, for our ticket), connect-back

VARIABLES
  mode, given, sendFail, badPort, \* the scenario (fixed)
  pcO, pcD, pcI, pcP, pcB,      \* program counters
  cst,                          \* connection state: none UNINIT CONNECTING CONNECTED ESTAB CLOSING CLOSED
  creg,                         \* in Network.peer_connections
  clink,                        \* transport: none open closed
  tw, rw, aw,                   \* ticket waiter / CannotConnect waiter / GetPeerAddress waiter registered
  addrKind, connV, initMode,    \* D: what the environment chose
  dAfter, dCause,               \* D: where it ends after closing; why it failed
  iRes, iAfter, iCause,         \* I: why it woke; where it ends after closing; why it failed
  bV, bSend,                    \* B: connect verdict, pierce send mode
  consumed, got, winner, discC, \* O (race): children already seen by asyncio.wait, connections won, returned one
  srvSaw, peerSaw,              \* frames seen by the server {"GPA","CTP","CC"} and by peers {"init","bpierce"}
  srvDead,                      \* the server connection was closed by a write error
  pierced, ccSent, addrSent, cancelReq   \* environment budgets (each happens at most once)

vars == <<mode, given, sendFail, badPort, pcO, pcD, pcI, pcP, pcB, cst, creg, clink, tw, rw, aw, addrKind, connV,
          initMode, dAfter, dCause, iRes, iAfter, iCause, bV, bSend, consumed, got, winner, discC,
          srvSaw, peerSaw, srvDead, pierced, ccSent, addrSent, cancelReq>>

scenarioVars == <<mode, given, sendFail, badPort>>
dVars == <<pcD, addrKind, connV, initMode, dAfter, dCause>>
iVars == <<pcI, iRes, iAfter, iCause>>
bVars == <<pcB, bV, bSend>>
oVars == <<pcO, consumed, got, winner, discC>>
connVars == <<cst, creg, clink>>
waitVars == <<tw, rw, aw>>
seenVars == <<srvSaw, peerSaw>>
envVars == <<pierced, ccSent, addrSent, cancelReq>>

DTerm == {"done", "failed", "cancelled"}
ITerm == {"done", "failed", "cancelled"}
OTerm == {"returned", "raised", "cancelled"}
BTerm == {"done", "failed"}

Init ==
  /\ mode \in Modes /\ given \in GivenChoices /\ sendFail \in SendFailChoices /\ badPort \in BadPortChoices
  /\ pcO = "idle" /\ pcD = "idle" /\ pcI = "idle" /\ pcP = "none" /\ pcB = "idle"
  /\ cst = [c \in Conns |-> "none"] /\ creg = [c \in Conns |-> FALSE] /\ clink = [c \in Conns |-> "none"]
  /\ tw = FALSE /\ rw = FALSE /\ aw = FALSE
  /\ addrKind = "none" /\ connV = "none" /\ initMode = "none" /\ dAfter = "none" /\ dCause = "none"
  /\ iRes = "none" /\ iAfter = "none" /\ iCause = "none"
  /\ bV = "none" /\ bSend = "none"
  /\ consumed = {} /\ got = {} /\ winner = "none" /\ discC = "none"
  /\ srvSaw = {} /\ peerSaw = {}
  /\ srvDead = FALSE
  /\ pierced = FALSE /\ ccSent = FALSE /\ addrSent = FALSE /\ cancelReq = FALSE

----------------------------------------------------------------------------
\* Readiness: which processes have a step in the ready queue.

DReady == pcD \in {"start", "askAddr", "gotAddr", "connRes", "initDrain", "dClosing"}
IReady == pcI \in {"start", "ctpDrain", "iWake", "iClosing"}
PReady == pcP \in {"accepted", "pClosing"}
BReady == pcB \in {"start", "connRes", "bDrain", "bClosing", "bReport"}

ChildrenDone == {x \in {"D", "I"} : (x = "D" /\ pcD \in DTerm) \/ (x = "I" /\ pcI \in ITerm)}
ChildrenOver == pcD \in DTerm \cup {"idle"} /\ pcI \in ITerm \cup {"idle"}

\* fallback: the outer coroutine continues in the same step in which the attempt ends
Glue == \/ pcO = "fbD" /\ pcD \in {"done", "failed"}
        \/ pcO = "fbI" /\ pcI \in {"done", "failed"}

OReady == \/ pcO = "start"
          \/ Glue
          \/ pcO = "fbCancel" /\ ChildrenOver
          \/ pcO = "raceWait" /\ ChildrenDone \ consumed # {}
          \/ pcO = "raceGather" /\ ChildrenOver
          \/ pcO = "raceDisc"
          \/ pcO = "cleanup" /\ ChildrenOver

Quiescent == ~(DReady \/ IReady \/ PReady \/ BReady \/ OReady)

\* when may the environment act
EnvOK == IF FineGrained THEN ~Glue ELSE Quiescent

----------------------------------------------------------------------------
\* Effect of CancelledError on the attempts, as functions of the current state.
\* Each returns a record of the values that change.

\* network.py:806-848 + connection.py:219-245.  CancelledError is not caught by
\* `except (Exception, asyncio.TimeoutError)` in connect(), nor by anything in
\* _make_direct_connection: as found, the registered connection object stays as it is.
CancelD ==
  CASE pcD \in {"start", "askAddr", "waitAddr", "gotAddr"} ->
         [pc |-> "cancelled", st |-> cst["d"], reg |-> creg["d"], link |-> clink["d"], after |-> dAfter, aw |-> FALSE]
    [] pcD \in {"connecting", "connRes"} ->
         IF FixDirect
           THEN [pc |-> "cancelled", st |-> "CLOSED", reg |-> FALSE, link |-> clink["d"], after |-> dAfter, aw |-> aw]
           ELSE [pc |-> "cancelled", st |-> cst["d"], reg |-> creg["d"], link |-> clink["d"], after |-> dAfter, aw |-> aw]
    [] pcD \in {"initDrain", "sendingInit"} ->
         IF FixDirect
           THEN [pc |-> "dClosing", st |-> "CLOSING", reg |-> TRUE, link |-> "closed", after |-> "cancelled", aw |-> aw]
           ELSE [pc |-> "cancelled", st |-> cst["d"], reg |-> creg["d"], link |-> clink["d"], after |-> dAfter, aw |-> aw]
    [] pcD = "dClosing" ->
         [pc |-> "dClosing", st |-> cst["d"], reg |-> creg["d"], link |-> clink["d"], after |-> "cancelled", aw |-> aw]
    [] OTHER ->
         [pc |-> pcD, st |-> cst["d"], reg |-> creg["d"], link |-> clink["d"], after |-> dAfter, aw |-> aw]

\* network.py:850-903.  asyncio.wait does not cancel the futures it waits for; as found nothing
\* unregisters them when the coroutine is left by an exception.
CancelI ==
  CASE pcI = "start" ->
         [pc |-> "cancelled", tw |-> tw, rw |-> rw, pst |-> cst["p"], plink |-> clink["p"], after |-> iAfter]
    [] pcI \in {"ctpDrain", "waiting"} ->
         [pc |-> "cancelled", tw |-> IF FixWaiters THEN FALSE ELSE tw, rw |-> IF FixWaiters THEN FALSE ELSE rw,
          pst |-> cst["p"], plink |-> clink["p"], after |-> iAfter]
    [] pcI = "iWake" ->
         IF FixWaiters
           THEN IF iRes = "pierce"      \* a connection was accepted for this ticket and is not going to be returned
                  THEN [pc |-> "iClosing", tw |-> FALSE, rw |-> FALSE, pst |-> "CLOSING", plink |-> "closed", after |-> "cancelled"]
                  ELSE [pc |-> "cancelled", tw |-> FALSE, rw |-> FALSE, pst |-> cst["p"], plink |-> clink["p"], after |-> iAfter]
           ELSE [pc |-> "cancelled", tw |-> tw, rw |-> rw, pst |-> cst["p"], plink |-> clink["p"], after |-> iAfter]
    [] pcI = "iClosing" ->
         [pc |-> "iClosing", tw |-> tw, rw |-> rw, pst |-> cst["p"], plink |-> clink["p"], after |-> "cancelled"]
    [] OTHER ->
         [pc |-> pcI, tw |-> tw, rw |-> rw, pst |-> cst["p"], plink |-> clink["p"], after |-> iAfter]

\* apply the cancellations selected by cd / ci to all shared variables
ApplyCancel(cd, ci) ==
  LET D == CancelD
      I == CancelI IN
  /\ pcD' = IF cd THEN D.pc ELSE pcD
  /\ dAfter' = IF cd THEN D.after ELSE dAfter
  /\ aw' = IF cd THEN D.aw ELSE aw
  /\ pcI' = IF ci THEN I.pc ELSE pcI
  /\ iAfter' = IF ci THEN I.after ELSE iAfter
  /\ tw' = IF ci THEN I.tw ELSE tw
  /\ rw' = IF ci THEN I.rw ELSE rw
  /\ cst' = [cst EXCEPT !["d"] = IF cd THEN D.st ELSE @, !["p"] = IF ci THEN I.pst ELSE @]
  /\ creg' = [creg EXCEPT !["d"] = IF cd THEN D.reg ELSE @]
  /\ clink' = [clink EXCEPT !["d"] = IF cd THEN D.link ELSE @, !["p"] = IF ci THEN I.plink ELSE @]

----------------------------------------------------------------------------
\* O - create_peer_connection

\* environment: the call
Request ==
  /\ WithRequest /\ EnvOK /\ pcO = "idle"
  /\ pcO' = "start"
  /\ UNCHANGED <<scenarioVars, dVars, iVars, pcP, bVars, connVars, waitVars, consumed, got, winner, discC,
                 seenVars, srvDead, envVars>>

\* network.py:546-552, 587-598: fallback enters the direct attempt; race creates the two tasks
OStart ==
  /\ pcO = "start"
  /\ pcD' = "start"
  /\ IF mode = "race" THEN pcI' = "start" /\ pcO' = "raceWait" ELSE pcI' = pcI /\ pcO' = "fbD"
  /\ UNCHANGED <<scenarioVars, addrKind, connV, initMode, dAfter, dCause, iRes, iAfter, iCause, pcP, bVars,
                 connVars, waitVars, consumed, got, winner, discC, seenVars, srvDead, envVars>>

\* network.py:560-581
OFbAfterD ==
  /\ pcO = "fbD" /\ pcD \in {"done", "failed"}
  /\ IF pcD = "done" THEN pcO' = "returned" /\ winner' = "d" /\ pcI' = pcI
                     ELSE pcO' = "fbI" /\ winner' = winner /\ pcI' = "start"
  /\ UNCHANGED <<scenarioVars, dVars, iRes, iAfter, iCause, pcP, bVars, connVars, waitVars, consumed, got, discC,
                 seenVars, srvDead, envVars>>

OFbAfterI ==
  /\ pcO = "fbI" /\ pcI \in {"done", "failed"}
  /\ IF pcI = "done" THEN pcO' = "returned" /\ winner' = "p" ELSE pcO' = "raised" /\ winner' = winner
  /\ UNCHANGED <<scenarioVars, dVars, iVars, pcP, bVars, connVars, waitVars, consumed, got, discC, seenVars,
                 srvDead, envVars>>

OFbCancelled ==
  /\ pcO = "fbCancel" /\ ChildrenOver
  /\ pcO' = "cancelled"
  /\ UNCHANGED <<scenarioVars, dVars, iVars, pcP, bVars, connVars, waitVars, consumed, got, winner, discC,
                 seenVars, srvDead, envVars>>

\* network.py:598-623: asyncio.wait returned; results of the finished tasks are collected; if one has a
\* connection the still pending ones are cancelled and gathered
ORaceWake ==
  /\ pcO = "raceWait" /\ ChildrenDone \ consumed # {}
  /\ LET newly == ChildrenDone \ consumed
         conns == {c \in {"d", "p"} : (c = "d" /\ "D" \in newly /\ pcD = "done") \/ (c = "p" /\ "I" \in newly /\ pcI = "done")}
         pending == {"D", "I"} \ ChildrenDone IN
       /\ consumed' = consumed \cup newly
       /\ IF conns # {}
            THEN /\ got' = conns /\ pcO' = "raceGather"
                 /\ ApplyCancel("D" \in pending, "I" \in pending)
            ELSE /\ got' = got
                 /\ pcO' = IF pending = {} THEN "raised" ELSE "raceWait"
                 /\ UNCHANGED <<pcD, dAfter, aw, pcI, iAfter, tw, rw, connVars>>
  /\ UNCHANGED <<scenarioVars, addrKind, connV, initMode, dCause, iRes, iCause, pcP, bVars, winner, discC,
                 seenVars, srvDead, envVars>>

\* network.py:615-620: the losers have ended; a second connection is closed, the first returned
ORaceGather ==
  /\ pcO = "raceGather" /\ ChildrenOver
  /\ \E w \in got :
       /\ winner' = w
       /\ IF got = {w}
            THEN pcO' = "returned" /\ discC' = discC /\ UNCHANGED connVars
            ELSE LET o == CHOOSE x \in got : x # w IN
                 /\ pcO' = "raceDisc" /\ discC' = o
                 /\ cst' = [cst EXCEPT ![o] = "CLOSING"]
                 /\ clink' = [clink EXCEPT ![o] = "closed"]
                 /\ creg' = creg
  /\ UNCHANGED <<scenarioVars, dVars, iVars, pcP, bVars, waitVars, consumed, got, seenVars, srvDead, envVars>>

ORaceDisc ==
  /\ pcO = "raceDisc"
  /\ cst' = [cst EXCEPT ![discC] = "CLOSED"]
  /\ creg' = [creg EXCEPT ![discC] = FALSE]
  /\ pcO' = "returned"
  /\ UNCHANGED <<scenarioVars, dVars, iVars, pcP, bVars, clink, waitVars, consumed, got, winner, discC, seenVars,
                 srvDead, envVars>>

\* repaired design only: after a cancellation both attempts have been cancelled and awaited.  A connection
\* that an attempt had already completed (initialised and announced with PeerInitializedEvent - its
\* listeners may already use it, e.g. DistributedNetwork makes it the parent) is NOT closed.
OCleanup ==
  /\ pcO = "cleanup" /\ ChildrenOver
  /\ pcO' = "cancelled"
  /\ UNCHANGED <<scenarioVars, dVars, iVars, pcP, bVars, connVars, waitVars, consumed, got, winner, discC, seenVars,
                 srvDead, envVars>>

\* environment: the caller cancels the task that runs create_peer_connection
CancelRequest ==
  /\ Cancellable /\ EnvOK /\ ~cancelReq
  /\ pcO \in {"start", "fbD", "fbI", "raceWait", "raceGather", "raceDisc"}
  /\ cancelReq' = TRUE
  /\ CASE pcO = "start" ->       \* a task cancelled before its first step never runs
            /\ pcO' = "cancelled"
            /\ UNCHANGED <<pcD, dAfter, aw, pcI, iAfter, tw, rw, connVars>>
       [] pcO = "fbD" -> pcO' = "fbCancel" /\ ApplyCancel(TRUE, FALSE)
       [] pcO = "fbI" -> pcO' = "fbCancel" /\ ApplyCancel(FALSE, TRUE)
       [] pcO = "raceWait" ->
            \* as found: CancelledError leaves asyncio.wait, which does not cancel the tasks it waits for
            IF FixCancel THEN pcO' = "cleanup" /\ ApplyCancel(TRUE, TRUE)
                         ELSE pcO' = "cancelled" /\ UNCHANGED <<pcD, dAfter, aw, pcI, iAfter, tw, rw, connVars>>
       [] pcO = "raceGather" ->
            \* gather cancels its (already cancelled) children and raises when they have ended
            /\ pcO' = IF FixCancel THEN "cleanup" ELSE "cancelled"
            /\ ApplyCancel(TRUE, TRUE)
       [] pcO = "raceDisc" ->
            \* CancelledError inside connections[1].disconnect(): its finally clause reports CLOSED
            /\ pcO' = IF FixCancel THEN "cleanup" ELSE "cancelled"
            /\ cst' = [cst EXCEPT ![discC] = "CLOSED"]
            /\ creg' = [creg EXCEPT ![discC] = FALSE]
            /\ UNCHANGED <<pcD, dAfter, aw, pcI, iAfter, tw, rw, clink>>
  /\ UNCHANGED <<scenarioVars, addrKind, connV, initMode, dCause, iRes, iCause, pcP, bVars, consumed, got, winner,
                 discC, seenVars, srvDead, pierced, ccSent, addrSent>>

----------------------------------------------------------------------------
\* D - _make_direct_connection

\* network.py:814-834 / 631: send GetPeerAddress (a closing server connection drops the message
\* silently), or go straight to the connection when the caller gave the address
DStart ==
  /\ pcD = "start"
  /\ IF given
       THEN /\ pcD' = IF badPort THEN "connRes" ELSE "connecting"
            /\ connV' = IF badPort THEN "invalid" ELSE connV
            /\ cst' = [cst EXCEPT !["d"] = "CONNECTING"] /\ creg' = [creg EXCEPT !["d"] = TRUE]
            /\ srvSaw' = srvSaw
       ELSE /\ pcD' = "askAddr" /\ connV' = connV
            /\ srvSaw' = IF srvDead THEN srvSaw ELSE srvSaw \cup {"GPA"}
            /\ UNCHANGED <<cst, creg>>
  /\ UNCHANGED <<scenarioVars, addrKind, initMode, dAfter, dCause, iVars, pcP, bVars, oVars, clink, waitVars,
                 peerSaw, srvDead, envVars>>

\* network.py:632-637: the response future is registered after the send
DAsk ==
  /\ pcD = "askAddr"
  /\ aw' = TRUE
  /\ pcD' = "waitAddr"
  /\ UNCHANGED <<scenarioVars, addrKind, connV, initMode, dAfter, dCause, iVars, pcP, bVars, oVars, connVars, tw, rw,
                 seenVars, srvDead, envVars>>

\* environment: the server answers GetPeerAddress (completes every matching waiter)
AddrReply(k) ==
  /\ EnvOK /\ "GPA" \in srvSaw /\ ~addrSent /\ ~srvDead /\ pcD # "askAddr"
  /\ addrSent' = TRUE
  /\ IF pcD = "waitAddr"
       THEN pcD' = "gotAddr" /\ addrKind' = k /\ aw' = FALSE
       ELSE UNCHANGED <<pcD, addrKind, aw>>
  /\ UNCHANGED <<scenarioVars, connV, initMode, dAfter, dCause, iVars, pcP, bVars, oVars, connVars, tw, rw, seenVars,
                 srvDead, pierced, ccSent, cancelReq>>

\* network.py:639-647, 817-834: bad reply -> PeerConnectionError; else the connection object is
\* registered and connect() reports CONNECTING and waits in open_connection
DGotAddr ==
  /\ pcD = "gotAddr"
  /\ IF addrKind = "ok"
       THEN \* with a port that is not a TCP port open_connection raises at once: no environment step
            /\ pcD' = IF badPort THEN "connRes" ELSE "connecting"
            /\ connV' = IF badPort THEN "invalid" ELSE connV
            /\ dCause' = dCause
            /\ cst' = [cst EXCEPT !["d"] = "CONNECTING"] /\ creg' = [creg EXCEPT !["d"] = TRUE]
       ELSE /\ pcD' = "failed" /\ dCause' = addrKind /\ connV' = connV
            /\ UNCHANGED <<cst, creg>>
  /\ UNCHANGED <<scenarioVars, addrKind, initMode, dAfter, iVars, pcP, bVars, oVars, clink, waitVars, seenVars,
                 srvDead, envVars>>

\* environment, repaired design only: the wait for an address that can no longer arrive (the server
\* connection is gone) ends with an error after a bounded time.  As found nothing ever ends it.
AddrWaitEnds ==
  /\ AddrWaitBounded /\ EnvOK /\ pcD = "waitAddr" /\ srvDead
  /\ pcD' = "failed" /\ dCause' = "noserver" /\ aw' = FALSE
  /\ UNCHANGED <<scenarioVars, addrKind, connV, initMode, dAfter, iVars, pcP, bVars, oVars, connVars, tw, rw, seenVars,
                 srvDead, envVars>>

\* environment: outcome of the TCP connect.  init says what happens to the PeerInit write:
\* ok, fail (write error), stall (no progress: the 10 s send timeout is running)
ConnOk(init) ==
  /\ EnvOK /\ pcD = "connecting"
  /\ pcD' = "connRes" /\ connV' = "ok" /\ initMode' = init
  /\ UNCHANGED <<scenarioVars, addrKind, dAfter, dCause, iVars, pcP, bVars, oVars, connVars, waitVars, seenVars,
                 srvDead, envVars>>

ConnRefused ==
  /\ EnvOK /\ pcD = "connecting"
  /\ pcD' = "connRes" /\ connV' = "refused" /\ initMode' = initMode
  /\ UNCHANGED <<scenarioVars, addrKind, dAfter, dCause, iVars, pcP, bVars, oVars, connVars, waitVars, seenVars,
                 srvDead, envVars>>

\* PEER_CONNECT_TIMEOUT (10 s) expires while open_connection hangs
ConnTimeout ==
  /\ EnvOK /\ pcD = "connecting"
  /\ pcD' = "connRes" /\ connV' = "timeout" /\ initMode' = initMode
  /\ UNCHANGED <<scenarioVars, addrKind, dAfter, dCause, iVars, pcP, bVars, oVars, connVars, waitVars, seenVars,
                 srvDead, envVars>>

\* connection.py:234-245 and network.py:835-841
DConnRes ==
  /\ pcD = "connRes"
  /\ IF connV = "ok"
       THEN CASE initMode = "ok" ->
                   /\ cst' = [cst EXCEPT !["d"] = "CONNECTED"] /\ clink' = [clink EXCEPT !["d"] = "open"]
                   /\ peerSaw' = peerSaw \cup {"init"} /\ pcD' = "initDrain"
                   /\ UNCHANGED <<creg, dAfter, dCause>>
              [] initMode = "stall" ->
                   /\ cst' = [cst EXCEPT !["d"] = "CONNECTED"] /\ clink' = [clink EXCEPT !["d"] = "open"]
                   /\ peerSaw' = peerSaw \cup {"init"} /\ pcD' = "sendingInit"
                   /\ UNCHANGED <<creg, dAfter, dCause>>
              [] OTHER ->      \* write error: disconnect(WRITE_ERROR), ConnectionWriteError
                   /\ cst' = [cst EXCEPT !["d"] = "CLOSING"] /\ clink' = [clink EXCEPT !["d"] = "closed"]
                   /\ pcD' = "dClosing" /\ dAfter' = "failed" /\ dCause' = "initfail"
                   /\ UNCHANGED <<creg, peerSaw>>
       ELSE \* refused / timed out / the connect call raised (invalid port): whatever the exception class,
            \* connect() reports ConnectionFailedError; disconnect(CONNECT_FAILED) without a writer does not suspend
            /\ cst' = [cst EXCEPT !["d"] = "CLOSED"] /\ creg' = [creg EXCEPT !["d"] = FALSE]
            /\ pcD' = "failed" /\ dCause' = connV
            /\ UNCHANGED <<clink, peerSaw, dAfter>>
  /\ UNCHANGED <<scenarioVars, addrKind, connV, initMode, iVars, pcP, bVars, oVars, waitVars, srvSaw, srvDead, envVars>>

\* environment: the stalled write makes progress / the 10 s send timeout expires
InitResume ==
  /\ EnvOK /\ pcD = "sendingInit"
  /\ pcD' = "initDrain"
  /\ UNCHANGED <<scenarioVars, addrKind, connV, initMode, dAfter, dCause, iVars, pcP, bVars, oVars, connVars, waitVars,
                 seenVars, srvDead, envVars>>

InitTimeout ==
  /\ EnvOK /\ pcD = "sendingInit"
  /\ cst' = [cst EXCEPT !["d"] = "CLOSING"] /\ clink' = [clink EXCEPT !["d"] = "closed"]
  /\ pcD' = "dClosing" /\ dAfter' = "failed" /\ dCause' = "inittimeout"
  /\ UNCHANGED <<scenarioVars, addrKind, connV, initMode, iVars, pcP, bVars, oVars, creg, waitVars, seenVars, srvDead,
                 envVars>>

\* network.py:843-848
DInitDrain ==
  /\ pcD = "initDrain"
  /\ cst' = [cst EXCEPT !["d"] = "ESTAB"]
  /\ pcD' = "done"
  /\ UNCHANGED <<scenarioVars, addrKind, connV, initMode, dAfter, dCause, iVars, pcP, bVars, oVars, creg, clink,
                 waitVars, seenVars, srvDead, envVars>>

\* connection.py:268-281: wait_closed returned, CLOSED is reported, the registry entry removed
DClosing ==
  /\ pcD = "dClosing"
  /\ cst' = [cst EXCEPT !["d"] = "CLOSED"] /\ creg' = [creg EXCEPT !["d"] = FALSE]
  /\ pcD' = dAfter
  /\ UNCHANGED <<scenarioVars, addrKind, connV, initMode, dAfter, dCause, iVars, pcP, bVars, oVars, clink, waitVars,
                 seenVars, srvDead, envVars>>

----------------------------------------------------------------------------
\* I - _make_indirect_connection

\* network.py:865-880: both waiters are registered, then ConnectToPeer is written
IStart ==
  /\ pcI = "start"
  /\ IF sendFail /\ ~srvDead
       THEN \* ConnectionWriteError; the server connection closes itself
            /\ srvDead' = TRUE /\ srvSaw' = srvSaw
            /\ pcI' = "failed" /\ iCause' = "sendfail"
            /\ tw' = ~FixWaiters /\ rw' = ~FixWaiters
       ELSE /\ srvDead' = srvDead
            /\ srvSaw' = IF srvDead THEN srvSaw ELSE srvSaw \cup {"CTP"}
            /\ pcI' = "ctpDrain" /\ iCause' = iCause
            /\ tw' = TRUE /\ rw' = TRUE
  /\ UNCHANGED <<scenarioVars, dVars, iRes, iAfter, pcP, bVars, oVars, connVars, aw, peerSaw, envVars>>

ICtpDrain ==
  /\ pcI = "ctpDrain"
  /\ pcI' = "waiting"
  /\ UNCHANGED <<scenarioVars, dVars, iRes, iAfter, iCause, pcP, bVars, oVars, connVars, waitVars, seenVars, srvDead,
                 envVars>>

\* environment: the peer connects to one of our listening ports and sends PeerPierceFirewall(ticket).
\* A peer does not pierce and report cannot-connect within the same scheduling slot.
Pierce ==
  /\ EnvOK /\ "CTP" \in srvSaw /\ ~pierced
  /\ pcI # "ctpDrain"                      \* a remote reaction does not overtake the local drain() of the request
  /\ pcI # "iWake" \/ iRes = "timeout"
  /\ pierced' = TRUE
  /\ cst' = [cst EXCEPT !["p"] = "UNINIT"] /\ creg' = [creg EXCEPT !["p"] = TRUE] /\ clink' = [clink EXCEPT !["p"] = "open"]
  /\ pcP' = "accepted"
  /\ UNCHANGED <<scenarioVars, dVars, iVars, bVars, oVars, waitVars, seenVars, srvDead, ccSent, addrSent, cancelReq>>

\* network.py:1096-1139 + connection.py:186-187: the ticket is looked up; known -> initialised and
\* handed to the waiter, unknown -> closed
PAccept ==
  /\ pcP = "accepted"
  /\ IF tw
       THEN /\ cst' = [cst EXCEPT !["p"] = "ESTAB"] /\ clink' = clink
            /\ tw' = FALSE
            /\ pcP' = "settled"
            /\ IF pcI \in {"waiting", "iWake"} THEN pcI' = "iWake" /\ iRes' = "pierce" ELSE UNCHANGED <<pcI, iRes>>
       ELSE /\ cst' = [cst EXCEPT !["p"] = "CLOSING"] /\ clink' = [clink EXCEPT !["p"] = "closed"]
            /\ pcP' = "pClosing"
            /\ UNCHANGED <<tw, pcI, iRes>>
  /\ UNCHANGED <<scenarioVars, dVars, iAfter, iCause, bVars, oVars, creg, rw, aw, seenVars, srvDead, envVars>>

PClosing ==
  /\ pcP = "pClosing"
  /\ cst' = [cst EXCEPT !["p"] = "CLOSED"] /\ creg' = [creg EXCEPT !["p"] = FALSE]
  /\ pcP' = "settled"
  /\ UNCHANGED <<scenarioVars, dVars, iVars, bVars, oVars, clink, waitVars, seenVars, srvDead, envVars>>

\* environment: the server relays CannotConnect(ticket)
CannotConnect ==
  /\ EnvOK /\ "CTP" \in srvSaw /\ ~ccSent /\ ~srvDead
  /\ pcI # "ctpDrain"
  /\ pcI # "iWake" \/ iRes = "timeout"
  /\ pcP # "accepted"
  /\ ccSent' = TRUE
  /\ rw' = FALSE
  /\ IF rw /\ pcI \in {"waiting", "iWake"} THEN pcI' = "iWake" /\ iRes' = "cannot" ELSE UNCHANGED <<pcI, iRes>>
  /\ UNCHANGED <<scenarioVars, dVars, iAfter, iCause, pcP, bVars, oVars, connVars, tw, aw, seenVars, srvDead, pierced,
                 addrSent, cancelReq>>

\* PEER_INDIRECT_CONNECT_TIMEOUT (60 s) expires
IndTimeout ==
  /\ EnvOK /\ pcI = "waiting"
  /\ pcI' = "iWake" /\ iRes' = "timeout"
  /\ UNCHANGED <<scenarioVars, dVars, iAfter, iCause, pcP, bVars, oVars, connVars, waitVars, seenVars, srvDead, envVars>>

\* network.py:889-903
IWake ==
  /\ pcI = "iWake"
  /\ tw' = FALSE /\ rw' = FALSE
  /\ IF iRes = "pierce" THEN pcI' = "done" /\ iCause' = iCause
                        ELSE pcI' = "failed" /\ iCause' = iRes
  /\ UNCHANGED <<scenarioVars, dVars, iRes, iAfter, pcP, bVars, oVars, connVars, aw, seenVars, srvDead, envVars>>

\* repaired design only: the accepted connection that is not returned has been closed
IClosing ==
  /\ pcI = "iClosing"
  /\ cst' = [cst EXCEPT !["p"] = "CLOSED"] /\ creg' = [creg EXCEPT !["p"] = FALSE]
  /\ pcI' = iAfter
  /\ UNCHANGED <<scenarioVars, dVars, iRes, iAfter, iCause, pcP, bVars, oVars, clink, waitVars, seenVars, srvDead, envVars>>

----------------------------------------------------------------------------
\* B - _on_connect_to_peer / _handle_connect_to_peer (network.py:794-804, 905-945)

\* environment: the server relays another peer's ConnectToPeer
CtpRequest(k) ==
  /\ WithConnectBack /\ EnvOK /\ pcB = "idle" /\ ~srvDead
  /\ pcB' = "start"
  /\ bV' = IF k = "badport" THEN "invalid" ELSE bV       \* the relayed port is not a TCP port
  /\ UNCHANGED <<scenarioVars, dVars, iVars, pcP, bSend, oVars, connVars, waitVars, seenVars, srvDead, envVars>>

BStart ==
  /\ pcB = "start"
  /\ cst' = [cst EXCEPT !["b"] = "CONNECTING"] /\ creg' = [creg EXCEPT !["b"] = TRUE]
  /\ pcB' = IF bV = "invalid" THEN "connRes" ELSE "connecting"
  /\ UNCHANGED <<scenarioVars, dVars, iVars, pcP, bV, bSend, oVars, clink, waitVars, seenVars, srvDead, envVars>>

BConn(v, s) ==
  /\ EnvOK /\ pcB = "connecting"
  /\ pcB' = "connRes" /\ bV' = v /\ bSend' = s
  /\ UNCHANGED <<scenarioVars, dVars, iVars, pcP, oVars, connVars, waitVars, seenVars, srvDead, envVars>>

BConnOk(s) == BConn("ok", s)
BConnRefused == BConn("refused", "none")
BConnTimeout == BConn("timeout", "none")

BConnRes ==
  /\ pcB = "connRes"
  /\ IF bV = "ok"
       THEN IF bSend = "ok"
              THEN /\ cst' = [cst EXCEPT !["b"] = "CONNECTED"] /\ clink' = [clink EXCEPT !["b"] = "open"]
                   /\ peerSaw' = peerSaw \cup {"bpierce"} /\ pcB' = "bDrain" /\ creg' = creg
              ELSE /\ cst' = [cst EXCEPT !["b"] = "CLOSING"] /\ clink' = [clink EXCEPT !["b"] = "closed"]
                   /\ pcB' = "bClosing" /\ UNCHANGED <<peerSaw, creg>>
       ELSE /\ cst' = [cst EXCEPT !["b"] = "CLOSED"] /\ creg' = [creg EXCEPT !["b"] = FALSE]
            /\ pcB' = "bReport" /\ UNCHANGED <<peerSaw, clink>>
  /\ UNCHANGED <<scenarioVars, dVars, iVars, pcP, bV, bSend, oVars, waitVars, srvSaw, srvDead, envVars>>

BDrain ==
  /\ pcB = "bDrain"
  /\ cst' = [cst EXCEPT !["b"] = "ESTAB"]
  /\ pcB' = "done"
  /\ UNCHANGED <<scenarioVars, dVars, iVars, pcP, bV, bSend, oVars, creg, clink, waitVars, seenVars, srvDead, envVars>>

BClosing ==
  /\ pcB = "bClosing"
  /\ cst' = [cst EXCEPT !["b"] = "CLOSED"] /\ creg' = [creg EXCEPT !["b"] = FALSE]
  /\ pcB' = "bReport"
  /\ UNCHANGED <<scenarioVars, dVars, iVars, pcP, bV, bSend, oVars, clink, waitVars, seenVars, srvDead, envVars>>

\* network.py:933-940: CannotConnect(ticket, username) goes to the server
BReport ==
  /\ pcB = "bReport"
  /\ srvSaw' = IF srvDead THEN srvSaw ELSE srvSaw \cup {"CC"}
  /\ pcB' = "failed"
  /\ UNCHANGED <<scenarioVars, dVars, iVars, pcP, bV, bSend, oVars, connVars, waitVars, peerSaw, srvDead, envVars>>

----------------------------------------------------------------------------
InitModes == {"ok", "fail", "stall"}
AddrKinds == {"ok", "noip", "noports"}

OStep == OStart \/ OFbAfterD \/ OFbAfterI \/ OFbCancelled \/ ORaceWake \/ ORaceGather \/ ORaceDisc \/ OCleanup
DStep == DStart \/ DAsk \/ DGotAddr \/ DConnRes \/ DInitDrain \/ DClosing
IStep == IStart \/ ICtpDrain \/ IWake \/ IClosing
PStep == PAccept \/ PClosing
BStep == BStart \/ BConnRes \/ BDrain \/ BClosing \/ BReport
Internal == OStep \/ DStep \/ IStep \/ PStep \/ BStep

Env == \/ Request \/ CancelRequest
       \/ \E k \in AddrKinds : AddrReply(k)
       \/ \E m \in InitModes : ConnOk(m)
       \/ ConnRefused \/ ConnTimeout \/ InitResume \/ InitTimeout \/ AddrWaitEnds
       \/ Pierce \/ CannotConnect \/ IndTimeout
       \/ (\E k \in {"ok", "badport"} : CtpRequest(k)) \/ (\E s \in {"ok", "fail"} : BConnOk(s)) \/ BConnRefused \/ BConnTimeout

Next == Internal \/ Env

Spec == Init /\ [][Next]_vars

\* Liveness: every process step is eventually taken; a running timer expires; the server answers
\* GetPeerAddress while its connection is alive.  (The environment is not obliged to do anything else.)
Fairness ==
  /\ WF_vars(Internal)
  /\ WF_vars(ConnTimeout) /\ WF_vars(InitTimeout) /\ WF_vars(IndTimeout) /\ WF_vars(BConnTimeout)
  /\ WF_vars(\E k \in AddrKinds : AddrReply(k)) /\ WF_vars(AddrWaitEnds)
LiveSpec == Spec /\ Fairness

----------------------------------------------------------------------------
\* Properties

TypeOK ==
  /\ pcO \in {"idle", "start", "fbD", "fbI", "fbCancel", "raceWait", "raceGather", "raceDisc", "cleanup"} \cup OTerm
  /\ pcD \in {"idle", "start", "askAddr", "waitAddr", "gotAddr", "connecting", "connRes", "sendingInit",
              "initDrain", "dClosing"} \cup DTerm
  /\ pcI \in {"idle", "start", "ctpDrain", "waiting", "iWake", "iClosing"} \cup ITerm
  /\ pcP \in {"none", "accepted", "pClosing", "settled"}
  /\ pcB \in {"idle", "start", "connecting", "connRes", "bDrain", "bClosing", "bReport"} \cup BTerm
  /\ \A c \in Conns : cst[c] \in {"none", "UNINIT", "CONNECTING", "CONNECTED", "ESTAB", "CLOSING", "CLOSED"}
  /\ \A c \in Conns : clink[c] \in {"none", "open", "closed"}
  /\ winner \in {"none", "d", "p"}

\* the property is evaluated when the request is over and the loop is quiescent
Settled == pcO \in OTerm /\ Quiescent

\* A returned connection is connected, initialised, registered, its transport open; a direct one has
\* delivered PeerInit to the peer.
Usable(w) == /\ w \in {"d", "p"}
             /\ cst[w] = "ESTAB" /\ creg[w] /\ clink[w] = "open"
             /\ w = "d" => "init" \in peerSaw
ReturnsUsable == pcO = "returned" => Usable(winner)

\* A PeerConnectionError only when the environment made both attempts fail ...
FailsOnlyIfNoPath == pcO = "raised" => dCause # "none" /\ iCause # "none"
\* ... and a connection whenever an attempt obtained one (unless the caller cancelled).
SucceedsIfPath == (pcO \in OTerm /\ ~cancelReq) => (pcO = "returned" <=> (pcD = "done" \/ pcI = "done"))

\* What may remain of the request once it is over: the shared text of NothingLeftBehind, applied to the
\* model's variables here and to the recorded observations in PeerConnectTrace.
\*   regOwn:  registered connections belonging to this request (set of "d"/"p")
\*   linkOwn: open transports belonging to this request
\*   estab:   those of regOwn that are connected, initialised and were announced (PeerInitializedEvent)
\*   nTicket, nResp: waiters still registered;  nTasks: attempt tasks still running
\* Reading of the statement: "when it returns or raises, exactly the returned connection (if any) remains".
\* A CANCELLED request neither returns nor raises; what it may leave is nothing, or connections that were
\* completely established and announced before the cancellation took effect - their ownership passed to
\* the listeners of PeerInitializedEvent (the library relies on it: DistributedNetwork adopts a parent from
\* that event and then cancels the tasks that were still connecting), and a "P" connection is reusable
\* through get_peer_connection.  Never a waiter, an attempt task, or a connecting / uninitialised connection.
Keep(outcome, w) == IF outcome = "returned" THEN {w} ELSE {}
NoWaiterLeftP(nTicket, nResp) == nTicket = 0 /\ nResp = 0
NoOrphanConnectionP(outcome, w, regOwn, linkOwn, estab) ==
  IF outcome = "cancelled"
    THEN regOwn \subseteq estab /\ linkOwn = regOwn
    ELSE regOwn = Keep(outcome, w) /\ linkOwn = Keep(outcome, w)
NoOrphanTaskP(nTasks) == nTasks = 0

B2N(b) == IF b THEN 1 ELSE 0
NoWaiterLeft == Settled => NoWaiterLeftP(B2N(tw), B2N(rw) + B2N(aw))
NoOrphanConnection ==
  Settled => NoOrphanConnectionP(pcO, winner, {c \in {"d", "p"} : creg[c]}, {c \in {"d", "p"} : clink[c] = "open"},
                                 {c \in {"d", "p"} : cst[c] = "ESTAB"})
NoOrphanTask == Settled => NoOrphanTaskP(B2N(pcD \notin DTerm \cup {"idle"}) + B2N(pcI \notin ITerm \cup {"idle"}))
NothingLeftBehind == NoWaiterLeft /\ NoOrphanConnection /\ NoOrphanTask

\* A peer that asked us to connect back sees PeerPierceFirewall, or the server is told CannotConnect
\* (when the server connection still exists); a failed connect-back leaves nothing.
ConnectBackAnswered ==
  pcB \in BTerm => /\ "bpierce" \in peerSaw \/ "CC" \in srvSaw \/ srvDead
                   /\ pcB = "failed" => ~creg["b"] /\ clink["b"] # "open"
                   /\ pcB = "done" => cst["b"] = "ESTAB" /\ creg["b"] /\ clink["b"] = "open"

\* the request terminates
Termination == (pcO = "start") ~> (pcO \in OTerm)
BackTermination == (pcB = "start") ~> (pcB \in BTerm)
=============================================================================

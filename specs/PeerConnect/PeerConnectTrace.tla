------------------------- MODULE PeerConnectTrace -------------------------
(***************************************************************************)
(* Trace validation for C11.  A batch of executions of the real            *)
(* aioslsk Network (recorded by harness/props/c11.py over the simulated    *)
(* network, in virtual time) is checked against PeerConnect.               *)
(*                                                                         *)
(* One record = one stimulus the harness applied (an environment action    *)
(* of PeerConnect, with its arguments) plus what was observable at the     *)
(* next quiescent point of the event loop:                                 *)
(*   res   "none" | "conn" | "exc" | "cancelled": outcome of the request,  *)
(*         reported once; cls = exception class; rc = the returned         *)
(*         connection [st, cs, typ, user, inc, inreg, link, tx, rx]            *)
(*   srv   kinds of frames the server has seen so far ("GPA","CTP","CC")   *)
(*   peer  kinds of frames the peers have seen so far ("init","bpierce")   *)
(*   att, batt  open_connection attempts so far (to the peer / connect-back)*)
(*   snap  [reg, regb, tw, rw, links, cblinks, tasks]: registry entries of *)
(*         the requested peer / of the connect-back peer, sizes of         *)
(*         _expected_connection_futures and _expected_response_futures,    *)
(*         open transports, attempt tasks still pending                    *)
(*   ret   the same fields as snap, taken at the instant the awaited call   *)
(*         ended (present in the record that reports the outcome)          *)
(*   noobs TRUE: the next stimulus followed without settling; nothing was  *)
(*         observed (sub-slot schedules, validated with TraceFine.cfg)     *)
(* First record: init [mode, typ, user, given, sendfail, badport].         *)
(*                                                                         *)
(* Phase "stim": the next record's stimulus is applied to the model.       *)
(* Phase "run": the model takes process steps (silent; the pcs are not     *)
(* logged, TLC infers them) until it is quiescent; then the observations   *)
(* are compared: frames, outcome and - as state constraints, when the      *)
(* request is over - NothingLeftBehind on the recorded snapshot.           *)
(***************************************************************************)
EXTENDS PeerConnect, Sequences, Json, IOUtils

Traces == JsonDeserialize(IOEnv.TRACE_FILE)

VARIABLES tid, l, phase, reported, bReported, obs, ret, marks

tvars == <<vars, tid, l, phase, reported, bReported, obs, ret, marks>>
auxVars == <<tid, reported, bReported, obs, ret, marks>>

T == Traces[tid]
Rec == T[l]
Hdr == T[1]

EmptyObs == [reg |-> <<>>, regb |-> <<>>, tw |-> 0, rw |-> 0, links |-> <<>>, cblinks |-> 0, tasks |-> 0]

TInit ==
  /\ Init
  /\ tid \in 1..Len(Traces)
  /\ Len(Traces[tid]) >= 1 /\ Traces[tid][1].ev = "init"
  /\ mode = Traces[tid][1].mode
  /\ given = Traces[tid][1].given
  /\ sendFail = Traces[tid][1].sendfail
  /\ badPort = Traces[tid][1].badport
  /\ l = 2
  /\ phase = "stim"
  /\ reported = FALSE /\ bReported = FALSE
  /\ obs = EmptyObs
  /\ ret = EmptyObs
  /\ marks = {}

IsEv(e) == phase = "stim" /\ l <= Len(T) /\ Rec.ev = e
Go == phase' = "run" /\ UNCHANGED <<l, auxVars>>

Range(s) == {s[i] : i \in 1..Len(s)}

----------------------------------------------------------------------------
\* stimuli

TRequest == IsEv("request") /\ Request /\ Go
TAddr == IsEv("addr") /\ Rec.kind \in AddrKinds /\ AddrReply(Rec.kind) /\ Go
TConnOk == IsEv("conn_ok") /\ Rec.init \in InitModes /\ ConnOk(Rec.init) /\ Go
TConnRefused == IsEv("conn_refused") /\ ConnRefused /\ Go
TInitResume == IsEv("init_resume") /\ InitResume /\ Go
TPierce == IsEv("pierce") /\ Pierce /\ Go
TCannotConnect == IsEv("cannot_connect") /\ CannotConnect /\ Go
TCancel == IsEv("cancel") /\ CancelRequest /\ Go
TCtpRequest == IsEv("ctp_request") /\ Rec.kind \in {"ok", "badport"} /\ CtpRequest(Rec.kind) /\ Go
TBConnOk == IsEv("bconn_ok") /\ Rec.init \in {"ok", "fail"} /\ BConnOk(Rec.init) /\ Go
TBConnRefused == IsEv("bconn_refused") /\ BConnRefused /\ Go
TAddrWaitEnds == IsEv("addr_wait_ends") /\ AddrWaitEnds /\ Go

\* Virtual time passed a deadline.  The timer expires if it is still running in the model; a deadline
\* of something that already ended is just time passing.
TTimeout ==
  /\ IsEv("timeout")
  /\ CASE Rec.which = "conn"  -> IF pcD = "connecting" THEN ConnTimeout ELSE UNCHANGED vars
       [] Rec.which = "init"  -> IF pcD = "sendingInit" THEN InitTimeout ELSE UNCHANGED vars
       [] Rec.which = "ind"   -> IF pcI = "waiting" THEN IndTimeout ELSE UNCHANGED vars
       [] Rec.which = "bconn" -> IF pcB = "connecting" THEN BConnTimeout ELSE UNCHANGED vars
       [] OTHER -> FALSE
  /\ Quiescent
  /\ Go

\* closing observation: nothing was stimulated
TEnd == IsEv("end") /\ Quiescent /\ UNCHANGED vars /\ Go

----------------------------------------------------------------------------
\* silent process steps.  With stimuli at quiescence the processes run between a stimulus and the next
\* observation; in the fine-grained configuration (sub-slot schedules) they may also run before a stimulus.
Silent ==
  /\ phase = "run" \/ FineGrained
  /\ l <= Len(T)
  /\ Internal
  /\ UNCHANGED <<l, phase, auxVars>>

\* Not constrained by the property: while virtual time passes, a direct attempt that still waits for the
\* GetPeerAddress reply may give up (an implementation may or may not bound that wait while the server is
\* connected but silent - the property quantifies over neither).  Optional branch, trace spec only.
TAddrGiveUp ==
  /\ phase = "run" /\ l <= Len(T) /\ Rec.ev \in {"timeout", "addr_wait_ends"}
  /\ pcD = "waitAddr"
  /\ pcD' = "failed" /\ dCause' = "noaddr" /\ aw' = FALSE
  /\ UNCHANGED <<scenarioVars, addrKind, connV, initMode, dAfter, iVars, pcP, bVars, oVars, connVars, tw, rw, seenVars,
                 srvDead, envVars>>
  /\ UNCHANGED <<l, phase, auxVars>>

----------------------------------------------------------------------------
\* observations at the quiescent point

\* the returned connection as the caller sees it: connected, initialised for its type, of the requested
\* type and peer, registered, transport open, and USABLE as a connection of that type in both directions:
\* tx = one message of its type sent on it arrived at the peer in the encoding such a peer expects
\* (P: peer message, obfuscated iff the path runs over an obfuscated port; D: distributed message, clear;
\* F: raw bytes, clear); rx = one such message from the peer was delivered to us
UsableObs(rc) ==
  /\ rc.st = "CONNECTED"
  /\ rc.cs = (IF Hdr.typ = "F" THEN "NEGOTIATING_TRANSFER" ELSE "ESTABLISHED")
  /\ rc.typ = Hdr.typ /\ rc.user = Hdr.user
  /\ rc.inreg /\ rc.link
  /\ rc.tx /\ rc.rx

OutcomeAgrees ==
  IF pcO \in OTerm /\ ~reported
    THEN /\ reported' = TRUE
         /\ ret' = (IF "ret" \in DOMAIN Rec THEN Rec.ret ELSE ret)   \* what the caller finds at the very instant the awaited call ends (a record without an outcome has none: the CASE below then cuts the path)
         /\ CASE pcO = "returned"  -> /\ Rec.res = "conn"
                                      /\ Rec.rc.inc = (winner = "p")
                                      /\ UsableObs(Rec.rc)
              [] pcO = "raised"    -> Rec.res = "exc" /\ Rec.cls = "PeerConnectionError"
              [] pcO = "cancelled" -> Rec.res = "cancelled"
    ELSE /\ reported' = reported /\ ret' = ret
         /\ Rec.res = "none"

BackAgrees ==
  IF pcB \in BTerm /\ ~bReported
    THEN /\ bReported' = TRUE
         /\ pcB = "done" => /\ Len(Rec.snap.regb) = 1 /\ Rec.snap.cblinks = 1
                            /\ Rec.snap.regb[1].st = "CONNECTED"
                            /\ Rec.snap.regb[1].cs \in {"ESTABLISHED", "NEGOTIATING_TRANSFER"}
    ELSE bReported' = bReported

TObs ==
  /\ phase = "run" /\ Quiescent /\ ~Rec.noobs
  /\ Range(Rec.srv) = srvSaw
  /\ Range(Rec.peer) = peerSaw
  /\ Rec.att = (IF cst["d"] = "none" THEN 0 ELSE 1)       \* open_connection attempts towards the peer ...
  /\ Rec.batt = (IF cst["b"] = "none" THEN 0 ELSE 1)      \* ... and towards the peer that asked us to connect back
  /\ OutcomeAgrees
  /\ BackAgrees
  /\ obs' = Rec.snap
  /\ l' = l + 1 /\ phase' = "stim"
  /\ UNCHANGED <<vars, tid, marks>>

\* Sub-slot schedules only: the harness applied the next stimulus without letting the loop settle, so
\* nothing was observed after this one.
TNoObs ==
  /\ phase = "run" /\ Rec.noobs
  /\ l' = l + 1 /\ phase' = "stim"
  /\ UNCHANGED <<vars, auxVars>>

----------------------------------------------------------------------------
\* Tolerated deviation (reported through `marks`): the server connection was lost while the direct
\* attempt waits for the GetPeerAddress reply; the code as found waits for ever, so the time that
\* would end the wait in the repaired design passes without effect.
KF_AddrWaitNeverEnds ==
  /\ IsEv("addr_wait_ends")
  /\ pcD = "waitAddr" /\ srvDead /\ pcO \notin OTerm
  /\ Rec.res = "none"
  /\ Range(Rec.srv) = srvSaw /\ Range(Rec.peer) = peerSaw
  /\ marks' = marks \cup {"get_peer_address:wait-never-ends:server-connection-lost"}
  /\ obs' = Rec.snap
  /\ l' = l + 1
  /\ UNCHANGED <<vars, tid, phase, reported, bReported, ret>>

----------------------------------------------------------------------------
Done ==
  /\ phase = "stim" /\ l = Len(T) + 1
  /\ PrintT(<<"ACCEPT", tid, marks>>)
  /\ l' = l + 1
  /\ UNCHANGED <<vars, tid, phase, reported, bReported, obs, ret, marks>>

Finished == l = Len(T) + 2 /\ UNCHANGED tvars

TNext == \/ TRequest \/ TAddr \/ TConnOk \/ TConnRefused \/ TInitResume \/ TPierce \/ TCannotConnect \/ TCancel
         \/ TCtpRequest \/ TBConnOk \/ TBConnRefused \/ TAddrWaitEnds \/ TTimeout \/ TEnd
         \/ Silent \/ TAddrGiveUp \/ TObs \/ TNoObs \/ KF_AddrWaitNeverEnds \/ Done \/ Finished

TSpec == TInit /\ [][TNext]_tvars

----------------------------------------------------------------------------
\* NothingLeftBehind on what was observed: evaluated when the request is over (in the model, and the
\* outcome has been seen in the log) and the recorded snapshot was taken at quiescence.

ObservedSettled == phase = "stim" /\ pcO \in OTerm /\ reported /\ l > 2

RegOwnObs == {IF obs.reg[i].inc THEN "p" ELSE "d" : i \in 1..Len(obs.reg)}
EstabObs == {IF obs.reg[i].inc THEN "p" ELSE "d" :
               i \in {j \in 1..Len(obs.reg) : obs.reg[j].st = "CONNECTED" /\ obs.reg[j].cs # "AWAITING_INIT"
                                              /\ obs.reg[j].typ = Hdr.typ /\ obs.reg[j].user = Hdr.user}}
LinkOwnObs == {IF obs.links[i] = "pierce" THEN "p" ELSE IF obs.links[i] = "direct" THEN "d" ELSE "x" : i \in 1..Len(obs.links)}

NoWaiterLeftObs == ObservedSettled => NoWaiterLeftP(obs.tw, obs.rw)
NoOrphanConnectionObs ==
  ObservedSettled => /\ NoOrphanConnectionP(pcO, winner, RegOwnObs, LinkOwnObs, EstabObs)
                     /\ Len(obs.reg) = Cardinality(RegOwnObs) /\ Len(obs.links) = Cardinality(LinkOwnObs)
NoOrphanTaskObs == ObservedSettled => NoOrphanTaskP(obs.tasks)

\* ... and the same at the instant the awaited call returned, raised or was cancelled ("WHEN it returns or
\* raises, exactly the returned connection remains"): ret is the snapshot the harness took as the first
\* thing after `await create_peer_connection(...)` ended, before yielding to the loop.
RegOwnRet == {IF ret.reg[i].inc THEN "p" ELSE "d" : i \in 1..Len(ret.reg)}
EstabRet == {IF ret.reg[i].inc THEN "p" ELSE "d" :
               i \in {j \in 1..Len(ret.reg) : ret.reg[j].st = "CONNECTED" /\ ret.reg[j].cs # "AWAITING_INIT"
                                              /\ ret.reg[j].typ = Hdr.typ /\ ret.reg[j].user = Hdr.user}}
LinkOwnRet == {IF ret.links[i] = "pierce" THEN "p" ELSE IF ret.links[i] = "direct" THEN "d" ELSE "x" : i \in 1..Len(ret.links)}
AtReturn == reported /\ pcO \in OTerm
NoWaiterLeftAtReturn == AtReturn => NoWaiterLeftP(ret.tw, ret.rw)
NoOrphanConnectionAtReturn ==
  AtReturn => /\ NoOrphanConnectionP(pcO, winner, RegOwnRet, LinkOwnRet, EstabRet)
              /\ Len(ret.reg) = Cardinality(RegOwnRet) /\ Len(ret.links) = Cardinality(LinkOwnRet)
NoOrphanTaskAtReturn == AtReturn => NoOrphanTaskP(ret.tasks)

\* a failed connect-back leaves nothing
ConnectBackCleanObs == (phase = "stim" /\ pcB = "failed" /\ bReported) => Len(obs.regb) = 0 /\ obs.cblinks = 0
=============================================================================

SPECIFICATION Spec
CONSTANTS
  Modes = {"fallback", "race"}
  GivenChoices = {TRUE, FALSE}
  SendFailChoices = {TRUE, FALSE}
  BadPortChoices = {FALSE}
  WithRequest = TRUE
  WithConnectBack = FALSE
  Cancellable = TRUE
  FineGrained = FALSE
  FixWaiters = TRUE
  FixDirect = FALSE
  FixCancel = TRUE
  AddrWaitBounded = TRUE
INVARIANT NoOrphanConnection
CHECK_DEADLOCK FALSE

SPECIFICATION Spec
CONSTANTS
  Callers = {1, 2}
  Redispatch = TRUE
  StartStates = {"VIRGIN", "QUEUED", "INITIALIZING", "INCOMPLETE", "DOWNLOADING", "UPLOADING", "COMPLETE", "FAILED", "ABORTED", "PAUSED"}
  Dirs = {"up", "down"}
  Lst2Kinds = {"raise", "slow"}
  WithLoad = FALSE
INVARIANT TypeOK
INVARIANT Mutex
INVARIANT HolderInBody
PROPERTY LegalEdges
PROPERTY Notified
PROPERTY RefusalHasNoEffect
PROPERTY RefusedOnlyIfNotAllowed
PROPERTY FileOnlyRemovedByAbort
PROPERTY RaisedKeepsState
CHECK_DEADLOCK FALSE

SPECIFICATION TSpec
CONSTANTS
  Callers = {1}
  Redispatch = TRUE
  StartStates = {"VIRGIN"}
  Dirs = {"down"}
  Lst2Kinds = {"none"}
  WithLoad = FALSE
CHECK_DEADLOCK TRUE

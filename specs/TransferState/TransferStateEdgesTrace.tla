---------------------- MODULE TransferStateEdgesTrace ----------------------
(***************************************************************************)
(* Notification-only traces: the sequence of (old, new) pairs one transfer's *)
(* listeners were told, recorded from whole-client scenarios and from the   *)
(* repository's own test-suite (harness/pytest_obs.py).  Every reported     *)
(* pair must be an edge of the documented graph (Edge of TransferState);    *)
(* with chained = TRUE each `old` must also equal the previous `new`.       *)
(***************************************************************************)
EXTENDS TransferState, Json, IOUtils

Traces == JsonDeserialize(IOEnv.TRACE_FILE)

VARIABLES tid, l
tvars == <<vars, tid, l>>
T == Traces[tid].events
Chained == Traces[tid].chained

TInit ==
  /\ tid \in 1..Len(Traces)
  /\ l = 1
  /\ dir = "down" /\ st = "VIRGIN" /\ file = FALSE /\ failR = FALSE /\ abortR = FALSE
  /\ bg = FALSE /\ bgCancelled = FALSE /\ holder = 0 /\ waitq = <<>>
  /\ pc = [c \in Callers |-> "idle"] /\ op = [c \in Callers |-> "none"]
  /\ cap = [c \in Callers |-> "none"] /\ isTask = [c \in Callers |-> FALSE]
  /\ ret = [c \in Callers |-> "none"] /\ lastEdge = <<>>
  /\ lst2 = "none" /\ loaded = TRUE

TNotify ==
  /\ l <= Len(T) /\ T[l].ev = "notify"
  /\ T[l].old \in States /\ T[l].new \in States
  /\ <<T[l].old, T[l].new>> \in Edge
  /\ (Chained /\ l > 1) => T[l].old = st
  /\ st' = T[l].new
  /\ lastEdge' = <<T[l].old, T[l].new>>
  /\ l' = l + 1
  /\ UNCHANGED <<dir, file, failR, abortR, bg, bgCancelled, holder, waitq, pc, op, cap, isTask, ret, lst2, loaded, tid>>

Done ==
  /\ l = Len(T) + 1
  /\ PrintT(<<"ACCEPT", tid, {}>>)
  /\ l' = l + 1
  /\ UNCHANGED <<vars, tid>>

Finished == l = Len(T) + 2 /\ UNCHANGED tvars

TNext == TNotify \/ Done \/ Finished
TSpec == TInit /\ [][TNext]_tvars
=============================================================================

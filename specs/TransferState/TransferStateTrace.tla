------------------------ MODULE TransferStateTrace ------------------------
(***************************************************************************)
(* Trace validation for C03: a batch of executions of the real             *)
(* Transfer / TransferState / TransferManager objects, recorded by         *)
(* harness/props/c03.py, is checked against TransferState.                 *)
(*                                                                         *)
(* Event records (JSON):                                                   *)
(*   init   : dir, st, file, bg                     (first record)         *)
(*   call   : c, op, seen, task        caller c evaluates transfer.state.op *)
(*   notify : old, new                 a state listener was told            *)
(*   ret    : c, val ("true"|"false"|"raised")  the call returned / raised  *)
(*            refusal / an exception of the application listener (or the   *)
(*            cancellation inside it) came out of the call                 *)
(*   cancelled : c                     a task-caller got CancelledError     *)
(* every record carries snap = [st, file, lp, fr, ar, ts, rq, nc]: the      *)
(* observable fields of the transfer right after the event.                 *)
(*                                                                         *)
(* Observable events consume a record; Acquire / BodyStart / TasksGone /    *)
(* FileGone are silent steps of the design spec.                            *)
(***************************************************************************)
EXTENDS TransferState, Json, IOUtils

Traces == JsonDeserialize(IOEnv.TRACE_FILE)

VARIABLES tid, l, reported, prevSnap

tvars == <<vars, tid, l, reported, prevSnap>>

T == Traces[tid]
Rec == T[l]

TInit ==
  /\ tid \in 1..Len(Traces)
  /\ l = 2
  /\ Len(Traces[tid]) >= 1 /\ Traces[tid][1].ev = "init"
  /\ dir = Traces[tid][1].dir
  /\ st = Traces[tid][1].st
  /\ file = Traces[tid][1].file
  /\ bg = Traces[tid][1].bg
  /\ failR = Traces[tid][1].failR
  /\ abortR = (st = "ABORTED")
  /\ bgCancelled = FALSE
  /\ holder = 0
  /\ waitq = <<>>
  /\ pc = [c \in Callers |-> "idle"]
  /\ op = [c \in Callers |-> "none"]
  /\ cap = [c \in Callers |-> "none"]
  /\ isTask = [c \in Callers |-> FALSE]
  /\ ret = [c \in Callers |-> "none"]
  /\ lastEdge = <<>>
  /\ lst2 = Traces[tid][1].lst2
  /\ loaded = TRUE          \* the recorder is attached from the TransferAddedEvent handler
  /\ reported = {}
  /\ prevSnap = Traces[tid][1].snap

IsEv(e) == l <= Len(T) /\ Rec.ev = e
Consume == l' = l + 1 /\ prevSnap' = Rec.snap /\ UNCHANGED tid

\* the snapshot taken after the event shows the state the model is in
SnapAgrees == Rec.snap.st = st'

TCall ==
  /\ IsEv("call")
  /\ Rec.c \in Callers
  /\ Rec.seen = st
  /\ Call(Rec.c, Rec.op, Rec.task)
  /\ SnapAgrees /\ Consume /\ UNCHANGED reported

\* A listener is told (old, new): the holder of the lock performs its transition.  The silent
\* body steps may or may not have been taken; what must hold is that the reported pair starts
\* at the current state, is the edge the requested operation stands for, and (LegalEdges, as an
\* action constraint) is an edge of the documented graph.
TNotify ==
  /\ IsEv("notify")
  /\ \E c \in Callers :
       /\ holder = c /\ pc[c] \in {"body", "cancelwait", "rmfile", "trans"}
       /\ Rec.old = st
       /\ Rec.new = Target(op[c], dir)
       /\ st' = Rec.new
       /\ lastEdge' = <<Rec.old, Rec.new>>
       /\ IF lst2 = "slow"
            THEN /\ pc' = [pc EXCEPT ![c] = "lstwait"]
                 /\ UNCHANGED <<ret, holder>>
            ELSE /\ ret' = [ret EXCEPT ![c] = IF lst2 = "raise" THEN "raised" ELSE "true"]
                 /\ pc' = [pc EXCEPT ![c] = "done"]
                 /\ holder' = 0
       /\ file' = Rec.snap.file
       /\ failR' = (Rec.snap.fr # "none")
       /\ abortR' = (Rec.snap.ar # "none")
       /\ bg' = bg /\ bgCancelled' = bgCancelled
       /\ UNCHANGED <<dir, waitq, op, cap, isTask, lst2, loaded>>
  /\ SnapAgrees /\ Consume /\ UNCHANGED reported

\* A listener attached from the TransferAddedEvent handler is told something although nobody
\* called anything yet (a load path that corrects states after adding): no operation stands
\* behind it, so only the property itself judges it - the pair must start at the state last
\* known and (LegalEdges, as an action constraint) be an edge of the documented graph.
TLoadNotify ==
  /\ IsEv("notify")
  /\ Traces[tid][1].load
  /\ \A c \in Callers : pc[c] = "idle"
  /\ Rec.old = st
  /\ st' = Rec.new
  /\ lastEdge' = <<Rec.old, Rec.new>>
  /\ file' = Rec.snap.file
  /\ failR' = (Rec.snap.fr # "none")
  /\ abortR' = (Rec.snap.ar # "none")
  /\ UNCHANGED <<dir, bg, bgCancelled, holder, waitq, pc, op, cap, isTask, ret, lst2, loaded>>
  /\ SnapAgrees /\ Consume /\ UNCHANGED reported

\* the exception of the application listener (or CancelledError delivered inside it) came out
\* of the call: the transition has happened and stays
TRetRaised ==
  /\ IsEv("ret") /\ Rec.val = "raised"
  /\ Rec.c \in Callers \ reported
  /\ pc[Rec.c] = "done" /\ ret[Rec.c] = "raised"
  /\ reported' = reported \cup {Rec.c}
  /\ UNCHANGED vars
  /\ SnapAgrees /\ Consume

TRetTrue ==
  /\ IsEv("ret") /\ Rec.val = "true"
  /\ Rec.c \in Callers \ reported
  /\ pc[Rec.c] = "done" /\ ret[Rec.c] = "true"
  /\ reported' = reported \cup {Rec.c}
  /\ UNCHANGED vars
  /\ SnapAgrees /\ Consume

\* Refusal: no transition was reported for this call, the operation is not allowed (in the
\* state at call time or now), and nothing observable changed since the previous record.
TRetFalse ==
  /\ IsEv("ret") /\ Rec.val = "false"
  /\ LET c == Rec.c IN
       /\ c \in Callers \ reported
       /\ pc[c] = "body" /\ holder = c
       /\ ~Allowed(st, op[c], dir) \/ ~Allowed(cap[c], op[c], dir)
       /\ Rec.snap = prevSnap
       /\ ret' = [ret EXCEPT ![c] = "false"]
       /\ pc' = [pc EXCEPT ![c] = "done"]
       /\ holder' = 0
       /\ reported' = reported \cup {c}
       /\ UNCHANGED <<dir, st, file, failR, abortR, bg, bgCancelled, waitq, op, cap, isTask, lastEdge, lst2, loaded>>
  /\ SnapAgrees /\ Consume

\* a task-caller waiting for the lock was cancelled by an abort/pause
TCancelled ==
  /\ IsEv("cancelled")
  /\ Rec.c \in Callers \ reported
  /\ isTask[Rec.c]
  /\ \/ pc[Rec.c] = "cancelled" /\ UNCHANGED vars
     \/ /\ pc[Rec.c] = "waiting"
        /\ \E h \in Callers : holder = h /\ op[h] \in {"abort", "pause"}
        /\ pc' = [pc EXCEPT ![Rec.c] = "cancelled"]
        /\ waitq' = SelectSeq(waitq, LAMBDA x : x # Rec.c)
        /\ UNCHANGED <<dir, st, file, failR, abortR, bg, bgCancelled, holder, op, cap, isTask, ret, lastEdge, lst2, loaded>>
  /\ reported' = reported \cup {Rec.c}
  /\ SnapAgrees /\ Consume

Silent ==
  /\ l <= Len(T)
  /\ \E c \in Callers : Acquire(c) \/ BodyStart(c) \/ TasksGone(c) \/ FileGone(c) \/ FileFail(c) \/ ListenerDone(c) \/ CancelInListener(c)
  /\ UNCHANGED <<tid, l, reported, prevSnap>>

Done ==
  /\ l = Len(T) + 1
  /\ PrintT(<<"ACCEPT", tid, {}>>)
  /\ l' = l + 1
  /\ UNCHANGED <<vars, tid, reported, prevSnap>>

Finished == l = Len(T) + 2 /\ UNCHANGED tvars

TNext == TCall \/ TNotify \/ TLoadNotify \/ TRetTrue \/ TRetRaised \/ TRetFalse \/ TCancelled \/ Silent \/ Done \/ Finished

TSpec == TInit /\ [][TNext]_tvars

\* properties of TransferState as constraints (a path that breaks one is cut, see tlc.py)
LegalEdgesC == (loaded /\ st' # st) => <<st, st'>> \in Edge
NotifiedC == (loaded /\ st' # st) => lastEdge' = <<st, st'>>
=============================================================================

SPECIFICATION Spec
CONSTANTS
  Callers = {1, 2, 3}
  Redispatch = TRUE
  StartStates = {"QUEUED", "INITIALIZING", "INCOMPLETE", "DOWNLOADING", "UPLOADING", "PAUSED"}
  Dirs = {"up", "down"}
  Lst2Kinds = {"none"}
  WithLoad = FALSE
CONSTRAINT SlowFocus
INVARIANT TypeOK
INVARIANT Mutex
PROPERTY LegalEdges
CHECK_DEADLOCK FALSE

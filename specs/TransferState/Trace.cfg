SPECIFICATION TSpec
CONSTANTS
  Callers = {1, 2, 3}
  Redispatch = TRUE
  StartStates = {"VIRGIN", "QUEUED", "INITIALIZING", "INCOMPLETE", "DOWNLOADING", "UPLOADING", "COMPLETE", "FAILED", "ABORTED", "PAUSED"}
  Dirs = {"up", "down"}
  Lst2Kinds = {"none"}
  WithLoad = FALSE
CONSTRAINT Mutex
CONSTRAINT HolderInBody
ACTION_CONSTRAINT LegalEdgesC
ACTION_CONSTRAINT NotifiedC
CHECK_DEADLOCK FALSE

--------------------------- MODULE TransferState ---------------------------
(***************************************************************************)
(* C03 - transfer state changes follow the documented state graph.         *)
(*                                                                         *)
(* Mirrors src/aioslsk/transfer/state.py (state classes, _with_state_lock, *)
(* _cancel_transfer_tasks, _remove_local_file) and Transfer.transition     *)
(* (transfer/model.py).  One transfer, several concurrent callers (user    *)
(* API calls, peer-message handlers, the management job, the transfer's    *)
(* own background task).  Each action is one stretch of a caller between   *)
(* two suspending awaits.                                                  *)
(*                                                                         *)
(* Edge is transcribed from docs/diagrams/"Transfer States.png"; it is the *)
(* oracle.  Which operation leads where is fixed by the operation's name   *)
(* (queue -> QUEUED, abort -> ABORTED, ...), so "operation o is allowed in *)
(* state s" is <<s, Target(o)>> \in Edge.                                  *)
(***************************************************************************)
EXTENDS Naturals, Sequences, FiniteSets, TLC

CONSTANTS Callers,      \* set of caller ids (each makes at most one call)
          Redispatch,   \* TRUE: the method is resolved on the state current when the lock
                        \*       is acquired (repaired design); FALSE: on the state object the
                        \*       caller captured before waiting for the lock (original code)
          StartStates,  \* states the transfer may start in
          Dirs,         \* subset of {"up", "down"}
          Lst2Kinds,    \* behaviours of an application listener registered behind the manager:
                        \*   "none" (returns at once), "raise" (raises), "slow" (suspends; the
                        \*   caller may be cancelled meanwhile - time-out, shutdown)
          WithLoad      \* TRUE: the transfer may start as a stored record that read_cache
                        \*       corrects before anybody listens (transfer/manager.py:150-170)

States == {"VIRGIN", "QUEUED", "INITIALIZING", "INCOMPLETE", "DOWNLOADING", "UPLOADING",
           "COMPLETE", "FAILED", "ABORTED", "PAUSED"}
Ops == {"queue", "initialize", "start", "complete", "incomplete", "fail", "abort", "pause"}

\* docs/diagrams/Transfer States.png, 32 edges
Edge == {
  <<"VIRGIN", "QUEUED">>, <<"VIRGIN", "PAUSED">>,
  <<"QUEUED", "INITIALIZING">>, <<"QUEUED", "FAILED">>, <<"QUEUED", "ABORTED">>, <<"QUEUED", "PAUSED">>,
  <<"INITIALIZING", "QUEUED">>, <<"INITIALIZING", "FAILED">>, <<"INITIALIZING", "ABORTED">>,
  <<"INITIALIZING", "PAUSED">>, <<"INITIALIZING", "DOWNLOADING">>, <<"INITIALIZING", "UPLOADING">>,
  <<"DOWNLOADING", "FAILED">>, <<"DOWNLOADING", "COMPLETE">>, <<"DOWNLOADING", "ABORTED">>,
  <<"DOWNLOADING", "PAUSED">>, <<"DOWNLOADING", "INCOMPLETE">>,
  <<"UPLOADING", "FAILED">>, <<"UPLOADING", "COMPLETE">>, <<"UPLOADING", "ABORTED">>, <<"UPLOADING", "PAUSED">>,
  <<"COMPLETE", "QUEUED">>,
  <<"INCOMPLETE", "FAILED">>, <<"INCOMPLETE", "QUEUED">>, <<"INCOMPLETE", "INITIALIZING">>,
  <<"INCOMPLETE", "ABORTED">>, <<"INCOMPLETE", "PAUSED">>,
  <<"FAILED", "QUEUED">>,
  <<"PAUSED", "QUEUED">>, <<"PAUSED", "ABORTED">>, <<"PAUSED", "FAILED">>,
  <<"ABORTED", "QUEUED">> }

Target(o, d) ==
  CASE o = "queue"      -> "QUEUED"
    [] o = "initialize" -> "INITIALIZING"
    [] o = "start"      -> IF d = "up" THEN "UPLOADING" ELSE "DOWNLOADING"
    [] o = "complete"   -> "COMPLETE"
    [] o = "incomplete" -> "INCOMPLETE"
    [] o = "fail"       -> "FAILED"
    [] o = "abort"      -> "ABORTED"
    [] o = "pause"      -> "PAUSED"

\* states that make sense for a direction (an upload is never DOWNLOADING/INCOMPLETE ...)
StatesOf(d) == IF d = "up" THEN States \ {"DOWNLOADING", "INCOMPLETE"} ELSE States \ {"UPLOADING"}

Allowed(s, o, d) == <<s, Target(o, d)>> \in Edge

\* side effects prescribed for an allowed operation (USAGE.rst "aborting will remove the
\* partially downloaded file"; abort/pause stop the background work)
CancelsTasks(s, o) == o \in {"abort", "pause"} /\ s # "VIRGIN"
RemovesFile(s, o, d) == o = "abort" /\ d = "down"

VARIABLES
  dir,        \* direction of the transfer
  st,         \* current state value (what listeners were last told)
  file,       \* local file present on disk
  failR,      \* fail reason set
  abortR,     \* abort reason set
  bg,         \* a background task of the transfer is alive (not a caller)
  bgCancelled,\* it has been told to cancel (ends at TasksGone)
  holder,     \* caller holding the transfer's lock, 0 if free
  waitq,      \* FIFO of callers waiting for the lock
  pc,         \* per caller: idle, waiting, body, cancelwait, rmfile, trans, done, cancelled
  op,         \* per caller: requested operation
  cap,        \* per caller: state value captured when the call was made
  isTask,     \* per caller: the call is made from the transfer's own (cancellable) task
  ret,        \* per caller: "none", "true", "false", "raised" (exception out of a listener /
              \*   cancellation inside one: the transition itself has happened)
  lastEdge,   \* the last reported (old, new) pair, or <<>>
  lst2,       \* behaviour of the application listener (fixed per behaviour)
  loaded      \* FALSE: still a stored record nobody listens to (read_cache not done)

vars == <<dir, st, file, failR, abortR, bg, bgCancelled, holder, waitq, pc, op, cap, isTask, ret, lastEdge,
          lst2, loaded>>

Init ==
  /\ dir \in Dirs
  /\ st \in (StartStates \cap StatesOf(dir))
  /\ file \in (IF dir = "down" /\ st \notin {"VIRGIN"} THEN BOOLEAN ELSE {FALSE})
  /\ failR \in (IF st = "FAILED" THEN BOOLEAN ELSE {FALSE})   \* FAILED without a reason is auto-retried
  /\ abortR = (st = "ABORTED")
  /\ bg \in (IF st \in {"QUEUED", "INITIALIZING", "DOWNLOADING", "UPLOADING", "INCOMPLETE"} THEN BOOLEAN ELSE {FALSE})
  /\ bgCancelled = FALSE
  /\ holder = 0
  /\ waitq = <<>>
  /\ pc = [c \in Callers |-> "idle"]
  /\ op = [c \in Callers |-> "none"]
  /\ cap = [c \in Callers |-> "none"]
  /\ isTask = [c \in Callers |-> FALSE]
  /\ ret = [c \in Callers |-> "none"]
  /\ lastEdge = <<>>
  /\ lst2 \in Lst2Kinds
  /\ loaded \in (IF WithLoad THEN BOOLEAN ELSE {TRUE})
  /\ loaded \/ ~bg                          \* a stored record has no task

\* read_cache (transfer/manager.py:150-170): a stored INITIALIZING record is queued again, a
\* stored transferring one becomes COMPLETE or INCOMPLETE depending on the byte counts - by
\* direct assignment (or a state method) BEFORE the transfer is added to the manager, i.e. while
\* it has no listener at all.  Nobody can observe the change; the state the listeners know from
\* the TransferAddedEvent on is the corrected one.  `allBytes` is the environment's choice.
Corrected(s, allBytes) ==
  IF s = "INITIALIZING" THEN "QUEUED"
  ELSE IF s \in {"DOWNLOADING", "UPLOADING"} THEN (IF allBytes THEN "COMPLETE" ELSE "INCOMPLETE")
  ELSE s

Load ==
  /\ ~loaded
  /\ loaded' = TRUE
  /\ \E allBytes \in BOOLEAN : st' = Corrected(st, allBytes)
  /\ UNCHANGED <<dir, file, failR, abortR, bg, bgCancelled, holder, waitq, pc, op, cap, isTask, ret, lastEdge, lst2>>

\* The state object whose method body runs for caller c.
Eff(c) == IF Redispatch THEN st ELSE cap[c]

\* state.py:17-24  `transfer.state.<op>` is evaluated (captures the state object), then the
\* wrapper waits for the lock.  An uncontended asyncio.Lock is acquired without suspending.
Call(c, o, t) ==
  /\ pc[c] = "idle"
  /\ loaded
  /\ t => o \notin {"abort", "pause"}   \* the transfer's own task never aborts/pauses itself
  /\ op' = [op EXCEPT ![c] = o]
  /\ cap' = [cap EXCEPT ![c] = st]
  /\ isTask' = [isTask EXCEPT ![c] = t]
  /\ IF holder = 0 /\ waitq = <<>>
       THEN /\ holder' = c /\ pc' = [pc EXCEPT ![c] = "body"] /\ UNCHANGED waitq
       ELSE /\ waitq' = Append(waitq, c) /\ pc' = [pc EXCEPT ![c] = "waiting"] /\ UNCHANGED holder
  /\ UNCHANGED <<dir, st, file, failR, abortR, bg, bgCancelled, ret, lastEdge, lst2, loaded>>

\* asyncio.Lock is FIFO: release wakes the first waiter; later arrivals queue behind it.
Acquire(c) ==
  /\ holder = 0 /\ waitq # <<>> /\ Head(waitq) = c
  /\ holder' = c /\ waitq' = Tail(waitq)
  /\ pc' = [pc EXCEPT ![c] = "body"]
  /\ UNCHANGED <<dir, st, file, failR, abortR, bg, bgCancelled, op, cap, isTask, ret, lastEdge, lst2, loaded>>

\* base-class method: log and return False; the lock is released in the same stretch.
Refuse(c) ==
  /\ pc[c] = "body" /\ holder = c
  /\ ~Allowed(Eff(c), op[c], dir)
  /\ ret' = [ret EXCEPT ![c] = "false"]
  /\ pc' = [pc EXCEPT ![c] = "done"]
  /\ holder' = 0
  /\ UNCHANGED <<dir, st, file, failR, abortR, bg, bgCancelled, waitq, op, cap, isTask, lastEdge, lst2, loaded>>

\* Callers that are the transfer's own task and are still waiting for the lock.
WaitingTasks == {x \in Callers : isTask[x] /\ pc[x] = "waiting"}

\* First stretch of an allowed method body: cancel_tasks() (state.py _cancel_transfer_tasks).
\* With nothing to cancel `await gather()` does not suspend.
BodyStart(c) ==
  /\ pc[c] = "body" /\ holder = c
  /\ Allowed(Eff(c), op[c], dir)
  /\ IF CancelsTasks(Eff(c), op[c]) /\ (bg \/ WaitingTasks # {})
       THEN /\ bgCancelled' = bg
            /\ pc' = [pc EXCEPT ![c] = "cancelwait"]
       ELSE /\ pc' = [pc EXCEPT ![c] = IF RemovesFile(Eff(c), op[c], dir) /\ file THEN "rmfile" ELSE "trans"]
            /\ UNCHANGED bgCancelled
  /\ UNCHANGED <<dir, st, file, failR, abortR, bg, holder, waitq, op, cap, isTask, ret, lastEdge, lst2, loaded>>

\* environment: the cancelled tasks have really ended (CancelledError delivered to lock waiters)
TasksGone(c) ==
  /\ pc[c] = "cancelwait"
  /\ bg' = FALSE /\ bgCancelled' = FALSE
  /\ waitq' = SelectSeq(waitq, LAMBDA x : x \notin WaitingTasks)
  /\ pc' = [x \in Callers |-> IF x \in WaitingTasks THEN "cancelled"
                              ELSE IF x = c THEN (IF RemovesFile(Eff(c), op[c], dir) /\ file THEN "rmfile" ELSE "trans")
                              ELSE pc[x]]
  /\ UNCHANGED <<dir, st, file, failR, abortR, holder, op, cap, isTask, ret, lastEdge, lst2, loaded>>

\* _remove_local_file: exists + remove run in the executor (suspends)
FileGone(c) ==
  /\ pc[c] = "rmfile"
  /\ file' = FALSE
  /\ pc' = [pc EXCEPT ![c] = "trans"]
  /\ UNCHANGED <<dir, st, failR, abortR, bg, bgCancelled, holder, waitq, op, cap, isTask, ret, lastEdge, lst2, loaded>>

\* the removal fails (OSError: permissions, the path is a directory, I/O error).  state.py:40-46
\* logs it and goes on: the abort is an allowed operation and still happens; the file stays.
FileFail(c) ==
  /\ pc[c] = "rmfile"
  /\ pc' = [pc EXCEPT ![c] = "trans"]
  /\ UNCHANGED <<dir, st, file, failR, abortR, bg, bgCancelled, holder, waitq, op, cap, isTask, ret, lastEdge, lst2, loaded>>

\* Transfer.transition (model.py:222-237): the new state is installed, then the listeners are
\* awaited one after the other - the manager first, the application's listener behind it.
\*   "none"  : the listener returns; return True + lock release in the same stretch
\*   "raise" : the exception propagates through the state method to the caller; the lock is
\*             released by `async with`; the state stays the new one (the listeners in front
\*             have been told)
\*   "slow"  : the caller is suspended inside the notification, still holding the lock
Transition(c) ==
  /\ pc[c] = "trans" /\ holder = c
  /\ LET new == Target(op[c], dir) IN
       /\ lastEdge' = <<st, new>>
       /\ st' = new
       /\ failR' = IF op[c] = "fail" THEN TRUE
                   ELSE IF op[c] = "queue" /\ Eff(c) \in {"FAILED", "ABORTED"} THEN FALSE ELSE failR
       /\ abortR' = IF op[c] = "abort" THEN TRUE
                    ELSE IF op[c] = "queue" /\ Eff(c) \in {"FAILED", "ABORTED"} THEN FALSE ELSE abortR
  /\ IF lst2 = "slow"
       THEN /\ pc' = [pc EXCEPT ![c] = "lstwait"]
            /\ UNCHANGED <<ret, holder>>
       ELSE /\ ret' = [ret EXCEPT ![c] = IF lst2 = "raise" THEN "raised" ELSE "true"]
            /\ pc' = [pc EXCEPT ![c] = "done"]
            /\ holder' = 0
  /\ UNCHANGED <<dir, file, bg, bgCancelled, waitq, op, cap, isTask, lst2, loaded>>

\* the slow listener returns: return True + lock release
ListenerDone(c) ==
  /\ pc[c] = "lstwait" /\ holder = c
  /\ ret' = [ret EXCEPT ![c] = "true"]
  /\ pc' = [pc EXCEPT ![c] = "done"]
  /\ holder' = 0
  /\ UNCHANGED <<dir, st, file, failR, abortR, bg, bgCancelled, waitq, op, cap, isTask, lastEdge, lst2, loaded>>

\* environment: the caller is cancelled while the slow listener is awaited (a time-out around
\* the API call, the application shutting down).  CancelledError leaves through the state
\* method; the state stays the new one.
CancelInListener(c) ==
  /\ pc[c] = "lstwait" /\ holder = c
  /\ ret' = [ret EXCEPT ![c] = "raised"]
  /\ pc' = [pc EXCEPT ![c] = "done"]
  /\ holder' = 0
  /\ UNCHANGED <<dir, st, file, failR, abortR, bg, bgCancelled, waitq, op, cap, isTask, lastEdge, lst2, loaded>>

Next ==
  \/ \E c \in Callers, o \in Ops, t \in BOOLEAN : Call(c, o, t)
  \/ \E c \in Callers : Acquire(c) \/ Refuse(c) \/ BodyStart(c) \/ TasksGone(c) \/ FileGone(c) \/ Transition(c)
  \/ \E c \in Callers : ListenerDone(c) \/ CancelInListener(c) \/ FileFail(c)
  \/ Load

Spec == Init /\ [][Next]_vars

----------------------------------------------------------------------------
\* Properties

TypeOK ==
  /\ st \in States /\ dir \in {"up", "down"}
  /\ holder \in Callers \cup {0}
  /\ \A c \in Callers : pc[c] \in {"idle", "waiting", "body", "cancelwait", "rmfile", "trans", "lstwait", "done",
                                   "cancelled"}
  /\ \A c \in Callers : ret[c] \in {"none", "true", "false", "raised"}
  /\ lst2 \in {"none", "raise", "slow"} /\ loaded \in BOOLEAN

\* Every observable change is an edge of the documented graph.  (The correction of a stored
\* record by Load happens before the transfer has any listener: not observable.)
LegalEdges == [][(loaded /\ st' # st) => <<st, st'>> \in Edge]_vars

\* What read_cache hands to the listeners is never a state that needs a live task/connection.
LoadedIsSettled == [][(~loaded /\ loaded') => st' \notin {"INITIALIZING", "DOWNLOADING", "UPLOADING"}]_vars

\* Reported pairs chain up and say the truth.
Notified == [][(loaded /\ st' # st) => lastEdge' = <<st, st'>>]_vars

\* At most one caller is inside a method body.
InBody == {"body", "cancelwait", "rmfile", "trans", "lstwait"}
Mutex == Cardinality({c \in Callers : pc[c] \in InBody}) <= 1
HolderInBody == \A c \in Callers : pc[c] \in InBody => holder = c

\* An exception out of a listener (or a cancellation inside one) does not undo the transition:
\* whoever was told before still knows the truth.
RaisedKeepsState ==
  [][\A c \in Callers : (ret[c] = "none" /\ ret'[c] = "raised") => st' = Target(op[c], dir)]_vars

\* A refused request changes nothing.
RefusalHasNoEffect ==
  [][\A c \in Callers : (ret[c] = "none" /\ ret'[c] = "false") =>
        <<st, file, failR, abortR, bg, bgCancelled>>' = <<st, file, failR, abortR, bg, bgCancelled>>]_vars

\* A refusal happens only when the operation is not allowed (in the state at the time of the
\* call or in the state current when it is executed).
RefusedOnlyIfNotAllowed ==
  [][\A c \in Callers : (ret[c] = "none" /\ ret'[c] = "false") =>
        (~Allowed(st, op[c], dir) \/ ~Allowed(cap[c], op[c], dir))]_vars

\* The file of a download disappears only by an abort.
FileOnlyRemovedByAbort ==
  [][(file /\ ~file') => \E c \in Callers : op[c] = "abort" /\ pc[c] = "rmfile"]_vars

----------------------------------------------------------------------------
\* State constraints used by the schedule-generation configs (not properties).
\* Callers call in the order 1, 2, 3 (symmetry) ...
OrderedCallers == \A c \in Callers : (c > 1 /\ pc[c] # "idle") => pc[c - 1] # "idle"
\* ... and the first call is a slow one (abort/pause with something to cancel or a file to
\* remove), because only a suspended holder lets other callers overlap.
SlowFocus ==
  /\ OrderedCallers
  /\ pc[1] # "idle" => /\ op[1] \in {"abort", "pause"}
                        /\ cap[1] \notin {"VIRGIN", "COMPLETE", "FAILED", "ABORTED"}
=============================================================================

SPECIFICATION TSpec
CONSTANTS
  Callers = {1, 2, 3}
  Redispatch = TRUE
  StartStates = {"VIRGIN", "QUEUED", "INITIALIZING", "INCOMPLETE", "DOWNLOADING", "UPLOADING", "COMPLETE", "FAILED", "ABORTED", "PAUSED"}
  Dirs = {"up", "down"}
  Lst2Kinds = {"none"}
  WithLoad = FALSE
INVARIANT Mutex
INVARIANT HolderInBody
PROPERTY LegalEdges
PROPERTY Notified
CHECK_DEADLOCK TRUE

SPECIFICATION Spec
CONSTANTS
  Callers = {1, 2}
  Redispatch = TRUE
  StartStates = {"VIRGIN", "QUEUED", "INITIALIZING", "INCOMPLETE", "DOWNLOADING", "UPLOADING", "COMPLETE", "FAILED", "ABORTED", "PAUSED"}
  Dirs = {"up", "down"}
  Lst2Kinds = {"none"}
  WithLoad = TRUE
INVARIANT TypeOK
INVARIANT Mutex
INVARIANT HolderInBody
PROPERTY LegalEdges
PROPERTY Notified
PROPERTY RefusalHasNoEffect
PROPERTY RefusedOnlyIfNotAllowed
PROPERTY FileOnlyRemovedByAbort
PROPERTY LoadedIsSettled
CHECK_DEADLOCK FALSE

SPECIFICATION TSpec
CONSTANTS
  Callers = {1}
  Redispatch = TRUE
  StartStates = {"VIRGIN"}
  Dirs = {"down"}
CHECK_DEADLOCK FALSE

----------------------------- MODULE MC_Codec -----------------------------
(***************************************************************************)
(* Model-level theorems of Codec, evaluated by TLC over an enumerated      *)
(* domain: one initial state per case, one Eval step per case.             *)
(*                                                                         *)
(*  Source = "self": the domain is defined here (every primitive type at   *)
(*     its boundary values; obfuscation for every payload length 0..140    *)
(*     and the boundary keys; the documentation's worked example).         *)
(*  Source = "file": cases written by harness/props/c01.py (CASE_FILE):    *)
(*     [kind |-> "msg", cls, v, key]  a message value of a pinned class     *)
(*     [kind |-> "obf", key, data]    an obfuscation vector                 *)
(*     [kind |-> "anchor", cls, v, bytes]  a hand-written byte string       *)
(*     [kind |-> "giant", cls, rest, rep, elem, K]  a message whose array    *)
(*          field rep holds K copies of elem (body of tens of MiB)          *)
(*     [kind |-> "hist", cls, steps]  the successive values of ONE message   *)
(*          object that is sent, changed, sent again ...                    *)
(*     [kind |-> "conn", obf, msgs]   messages sent concurrently on one      *)
(*          connection (theorems about StreamIntact)                        *)
(*  For msg / obf cases Eval also prints the prescribed bytes              *)
(*     <<"P", cid, frame-or-inner-body>>,  <<"O", cid, obfuscated>>,        *)
(*     <<"G", cid, <<pre, unit, post>>>>  (the pieces of a giant body)      *)
(*  (the byte sequence as a JSON string, so that a case is one short line)  *)
(*  which the harness feeds to the real parser.                            *)
(***************************************************************************)
EXTENDS Codec, IOUtils, SequencesExt

CONSTANT Source

ASSUME PinWellFormed == LayoutWF

FileCases == IF "CASE_FILE" \in DOMAIN IOEnv THEN JsonDeserialize(IOEnv.CASE_FILE) ELSE <<>>

\* ---- the self-contained domain -------------------------------------------
Pow16 == {0, 1, 2, 127, 128, 255, 256, 257, 32767, 32768, 32769, 65534, 65535, 4660, 43981}
Bound(t) ==
  CASE t = "uint8"  -> {<<n>> : n \in 0..255}
    [] t = "uint16" -> {<<n>> : n \in Pow16}
    [] t = "uint32" -> {<<a, b>> : a \in Pow16, b \in Pow16}
    [] t = "uint64" -> {<<a, b, c, d>> : a \in {0, 1, 255, 256, 65535, 4660}, b \in {0, 65535, 32768},
                                          c \in {0, 1, 65535}, d \in {0, 1, 32767, 32768, 65535}}
    [] t = "int32"  -> {[neg |-> FALSE, mag |-> <<a, b>>] : a \in Pow16, b \in {x \in Pow16 : x < 32768}}
                       \cup {[neg |-> TRUE, mag |-> <<a, b>>] : a \in Pow16 \ {0}, b \in {x \in Pow16 : x < 32768}}
                       \cup {[neg |-> TRUE, mag |-> <<0, b>>] : b \in {x \in Pow16 : x > 0 /\ x <= 32768}}
    [] t = "boolean" -> BOOLEAN
    [] t = "string"  -> {<<>>, <<97>>, <<195, 169>>, <<240, 159, 142, 181, 0>>, [i \in 1..300 |-> (i * 7) % 256]}
    [] t = "bytearr" -> {<<>>, <<0>>, <<255, 0, 255>>, [i \in 1..257 |-> (i * 11) % 256]}
    [] t = "ipaddr"  -> {<<0, 0, 0, 0>>, <<255, 255, 255, 255>>, <<1, 2, 3, 4>>, <<192, 168, 0, 255>>}
BoundKeys == {<<0, 0, 0, 0>>, <<255, 255, 255, 255>>, <<1, 0, 0, 128>>, <<128, 0, 0, 1>>, <<0, 0, 0, 128>>,
              <<1, 0, 0, 0>>, <<255, 255, 255, 127>>, <<85, 170, 85, 170>>, DocKey, <<18, 52, 86, 120>>}
Pattern(n) == [i \in 1..n |-> (i * 37 + 11) % 256]

SelfSet ==
  UNION {{[kind |-> "prim", t |-> t, v |-> v] : v \in Bound(t)} : t \in Prims}
  \cup {[kind |-> "arr", t |-> t, v |-> <<>>] : t \in Prims}
  \cup {[kind |-> "obf", key |-> k, data |-> Pattern(n)] : k \in BoundKeys, n \in 0..140}
  \cup {[kind |-> "doc"]}

VARIABLES cid,        \* Source = "file": index into FileCases;  "self": 0
          c,          \* Source = "self": the case;  "file": the kind only
          stage, okDom, okRT, okFrame, okObf, okAnchor
vars == <<cid, c, stage, okDom, okRT, okFrame, okObf, okAnchor>>

Case == IF Source = "file" THEN FileCases[cid] ELSE c

Init ==
  /\ stage = "todo" /\ okDom = TRUE /\ okRT = TRUE /\ okFrame = TRUE /\ okObf = TRUE /\ okAnchor = TRUE
  /\ IF Source = "file"
     THEN cid \in 1..Len(FileCases) /\ c = FileCases[cid].kind
     ELSE cid = 0 /\ c \in SelfSet

Finish(dom, rt, fr, ob, an) ==
  /\ stage' = "done" /\ okDom' = dom /\ okRT' = rt /\ okFrame' = fr /\ okObf' = ob /\ okAnchor' = an
  /\ UNCHANGED <<cid, c>>

ObfTheorems(k, d) ==
  LET x == Obf(k, d) IN
    /\ Len(x) = Len(d) + 4 /\ SubSeq(x, 1, 4) = k
    /\ Deobf(x) = d
    /\ x = ObfDef(k, d) /\ DeobfDef(x) = d          \* the cycle form is the block-by-block definition

\* (values are bound with \E x \in {e}: TLC then evaluates e once; a LET would be re-evaluated per use)
EvalMsg ==
  /\ stage = "todo" /\ Case.kind = "msg"
  /\ \E m \in {Messages[Case.cls]}, v \in {Case.v} :
       \E b \in {Body(m, v)} :
         \E F \in {FrameOf(m, b)}, r \in {ParseBody(m, b)} :
           /\ PrintT(<<"P", cid, ToJson(IF m.compressed THEN b ELSE F)>>)
           /\ Finish(MsgDom(m, v),
                     r.v = v /\ r.p = Len(b) + 1,
                     /\ Len(F) = 4 + FromU32(F, 1) /\ FromU32(F, 1) = m.code_width + Len(b)
                     /\ HeaderOK(m, F) /\ SubSeq(F, 5 + m.code_width, Len(F)) = b,
                     Deobf(Obf(Case.key, F)) = F,
                     TRUE)

EvalObf ==
  /\ stage = "todo" /\ Case.kind = "obf"
  /\ (Source = "file" => PrintT(<<"O", cid, ToJson(Obf(Case.key, Case.data))>>))
  /\ Finish(TRUE, TRUE, TRUE, ObfTheorems(Case.key, Case.data), TRUE)

EvalAnchor ==
  /\ stage = "todo" /\ Case.kind = "anchor"
  /\ LET m == Messages[Case.cls] IN
       Finish(MsgDom(m, Case.v), TRUE, TRUE, TRUE,
              IF m.compressed THEN Body(m, Case.v) = Case.bytes ELSE Frame(m, Case.v) = Case.bytes)

EvalPrim ==
  /\ stage = "todo" /\ Case.kind = "prim"
  /\ LET b == SerT(Case.t, "none", Case.v)
         r == ParseT(Case.t, "none", b, 1)
         arr == <<Case.v, Case.v, Case.v>>
         ab == SerT("array", Case.t, arr)
         ar == ParseT("array", Case.t, ab, 1)
     IN Finish(InDom(Case.t, "none", Case.v),
               /\ r.v = Case.v /\ r.p = Len(b) + 1
               /\ ar.v = arr /\ ar.p = Len(ab) + 1 /\ Len(ab) = 4 + 3 * Len(b),
               /\ Case.t \in DOMAIN IntWidth => Len(b) = IntWidth[Case.t]
               /\ Case.t \in {"int32", "ipaddr"} => Len(b) = 4
               /\ Case.t = "boolean" => Len(b) = 1
               /\ Case.t \in {"string", "bytearr"} => Len(b) = 4 + Len(Case.v) /\ FromU32(b, 1) = Len(Case.v),
               TRUE, TRUE)

EvalArr ==      \* empty arrays
  /\ stage = "todo" /\ Case.kind = "arr"
  /\ LET ab == SerT("array", Case.t, <<>>) IN
       Finish(TRUE, ab = <<0, 0, 0, 0>> /\ ParseT("array", Case.t, ab, 1) = [v |-> <<>>, p |-> 5], TRUE, TRUE, TRUE)

EvalDoc ==      \* the worked example of SOULSEEK.rst, and the 32-rotation cycle
  /\ stage = "todo" /\ Case.kind = "doc"
  /\ Finish(TRUE, TRUE, TRUE,
            /\ ObfDef(DocKey, DocMsg) = DocObf /\ Obf(DocKey, DocMsg) = DocObf /\ Deobf(DocObf) = DocMsg
            /\ Rot(DocKey) = <<40, 40, 221, 149>> /\ Rot(Rot(DocKey)) = <<81, 80, 186, 43>>
            /\ \A k \in BoundKeys : KeySched(k, 32, <<>>)[32] = k,
            TRUE)

\* a giant value: the decomposition into pieces is checked on the instance with two copies
EvalGiant ==
  /\ stage = "todo" /\ Case.kind = "giant"
  /\ \E m \in {Messages[Case.cls]} :
       \E p \in {RepPieces(m, Case.rest, Case.rep, Case.elem)},
          v2 \in {Case.rest @@ (Case.rep :> <<Case.elem, Case.elem>>)} :
         \E b2 \in {Body(m, v2)} :
           /\ PrintT(<<"G", cid, ToJson(<<p.pre, p.unit, p.post>>)>>)
           /\ Finish(MsgDom(m, v2) /\ Case.K >= 1 /\ Case.rep \notin DOMAIN Case.rest,
                     /\ b2 = p.pre \o U32(2) \o p.unit \o p.unit \o p.post
                     /\ ParseBody(m, b2).v = v2,
                     Len(p.unit) > 0 /\ RepLen(p, 2) = Len(b2) /\ RepLen(p, Case.K) > RepLen(p, 2) - 1,
                     TRUE, TRUE)

\* a history of values of one object: all in the domain, and a changed value has a different wire
\* form (so a sender that writes the bytes of an earlier value is distinguishable)
EvalHist ==
  /\ stage = "todo" /\ Case.kind = "hist"
  /\ \E m \in {Messages[Case.cls]} :
       \E fr \in {[i \in 1..Len(Case.steps) |-> Body(m, Case.steps[i])]} :
         Finish(\A i \in 1..Len(Case.steps) : MsgDom(m, Case.steps[i]),
                \A i, j \in 1..Len(Case.steps) : (Case.steps[i] # Case.steps[j]) => fr[i] # fr[j],
                \E i, j \in 1..Len(Case.steps) : fr[i] # fr[j],
                TRUE, TRUE)

\* concurrently sent messages: every order of whole frames is intact, a frame inside a frame is not
EvalConn ==
  /\ stage = "todo" /\ Case.kind = "conn"
  /\ \E frames \in {[i \in 1..Len(Case.msgs) |-> Frame(Messages[Case.msgs[i].cls], Case.msgs[i].v)]} :
       \E cat \in {Flat(frames)}, rev \in {Flat([i \in 1..Len(frames) |-> frames[Len(frames) + 1 - i]])} :
         Finish(\A i \in 1..Len(Case.msgs) : MsgDom(Messages[Case.msgs[i].cls], Case.msgs[i].v),
                TRUE,
                /\ StreamIntact(cat, frames, FALSE) /\ StreamIntact(rev, frames, FALSE)
                /\ Len(frames) >= 2 =>
                     LET A == frames[1]  B == frames[2]  k == (Len(A) + 1) \div 2
                         mixed == SubSeq(A, 1, k) \o B \o SubSeq(A, k + 1, Len(A))
                                    \o Flat([i \in 1..(Len(frames) - 2) |-> frames[i + 2]])
                     IN Len(B) > 0 /\ k < Len(A) => ~StreamIntact(mixed, frames, FALSE)
                /\ ~StreamIntact(SubSeq(cat, 1, Len(cat) - 1), frames, FALSE),
                LET ob == Flat([i \in 1..Len(frames) |-> Obf(Case.key, frames[i])])
                IN StreamIntact(ob, frames, TRUE) /\ ~StreamIntact(ob, frames, FALSE),
                TRUE)

Stay == stage = "done" /\ UNCHANGED vars

Next == EvalMsg \/ EvalObf \/ EvalAnchor \/ EvalGiant \/ EvalHist \/ EvalConn \/ EvalPrim \/ EvalArr \/ EvalDoc \/ Stay
Spec == Init /\ [][Next]_vars

\* ---- the theorems ----------------------------------------------------------
InDomain == okDom                 \* every enumerated value is a value of its type / message
RoundTrip == okRT                 \* Parse(Ser(x)) = x, consuming exactly the bytes
Framing == okFrame                \* length prefix = bytes that follow; code as pinned; widths
ObfRoundTrip == okObf             \* Deobf(Obf(k, d)) = d; cycle form = definition; documented example
Anchors == okAnchor               \* hand-written byte strings are what Ser prescribes
Evaluated == <>[](stage = "done")
=============================================================================

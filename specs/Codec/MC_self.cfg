SPECIFICATION Spec
CONSTANT Source = "self"
INVARIANT InDomain
INVARIANT RoundTrip
INVARIANT Framing
INVARIANT ObfRoundTrip
INVARIANT Anchors
CHECK_DEADLOCK FALSE

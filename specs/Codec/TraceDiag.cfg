SPECIFICATION TSpec
INVARIANT ByteCompat
INVARIANT DecodeEqual
INVARIANT ObfCompat
INVARIANT NoException
INVARIANT FedValid
ALIAS DiagView
CHECK_DEADLOCK TRUE

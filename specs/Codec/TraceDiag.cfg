SPECIFICATION TSpec
INVARIANT ByteCompat
INVARIANT DecodeEqual
INVARIANT ObfCompat
INVARIANT FramesIntact
INVARIANT NoException
INVARIANT FedValid
ALIAS DiagView
CHECK_DEADLOCK TRUE

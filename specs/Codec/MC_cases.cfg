SPECIFICATION Spec
CONSTANT Source = "file"
INVARIANT InDomain
INVARIANT RoundTrip
INVARIANT Framing
INVARIANT ObfRoundTrip
INVARIANT Anchors
CHECK_DEADLOCK FALSE

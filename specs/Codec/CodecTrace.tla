----------------------------- MODULE CodecTrace -----------------------------
(***************************************************************************)
(* Trace validation for C01: what the real aioslsk codec did with a case   *)
(* (recorded by harness/props/c01.py) is judged against Codec.             *)
(*                                                                         *)
(* A trace is the observation of ONE case.  First record:                  *)
(*   case    : cls, v                 a message value of a pinned class     *)
(*   obfcase : key, data              an obfuscation vector                 *)
(* then, for a message case                                                *)
(*   fed    : bytes, zok, inflated    the bytes the harness will feed to    *)
(*                                    the parsers (prescribed by MC_Codec)  *)
(*   ser    : ok, bytes, zok, inflated   cls(v).serialize()                 *)
(*   enc    : ok, bytes, zok, inflated   DataConnection.encode_message_data *)
(*   encobf : ok, bytes               same on an obfuscated connection      *)
(*   deser  : ok, via, cls, v         a parser's result, re-abstracted;     *)
(*            via = class | dispatch | conn | conn_obf                      *)
(* and for an obfuscation case                                             *)
(*   obffed : bytes        the prescribed obfuscated form fed to decode     *)
(*   obfenc : ok, bytes    obfuscation.encode(data, key)                    *)
(*   obfdec : ok, bytes    obfuscation.decode(fed)                          *)
(*   into   : ok, prefix, bytes, zok, inflated   the contents of a buffer    *)
(*            that held `prefix` after msg.serialize_into(buffer)           *)
(* for a history case (histcase: cls): ONE message object is sent several   *)
(* times, over one or two connections, and changed between the sends        *)
(*   hsend  : ok, obf, v, bytes, zok, inflated   v = the value of the object *)
(*            at this send (input), bytes = what the connection wrote        *)
(*   hrecv  : ok, v, cls, got   what a receiving connection decoded from the *)
(*            bytes of the send of value v                                   *)
(* for a giant case (gcase: cls, rest, rep, elem, K - see Codec, RepPieces)  *)
(*   gfed / gser / genc : [ok,] bytes, zok, sum   a compressed frame and the *)
(*            summary of inflate(payload) (Codec!SummaryOK)                  *)
(*   gdeser : ok, via, cls, n, alleq, first, rest   a parser's result: the   *)
(*            rep field has n elements, all equal to `first`; other fields   *)
(* and for a connection case (conncase: obf, msgs = <<[cls, v], ...>>)       *)
(*   stream : ok, bytes     everything the connection wrote while the        *)
(*            messages were sent concurrently under back-pressure            *)
(*   recv   : ok, cls, v    a message the receiving connection decoded       *)
(*   recvdone               the receiver has read as many as were sent       *)
(*   send   : ok = FALSE    a send raised                                    *)
(* ok = FALSE (with exc) records an exception raised by the code under test.*)
(* zok/inflated: for compressed messages the harness' zlib.decompress of    *)
(* the payload (zlib is an uninterpreted bijection for the specification).  *)
(*                                                                         *)
(* Every event is consumed; what it showed is kept in `last`, and the       *)
(* properties below are state predicates on it (CONSTRAINTs in Trace.cfg,   *)
(* INVARIANTs in TraceDiag.cfg).                                            *)
(***************************************************************************)
EXTENDS Codec, IOUtils

Traces == JsonDeserialize(IOEnv.TRACE_FILE)

VARIABLES tid, l,
          body,     \* Body(m, v) of the case (data for an obfuscation case)
          wire,     \* the accepted wire form: Frame(m, v); for a compressed message the real frame
                    \* once `ser` showed it valid; Obf(key, data) for an obfuscation case
          last,     \* [prop, good]: what the last event showed
          pend      \* connection case: indices of the messages not yet received
tvars == <<tid, l, body, wire, last, pend>>

T == Traces[tid]
Rec == T[l]
C == T[1]
M == Messages[C.cls]

TInit ==
  /\ tid \in 1..Len(Traces)
  /\ l = 2
  /\ LET c == Traces[tid][1] IN
       /\ c.ev \in {"case", "obfcase", "gcase", "conncase", "histcase"}
       /\ CASE c.ev = "case" ->
                 LET m == Messages[c.cls]
                     b == Body(m, c.v)
                 IN body = b /\ wire = (IF m.compressed THEN <<>> ELSE FrameOf(m, b)) /\ pend = {}
            [] c.ev = "obfcase" -> body = c.data /\ wire = Obf(c.key, c.data) /\ pend = {}
            [] c.ev = "gcase" ->
                 LET p == RepPieces(Messages[c.cls], c.rest, c.rep, c.elem)
                 IN body = <<p.pre, p.unit, p.post>> /\ wire = <<>> /\ pend = {}
            [] c.ev = "histcase" -> body = <<>> /\ wire = <<>> /\ pend = {}
            [] c.ev = "conncase" ->
                 body = <<>> /\ wire = <<>> /\ pend = 1..Len(c.msgs)
  /\ last = [prop |-> "init", good |-> TRUE]

IsEv(e) == l <= Len(T) /\ Rec.ev = e
Consume == l' = l + 1 /\ UNCHANGED <<tid, body, pend>>
Show(p, g) == last' = [prop |-> p, good |-> g]

\* Is F a wire form of the case?
ValidWire(F, zok, inflated) ==
  IF M.compressed THEN HeaderOK(M, F) /\ zok /\ inflated = body
  ELSE F = wire

TFed ==
  /\ IsEv("fed") /\ C.ev = "case"
  /\ Show("fed", ValidWire(Rec.bytes, Rec.zok, Rec.inflated))
  /\ Consume /\ UNCHANGED wire

TSer ==
  /\ IsEv("ser") /\ C.ev = "case" /\ Rec.ok
  /\ LET g == ValidWire(Rec.bytes, Rec.zok, Rec.inflated) IN
       /\ Show("bytes", g)
       /\ wire' = IF M.compressed /\ g THEN Rec.bytes ELSE wire
  /\ Consume

TEnc ==
  /\ IsEv("enc") /\ C.ev = "case" /\ Rec.ok
  /\ Show("bytes", ValidWire(Rec.bytes, Rec.zok, Rec.inflated))
  /\ Consume /\ UNCHANGED wire

\* an obfuscated connection sends key \o obfuscated(wire form); the key is the sender's choice
TEncObf ==
  /\ IsEv("encobf") /\ C.ev \in {"case", "gcase"} /\ Rec.ok
  /\ Show("obf", Len(Rec.bytes) >= 4 /\ wire # <<>> /\ Deobf(Rec.bytes) = wire)
  /\ Consume /\ UNCHANGED wire

\* a parser returned an object of class Rec.cls whose fields abstract to Rec.v
TDeser ==
  /\ IsEv("deser") /\ C.ev = "case" /\ Rec.ok
  /\ Show("decode", Rec.cls = C.cls /\ Rec.v = Expected(M, C.v))
  /\ Consume /\ UNCHANGED wire

TObfFed ==
  /\ IsEv("obffed") /\ C.ev = "obfcase"
  /\ Show("fed", Rec.bytes = wire)
  /\ Consume /\ UNCHANGED wire

TObfEnc ==
  /\ IsEv("obfenc") /\ C.ev = "obfcase" /\ Rec.ok
  /\ Show("obf", Rec.bytes = wire)
  /\ Consume /\ UNCHANGED wire

TObfDec ==
  /\ IsEv("obfdec") /\ C.ev = "obfcase" /\ Rec.ok
  /\ Show("obf", Rec.bytes = body)
  /\ Consume /\ UNCHANGED wire

\* serialising into a buffer appends exactly one wire form and leaves what the buffer held untouched
TInto ==
  /\ IsEv("into") /\ C.ev = "case" /\ Rec.ok
  /\ Show("bytes", /\ Len(Rec.bytes) >= Len(Rec.prefix)
                    /\ SubSeq(Rec.bytes, 1, Len(Rec.prefix)) = Rec.prefix
                    /\ ValidWire(SubSeq(Rec.bytes, Len(Rec.prefix) + 1, Len(Rec.bytes)), Rec.zok, Rec.inflated))
  /\ Consume /\ UNCHANGED wire

\* ---- history cases: what is written is the wire form of the value AT THE TIME of the send ------
THSend ==
  /\ IsEv("hsend") /\ C.ev = "histcase" /\ Rec.ok
  /\ IF Rec.obf
     THEN Show("obf", ~M.compressed /\ Len(Rec.bytes) >= 4 /\ Deobf(Rec.bytes) = Frame(M, Rec.v))
     ELSE Show("bytes", IF M.compressed
                        THEN HeaderOK(M, Rec.bytes) /\ Rec.zok /\ Rec.inflated = Body(M, Rec.v)
                        ELSE Rec.bytes = Frame(M, Rec.v))
  /\ Consume /\ UNCHANGED wire

THRecv ==
  /\ IsEv("hrecv") /\ C.ev = "histcase" /\ Rec.ok
  /\ Show("decode", Rec.cls = C.cls /\ Rec.got = Expected(M, Rec.v))
  /\ Consume /\ UNCHANGED wire

\* ---- giant cases ---------------------------------------------------------------
Pieces == [pre |-> body[1], unit |-> body[2], post |-> body[3]]
ValidGiant(F, zok, sum) == HeaderOK(M, F) /\ zok /\ SummaryOK(sum, Pieces, C.K)

TGFed ==
  /\ IsEv("gfed") /\ C.ev = "gcase"
  /\ Show("fed", ValidGiant(Rec.bytes, Rec.zok, Rec.sum))
  /\ Consume /\ UNCHANGED wire

TGSer ==
  /\ IsEv("gser") /\ C.ev = "gcase" /\ Rec.ok
  /\ LET g == ValidGiant(Rec.bytes, Rec.zok, Rec.sum) IN
       Show("bytes", g) /\ wire' = IF g THEN Rec.bytes ELSE wire
  /\ Consume

TGEnc ==
  /\ IsEv("genc") /\ C.ev = "gcase" /\ Rec.ok
  /\ Show("bytes", ValidGiant(Rec.bytes, Rec.zok, Rec.sum))
  /\ Consume /\ UNCHANGED wire

TGDeser ==
  /\ IsEv("gdeser") /\ C.ev = "gcase" /\ Rec.ok
  /\ Show("decode", /\ Rec.cls = C.cls /\ Rec.n = C.K /\ Rec.alleq /\ Rec.first = C.elem
                     /\ Rec.rest = Expected(M, C.rest))
  /\ Consume /\ UNCHANGED wire

\* ---- connection cases ---------------------------------------------------------
\* (the prescribed frames are built here and not kept in the state: they are only needed once)
TStream ==
  /\ IsEv("stream") /\ C.ev = "conncase" /\ Rec.ok
  /\ \E frames \in {[i \in 1..Len(C.msgs) |-> Frame(Messages[C.msgs[i].cls], C.msgs[i].v)]} :
       Show("stream", StreamIntact(Rec.bytes, frames, C.obf))
  /\ Consume /\ UNCHANGED wire

TRecv ==
  /\ IsEv("recv") /\ C.ev = "conncase" /\ Rec.ok
  /\ LET hits == {i \in pend : /\ Rec.cls = C.msgs[i].cls
                                /\ Rec.v = Expected(Messages[C.msgs[i].cls], C.msgs[i].v)}
     IN IF hits = {} THEN Show("decode", FALSE) /\ pend' = pend
        ELSE Show("decode", TRUE) /\ pend' = pend \ {CHOOSE i \in hits : TRUE}
  /\ l' = l + 1 /\ UNCHANGED <<tid, body, wire>>

TRecvDone ==
  /\ IsEv("recvdone") /\ C.ev = "conncase"
  /\ Show("decode", pend = {})
  /\ Consume /\ UNCHANGED wire

\* the code under test raised, or a pinned class does not exist any more
TExc ==
  /\ l <= Len(T) /\ Rec.ev \in {"ser", "enc", "encobf", "deser", "obfenc", "obfdec", "missing",
                                "gser", "genc", "gdeser", "stream", "recv", "send", "into", "hsend", "hrecv"} /\ ~Rec.ok
  /\ Show("exception", FALSE)
  /\ Consume /\ UNCHANGED wire

Done ==
  /\ l = Len(T) + 1
  /\ PrintT(<<"ACCEPT", tid, {}>>)
  /\ l' = l + 1
  /\ UNCHANGED <<tid, body, wire, last, pend>>

Finished == l = Len(T) + 2 /\ UNCHANGED tvars

TNext == TFed \/ TSer \/ TInto \/ TEnc \/ TEncObf \/ TDeser \/ TObfFed \/ TObfEnc \/ TObfDec
           \/ THSend \/ THRecv
           \/ TGFed \/ TGSer \/ TGEnc \/ TGDeser \/ TStream \/ TRecv \/ TRecvDone \/ TExc \/ Done \/ Finished

TSpec == TInit /\ [][TNext]_tvars

\* what an error trace shows (TraceDiag.cfg): the byte sequences are left out
DiagView == [tid |-> tid, l |-> l, last |-> last, bodyLen |-> Len(body), wireLen |-> Len(wire), pend |-> pend]

\* ---- the property, one line per clause --------------------------------------
\* bytes produced for a value are the bytes the pinned layout prescribes (length prefix, code, body)
ByteCompat == ~(last.prop = "bytes" /\ ~last.good)
\* parsing the prescribed bytes yields an equal message of the same class, through every entry point
DecodeEqual == ~(last.prop = "decode" /\ ~last.good)
\* messages sent concurrently over one connection reach the wire as whole frames, in some order
FramesIntact == ~(last.prop = "stream" /\ ~last.good)
\* obfuscated output de-obfuscates (by the documented algorithm) to the wire form, and vice versa
ObfCompat == ~(last.prop = "obf" /\ ~last.good)
\* in-domain values are encoded / decoded without an exception
NoException == last.prop # "exception"
\* harness self-check: what was fed to the parsers is a wire form of the case
FedValid == ~(last.prop = "fed" /\ ~last.good)
=============================================================================

----------------------------- MODULE CodecTrace -----------------------------
(***************************************************************************)
(* Trace validation for C01: what the real aioslsk codec did with a case   *)
(* (recorded by harness/props/c01.py) is judged against Codec.             *)
(*                                                                         *)
(* A trace is the observation of ONE case.  First record:                  *)
(*   case    : cls, v                 a message value of a pinned class     *)
(*   obfcase : key, data              an obfuscation vector                 *)
(* then, for a message case                                                *)
(*   fed    : bytes, zok, inflated    the bytes the harness will feed to    *)
(*                                    the parsers (prescribed by MC_Codec)  *)
(*   ser    : ok, bytes, zok, inflated   cls(v).serialize()                 *)
(*   enc    : ok, bytes, zok, inflated   DataConnection.encode_message_data *)
(*   encobf : ok, bytes               same on an obfuscated connection      *)
(*   deser  : ok, via, cls, v         a parser's result, re-abstracted;     *)
(*            via = class | dispatch | conn | conn_obf                      *)
(* and for an obfuscation case                                             *)
(*   obffed : bytes        the prescribed obfuscated form fed to decode     *)
(*   obfenc : ok, bytes    obfuscation.encode(data, key)                    *)
(*   obfdec : ok, bytes    obfuscation.decode(fed)                          *)
(* ok = FALSE (with exc) records an exception raised by the code under test.*)
(* zok/inflated: for compressed messages the harness' zlib.decompress of    *)
(* the payload (zlib is an uninterpreted bijection for the specification).  *)
(*                                                                         *)
(* Every event is consumed; what it showed is kept in `last`, and the       *)
(* properties below are state predicates on it (CONSTRAINTs in Trace.cfg,   *)
(* INVARIANTs in TraceDiag.cfg).                                            *)
(***************************************************************************)
EXTENDS Codec, IOUtils

Traces == JsonDeserialize(IOEnv.TRACE_FILE)

VARIABLES tid, l,
          body,     \* Body(m, v) of the case (data for an obfuscation case)
          wire,     \* the accepted wire form: Frame(m, v); for a compressed message the real frame
                    \* once `ser` showed it valid; Obf(key, data) for an obfuscation case
          last      \* [prop, good]: what the last event showed
tvars == <<tid, l, body, wire, last>>

T == Traces[tid]
Rec == T[l]
C == T[1]
M == Messages[C.cls]

TInit ==
  /\ tid \in 1..Len(Traces)
  /\ l = 2
  /\ Traces[tid][1].ev \in {"case", "obfcase"}
  /\ IF Traces[tid][1].ev = "case"
     THEN LET m == Messages[Traces[tid][1].cls]
              b == Body(m, Traces[tid][1].v)
          IN body = b /\ wire = IF m.compressed THEN <<>> ELSE FrameOf(m, b)
     ELSE body = Traces[tid][1].data /\ wire = Obf(Traces[tid][1].key, Traces[tid][1].data)
  /\ last = [prop |-> "init", good |-> TRUE]

IsEv(e) == l <= Len(T) /\ Rec.ev = e
Consume == l' = l + 1 /\ UNCHANGED <<tid, body>>
Show(p, g) == last' = [prop |-> p, good |-> g]

\* Is F a wire form of the case?
ValidWire(F, zok, inflated) ==
  IF M.compressed THEN HeaderOK(M, F) /\ zok /\ inflated = body
  ELSE F = wire

TFed ==
  /\ IsEv("fed") /\ C.ev = "case"
  /\ Show("fed", ValidWire(Rec.bytes, Rec.zok, Rec.inflated))
  /\ Consume /\ UNCHANGED wire

TSer ==
  /\ IsEv("ser") /\ C.ev = "case" /\ Rec.ok
  /\ LET g == ValidWire(Rec.bytes, Rec.zok, Rec.inflated) IN
       /\ Show("bytes", g)
       /\ wire' = IF M.compressed /\ g THEN Rec.bytes ELSE wire
  /\ Consume

TEnc ==
  /\ IsEv("enc") /\ C.ev = "case" /\ Rec.ok
  /\ Show("bytes", ValidWire(Rec.bytes, Rec.zok, Rec.inflated))
  /\ Consume /\ UNCHANGED wire

\* an obfuscated connection sends key \o obfuscated(wire form); the key is the sender's choice
TEncObf ==
  /\ IsEv("encobf") /\ C.ev = "case" /\ Rec.ok
  /\ Show("obf", Len(Rec.bytes) >= 4 /\ wire # <<>> /\ Deobf(Rec.bytes) = wire)
  /\ Consume /\ UNCHANGED wire

\* a parser returned an object of class Rec.cls whose fields abstract to Rec.v
TDeser ==
  /\ IsEv("deser") /\ C.ev = "case" /\ Rec.ok
  /\ Show("decode", Rec.cls = C.cls /\ Rec.v = Expected(M, C.v))
  /\ Consume /\ UNCHANGED wire

TObfFed ==
  /\ IsEv("obffed") /\ C.ev = "obfcase"
  /\ Show("fed", Rec.bytes = wire)
  /\ Consume /\ UNCHANGED wire

TObfEnc ==
  /\ IsEv("obfenc") /\ C.ev = "obfcase" /\ Rec.ok
  /\ Show("obf", Rec.bytes = wire)
  /\ Consume /\ UNCHANGED wire

TObfDec ==
  /\ IsEv("obfdec") /\ C.ev = "obfcase" /\ Rec.ok
  /\ Show("obf", Rec.bytes = body)
  /\ Consume /\ UNCHANGED wire

\* the code under test raised, or a pinned class does not exist any more
TExc ==
  /\ l <= Len(T) /\ Rec.ev \in {"ser", "enc", "encobf", "deser", "obfenc", "obfdec", "missing"} /\ ~Rec.ok
  /\ Show("exception", FALSE)
  /\ Consume /\ UNCHANGED wire

Done ==
  /\ l = Len(T) + 1
  /\ PrintT(<<"ACCEPT", tid, {}>>)
  /\ l' = l + 1
  /\ UNCHANGED <<tid, body, wire, last>>

Finished == l = Len(T) + 2 /\ UNCHANGED tvars

TNext == TFed \/ TSer \/ TEnc \/ TEncObf \/ TDeser \/ TObfFed \/ TObfEnc \/ TObfDec \/ TExc \/ Done \/ Finished

TSpec == TInit /\ [][TNext]_tvars

\* what an error trace shows (TraceDiag.cfg): the byte sequences are left out
DiagView == [tid |-> tid, l |-> l, last |-> last, bodyLen |-> Len(body), wireLen |-> Len(wire)]

\* ---- the property, one line per clause --------------------------------------
\* bytes produced for a value are the bytes the pinned layout prescribes (length prefix, code, body)
ByteCompat == ~(last.prop = "bytes" /\ ~last.good)
\* parsing the prescribed bytes yields an equal message of the same class, through every entry point
DecodeEqual == ~(last.prop = "decode" /\ ~last.good)
\* obfuscated output de-obfuscates (by the documented algorithm) to the wire form, and vice versa
ObfCompat == ~(last.prop = "obf" /\ ~last.good)
\* in-domain values are encoded / decoded without an exception
NoException == last.prop # "exception"
\* harness self-check: what was fed to the parsers is a wire form of the case
FedValid == ~(last.prop = "fed" /\ ~last.good)
=============================================================================

------------------------------- MODULE Codec -------------------------------
(***************************************************************************)
(* C01 - the SoulSeek wire layout as an executable definition.             *)
(*                                                                         *)
(* Written from docs/source/MESSAGES.rst ("Data Types", "Message           *)
(* Structure") and docs/source/SOULSEEK.rst ("Obfuscation"); it shares no  *)
(* text with protocol/primitives.py.  The per-message field lists are not  *)
(* part of this module: they are the pinned layout `layout.json` (data).   *)
(*                                                                         *)
(* TLC integers are 32 bit, so integers are sequences of base-65536 limbs  *)
(* (least significant first), int32 is sign + magnitude, text is its UTF-8 *)
(* byte sequence.  Values:                                                 *)
(*   uint8/uint16 <<n>>   uint32 <<lo,hi>>   uint64 <<l0,l1,l2,l3>>        *)
(*   int32 [neg |-> BOOLEAN, mag |-> <<lo,hi>>]     boolean TRUE/FALSE     *)
(*   string/bytearr <<b,...>>   ipaddr <<a,b,c,d>> (dotted order)          *)
(*   array <<e,...>>   struct/message: record; absent fields not in DOMAIN *)
(*                                                                         *)
(* This module declares no variables: MC_Codec (model-level theorems over  *)
(* enumerated cases) and CodecTrace (judging the implementation) extend it.*)
(***************************************************************************)
EXTENDS Integers, Sequences, FiniteSets, TLC, Json, Bitwise

Layout == JsonDeserialize("layout.json")
Messages == Layout.messages
Structs == Layout.structs

Prims == {"uint8", "uint16", "uint32", "uint64", "int32", "boolean", "string", "bytearr", "ipaddr"}
IntWidth == [uint8 |-> 1, uint16 |-> 2, uint32 |-> 4, uint64 |-> 8]

-----------------------------------------------------------------------------
(* Sequences of sequences.                                                 *)

\* concatenation of ss[lo..hi], by halving (recursion depth log n)
RECURSIVE FlatFrom(_, _, _)
FlatFrom(ss, lo, hi) ==
  IF lo > hi THEN <<>>
  ELSE IF lo = hi THEN ss[lo]
  ELSE LET mid == (lo + hi) \div 2 IN FlatFrom(ss, lo, mid) \o FlatFrom(ss, mid + 1, hi)
Flat(ss) == FlatFrom(ss, 1, Len(ss))

-----------------------------------------------------------------------------
(* Integers: "The components of the messages use a little-endian byte      *)
(* order"; uint8 1 byte, uint16 2, uint32 4, uint64 8, int32 4.            *)

LE2(w) == <<w % 256, w \div 256>>                       \* one 16-bit limb

IntDom(width, ls) ==
  IF width = 1 THEN Len(ls) = 1 /\ ls[1] \in 0..255
  ELSE Len(ls) = width \div 2 /\ \A i \in 1..Len(ls) : ls[i] \in 0..65535

SerInt(width, ls) ==
  IF width = 1 THEN <<ls[1]>>
  ELSE Flat([i \in 1..(width \div 2) |-> LE2(ls[i])])

\* a small natural number (a length, a count, a message code) as a uint32
U32(n) == <<n % 256, (n \div 256) % 256, (n \div 65536) % 256, n \div 16777216>>
FromU32(b, p) == b[p] + 256 * b[p + 1] + 65536 * b[p + 2] + 16777216 * b[p + 3]   \* only used below 2^31

\* int32 is two's complement: -m is sent as 2^32 - m
Neg32(ls) ==
  LET lo == (65536 - ls[1]) % 65536
      borrow == IF ls[1] = 0 THEN 0 ELSE 1
      hi == (65536 - ls[2] - borrow) % 65536
  IN <<lo, hi>>

I32Dom(v) ==
  /\ DOMAIN v = {"neg", "mag"} /\ v.neg \in BOOLEAN /\ IntDom(4, v.mag)
  /\ IF v.neg THEN v.mag # <<0, 0>> /\ (v.mag[2] < 32768 \/ v.mag = <<0, 32768>>)
              ELSE v.mag[2] < 32768

SerI32(v) == SerInt(4, IF v.neg THEN Neg32(v.mag) ELSE v.mag)

ParseInt(width, b, p) ==
  IF width = 1 THEN <<b[p]>>
  ELSE [i \in 1..(width \div 2) |-> b[p + 2 * (i - 1)] + 256 * b[p + 2 * (i - 1) + 1]]

ParseI32(b, p) ==
  LET ls == ParseInt(4, b, p)
  IN IF ls[2] >= 32768 THEN [neg |-> TRUE, mag |-> Neg32(ls)] ELSE [neg |-> FALSE, mag |-> ls]

-----------------------------------------------------------------------------
(* Ser: the bytes of a value of a (pinned) type.                            *)
(*   string / bytearr: "a uint32 denoting its length followed by the bytes" *)
(*   array: "a uint32 denoting the amount of elements followed by its       *)
(*   elements";  ip address: the four octets in reversed order;             *)
(*   boolean: one byte 0 / 1;  struct: its fields in order.                 *)

RECURSIVE SerT(_, _, _)
SerStruct(fields, v) ==
  Flat([i \in 1..Len(fields) |-> SerT(fields[i].type, fields[i].subtype, v[fields[i].name])])

SerT(t, st, v) ==
  CASE t \in DOMAIN IntWidth -> SerInt(IntWidth[t], v)
    [] t = "int32"    -> SerI32(v)
    [] t = "boolean"  -> IF v THEN <<1>> ELSE <<0>>
    [] t = "string"   -> U32(Len(v)) \o v
    [] t = "bytearr"  -> U32(Len(v)) \o v
    [] t = "ipaddr"   -> <<v[4], v[3], v[2], v[1]>>
    [] t = "array"    -> U32(Len(v)) \o Flat([i \in 1..Len(v) |-> SerT(st, "none", v[i])])
    [] OTHER          -> SerStruct(Structs[t], v)

\* Is v a value of the type?  (the harness only generates such values; checked per case)
RECURSIVE InDom(_, _, _)
InDom(t, st, v) ==
  CASE t \in DOMAIN IntWidth -> IntDom(IntWidth[t], v)
    [] t = "int32"    -> I32Dom(v)
    [] t = "boolean"  -> v \in BOOLEAN
    [] t = "string"   -> \A i \in 1..Len(v) : v[i] \in 0..255
    [] t = "bytearr"  -> \A i \in 1..Len(v) : v[i] \in 0..255
    [] t = "ipaddr"   -> Len(v) = 4 /\ \A i \in 1..4 : v[i] \in 0..255
    [] t = "array"    -> \A i \in 1..Len(v) : InDom(st, "none", v[i])
    [] OTHER          -> /\ DOMAIN v = {Structs[t][i].name : i \in 1..Len(Structs[t])}
                         /\ \A i \in 1..Len(Structs[t]) :
                              InDom(Structs[t][i].type, Structs[t][i].subtype, v[Structs[t][i].name])

-----------------------------------------------------------------------------
(* Message bodies.  A field is sent when                                    *)
(*   - its condition holds (if_true / if_false on an earlier boolean field),*)
(*   - and, if it is optional, it is present in the value.                  *)
(* A parser reads an optional field iff bytes are left.                     *)

CondHolds(f, v) ==
  \/ f.cond = "none"
  \/ f.cond = "if_true" /\ v[f.on] = TRUE
  \/ f.cond = "if_false" /\ v[f.on] = FALSE

Sent(f, v) == CondHolds(f, v) /\ (f.optional => f.name \in DOMAIN v)

Body(m, v) ==
  Flat([i \in 1..Len(m.fields) |->
          IF Sent(m.fields[i], v) THEN SerT(m.fields[i].type, m.fields[i].subtype, v[m.fields[i].name])
          ELSE <<>>])

\* v is a well-formed value of message m: exactly the fields that are sent are present
MsgDom(m, v) ==
  /\ DOMAIN v \subseteq {m.fields[i].name : i \in 1..Len(m.fields)}
  /\ \A i \in 1..Len(m.fields) :
       LET f == m.fields[i] IN
         /\ (f.name \in DOMAIN v) <=> Sent(f, v)
         /\ (f.name \in DOMAIN v) => InDom(f.type, f.subtype, v[f.name])

-----------------------------------------------------------------------------
(* The frame: "length (uint32, excluding itself), message_code, body".      *)
(* The code is a uint32, a uint8 for peer initialisation and distributed    *)
(* messages (code_width in the pin).  Message codes are < 65536.            *)

Code(m) == IF m.code_width = 1 THEN <<m.code>> ELSE U32(m.code)
FrameOf(m, payload) == U32(Len(Code(m)) + Len(payload)) \o Code(m) \o payload
Frame(m, v) == FrameOf(m, Body(m, v))                \* uncompressed messages

\* Compressed messages carry zlib(Body) as payload.  zlib is not interpreted here: a frame F is
\* valid for (m, v) iff its header is right and the harness-computed inflate(payload) = Body(m, v).
HeaderOK(m, F) ==
  /\ Len(F) >= 4 + m.code_width
  /\ SubSeq(F, 1, 4) = U32(Len(F) - 4)
  /\ SubSeq(F, 5, 4 + m.code_width) = Code(m)

-----------------------------------------------------------------------------
(* Parse: the inverse.  Results are [v |-> value, p |-> next position].     *)

RECURSIVE ParseT(_, _, _, _), ParseArr(_, _, _, _, _), ParseFields(_, _, _, _, _)

ParseArr(st, b, p, k, acc) ==
  IF k = 0 THEN [v |-> acc, p |-> p]
  ELSE LET r == ParseT(st, "none", b, p) IN ParseArr(st, b, r.p, k - 1, Append(acc, r.v))

ParseT(t, st, b, p) ==
  CASE t \in DOMAIN IntWidth -> [v |-> ParseInt(IntWidth[t], b, p), p |-> p + IntWidth[t]]
    [] t = "int32"    -> [v |-> ParseI32(b, p), p |-> p + 4]
    [] t = "boolean"  -> [v |-> b[p] # 0, p |-> p + 1]
    [] t = "string"   -> LET n == FromU32(b, p) IN [v |-> SubSeq(b, p + 4, p + 3 + n), p |-> p + 4 + n]
    [] t = "bytearr"  -> LET n == FromU32(b, p) IN [v |-> SubSeq(b, p + 4, p + 3 + n), p |-> p + 4 + n]
    [] t = "ipaddr"   -> [v |-> <<b[p + 3], b[p + 2], b[p + 1], b[p]>>, p |-> p + 4]
    [] t = "array"    -> ParseArr(st, b, p + 4, FromU32(b, p), <<>>)
    [] OTHER          -> ParseFields(Structs[t], 1, b, p, <<>>)

\* acc is the record parsed so far (<<>> is the empty function)
ParseFields(fields, i, b, p, acc) ==
  IF i > Len(fields) THEN [v |-> acc, p |-> p]
  ELSE LET f == fields[i]
           want == CondHolds(f, acc) /\ (f.optional => p <= Len(b))
       IN IF want
          THEN LET r == ParseT(f.type, f.subtype, b, p)
               IN ParseFields(fields, i + 1, b, r.p, acc @@ (f.name :> r.v))
          ELSE ParseFields(fields, i + 1, b, p, acc)

ParseBody(m, b) == ParseFields(m.fields, 1, b, 1, <<>>)

\* What a reader holds after parsing: an absent optional with a pinned default reads as the default.
HasDefault(f) == "absent_default" \in DOMAIN f
FieldNamed(m, n) == m.fields[CHOOSE j \in 1..Len(m.fields) : m.fields[j].name = n]
Expected(m, v) ==
  LET defaulted == {m.fields[j].name : j \in {i \in 1..Len(m.fields) :
                       /\ HasDefault(m.fields[i]) /\ CondHolds(m.fields[i], v) /\ m.fields[i].name \notin DOMAIN v}}
  IN [n \in DOMAIN v \cup defaulted |-> IF n \in DOMAIN v THEN v[n] ELSE FieldNamed(m, n).absent_default]

-----------------------------------------------------------------------------
(* Obfuscation (SOULSEEK.rst): the first 4 bytes are the key; for every     *)
(* block of 4 bytes the key (as a little-endian integer) is rotated 31 bits *)
(* to the right, i.e. 1 bit to the left, and XOR-ed onto the block.         *)

Rot(k) == << ((2 * k[1]) % 256) + (k[4] \div 128),
             ((2 * k[2]) % 256) + (k[1] \div 128),
             ((2 * k[3]) % 256) + (k[2] \div 128),
             ((2 * k[4]) % 256) + (k[3] \div 128) >>

\* the definition, block by block (recursion depth Len(d)/4)
RECURSIVE XorBlocks(_, _, _)
XorBlocks(k, d, p) ==
  IF p > Len(d) THEN <<>>
  ELSE LET kk == Rot(k)
           n == IF Len(d) - p + 1 < 4 THEN Len(d) - p + 1 ELSE 4
       IN [i \in 1..n |-> d[p + i - 1] ^^ kk[i]] \o XorBlocks(kk, d, p + 4)

\* the same through the 32-key cycle (Rot is a 32-bit rotation: Rot^32 = identity); used in bulk
RECURSIVE KeySched(_, _, _)
KeySched(k, n, acc) == IF n = 0 THEN acc ELSE LET r == Rot(k) IN KeySched(r, n - 1, Append(acc, r))
XorCycle(k, d) ==
  LET ks == KeySched(k, 32, <<>>)
  IN [i \in 1..Len(d) |-> d[i] ^^ ks[(((i - 1) \div 4) % 32) + 1][((i - 1) % 4) + 1]]

Obf(k, d) == k \o XorCycle(k, d)
Deobf(x) == XorCycle(SubSeq(x, 1, 4), SubSeq(x, 5, Len(x)))
ObfDef(k, d) == k \o XorBlocks(k, d, 1)
DeobfDef(x) == XorBlocks(SubSeq(x, 1, 4), SubSeq(x, 5, Len(x)), 1)

\* the worked example of the documentation
DocKey == <<20, 148, 238, 74>>                                       \* 14 94 ee 4a
DocMsg == <<8, 0, 0, 0, 121, 0, 0, 0, 232, 3, 0, 0>>                  \* 08000000 79000000 e8030000
DocObf == <<20, 148, 238, 74, 32, 40, 221, 149, 40, 80, 186, 43, 74, 163, 116, 87>>

-----------------------------------------------------------------------------
(* Values too big to enumerate byte by byte ("all payload lengths"): one     *)
(* array field `rep` of the message holds K copies of the same element, the  *)
(* other fields are the record `rest`.  The body is then                     *)
(*     pre \o U32(K) \o unit \o ... (K times) ... \o unit \o post            *)
(* and only the pieces are ever built.                                       *)

FieldIndex(m, name) == CHOOSE j \in 1..Len(m.fields) : m.fields[j].name = name

BodyRange(m, v, lo, hi) ==
  Flat([i \in 1..(hi - lo + 1) |->
          LET f == m.fields[lo + i - 1] IN
            IF Sent(f, v) THEN SerT(f.type, f.subtype, v[f.name]) ELSE <<>>])

RepPieces(m, rest, rep, elem) ==
  LET r == FieldIndex(m, rep) IN
    [pre  |-> BodyRange(m, rest, 1, r - 1),
     unit |-> SerT(m.fields[r].subtype, "none", elem),
     post |-> BodyRange(m, rest, r + 1, Len(m.fields))]

RepLen(p, K) == Len(p.pre) + 4 + K * Len(p.unit) + Len(p.post)

\* A byte string I is described by [len, pre, cnt, unit, post, periodic]: the harness cut I at the
\* prescribed piece lengths and computed periodic = (I = pre \o cnt \o unit^K \o post) itself.
\* With the pieces equal to the prescribed ones, I is the prescribed body.
SummaryOK(s, p, K) ==
  /\ s.periodic /\ s.len = RepLen(p, K)
  /\ s.pre = p.pre /\ s.cnt = U32(K) /\ s.unit = p.unit /\ s.post = p.post

-----------------------------------------------------------------------------
(* A stream of frames (what a connection puts on the wire).  It is intact    *)
(* for a set of messages iff it is the concatenation, in some order, of one  *)
(* whole wire form of each of them; on an obfuscated connection every wire   *)
(* form is key \o obfuscated(frame) with a key of the sender's choice.       *)

RECURSIVE Perms(_)
Perms(S) == IF S = {} THEN {<<>>} ELSE UNION {{<<x>> \o q : q \in Perms(S \ {x})} : x \in S}

RECURSIVE StreamFollows(_, _, _, _, _)
\* the stream from position p on is frames[order[j]], frames[order[j+1]], ... and nothing else
StreamFollows(stream, p, frames, order, obf) ==
  IF order = <<>> THEN p = Len(stream) + 1
  ELSE LET F == frames[Head(order)]
           n == Len(F) + (IF obf THEN 4 ELSE 0)
       IN /\ p + n - 1 <= Len(stream)
          /\ IF obf THEN Deobf(SubSeq(stream, p, p + n - 1)) = F
                    ELSE SubSeq(stream, p, p + n - 1) = F
          /\ StreamFollows(stream, p + n, frames, Tail(order), obf)

StreamIntact(stream, frames, obf) ==
  \E order \in Perms(1..Len(frames)) : StreamFollows(stream, 1, frames, order, obf)

-----------------------------------------------------------------------------
(* Well-formedness of the pin itself.                                       *)

TypeKnown(t, st) ==
  \/ t \in Prims /\ st = "none"
  \/ t \in DOMAIN Structs /\ st = "none"
  \/ t = "array" /\ (st \in Prims \/ st \in DOMAIN Structs)

LayoutWF ==
  /\ \A s \in DOMAIN Structs : \A i \in 1..Len(Structs[s]) :
       LET f == Structs[s][i] IN TypeKnown(f.type, f.subtype) /\ f.cond = "none" /\ ~f.optional
  /\ \A q \in DOMAIN Messages :
       LET m == Messages[q] IN
         /\ m.code_width \in {1, 4} /\ m.code \in 0..65535 /\ (m.code_width = 1 => m.code < 256)
         /\ m.compressed \in BOOLEAN
         /\ \A i \in 1..Len(m.fields) :
              LET f == m.fields[i] IN
                /\ TypeKnown(f.type, f.subtype)
                /\ f.cond \in {"none", "if_true", "if_false"}
                /\ f.cond # "none" => \E j \in 1..(i - 1) : m.fields[j].name = f.on /\ m.fields[j].type = "boolean"
                                                              /\ m.fields[j].cond = "none" /\ ~m.fields[j].optional
                \* optionals are trailing: nothing mandatory-and-unconditional follows an optional
                /\ f.optional => \A j \in (i + 1)..Len(m.fields) : m.fields[j].optional
  \* one code per (family, direction): a dispatcher can tell the messages apart
  /\ \A q1, q2 \in DOMAIN Messages :
       (q1 # q2 /\ Messages[q1].family = Messages[q2].family /\ Messages[q1].direction = Messages[q2].direction)
         => Messages[q1].code # Messages[q2].code
=============================================================================

SPECIFICATION TSpec
CONSTRAINT ByteCompat
CONSTRAINT DecodeEqual
CONSTRAINT ObfCompat
CONSTRAINT FramesIntact
CONSTRAINT NoException
CONSTRAINT FedValid
CHECK_DEADLOCK FALSE

SPECIFICATION TSpec
CONSTRAINT ByteCompat
CONSTRAINT DecodeEqual
CONSTRAINT ObfCompat
CONSTRAINT NoException
CONSTRAINT FedValid
CHECK_DEADLOCK FALSE

SPECIFICATION SpecMatch
CONSTANTS
  Dirs <- MC_DirsS
  Files <- MC_FilesS
  Queries <- MC_QueriesM
  SettingsLists <- MC_SettingsS
  Caps = {1, 2}
  MaxVer = 1
  MaxOps = 0
  FixWildcardUnion = TRUE
  FixRemoveRebuild = TRUE
  FixScanDiscards = TRUE
  FixStatsFolders = TRUE
INVARIANT TypeOK
INVARIANT QueryExact
INVARIANT NoUnsharedResults
INVARIANT IndexedOnceInnermost
INVARIANT StatsEqualIndex
CHECK_DEADLOCK FALSE

---------------------------- MODULE SharesIndex ----------------------------
(***************************************************************************)
(* C07 - a search over the shares returns exactly the matching files.      *)
(*                                                                         *)
(* Two layers.                                                             *)
(*                                                                         *)
(* (1) The REFERENCE MATCHER, written from the property statement and the  *)
(*     matching algorithm of docs/source/SOULSEEK.rst ("Query rules"): a   *)
(*     path and a query are sequences of character codes; Inc / Wild /     *)
(*     Match / Parse / QueryOK say which files a query must return.        *)
(*     Nothing in this layer looks at the implementation.                  *)
(*                                                                         *)
(* (2) THE INDEX AS A STATE MACHINE, mirroring                             *)
(*     src/aioslsk/shares/manager.py: disk, shared directories (nested),   *)
(*     per directory the items with their recorded owner directory, the    *)
(*     term map (a set of weakly held items, i.e. possibly stale ones) and *)
(*     the query computed the way the code computes it (term-map           *)
(*     prefilter, then matcher, then cap).                                 *)
(*                                                                         *)
(* A directory is the sequence of its component names, a file is the       *)
(* sequence of its component names (folders..., file name); a name is a    *)
(* sequence of character codes.  "Under" is the prefix relation.  No       *)
(* action refers to the constants Dirs / Files: the trace spec applies the *)
(* same actions to the concrete trees recorded by the harness.             *)
(***************************************************************************)
EXTENDS Integers, Sequences, FiniteSets, TLC

CONSTANTS
  Dirs,             \* directories that may be shared
  Files,            \* files that may exist on disk
  Queries,          \* raw query strings used by the design-level invariants
  Caps,             \* values of searches.receive.max_results
  MaxVer,           \* a file's modification time is one of 1..MaxVer
  MaxOps,           \* bound on the length of a history (0: unbounded)
  SettingsLists,    \* arguments of LoadFromSettings: sequences of directories
  \* deviation switches: FALSE = what the code at the pinned commit does,
  \* TRUE = the repaired design (fixes/C07-*.diff)
  FixWildcardUnion, \* F07-1 manager.py:695-719  wildcard candidates are united, not intersected
  FixRemoveRebuild, \* F07-2 manager.py:497      remove_shared_directory rebuilds the term map
  FixScanDiscards,  \* F07-3 manager.py:566-576  a rescan takes dropped items out of the term map itself
  FixStatsFolders   \* F07-4 manager.py:768-771  folders are counted by real location

----------------------------------------------------------------------------
(* Alphabet.  Codes below 100 are separators, codes from 100 are word      *)
(* characters; a case pair is (2k, 2k+1); caseless word characters         *)
(* (digits, CJK) use the even code only.  The harness maps every concrete  *)
(* character to its code with a fixed table (harness/props/c07.py).        *)
PathSep    == 1     \* "\" in a query path
Space      == 2
Underscore == 3
Dash       == 4
Dot        == 5
LParen     == 6
RParen     == 7
LBracket   == 8
RBracket   == 9
Quote      == 10
Amp        == 11
Star       == 13    \* only meaningful in queries

IsWord(c) == c >= 100
Fold(c)   == IF c >= 100 THEN 2 * (c \div 2) ELSE c

----------------------------------------------------------------------------
(* (1) Reference matcher                                                   *)

\* position i of p is outside p or holds a separator
Bnd(p, i) == i < 1 \/ i > Len(p) \/ ~IsWord(p[i])

\* t occurs in p at position i, ignoring case
At(p, t, i) == \A k \in 1..Len(t) : Fold(p[i + k - 1]) = Fold(t[k])

\* whole-word, case-insensitive occurrence
Inc(p, t) ==
  \E i \in 1..(Len(p) - Len(t) + 1) : At(p, t, i) /\ Bnd(p, i - 1) /\ Bnd(p, i + Len(t))

\* "*t": t preceded by a (possibly empty) run of word characters that starts at a boundary
Wild(p, t) ==
  \E i \in 1..(Len(p) - Len(t) + 1) :
     /\ At(p, t, i) /\ Bnd(p, i + Len(t))
     /\ \E j \in 1..i : Bnd(p, j - 1) /\ \A k \in j..(i - 1) : IsWord(p[k])

\* query parsing: whitespace separated terms; a term without any word character is
\* ignored; "-t" excludes, "*t" is a wildcard (search/model.py:43-64, SOULSEEK.rst)
TermStarts(q) == {i \in 1..Len(q) : q[i] # Space /\ (i = 1 \/ q[i - 1] = Space)}
TermEnd(q, i) == CHOOSE j \in i..Len(q) : (j = Len(q) \/ q[j + 1] = Space) /\ \A k \in i..j : q[k] # Space
RawTerms(q)   == {SubSeq(q, i, TermEnd(q, i)) : i \in TermStarts(q)}
HasWordChar(t) == \E k \in 1..Len(t) : IsWord(t[k])
ValidTerms(q) == {t \in RawTerms(q) : HasWordChar(t)}
Wilds(q) == {Tail(t) : t \in {x \in ValidTerms(q) : x[1] = Star}}
Excs(q)  == {Tail(t) : t \in {x \in ValidTerms(q) : x[1] = Dash}}
Incs(q)  == {t \in ValidTerms(q) : t[1] # Star /\ t[1] # Dash}

Answerable(q) == Incs(q) \cup Wilds(q) # {}

Match(p, q) ==
  /\ \A t \in Incs(q)  : Inc(p, t)
  /\ \A t \in Wilds(q) : Wild(p, t)
  /\ \A t \in Excs(q)  : ~Inc(p, t)

\* An item key is [f, own, v]: file, recorded owner directory, modification time.
IsUnder(x, d) == Len(d) < Len(x) /\ SubSeq(x, 1, Len(d)) = d

RECURSIVE JoinFrom(_, _)
JoinFrom(f, k) == IF k >= Len(f) THEN f[Len(f)] ELSE f[k] \o <<PathSep>> \o JoinFrom(f, k + 1)
\* the path a query is matched against: the file's path relative to its recorded owner
QPathOf(f, own) == JoinFrom(f, Len(own) + 1)

Min(a, b) == IF a <= b THEN a ELSE b

\* the files a query must return out of the index idx (a set of records with field q = query path)
RefResult(idx, q) == IF Answerable(q) THEN {i \in idx : Match(i.q, q)} ELSE {}

\* QueryExact for one answer: res is a set of item keys; ref the files that must be returned
AnswerOK(res, ref, m) == res \subseteq ref /\ Cardinality(res) = Min(m, Cardinality(ref))
QueryOK(res, idx, q, m) == AnswerOK(res, RefResult(idx, q), m)

----------------------------------------------------------------------------
(* (2) The index                                                           *)

VARIABLES
  disk,     \* set of [f, v]: files present with their modification time
  shared,   \* set of currently shared directories
  items,    \* set of [d, f, own, v, q]: item of directory d's `items`, with its recorded owner
            \* and its query path q = QPathOf(f, own)
  tm,       \* set of item keys [f, own, v, q] the term map (still) refers to
  dead,     \* item keys kept alive only by removed directory objects that are still referenced
            \* (by the caller, or by the item <-> directory reference cycle until the GC runs)
  fresh,    \* TRUE right after a scan of all directories
  scanning, \* directories whose scan is in flight: the walk runs in the executor, the result is
            \* not applied yet ({} = no scan in flight)
  scanAll,  \* the scan in flight is scan() over every shared directory
  kept,     \* item keys the application still holds (results of a query, of get_shared_item, a
            \* listing of directory.items) - they stay alive whatever the index does
  n         \* length of the history

vars == <<disk, shared, items, tm, dead, fresh, scanning, scanAll, kept, n>>

Key(i) == [f |-> i.f, own |-> i.own, v |-> i.v, q |-> i.q]
Keys(its) == {Key(i) : i \in its}
KeyPath(k) == k.q
\* one history step; MaxOps = 0 means histories of any length (n is then not counted)
Step == IF MaxOps = 0 THEN n' = n ELSE n < MaxOps /\ n' = n + 1
Unkept == UNCHANGED kept

IsPrefixDir(p, d) == Len(p) <= Len(d) /\ SubSeq(d, 1, Len(p)) = p
\* manager.py:900-908  shared directories containing d, d excluded
ParentsOf(d, S) == {p \in S : p # d /\ IsPrefixDir(p, d)}
Deepest(S) == CHOOSE p \in S : \A x \in S : Len(x) <= Len(p)
\* the innermost directory of S that contains file f
Holders(f, S) == {d \in S : IsUnder(f, d)}
Holder(f, S) == Deepest(Holders(f, S))

Init ==
  /\ disk \in SUBSET {[f |-> f, v |-> 1] : f \in Files}
  /\ shared = {} /\ items = {} /\ tm = {} /\ dead = {}
  /\ fresh = FALSE /\ n = 0
  /\ scanning = {} /\ scanAll = FALSE /\ kept = {}

\* Histories are sequential except for one thing: a scan is not atomic.  While its directory
\* walk runs in the executor (ScanBegin .. ScanEnd) the counts and the index can be read, files
\* can change on disk and share modes can be updated.  Adding / removing directories or starting
\* another scan while one is in flight is outside the histories of the property.
Quiet == scanning = {}
Same == UNCHANGED <<scanning, scanAll>>

\* What the WeakSets of the term map still hold once `its` are the items of the shared
\* directories and `dd` the items of dead-but-referenced directory objects.
Alive(its, dd) == Keys(its) \cup dd

\* manager.py:368-418  add_shared_directory: items under d move from the innermost shared
\* parent to d; they keep their owner.  No scan.  The term map is not touched.
MoveOnAdd(its, S, d) ==
  IF ParentsOf(d, S) = {} THEN its
  ELSE LET p == Deepest(ParentsOf(d, S)) IN
       {IF i.d = p /\ IsUnder(i.f, d) THEN [i EXCEPT !.d = d] ELSE i : i \in its}

Add(d) ==
  /\ Quiet /\ Same
  /\ d \notin shared
  /\ items' = MoveOnAdd(items, shared, d)
  /\ shared' = shared \cup {d}
  /\ fresh' = FALSE /\ Step /\ Unkept
  /\ UNCHANGED <<disk, tm, dead>>

\* manager.py:447-501  remove_shared_directory: the items go to the innermost remaining
\* shared parent, if any.  The removed object keeps its own `items` set, so its items stay
\* referenced; _cleanup_term_map only drops empty words.
MoveOnRemove(its, S, d) ==
  IF ParentsOf(d, S) = {} THEN {i \in its : i.d # d}
  ELSE LET p == Deepest(ParentsOf(d, S)) IN
       {IF i.d = d THEN [i EXCEPT !.d = p] ELSE i : i \in its}

Remove(d) ==
  /\ Quiet /\ Same
  /\ d \in shared
  /\ shared' = shared \ {d}
  /\ items' = MoveOnRemove(items, shared \ {d}, d)
  /\ dead' = dead \cup Keys({i \in items : i.d = d})
  /\ tm' = IF FixRemoveRebuild THEN Keys(items') ELSE tm \cap Alive(items', dead' \cup kept)
  /\ fresh' = FALSE /\ Step /\ Unkept
  /\ UNCHANGED disk

\* manager.py:420-445  update_shared_directory: share mode only
Update(d) ==
  /\ Same
  /\ d \in shared
  /\ fresh' = FALSE /\ Step /\ Unkept
  /\ UNCHANGED <<disk, shared, items, tm, dead>>

\* manager.py:64-105, 529-576  scan_directory_files: walk d, skip shared children, reconcile
\* d.items with what was found (an item is (owner, subdir, name, mtime): a touched file or an
\* item owned by another directory is dropped and found anew), add d.items to the term map.
ScannedItems(S, D) ==
  {[d |-> Holder(x.f, S), f |-> x.f, own |-> Holder(x.f, S), v |-> x.v, q |-> QPathOf(x.f, Holder(x.f, S))] :
     x \in {y \in disk : Holders(y.f, S) # {} /\ Holder(y.f, S) \in D}}

ScanSet(D) ==
  /\ items' = {i \in items : i.d \notin D} \cup ScannedItems(shared, D)
  /\ tm' = IF FixScanDiscards
             THEN (tm \ Keys({i \in items : i.d \in D})) \cup Keys({i \in items' : i.d \in D})
             ELSE (tm \cup Keys({i \in items' : i.d \in D})) \cap Alive(items', dead \cup kept)
  /\ Step /\ Unkept
  /\ UNCHANGED <<disk, shared, dead>>

Scan(d) == Quiet /\ Same /\ d \in shared /\ ScanSet({d}) /\ fresh' = FALSE
\* manager.py:621-648  scan(): every shared directory
ScanAll == Quiet /\ Same /\ ScanSet(shared) /\ fresh' = TRUE

\* The same two operations in two steps.  ScanBegin: scan_directory_files runs up to
\* `await loop.run_in_executor(...)` (manager.py:545): nothing of the index has changed.
\* ScanEnd: the walk finishes (it sees the disk as it is then; the shared children to skip were
\* fixed at the start, and cannot have changed) and its result is applied in one stretch.
ScanBegin(d) ==
  /\ Quiet /\ d \in shared
  /\ scanning' = {d} /\ scanAll' = FALSE
  /\ fresh' = FALSE /\ Step /\ Unkept
  /\ UNCHANGED <<disk, shared, items, tm, dead>>
ScanBeginAll ==
  /\ Quiet /\ shared # {}
  /\ scanning' = shared /\ scanAll' = TRUE
  /\ fresh' = FALSE /\ Step /\ Unkept
  /\ UNCHANGED <<disk, shared, items, tm, dead>>
ScanEnd ==
  /\ ~Quiet
  /\ ScanSet(scanning)
  /\ fresh' = scanAll
  /\ scanning' = {} /\ scanAll' = FALSE

\* manager.py:234-262  load_from_settings: entries are added (with the moving rule, against
\* the list that still contains the old directories) or updated in order; directories not
\* listed are dropped without handing their items to a parent; the term map is rebuilt.
RECURSIVE LoadFold(_, _, _, _)
LoadFold(L, k, S, its) ==
  IF k > Len(L) THEN its
  ELSE IF L[k] \in S THEN LoadFold(L, k + 1, S, its)
  ELSE LoadFold(L, k + 1, S \cup {L[k]}, MoveOnAdd(its, S, L[k]))

Range(L) == {L[k] : k \in 1..Len(L)}

Folded(L) == LoadFold(L, 1, shared, items)
LoadedItems(L) == {i \in Folded(L) : i.d \in Range(L)}
\* Not what the code does, but equally within the statement: the items of a dropped directory
\* are handed to the innermost remaining shared parent (as remove_shared_directory does).
\* Only the trace spec uses handover = TRUE.
HandedOverItems(L) ==
  LET R == Range(L) IN
  LoadedItems(L) \cup
  {[i EXCEPT !.d = Holder(i.f, R)] : i \in {j \in Folded(L) : j.d \notin R /\ Holders(j.f, R) # {}}}

Load(L, handover) ==
  /\ Quiet /\ Same
  /\ shared' = Range(L)
  /\ items' = IF handover THEN HandedOverItems(L) ELSE LoadedItems(L)
  /\ dead' = dead \cup Keys({i \in Folded(L) : i.d \notin Range(L)})
  /\ tm' = Keys(items')
  /\ fresh' = FALSE /\ Step /\ Unkept
  /\ UNCHANGED disk

\* the world outside
DiskCreate(f, v) ==
  /\ \A x \in disk : x.f # f
  /\ disk' = disk \cup {[f |-> f, v |-> v]}
  /\ fresh' = FALSE /\ Step /\ Unkept /\ Same
  /\ UNCHANGED <<shared, items, tm, dead>>

DiskDelete(f) ==
  /\ \E x \in disk : x.f = f
  /\ disk' = {x \in disk : x.f # f}
  /\ fresh' = FALSE /\ Step /\ Unkept /\ Same
  /\ UNCHANGED <<shared, items, tm, dead>>

Touch(f, v) ==
  /\ \E x \in disk : x.f = f /\ x.v # v
  /\ disk' = {x \in disk : x.f # f} \cup {[f |-> f, v |-> v]}
  /\ fresh' = FALSE /\ Step /\ Unkept /\ Same
  /\ UNCHANGED <<shared, items, tm, dead>>

\* A whole directory vanishes from disk (deleted, unmounted) with everything in it; d may be a
\* shared directory, a folder inside one, or contain shared directories.  A rescan then finds
\* nothing there: "files that vanished on disk".
DiskRemoveDir(d) ==
  /\ \E x \in disk : IsUnder(x.f, d)
  /\ disk' = {x \in disk : ~IsUnder(x.f, d)}
  /\ fresh' = FALSE /\ Step /\ Same /\ Unkept
  /\ UNCHANGED <<shared, items, tm, dead>>

\* The application keeps what it was given (the items of the index as they are now) across the
\* following operations, and lets go of it later.  Nothing of the index changes; what changes is
\* which item objects are still alive when the index is next reconciled - the weakly referencing
\* term map must not depend on that.
Hold ==
  /\ ~(Keys(items) \subseteq kept)
  /\ kept' = kept \cup Keys(items)
  /\ Step /\ Same
  /\ UNCHANGED <<disk, shared, items, tm, dead, fresh>>
Release ==
  /\ kept # {}
  /\ kept' = {}
  /\ tm' = tm \cap Alive(items, dead)
  /\ Step /\ Same
  /\ UNCHANGED <<disk, shared, items, dead, fresh>>

\* the caller drops the removed directory objects and the garbage collector runs
Collect ==
  /\ Quiet /\ Same
  /\ dead # {}
  /\ dead' = {}
  /\ tm' = tm \cap Alive(items, kept)
  /\ Step /\ Unkept
  /\ UNCHANGED <<disk, shared, items, fresh>>

Next ==
  \/ \E d \in Dirs : Add(d)
  \/ \E d \in Dirs : Remove(d)
  \/ \E d \in Dirs : Update(d)
  \/ \E d \in Dirs : Scan(d)
  \/ ScanAll
  \/ \E d \in Dirs : ScanBegin(d)
  \/ ScanBeginAll
  \/ ScanEnd
  \/ \E L \in SettingsLists : Load(L, FALSE)
  \/ \E f \in Files : DiskDelete(f)
  \/ \E d \in Dirs : DiskRemoveDir(d)
  \/ Hold
  \/ Release
  \/ \E f \in Files, v \in 1..MaxVer : DiskCreate(f, v)
  \/ \E f \in Files, v \in 1..MaxVer : Touch(f, v)
  \/ Collect

Spec == Init /\ [][Next]_vars

----------------------------------------------------------------------------
(* The query as the code computes it (manager.py:653-758).                 *)

\* maximal runs of word characters of s, as <<first, last>>: what re.split("[\W_]") keeps
Runs(s) ==
  {x \in (1..Len(s)) \X (1..Len(s)) :
     /\ x[1] <= x[2] /\ Bnd(s, x[1] - 1) /\ Bnd(s, x[2] + 1)
     /\ \A k \in x[1]..x[2] : IsWord(s[k])}
Pieces(t) == {SubSeq(t, r[1], r[2]) : r \in Runs(t)}

\* subterms that must be words of the item: every piece of an include term, and every
\* piece but the leading one of a wildcard term
ExactPieces(q) ==
  UNION {Pieces(t) : t \in Incs(q)} \cup
  UNION {{SubSeq(t, r[1], r[2]) : r \in {x \in Runs(t) : x[1] > 1}} : t \in Wilds(q)}
\* leading pieces of wildcard terms (a term starting with a separator has none)
SuffixPieces(q) ==
  UNION {{SubSeq(t, r[1], r[2]) : r \in {x \in Runs(t) : x[1] = 1}} : t \in Wilds(q)}

\* a piece w (word characters only) is a word of path p  <=>  Inc(p, w);
\* some word of p ends with w  <=>  Wild(p, w)
\* the words of the term map that end with w, each with the items filed under it:
\* "every such word must be a word of the item" is what intersecting them means
EveryCandidateIn(k, w) ==
  \A k2 \in tm : \A r \in Runs(KeyPath(k2)) :
     LET p2 == KeyPath(k2) IN
     (r[2] - r[1] + 1 >= Len(w) /\ At(p2, w, r[2] - Len(w) + 1))
        => Inc(KeyPath(k), SubSeq(p2, r[1], r[2]))

Prefiltered(q) ==
  IF \E w \in ExactPieces(q) : \A k \in tm : ~Inc(KeyPath(k), w) THEN {}
  ELSE IF \E w \in SuffixPieces(q) : \A k \in tm : ~Wild(KeyPath(k), w) THEN {}
  ELSE {k \in tm :
          /\ \A w \in ExactPieces(q) : Inc(KeyPath(k), w)
          /\ \A w \in SuffixPieces(q) :
               IF FixWildcardUnion THEN Wild(KeyPath(k), w) ELSE EveryCandidateIn(k, w)}

\* the regular expressions are taken to implement Match here; they are what the binding tests
CodeFiltered(q) ==
  IF ~Answerable(q) THEN {} ELSE {k \in Prefiltered(q) : Match(KeyPath(k), q)}

\* the loop stops as soon as max_results items were kept: any subset of that size
CodeResults(q, m) ==
  LET cf == CodeFiltered(q) IN {r \in SUBSET cf : Cardinality(r) = Min(m, Cardinality(cf))}

\* manager.py:760-772  get_stats
Subdir(i) == SubSeq(i.f, Len(i.own) + 1, Len(i.f) - 1)
Folder(f) == SubSeq(f, 1, Len(f) - 1)
CodeStats ==
  <<IF FixStatsFolders THEN Cardinality({Folder(i.f) : i \in items})
                       ELSE Cardinality({<<i.d, Subdir(i)>> : i \in items}),
    Cardinality(items)>>

----------------------------------------------------------------------------
(* Properties                                                              *)

IndexKeys == Keys(items)

TypeOK ==
  /\ \A i \in items : i.d \in shared /\ IsUnder(i.f, i.own) /\ i.q = QPathOf(i.f, i.own)
  /\ \A x \in disk, y \in disk : x.f = y.f => x = y
  /\ scanning \subseteq shared /\ (scanAll => scanning = shared /\ scanning # {})

\* a query returns precisely the matching shared files, capped
QueryExact ==
  \A q \in Queries :
     LET ref == RefResult(IndexKeys, q) IN
     \A m \in Caps : \A r \in CodeResults(q, m) : AnswerOK(r, ref, m)

\* a result always belongs to a currently shared directory
NoUnsharedResults ==
  \A q \in Queries : \A k \in CodeFiltered(q) : \E i \in items : Key(i) = k /\ i.d \in shared

\* placement of an index `its` (records with d, f, v): every file at most once, in the
\* innermost shared directory containing it
PlacedOnceInnermost(its, S) ==
  /\ \A i \in its : i.d \in S /\ IsUnder(i.f, i.d) /\ i.d = Holder(i.f, S)
  /\ \A i \in its, j \in its : i.f = j.f => i = j
\* after a scan of everything the index is the disk under the shared directories
CompleteIndex(its, S, dsk) ==
  {[f |-> i.f, v |-> i.v] : i \in its} = {x \in dsk : Holders(x.f, S) # {}}

IndexedOnceInnermost ==
  /\ PlacedOnceInnermost(items, shared)
  /\ fresh => CompleteIndex(items, shared, disk) /\ \A i \in items : i.own = i.d

\* the reported counts equal the index
RefStats(its) == <<Cardinality({Folder(i.f) : i \in its}), Cardinality(its)>>
StatsEqualIndex == CodeStats = RefStats(items)

----------------------------------------------------------------------------
(* Constants for the model-checking configurations (MC_*.cfg).             *)
(* letters: a/A = 100/101, b/B = 102/103, e-acute pair = 104/105,          *)
(* CJK (caseless) = 106, digit (caseless) = 108, c = 110, p = 112, q = 114 *)
nP  == <<112>>                       \* "p"
nC  == <<110>>                       \* "c"
nCd == <<110, 104>>                  \* "ce'" : a sibling whose name extends "c"
nQ  == <<114>>                       \* "q"
fSong == <<101, 102, 5, 108>>        \* "Ab.1"
fLong == <<102, 102, 3, 106>>        \* "bb_J"
fAcc  == <<105, 4, 100, 102>>        \* "E'-ab"
fMix  == <<100, 102, 2, 102, 102>>   \* "ab bb"

MC_DirsS  == {<<nP>>, <<nP, nC>>, <<nQ>>}
MC_FilesS == {<<nP, fSong>>, <<nP, nC, fLong>>, <<nQ, fAcc>>}
MC_DirsL  == {<<nP>>, <<nP, nC>>, <<nP, nC, nQ>>, <<nP, nCd>>, <<nQ>>}
MC_FilesL == {<<nP, fSong>>, <<nP, nC, fLong>>, <<nP, nC, nQ, fMix>>, <<nP, nCd, fAcc>>, <<nQ, fAcc>>, <<nP, nC, nC, fSong>>}

qAb      == <<100, 102>>                     \* ab
qWildB   == <<Star, 102>>                    \* *b
qWildBnE == <<Star, 103, 2, Dash, 104>>      \* *B -e'
qC       == <<110>>                          \* c        (a folder name)
qExcOnly == <<Dash, 100, 102>>               \* -ab      (no inclusion term)
qPunct   == <<100, 102, 2, Dot, 2, Dash>>    \* ab . -   (terms without word characters)
qAbDot1  == <<101, 103, Dot, 108>>           \* AB.1     (a term containing punctuation)
qWildDot == <<Star, Dot, 108>>               \* *.1
qPath    == <<110, PathSep, 102, 102>>       \* c\bb
MC_QueriesS == {qAb, qWildB, qC, qExcOnly, qAbDot1}
MC_QueriesK == {qAb, qWildB}      \* enough for the deviation-switch configurations (MC_kf*.cfg)
MC_QueriesL == {qAb, qWildB, qWildBnE, qC, qExcOnly, qPunct, qAbDot1, qWildDot, qPath}

\* Exhaustive matcher slice (MC_match.cfg): every index of two files in one shared directory whose
\* names are all the strings of <= 3 characters over {a, A, b, _, -}; no operations.  QueryExact then
\* says: term-map prefilter + matcher + cap = reference, for every such index and every query below.
MatchAlphabet == {100, 101, 102, Underscore, Dash}
MatchNames == UNION {[1..k -> MatchAlphabet] : k \in 1..3}
MatchItem(nm) == [d |-> <<nP>>, f |-> <<nP, nm>>, own |-> <<nP>>, v |-> 1, q |-> nm]
InitMatch ==
  /\ \E x \in MatchNames, y \in MatchNames : items = {MatchItem(x), MatchItem(y)}
  /\ disk = {[f |-> i.f, v |-> i.v] : i \in items}
  /\ shared = {<<nP>>} /\ tm = Keys(items) /\ dead = {}
  /\ fresh = TRUE /\ n = 0 /\ scanning = {} /\ scanAll = FALSE /\ kept = {}
SpecMatch == InitMatch /\ [][UNCHANGED vars]_vars
MC_QueriesM == {
  <<100>>, <<101>>, <<102, 102>>, <<100, 102>>,                  \* a  A  bb  ab
  <<Star, 100>>, <<Star, 102>>, <<Star, 101, 102>>,              \* *a  *b  *Ab
  <<100, Underscore, 102>>, <<100, Dash, 102>>,                  \* a_b  a-b
  <<Star, Underscore, 100>>, <<Star, 100, Dash, 102>>,           \* *_a  *a-b
  <<100, Space, Dash, 102>>, <<Star, 100, Space, Dash, 100, 102>>,   \* a -b   *a -ab
  <<Dash, 100>>, <<Underscore, Space, Star>>,                    \* -a     _ *   (nothing to include)
  <<Star, 100, Space, Star, 102>>, <<102, Underscore>>,          \* *a *b  b_
  <<Dash, Dash, 100, Space, 102>> }                              \* --a b  (excludes "-a")

MC_SettingsS == {<< <<nP>> >>, << <<nP, nC>> >>, << <<nP>>, <<nP, nC>> >>, << >>}
MC_SettingsL == MC_SettingsS \cup {<< <<nP, nC, nQ>>, <<nP>> >>, << <<nQ>>, <<nP, nCd>> >>}
=============================================================================

SPECIFICATION TSpec
CONSTANTS
  Dirs = {}
  Files = {}
  Queries = {}
  SettingsLists = {}
  Caps = {}
  MaxVer = 1
  MaxOps = 0
  FixWildcardUnion = TRUE
  FixRemoveRebuild = TRUE
  FixScanDiscards = TRUE
  FixStatsFolders = TRUE
  Diag = FALSE
CONSTRAINT IndexFollowsOperations
CONSTRAINT IndexedOnceInnermostT
CONSTRAINT StatsEqualIndexT
CONSTRAINT QueryExactT
CONSTRAINT NoUnsharedResultsT
CHECK_DEADLOCK FALSE

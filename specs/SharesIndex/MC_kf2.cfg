SPECIFICATION Spec
CONSTANTS
  Dirs <- MC_DirsS
  Files <- MC_FilesS
  Queries <- MC_QueriesK
  SettingsLists <- MC_SettingsS
  Caps = {100}
  MaxVer = 2
  MaxOps = 4
  FixWildcardUnion = TRUE
  FixRemoveRebuild = FALSE
  FixScanDiscards = TRUE
  FixStatsFolders = TRUE
INVARIANT TypeOK
INVARIANT QueryExact
INVARIANT NoUnsharedResults
INVARIANT IndexedOnceInnermost
INVARIANT StatsEqualIndex
CHECK_DEADLOCK FALSE

SPECIFICATION Spec
CONSTANTS
  Dirs <- MC_DirsS
  Files <- MC_FilesS
  Queries <- MC_QueriesS
  SettingsLists <- MC_SettingsS
  Caps = {1, 2, 100}
  MaxVer = 2
  MaxOps = 5
  FixWildcardUnion = TRUE
  FixRemoveRebuild = TRUE
  FixScanDiscards = TRUE
  FixStatsFolders = TRUE
INVARIANT TypeOK
INVARIANT QueryExact
INVARIANT NoUnsharedResults
INVARIANT IndexedOnceInnermost
INVARIANT StatsEqualIndex
CHECK_DEADLOCK FALSE

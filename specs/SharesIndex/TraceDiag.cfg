SPECIFICATION TSpec
CONSTANTS
  Dirs = {}
  Files = {}
  Queries = {}
  SettingsLists = {}
  Caps = {}
  MaxVer = 1
  MaxOps = 0
  FixWildcardUnion = TRUE
  FixRemoveRebuild = TRUE
  FixScanDiscards = TRUE
  FixStatsFolders = TRUE
  Diag = FALSE
INVARIANT IndexFollowsOperations
INVARIANT IndexedOnceInnermostT
INVARIANT StatsEqualIndexT
INVARIANT QueryExactT
INVARIANT NoUnsharedResultsT
CHECK_DEADLOCK TRUE

------------------------- MODULE SharesIndexTrace -------------------------
(***************************************************************************)
(* Trace validation for C07.  A batch of histories executed on the real    *)
(* SharesManager over temporary directory trees (harness/props/c07.py) is  *)
(* checked against SharesIndex.                                            *)
(*                                                                         *)
(* All paths are sequences of character codes (see the alphabet in         *)
(* SharesIndex.tla); a directory / file is the sequence of its component   *)
(* names below the temporary base directory.                               *)
(*                                                                         *)
(* Records (JSON):                                                         *)
(*   init    : disk = [[f, v] ...]                        (first record)   *)
(*   create / touch : f, v        delete : f   rmdir : d  (no observation) *)
(*   hold / release : exc         the application keeps / drops item refs  *)
(*   add / remove / update / scan : d, exc                                 *)
(*   scanall / collect : exc      load : dirs, exc                         *)
(*   scanbegin : all, d, exc      scanend : exc   (a scan in two steps)    *)
(* exc is "none" or the name of the exception the call raised.             *)
(* Every share operation carries obs, taken right after it:                *)
(*   obs.dirs    shared directories                                        *)
(*   obs.items   [d, f, own, v, q] for every item of every directory.items *)
(*               (d holder, f file, own item.shared_directory, v mtime,    *)
(*                q item.get_query_path() as codes)                        *)
(*   obs.stats   get_stats() as [folders, files]                           *)
(*   obs.told    counts of ScanCompleteEvent / SharedFoldersFiles emitted  *)
(*               by a scan() that completed in this operation              *)
(*   obs.queries [q, m, exc, res]: query string, max_results, and the      *)
(*               items query() returned, as [f, own, v, q]                 *)
(*                                                                         *)
(* The model follows the operations with the actions of SharesIndex; the   *)
(* properties are evaluated on the RECORDED index and answers with the     *)
(* reference matcher of SharesIndex: the recorded query paths are matched  *)
(* by Inc / Wild / Match in TLC, not by Python.                            *)
(***************************************************************************)
EXTENDS SharesIndex, Json, IOUtils

CONSTANT Diag     \* TRUE: a failed check is printed and tolerated (explanation pass only)

Traces == JsonDeserialize(IOEnv.TRACE_FILE)

VARIABLES tid, l

tvars == <<vars, tid, l>>

T == Traces[tid]
Rec == T[l]
ToSet(s) == {s[k] : k \in 1..Len(s)}

TInit ==
  /\ tid \in 1..Len(Traces)
  /\ l = 2
  /\ Len(Traces[tid]) >= 1 /\ Traces[tid][1].ev = "init"
  /\ disk = ToSet(Traces[tid][1].disk)
  /\ shared = {} /\ items = {} /\ tm = {} /\ dead = {}
  /\ fresh = FALSE /\ n = 0
  /\ scanning = {} /\ scanAll = FALSE /\ kept = {}

IsEv(e) == l <= Len(T) /\ Rec.ev = e
Consume == l' = l + 1 /\ UNCHANGED tid
NoExc == Rec.exc = "none"
\* the call raised the documented error and changed nothing
Refused(cond) == Rec.exc = "SharedDirectoryError" /\ cond /\ UNCHANGED vars

TCreate == IsEv("create") /\ DiskCreate(Rec.f, Rec.v) /\ Consume
TDelete == IsEv("delete") /\ DiskDelete(Rec.f) /\ Consume
TTouch  == IsEv("touch")  /\ Touch(Rec.f, Rec.v) /\ Consume
\* a directory tree removed from disk (possibly an empty one: then nothing changes)
TRmDir  == /\ IsEv("rmdir")
           /\ DiskRemoveDir(Rec.d) \/ ((\A x \in disk : ~IsUnder(x.f, Rec.d)) /\ UNCHANGED vars)
           /\ Consume
\* the application keeps / lets go of the items it was given
THold    == IsEv("hold")    /\ NoExc /\ (Hold \/ (Keys(items) \subseteq kept /\ UNCHANGED vars)) /\ Consume
TRelease == IsEv("release") /\ NoExc /\ (Release \/ (kept = {} /\ UNCHANGED vars)) /\ Consume

TAdd    == IsEv("add")    /\ ((NoExc /\ Add(Rec.d))    \/ Refused(Rec.d \in shared))    /\ Consume
TRemove == IsEv("remove") /\ ((NoExc /\ Remove(Rec.d)) \/ Refused(Rec.d \notin shared)) /\ Consume
TUpdate == IsEv("update") /\ ((NoExc /\ Update(Rec.d)) \/ Refused(Rec.d \notin shared)) /\ Consume
TScan   == IsEv("scan")   /\ ((NoExc /\ Scan(Rec.d))   \/ Refused(Rec.d \notin shared)) /\ Consume
TScanAll == IsEv("scanall") /\ NoExc /\ ScanAll /\ Consume
\* a scan in two steps: the harness holds the directory walk in the executor between them
TScanBegin ==
  /\ IsEv("scanbegin") /\ NoExc
  /\ IF Rec.all THEN ScanBeginAll ELSE ScanBegin(Rec.d)
  /\ Consume
TScanEnd == IsEv("scanend") /\ NoExc /\ ScanEnd /\ Consume

\* load_from_settings drops the directories that are not listed.  The statement does not say
\* whether their items are forgotten (what the code does: Load) or handed to the innermost
\* remaining shared parent (what remove_shared_directory does): both are accepted.
Place(its) == {[d |-> i.d, f |-> i.f, v |-> i.v] : i \in its}
TLoad ==
  /\ IsEv("load") /\ NoExc
  /\ LET L == Rec.dirs
         seen == Place(ToSet(Rec.obs.items)) IN
     Load(L, Place(LoadedItems(L)) # seen /\ Place(HandedOverItems(L)) = seen)
  /\ Consume

TCollect == IsEv("collect") /\ NoExc /\ (Collect \/ (dead = {} /\ UNCHANGED vars)) /\ Consume

Done ==
  /\ l = Len(T) + 1
  /\ PrintT(<<"ACCEPT", tid, {}>>)
  /\ l' = l + 1
  /\ UNCHANGED <<vars, tid>>

Finished == l = Len(T) + 2 /\ UNCHANGED tvars

TNext == TCreate \/ TDelete \/ TTouch \/ TAdd \/ TRemove \/ TUpdate \/ TScan \/ TScanAll
         \/ TScanBegin \/ TScanEnd \/ TRmDir \/ THold \/ TRelease
         \/ TLoad \/ TCollect \/ Done \/ Finished

TSpec == TInit /\ [][TNext]_tvars

----------------------------------------------------------------------------
(* The properties, evaluated on the observation taken after the last       *)
(* consumed operation.                                                     *)

HasObs == l >= 3 /\ l - 1 <= Len(T) /\ "obs" \in DOMAIN T[l - 1]
O == T[l - 1].obs
LItems == ToSet(O.items)
LIdx == Keys(LItems)

Chk(name, k, ok) == ok \/ (Diag /\ PrintT(<<"FAIL", tid, l - 1, name, k>>))

\* which file (and which version of it) sits in which directory is what the operations
\* prescribe: add / remove move items between nested directories, a scan reconciles with the
\* disk, nothing else changes the index
IndexFollowsOperations ==
  HasObs => /\ Chk("IndexFollowsOperations", 1, ToSet(O.dirs) = shared)
            /\ Chk("IndexFollowsOperations", 2, Place(LItems) = Place(items))

\* the recorded query path of an item is its path below its recorded owner directory
IndexedOnceInnermostT ==
  HasObs => /\ Chk("IndexedOnceInnermost", 1, PlacedOnceInnermost(LItems, ToSet(O.dirs)))
            /\ Chk("IndexedOnceInnermost", 2,
                   \A i \in LItems : IsUnder(i.f, i.own) /\ i.q = QPathOf(i.f, i.own))
            /\ Chk("IndexedOnceInnermost", 3,
                   fresh => CompleteIndex(LItems, ToSet(O.dirs), disk) /\ \A i \in LItems : i.own = i.d)

\* get_stats() at every observation (also while a scan is in flight: the index is the one
\* recorded at the same instant); and what a completed scan() told the listeners
\* (ScanCompleteEvent) and the server (SharedFoldersFiles), recorded in obs.told
StatsEqualIndexT ==
  HasObs => /\ Chk("StatsEqualIndex", 1, O.stats = RefStats(LItems))
            /\ Chk("StatsEqualIndex", 2, \A k \in 1..Len(O.told) : O.told[k] = RefStats(LItems))

QueryExactT ==
  HasObs => \A k \in 1..Len(O.queries) :
              LET r == O.queries[k]
                  rs == ToSet(r.res)
                  ref == RefResult(LIdx, r.q) IN
              \/ r.exc = "none" /\ Len(r.res) = Cardinality(rs) /\ AnswerOK(rs, ref, r.m)
              \/ /\ Diag
                 /\ PrintT(<<"FAIL", tid, l - 1, "QueryExact", k>>)
                 \* answered / must be answered (before the cap) / answered but not matching
                 /\ PrintT(<<"QINFO", tid, l - 1, k, Cardinality(rs), Cardinality(ref), Cardinality(rs \ ref)>>)

NoUnsharedResultsT ==
  HasObs => \A k \in 1..Len(O.queries) :
              Chk("NoUnsharedResults", k, ToSet(O.queries[k].res) \subseteq LIdx)
=============================================================================

SPECIFICATION Spec
CONSTANTS
  Dirs <- MC_DirsL
  Files <- MC_FilesL
  Queries <- MC_QueriesL
  SettingsLists <- MC_SettingsL
  Caps = {1, 2, 100}
  MaxVer = 2
  MaxOps = 10
  FixWildcardUnion = TRUE
  FixRemoveRebuild = TRUE
  FixScanDiscards = TRUE
  FixStatsFolders = TRUE
INVARIANT TypeOK
INVARIANT QueryExact
INVARIANT NoUnsharedResults
INVARIANT IndexedOnceInnermost
INVARIANT StatsEqualIndex
CHECK_DEADLOCK FALSE

SPECIFICATION Spec
CONSTANTS
  Peers = {"p1"}
  Conns = {1, 2}
  Calls = {1, 2}
  MaxMsgs = 1
  RT = 3
  ST = 0
  WT = 2
  MaxNow = 0
  MaxIn = 0
  SrvOpen = TRUE
  Dsts = {"p1"}
  Envs = {"refuse"}
  Ns = {1}
  Raises = {TRUE, FALSE}
  SkipReportsOk = FALSE
  ShiftAccumulates = FALSE
INVARIANT TypeOK
INVARIANT InCallOrder
INVARIANT AtMostOnce
INVARIANT SuccessiveCallsInOrder
INVARIANT QueueFifo
INVARIANT TruthfulResults
INVARIANT RaiseIffFailed
INVARIANT ConnFailTruthful
INVARIANT Reuse
INVARIANT FailedSendCloses
INVARIANT QueueCancelledAtClose
INVARIANT QueueEndsAsItWent
INVARIANT AllDeliveredAtEof
INVARIANT TimeoutJustified
INVARIANT NoIdleOverstay
INVARIANT NoWriteOverstay
PROPERTY NoWriteAfterClose
PROPERTY DeliveredBeforeClosed
PROPERTY DeliveredInOrder
CHECK_DEADLOCK FALSE

--------------------------- MODULE PeerMessaging ---------------------------
(***************************************************************************)
(* X05 (beyond the listed properties): how messages reach peers and the    *)
(* server through aioslsk's Network and its connections.                    *)
(*                                                                         *)
(* Mirrors  src/aioslsk/network/network.py  send_peer_messages,             *)
(* send_server_messages, get_peer_connection, get_active_peer_connections,  *)
(* queue_server_messages  and  src/aioslsk/network/connection.py            *)
(* DataConnection.send_message / _send / queue_message(s) /                 *)
(* _cancel_queued_messages / _read (read time-out) / _message_reader_loop / *)
(* disconnect.                                                              *)
(*                                                                         *)
(* Abstract state: connections (life as REPORTED on the event bus), what    *)
(* was handed to the transport of each connection (wire), the environment   *)
(* of each link (peer reads or not, link cut), calls of the sending API     *)
(* with the fate of each of their messages, and a virtual clock.            *)
(* One action per critical section / notification; every action is          *)
(* something the harness can see (a record of the trace) except Skip,       *)
(* Adopt and WriteFail on a connection without a writer, which the trace    *)
(* specification infers.  The M* operators further down are the MODEL: the  *)
(* same actions under the guards that say when the code / the explored      *)
(* environment takes them (asyncio's first-in-first-out task order, which   *)
(* call asks for which connection, the windows of MC_*.cfg); the trace      *)
(* specification uses the unguarded actions and lets the properties judge.  *)
(*                                                                         *)
(* What is deliberately NOT constrained: which usable connection a call     *)
(* re-uses, whether calls that wait for a connection to the same user each  *)
(* make one (the code) or share one, the order of frames of calls that      *)
(* overlap in time, close reasons other than TIMEOUT.                       *)
(*                                                                         *)
(* Properties are written from docs/source/USAGE.rst ("Protocol Messages"), *)
(* the docstrings of send_peer_messages / send_server_messages /            *)
(* get_peer_connection / get_active_peer_connections / send_message and     *)
(* constants.py (PEER_READ_TIMEOUT: "Timeout waiting for message on a peer  *)
(* or distributed connection").                                             *)
(*                                                                         *)
(* Two CONSTANT switches put the model in the position of the code where    *)
(* the code contradicts that documentation (observations, see x05.py):      *)
(*   SkipReportsOk     send_message returns silently on a CLOSING/CLOSED    *)
(*                     connection: the result list says None (= "success-   *)
(*                     fully sent") and raise_on_error does not raise.      *)
(*   ShiftAccumulates  every completed send moves the read deadline 60 s    *)
(*                     further from the OLD deadline (Timeout.shift), so a  *)
(*                     connection on which k messages were sent is closed   *)
(*                     (k+1) x 60 s after its last received message, not    *)
(*                     60 s after it was last used.                         *)
(* With both FALSE (the documented behaviour) every property holds; with    *)
(* one TRUE, TLC finds the counterexample (MC_code_*.cfg).                  *)
(***************************************************************************)
EXTENDS Integers, Sequences, FiniteSets, TLC

CONSTANTS
  Peers,            \* user names of the peers
  Conns,            \* ids of peer connections (positive integers, used in order)
  Calls,            \* ids of API calls (positive integers, used in order)
  MaxMsgs,          \* a call carries 1..MaxMsgs messages
  RT,               \* read time-out of a peer connection   (PEER_READ_TIMEOUT)
  ST,               \* read time-out of the server connection (SERVER_READ_TIMEOUT), 0 = none
  WT,               \* write time-out of send_message (10 s)
  MaxNow,           \* model bound of the clock
  MaxIn,            \* model bound: messages a peer sends on one connection
  SrvOpen,          \* the server connection is connected at the start
  Dsts,             \* model: destinations calls are made to (subset of Peers \cup {"server"})
  Envs,             \* model: environment moves that are explored
  Ns,               \* model: numbers of messages given to a call
  Raises,           \* model: values of raise_on_error
  SkipReportsOk,
  ShiftAccumulates

Server == "server"
SC == 0                                  \* the id of the server connection
NoConn == -1
AllConns == Conns \cup {SC}
Msgs == 1..MaxMsgs
OpenStates == {"opening", "connected", "init", "est"}
ReadingStates == {"init", "est"}         \* the message reader runs
Terminal == {"ok", "err", "skip", "canc"}

VARIABLES
  now,       \* virtual clock
  cs,        \* cs[c]: free | opening | connected | init | est | closing | closed   (as reported)
  dest,      \* dest[c]: user the connection belongs to ("none" while free)
  why,       \* why[c]: reported close reason ("none" while open)
  cls,       \* cls[c]: how a TIMEOUT close was justified: none | other | idle | write | bad
  link,      \* link[c]: up | eof | reset | failing      (environment: the other end / the transport)
  blocked,   \* blocked[c]: the other end stopped reading, drain() blocks
  wire,      \* wire[c]: messages handed to the transport, in order (<<call, index>>)
  rstart,    \* rstart[c]: when the current read began (established / last message delivered)
  nsent,     \* nsent[c]: sends completed since rstart
  lastAct,   \* lastAct[c]: last time the connection was used (established, received, sent)
  pin,       \* pin[c]: messages the other end wrote
  pdel,      \* pdel[c]: messages delivered as MessageReceivedEvent
  born,      \* born[c]: stamp of the first report of the connection
  estd,      \* estd[c]: stamp of the moment the connection was ESTABLISHED (0: never)
  rq,        \* rq[c]: the connection was made on request of a call (we connected, or the peer pierced for our ticket)
  owner,     \* owner[c]: the call that asked for the connection and got it (0: nobody)
  call,      \* call[k]: [st, kind, user, n, raise, conn, inv, ret, late (queued when the connection was closing already),
             \*          go (stamp of the moment its send tasks were created),
             \*          fit (the connection it goes on with was usable when the call was made, or established later)]
  ms,        \* ms[k][i]: todo | pend (written, drain() waits) | thru | ok | err | skip | canc
  wdl,       \* wdl[k][i]: write deadline of a pending message
  res,       \* res[k][i]: what the call reported for the message: none | ok | err
  out,       \* out[k]: none | ok | raise | connfail
  qrep,      \* qrep[k][i]: how a queued message's task ended: none | done | cancelled | error
  ev,        \* stamp counter (orders invocations, returns, births of connections)
  need,      \* need[u]: calls to u that found no usable connection
  nreq       \* nreq[u]: connections to u that were requested

cvars == <<cs, dest, why, cls, born, estd, rq>>
lvars == <<link, blocked, pin>>
tvars0 == <<rstart, nsent, lastAct>>
kvars == <<call, out, res, qrep>>
vars == <<now, cs, dest, why, cls, link, blocked, wire, rstart, nsent, lastAct, pin, pdel, born, estd, rq, owner,
          call, ms, wdl, res, out, qrep, ev, need, nreq>>

NoCall == [st |-> "idle", kind |-> "none", user |-> "none", n |-> 0, raise |-> FALSE, conn |-> NoConn, inv |-> 0, ret |-> 0, late |-> FALSE, go |-> 0, fit |-> TRUE]

Init ==
  /\ now = 0
  /\ cs = [c \in AllConns |-> IF c = SC /\ SrvOpen THEN "est" ELSE "free"]
  /\ dest = [c \in AllConns |-> IF c = SC THEN Server ELSE "none"]
  /\ why = [c \in AllConns |-> "none"]
  /\ cls = [c \in AllConns |-> "none"]
  /\ link = [c \in AllConns |-> "up"]
  /\ blocked = [c \in AllConns |-> FALSE]
  /\ wire = [c \in AllConns |-> <<>>]
  /\ rstart = [c \in AllConns |-> 0]
  /\ nsent = [c \in AllConns |-> 0]
  /\ lastAct = [c \in AllConns |-> 0]
  /\ pin = [c \in AllConns |-> 0]
  /\ pdel = [c \in AllConns |-> 0]
  /\ born = [c \in AllConns |-> 0]
  /\ estd = [c \in AllConns |-> IF c = SC /\ SrvOpen THEN 1 ELSE 0]
  /\ rq = [c \in AllConns |-> FALSE]
  /\ owner = [c \in AllConns |-> 0]
  /\ call = [k \in Calls |-> NoCall]
  /\ ms = [k \in Calls |-> [i \in Msgs |-> "todo"]]
  /\ wdl = [k \in Calls |-> [i \in Msgs |-> 0]]
  /\ res = [k \in Calls |-> [i \in Msgs |-> "none"]]
  /\ out = [k \in Calls |-> "none"]
  /\ qrep = [k \in Calls |-> [i \in Msgs |-> "none"]]
  /\ ev = 1
  /\ need = [u \in Peers |-> 0]
  /\ nreq = [u \in Peers |-> 0]

-----------------------------------------------------------------------------
(* helpers *)

R(c) == IF c = SC THEN ST ELSE RT
\* get_active_peer_connections(u, 'P'): state CONNECTED and connection_state ESTABLISHED
Usable(u) == {c \in Conns : cs[c] = "est" /\ dest[c] = u}
DocDL(c) == lastAct[c] + R(c)                              \* documented: R after the connection was last used
CodeDL(c) == rstart[c] + R(c) * (1 + nsent[c])             \* the code: Timeout.shift(R) per completed send
DL(c) == IF ShiftAccumulates THEN CodeDL(c) ELSE DocDL(c)
OnConn(k, c) == call[k].st # "idle" /\ call[k].conn = c
DuePend(c) == {p \in Calls \X Msgs : OnConn(p[1], c) /\ ms[p[1]][p[2]] = "pend" /\ wdl[p[1]][p[2]] = now}
Range(s) == {s[x] : x \in DOMAIN s}
OnWire(k, i) == call[k].conn \in AllConns /\ <<k, i>> \in Range(wire[call[k].conn])
Pos(s, m) == CHOOSE x \in DOMAIN s : s[x] = m

\* what closing connection c does to the messages in flight on it: queued tasks are cancelled
\* (_cancel_queued_messages), a send that waits in drain() fails (connection lost)
MsAfterClose(m, c) ==
  [k \in Calls |-> [i \in Msgs |->
     IF OnConn(k, c) /\ i <= call[k].n
     THEN IF call[k].kind = "queue" /\ m[k][i] \in {"todo", "pend"} THEN "canc"
          ELSE IF call[k].kind = "queue" /\ m[k][i] = "thru" THEN "ok"     \* written; its task is cancelled
          ELSE IF m[k][i] = "pend" THEN "err" ELSE m[k][i]
     ELSE m[k][i]]]

\* a send on connection c completed at `now`
BumpN(c, n) ==
  /\ nsent' = [nsent EXCEPT ![c] = @ + n]
  /\ lastAct' = [lastAct EXCEPT ![c] = now]
  /\ UNCHANGED rstart

\* DataConnection.disconnect up to and including the CLOSING report
ClosingWith(c, w, m) ==
  /\ cs[c] \in OpenStates
  /\ cs' = [cs EXCEPT ![c] = "closing"]
  /\ why' = [why EXCEPT ![c] = w]
  /\ cls' = [cls EXCEPT ![c] =
        IF w # "TIMEOUT" THEN "other"
        ELSE IF DuePend(c) # {} THEN "write"
        ELSE IF cs[c] \in ReadingStates /\ R(c) > 0 /\ now = DocDL(c) THEN "idle"
        ELSE "bad"]
  /\ ms' = MsAfterClose(m, c)
  /\ UNCHANGED <<dest, born, estd, rq>>

-----------------------------------------------------------------------------
(* the sending API *)

\* send_peer_messages(u, m1..mn, raise_on_error=r) / send_server_messages(...), up to the first await
\* (network.py:1000-1023, 1032-1051; get_peer_connection 668-681)
Invoke(k, u, n, r) ==
  /\ call[k].st = "idle" /\ \A j \in Calls : j < k => call[j].st # "idle"
  /\ n \in Msgs
  /\ ev' = ev + 1
  /\ LET base == [st |-> "send", kind |-> "send", user |-> u, n |-> n, raise |-> r, conn |-> SC, inv |-> ev + 1, ret |-> 0, late |-> FALSE, go |-> ev + 1, fit |-> TRUE] IN
     IF u = Server THEN call' = [call EXCEPT ![k] = base] /\ UNCHANGED need
     ELSE IF Usable(u) # {}
          THEN /\ \E c \in Usable(u) : call' = [call EXCEPT ![k] = [base EXCEPT !.conn = c]]
               /\ UNCHANGED need
          ELSE /\ call' = [call EXCEPT ![k] = [base EXCEPT !.st = "wait", !.conn = NoConn, !.go = 0]]
               /\ need' = [need EXCEPT ![u] = @ + 1]
  /\ UNCHANGED <<now, cs, dest, why, cls, link, blocked, wire, rstart, nsent, lastAct, pin, pdel, born, estd, rq, owner,
                 ms, wdl, res, out, qrep, nreq>>

\* connection.queue_messages(m1..mn) / queue_server_messages: n tasks are created, in order (connection.py:464-477)
Enqueue(k, c, n) ==
  /\ call[k].st = "idle" /\ \A j \in Calls : j < k => call[j].st # "idle"
  /\ n \in Msgs /\ c \in AllConns /\ (c = SC \/ cs[c] # "free")
  /\ ev' = ev + 1
  /\ call' = [call EXCEPT ![k] = [st |-> "send", kind |-> "queue", user |-> dest[c], n |-> n, raise |-> FALSE, conn |-> c,
                                  inv |-> ev + 1, ret |-> 0, late |-> cs[c] \in {"closing", "closed"}, go |-> ev + 1, fit |-> TRUE]]
  /\ UNCHANGED <<now, cs, dest, why, cls, link, blocked, wire, rstart, nsent, lastAct, pin, pdel, born, estd, rq, owner,
                 ms, wdl, res, out, qrep, need, nreq>>

\* a new connection to u is requested: reported CONNECTING (network.py _make_direct_connection 851-860)
Open(c, u) ==
  /\ c \in Conns /\ cs[c] = "free" /\ \A d \in Conns : d < c => cs[d] # "free"
  /\ u \in Peers
  /\ cs' = [cs EXCEPT ![c] = "opening"]
  /\ dest' = [dest EXCEPT ![c] = u]
  /\ born' = [born EXCEPT ![c] = ev + 1]
  /\ ev' = ev + 1
  /\ nreq' = [nreq EXCEPT ![u] = @ + 1]
  /\ rq' = [rq EXCEPT ![c] = TRUE]
  /\ UNCHANGED <<now, why, cls, link, blocked, wire, rstart, nsent, lastAct, pin, pdel, estd,
                 call, ms, wdl, res, out, qrep, need>>      \* owner: see MOpen / the trace specification

\* reported CONNECTED (connection.py connect 266; ListeningConnection.accept 190 for an accepted one)
Connected(c) ==
  /\ cs[c] \in {"opening", "init"}
  /\ cs' = [cs EXCEPT ![c] = IF cs[c] = "opening" THEN "connected" ELSE "est"]
  /\ UNCHANGED <<now, dest, why, cls, link, blocked, wire, rstart, nsent, lastAct, pin, pdel, born, estd, rq, owner,
                 call, ms, wdl, res, out, qrep, ev, need, nreq>>

\* PeerInitializedEvent of a connection we made: ESTABLISHED, the reader starts (network.py 869-872)
\* (announced as well when the application closed the connection while PeerInit was being sent: C10 / C11's matter)
EstOut(c) ==
  /\ cs[c] \in {"connected", "closing", "closed"}
  /\ cs' = [cs EXCEPT ![c] = IF @ = "connected" THEN "est" ELSE @]
  /\ estd' = [estd EXCEPT ![c] = IF @ = 0 THEN ev + 1 ELSE @]
  /\ ev' = ev + 1
  /\ rstart' = [rstart EXCEPT ![c] = now] /\ nsent' = [nsent EXCEPT ![c] = 0] /\ lastAct' = [lastAct EXCEPT ![c] = now]
  /\ UNCHANGED <<now, dest, why, cls, link, blocked, wire, pin, pdel, born, rq, owner,
                 call, ms, wdl, res, out, qrep, need, nreq>>

\* PeerInitializedEvent of an accepted connection (PeerInit or PeerPierceFirewall received): ESTABLISHED and
\* reading, reported CONNECTED afterwards (network.py on_peer_accepted 1157-1185)
EstIn(c, u, q) ==
  /\ c \in Conns /\ cs[c] = "free" /\ \A d \in Conns : d < c => cs[d] # "free"
  /\ u \in Peers
  /\ rq' = [rq EXCEPT ![c] = q]
  /\ cs' = [cs EXCEPT ![c] = "init"]
  /\ dest' = [dest EXCEPT ![c] = u]
  /\ born' = [born EXCEPT ![c] = ev + 1]
  /\ ev' = ev + 1
  /\ estd' = [estd EXCEPT ![c] = ev + 1]
  /\ rstart' = [rstart EXCEPT ![c] = now] /\ nsent' = [nsent EXCEPT ![c] = 0] /\ lastAct' = [lastAct EXCEPT ![c] = now]
  /\ UNCHANGED <<now, why, cls, link, blocked, wire, pin, pdel, call, ms, wdl, res, out, qrep, need, nreq>>   \* owner: see MEstIn / MPierce

\* get_peer_connection returns to a call that found no usable connection: the call goes on with a connection
\* to its user that was established after the call was made (the code: the one made for this call; sharing one that another call
\* asked for would be re-use as well)
Eligible(k, c) == c \in Conns /\ estd[c] > call[k].inv /\ dest[c] = call[k].user
Mine(k, c) == Eligible(k, c) /\ rq[c] /\ born[c] > call[k].inv /\ owner[c] \in {0, k}
Adopt(k, c) ==
  /\ call[k].st = "wait" /\ Eligible(k, c)
  /\ owner' = [owner EXCEPT ![c] = IF @ = 0 THEN k ELSE @]
  /\ call' = [call EXCEPT ![k].st = "send", ![k].conn = c, ![k].go = ev + 1]
  /\ ev' = ev + 1
  /\ UNCHANGED <<now, cs, dest, why, cls, link, blocked, wire, rstart, nsent, lastAct, pin, pdel, born, estd, rq,
                 ms, wdl, res, out, qrep, need, nreq>>

\* no connection could be made: PeerConnectionError, whatever raise_on_error says (USAGE.rst)
\* ... and not while a connection that was made for it is there: more established connections nobody took
\* than other calls that wait for one
Spare(k) == {c \in Conns : Mine(k, c) /\ cs[c] = "est"}
Rivals(k) == {j \in Calls \ {k} : call[j].st = "wait" /\ call[j].user = call[k].user}
ConnFail(k) ==
  /\ call[k].st = "wait"
  /\ call' = [call EXCEPT ![k].st = "ret", ![k].ret = ev + 1]
  /\ ev' = ev + 1
  /\ out' = [out EXCEPT ![k] = IF Cardinality(Spare(k)) > Cardinality(Rivals(k)) THEN "connfail-bad" ELSE "connfail"]
  /\ UNCHANGED <<now, cs, dest, why, cls, link, blocked, wire, rstart, nsent, lastAct, pin, pdel, born, estd, rq, owner,
                 ms, wdl, res, qrep, need, nreq>>

\* one send_message task, from its start to its first real await (connection.py 500-533, _send 479-498).
\* The tasks of one call start in the order of the messages.
CanStep(k, i) ==
  /\ call[k].st \in {"send", "ret"} /\ call[k].conn \in AllConns /\ i \in 1..call[k].n /\ ms[k][i] = "todo"
  /\ \A j \in 1..(i - 1) : ms[k][j] # "todo"

\* the transport took the message
CanWrite(k, i) == CanStep(k, i) /\ cs[call[k].conn] \in OpenStates \ {"opening"} /\ link[call[k].conn] # "failing"
Write(k, i) ==
  /\ CanWrite(k, i)
  /\ LET c == call[k].conn IN
     /\ wire' = [wire EXCEPT ![c] = Append(@, <<k, i>>)]
     /\ IF link[c] = "reset"
        THEN \* drain() raises: ConnectionWriteError; the connection is then closed (WRITE_ERROR), see FailedSendCloses
             /\ ms' = [ms EXCEPT ![k][i] = "err"]
             /\ UNCHANGED <<wdl, tvars0>>
        ELSE IF blocked[c]
        THEN /\ ms' = [ms EXCEPT ![k][i] = "pend"]
             /\ wdl' = [wdl EXCEPT ![k][i] = now + WT]
             /\ UNCHANGED tvars0
        ELSE /\ ms' = [ms EXCEPT ![k][i] = "ok"]
             /\ BumpN(c, 1)
             /\ UNCHANGED wdl
  /\ UNCHANGED <<now, cvars, link, blocked, pin, pdel, owner, call, res, out, qrep, ev, need, nreq>>

\* the message could not be handed over: the connection was never opened (no writer: ConnectionWriteError,
\* nothing else happens) or the transport refuses the write (ConnectionWriteError, then closed with WRITE_ERROR)
WriteFail(k, i) ==
  /\ CanStep(k, i)
  /\ LET c == call[k].conn IN
        \/ cs[c] \in {"free", "opening"}
        \/ cs[c] \in OpenStates \ {"opening"} /\ link[c] = "failing"
  /\ ms' = [ms EXCEPT ![k][i] = "err"]
  /\ UNCHANGED <<now, cvars, link, blocked, wire, tvars0, pin, pdel, owner, call, wdl, res, out, qrep, ev, need, nreq>>

\* the connection is CLOSING / CLOSED: nothing is written
Skip(k, i) ==
  /\ CanStep(k, i)
  /\ cs[call[k].conn] \in {"closing", "closed"}
  /\ ms' = [ms EXCEPT ![k][i] = "skip"]
  /\ UNCHANGED <<now, cvars, link, blocked, wire, tvars0, pin, pdel, owner, call, wdl, res, out, qrep, ev, need, nreq>>

\* what the documentation promises for a message / what the code reports
Expected(k, i) == IF ms[k][i] \in {"ok", "thru"} THEN "ok" ELSE IF ms[k][i] \in {"err", "skip"} THEN "err" ELSE "none"
Reported(k, i) == IF ms[k][i] = "skip" /\ SkipReportsOk THEN "ok" ELSE Expected(k, i)

\* the call returns o ("ok": returned; "raise": ConnectionWriteError) and, without raise_on_error, the list rv
ReturnWith(k, o, rv) ==
  /\ call[k].st = "send" /\ call[k].kind = "send"
  /\ o \in {"ok", "raise"}
  /\ IF o = "ok" THEN \A i \in 1..call[k].n : ms[k][i] \in Terminal
     ELSE call[k].raise
  /\ call' = [call EXCEPT ![k].st = "ret", ![k].ret = ev + 1]
  /\ ev' = ev + 1
  /\ out' = [out EXCEPT ![k] = o]
  /\ res' = [res EXCEPT ![k] = rv]
  /\ UNCHANGED <<now, cs, dest, why, cls, link, blocked, wire, rstart, nsent, lastAct, pin, pdel, born, estd, rq, owner,
                 ms, wdl, qrep, need, nreq>>

\* the model returns what the position of SkipReportsOk says
Return(k) ==
  /\ call[k].st = "send" /\ call[k].kind = "send"
  /\ LET rep == [i \in Msgs |-> IF i <= call[k].n THEN Reported(k, i) ELSE "none"]
         bad == \E i \in 1..call[k].n : rep[i] = "err"
         all == \A i \in 1..call[k].n : ms[k][i] \in Terminal
     IN IF call[k].raise
        THEN (bad /\ ReturnWith(k, "raise", [i \in Msgs |-> "none"]))
             \/ (all /\ ~bad /\ ReturnWith(k, "ok", [i \in Msgs |-> "none"]))
        ELSE all /\ ReturnWith(k, "ok", rep)

\* the task of a queued message ended
HowOf(s) == CASE s \in {"ok", "skip"} -> "done" [] s = "canc" -> "cancelled" [] s = "err" -> "error" [] OTHER -> "none"
QDone(k, i, how) ==
  /\ call[k].st = "send" /\ call[k].kind = "queue" /\ i \in 1..call[k].n
  /\ ms[k][i] \in Terminal /\ qrep[k][i] = "none"
  /\ qrep' = [qrep EXCEPT ![k][i] = how]
  /\ UNCHANGED <<now, cs, dest, why, cls, link, blocked, wire, rstart, nsent, lastAct, pin, pdel, born, estd, rq, owner,
                 call, ms, wdl, res, out, ev, need, nreq>>

-----------------------------------------------------------------------------
(* closing *)

\* any reported CLOSING of connection c with reason w; what it means for time-outs is classified in cls
Closing(c, w) ==
  /\ ClosingWith(c, w, ms)
  /\ UNCHANGED <<now, link, blocked, wire, tvars0, pin, pdel, owner, call, wdl, res, out, qrep, ev, need, nreq>>

Closed(c) ==
  /\ cs[c] = "closing"
  /\ cs' = [cs EXCEPT ![c] = "closed"]
  /\ UNCHANGED <<now, dest, why, cls, link, blocked, wire, rstart, nsent, lastAct, pin, pdel, born, estd, rq, owner,
                 call, ms, wdl, res, out, qrep, ev, need, nreq>>

\* model: the causes
ReadTimeout(c) == cs[c] \in ReadingStates /\ R(c) > 0 /\ now = DL(c) /\ DuePend(c) = {} /\ Closing(c, "TIMEOUT")
WriteTimeout(c) == DuePend(c) # {} /\ Closing(c, "TIMEOUT")
NoticeEnd(c) ==
  /\ cs[c] \in ReadingStates /\ link[c] \in {"eof", "reset"}
  /\ link[c] = "eof" => pdel[c] = pin[c]
  /\ Closing(c, IF link[c] = "eof" THEN "EOF" ELSE "READ_ERROR")
LocalClose(c) == cs[c] \in OpenStates /\ c # SC /\ Closing(c, "REQUESTED")
OpenFail(c) == cs[c] = "opening" /\ Closing(c, "CONNECT_FAILED")

-----------------------------------------------------------------------------
(* the other end and the link *)

Block(c) ==
  /\ ~blocked[c]
  /\ blocked' = [blocked EXCEPT ![c] = TRUE]
  /\ UNCHANGED <<now, cs, dest, why, cls, link, wire, rstart, nsent, lastAct, pin, pdel, born, estd, rq, owner,
                 call, ms, wdl, res, out, qrep, ev, need, nreq>>

\* the other end reads again: what waited on c is through ("thru": its drain() is released, its task has not
\* resumed yet)
Unblock(c) ==
  /\ blocked[c]
  /\ blocked' = [blocked EXCEPT ![c] = FALSE]
  /\ ms' = [k \in Calls |-> [i \in Msgs |-> IF OnConn(k, c) /\ ms[k][i] = "pend" THEN "thru" ELSE ms[k][i]]]
  /\ UNCHANGED <<now, cs, dest, why, cls, link, wire, rstart, nsent, lastAct, pin, pdel, born, estd, rq, owner,
                 call, wdl, res, out, qrep, ev, need, nreq>>

\* ... and a drain() that waited returns: the send of the oldest such message completes
ThruOn(c) == {x \in DOMAIN wire[c] : ms[wire[c][x][1]][wire[c][x][2]] = "thru"}
Flush(c) ==
  /\ ThruOn(c) # {}
  /\ LET x == CHOOSE y \in ThruOn(c) : \A z \in ThruOn(c) : y <= z
         k == wire[c][x][1]  i == wire[c][x][2]
     IN ms' = [ms EXCEPT ![k][i] = "ok"]
  /\ BumpN(c, 1)
  /\ UNCHANGED <<now, cs, dest, why, cls, link, blocked, wire, pin, pdel, born, estd, rq, owner,
                 call, wdl, res, out, qrep, ev, need, nreq>>
MFlush(c) == c \in AllConns /\ Flush(c)

\* the link breaks: the other end closed ("eof"), reset, or the transport starts refusing writes ("failing")
Break(c, mode) ==
  /\ link[c] = "up" /\ mode \in {"eof", "reset", "failing"}
  /\ link' = [link EXCEPT ![c] = mode]
  /\ UNCHANGED <<now, cs, dest, why, cls, blocked, wire, rstart, nsent, lastAct, pin, pdel, born, estd, rq, owner,
                 call, ms, wdl, res, out, qrep, ev, need, nreq>>

PeerSend(c) ==
  /\ link[c] = "up"
  /\ pin' = [pin EXCEPT ![c] = @ + 1]
  /\ UNCHANGED <<now, cs, dest, why, cls, link, blocked, wire, rstart, nsent, lastAct, pdel, born, estd, rq, owner,
                 call, ms, wdl, res, out, qrep, ev, need, nreq>>

\* MessageReceivedEvent for message j of the other end (connection.py _message_reader_loop); the next read starts
CanDeliver(c, j) == j = pdel[c] + 1 /\ j <= pin[c] /\ link[c] # "reset"
Deliver(c, j) ==
  /\ CanDeliver(c, j)
  /\ pdel' = [pdel EXCEPT ![c] = j]
  /\ rstart' = [rstart EXCEPT ![c] = now] /\ nsent' = [nsent EXCEPT ![c] = 0] /\ lastAct' = [lastAct EXCEPT ![c] = now]
  /\ UNCHANGED <<now, cs, dest, why, cls, link, blocked, wire, pin, born, estd, rq, owner,
                 call, ms, wdl, res, out, qrep, ev, need, nreq>>
MDeliver(c) == cs[c] \in ReadingStates /\ Deliver(c, pdel[c] + 1)

\* a frame that is not a message of a call (GetPeerAddress, ConnectToPeer on the server connection)
InfraWrite(c) ==
  /\ BumpN(c, 1)
  /\ UNCHANGED <<now, cs, dest, why, cls, link, blocked, wire, pin, pdel, born, estd, rq, owner,
                 call, ms, wdl, res, out, qrep, ev, need, nreq>>

\* a message that is not one of the scripted ones arrived (GetPeerAddress.Response ... on the server connection)
InfraRecv(c) ==
  /\ rstart' = [rstart EXCEPT ![c] = now] /\ nsent' = [nsent EXCEPT ![c] = 0] /\ lastAct' = [lastAct EXCEPT ![c] = now]
  /\ UNCHANGED <<now, cs, dest, why, cls, link, blocked, wire, pin, pdel, born, estd, rq, owner,
                 call, ms, wdl, res, out, qrep, ev, need, nreq>>

\* time passes
Tick(t) ==
  /\ t > now
  /\ now' = t
  /\ UNCHANGED <<cs, dest, why, cls, link, blocked, wire, rstart, nsent, lastAct, pin, pdel, born, estd, rq, owner,
                 call, ms, wdl, res, out, qrep, ev, need, nreq>>

-----------------------------------------------------------------------------
(* the model *)

TimeoutDue == \E c \in AllConns : \/ DuePend(c) # {}
                                  \/ cs[c] \in ReadingStates /\ R(c) > 0 /\ now = DL(c)
EnvConns == IF "srv" \in Envs THEN AllConns ELSE Conns      \* where the explored environment acts
MTick == now < MaxNow /\ ~TimeoutDue /\ Tick(now + 1)
\* the code asks for a connection only for a call that found none
MOpen(c, k) ==
  /\ call[k].st = "wait" /\ ~\E d \in Conns : owner[d] = k
  /\ Open(c, call[k].user)
  /\ owner' = [owner EXCEPT ![c] = k]
MConnFail(k) ==
  /\ call[k].st = "wait"
  /\ \E c \in Conns : owner[c] = k /\ cs[c] = "closed" /\ estd[c] = 0
  /\ ~\E c \in Conns : owner[c] = k /\ estd[c] > 0
  /\ ConnFail(k)
MEstOut(c) == cs[c] = "connected" /\ EstOut(c)
MAdopt(k, c) == Mine(k, c) /\ Adopt(k, c)
MEnqueue(k, c, n) == "queue" \in Envs /\ estd[c] > 0 /\ Enqueue(k, c, n)
\* asyncio runs tasks first in, first out: the send tasks of a call start after those created before them
Fifo(k) == \A j \in Calls : (call[j].go # 0 /\ call[j].go < call[k].go /\ call[j].conn = call[k].conn) =>
                               \A i \in 1..call[j].n : ms[j][i] # "todo"
MWrite(k, i) == Fifo(k) /\ Write(k, i)
MWriteFail(k, i) == Fifo(k) /\ WriteFail(k, i)
MSkip(k, i) == Fifo(k) /\ Skip(k, i)
MEstIn(c, u) == "dial" \in Envs /\ EstIn(c, u, FALSE) /\ UNCHANGED owner
\* the peer pierces for a call whose own attempt failed (indirect connection)
MPierce(c, k) ==
  /\ "refuse" \in Envs /\ call[k].st = "wait"
  /\ \E d \in Conns : owner[d] = k /\ cs[d] = "closed" /\ estd[d] = 0
  /\ ~\E d \in Conns : owner[d] = k /\ estd[d] > 0
  /\ EstIn(c, call[k].user, TRUE)
  /\ owner' = [owner EXCEPT ![c] = k]
MLocalClose(c) == "close" \in Envs /\ LocalClose(c)
MOpenFail(c) == "refuse" \in Envs /\ OpenFail(c)
MBlock(c) == "block" \in Envs /\ cs[c] \in ReadingStates /\ link[c] = "up" /\ Block(c)
MBreak(c, m) == m \in Envs /\ cs[c] \in OpenStates \ {"opening"} /\ Break(c, m)
MPeerSend(c) == "psend" \in Envs /\ cs[c] \in ReadingStates /\ pin[c] < MaxIn /\ PeerSend(c)
\* a send failed on a connection that is still open: disconnect(WRITE_ERROR) comes next, before the error is raised
WErr(c) == cs[c] \in OpenStates \ {"opening"} /\ \E k \in Calls : \E i \in Msgs : OnConn(k, c) /\ ms[k][i] = "err"
MErrClose(c) == WErr(c) /\ Closing(c, "WRITE_ERROR")
MReturn(k) == call[k].conn \in AllConns /\ ~WErr(call[k].conn) /\ Return(k)
MQDone(k, i) == ms[k][i] \in Terminal /\ QDone(k, i, HowOf(ms[k][i]))

Next ==
  \/ \E k \in Calls, u \in Dsts, n \in Ns, r \in Raises : Invoke(k, u, n, r)
  \/ \E k \in Calls, c \in EnvConns, n \in Ns : MEnqueue(k, c, n)
  \/ \E c \in Conns, k \in Calls : MOpen(c, k)
  \/ \E c \in Conns : Connected(c)
  \/ \E c \in Conns : MEstOut(c)
  \/ \E c \in Conns, u \in Peers : MEstIn(c, u)
  \/ \E c \in Conns, k \in Calls : MPierce(c, k)
  \/ \E k \in Calls, c \in Conns : MAdopt(k, c)
  \/ \E k \in Calls : MConnFail(k)
  \/ \E k \in Calls, i \in Msgs : MWrite(k, i)
  \/ \E k \in Calls, i \in Msgs : MWriteFail(k, i)
  \/ \E k \in Calls, i \in Msgs : MSkip(k, i)
  \/ \E k \in Calls : MReturn(k)
  \/ \E c \in AllConns : MErrClose(c)
  \/ \E k \in Calls, i \in Msgs : MQDone(k, i)
  \/ \E c \in AllConns : ReadTimeout(c)
  \/ \E c \in AllConns : WriteTimeout(c)
  \/ \E c \in EnvConns : NoticeEnd(c)
  \/ \E c \in Conns : MLocalClose(c)
  \/ \E c \in Conns : MOpenFail(c)
  \/ \E c \in AllConns : Closed(c)
  \/ \E c \in EnvConns : MBlock(c)
  \/ \E c \in EnvConns : Unblock(c)
  \/ \E c \in AllConns : MFlush(c)
  \/ \E c \in EnvConns, m \in {"eof", "reset", "failing"} : MBreak(c, m)
  \/ \E c \in EnvConns : MPeerSend(c)
  \/ \E c \in EnvConns : MDeliver(c)
  \/ MTick

Spec == Init /\ [][Next]_vars

-----------------------------------------------------------------------------
(* properties - from the documentation *)

\* "messages ... in order": the messages of one call are on the wire in the order they were given
InCallOrder ==
  \A c \in AllConns : \A x, y \in DOMAIN wire[c] :
    (x < y /\ wire[c][x][1] = wire[c][y][1]) => wire[c][x][2] < wire[c][y][2]

\* exactly once: no message is handed to a transport twice, all messages of a call travel on the call's connection
AtMostOnce ==
  /\ \A c \in AllConns : \A x, y \in DOMAIN wire[c] : x # y => wire[c][x] # wire[c][y]
  /\ \A c \in AllConns : \A x \in DOMAIN wire[c] : OnConn(wire[c][x][1], c)

\* a call that returned before another one was made comes first on a connection they share
SuccessiveCallsInOrder ==
  \A c \in AllConns : \A x, y \in DOMAIN wire[c] :
    LET a == wire[c][x][1]  b == wire[c][y][1] IN
      (a # b /\ call[a].kind = "send" /\ out[a] = "ok" /\ call[a].ret < call[b].inv) => x < y

\* queue_message(s): first in, first out per connection
QueueFifo ==
  \A c \in AllConns : \A x, y \in DOMAIN wire[c] :
    LET a == wire[c][x][1]  b == wire[c][y][1] IN
      (a # b /\ call[a].kind = "queue" /\ call[b].kind = "queue" /\ call[a].inv < call[b].inv) => x < y

\* "None in case of success and an Exception object in case of failure": the list tells what happened
TruthfulResults ==
  \A k \in Calls : \A i \in Msgs : res[k][i] # "none" => res[k][i] = Expected(k, i)

\* "when set to True an exception will be raised": returned normally only if everything was sent,
\* raised only if something failed
RaiseIffFailed ==
  \A k \in Calls : (call[k].kind = "send" /\ call[k].raise) =>
     /\ out[k] = "ok" => \A i \in 1..call[k].n : ms[k][i] = "ok"
     /\ out[k] = "raise" => \E i \in 1..call[k].n : ms[k][i] \in {"err", "skip"}

\* "will raise an exception if a connection to the peer failed": not when one was made for the call
ConnFailTruthful == \A k \in Calls : out[k] # "connfail-bad"

\* "It will first try to re-use an existing connection, otherwise it will create a new connection"
Reuse ==
  /\ \A u \in Peers : nreq[u] <= need[u]
  /\ \A k \in Calls : (call[k].kind = "send" /\ call[k].st # "idle" /\ call[k].conn \in Conns) =>
        dest[call[k].conn] = call[k].user /\ call[k].fit

\* send_message: "ConnectionWriteError: error or timeout occured during writing" - and the connection is given
\* up: once the failure has been reported the connection is CLOSING / CLOSED (unless it never was open)
FailedSendCloses ==
  \A k \in Calls : \A i \in Msgs :
     (res[k][i] = "err" \/ (out[k] = "raise" /\ ms[k][i] = "err")) =>
        (call[k].conn \in AllConns /\ cs[call[k].conn] \in {"free", "opening", "closing", "closed"})

\* nothing is written on a connection that was reported CLOSING / CLOSED
NoWriteAfterCloseA == \A c \in AllConns : wire'[c] # wire[c] => cs[c] \notin {"closing", "closed"}
NoWriteAfterClose == [][NoWriteAfterCloseA]_vars

\* queued messages are cancelled at disconnect: once CLOSING was reported none of them is waiting
QueueCancelledAtClose ==
  \A k \in Calls : (call[k].kind = "queue" /\ ~call[k].late /\ cs[call[k].conn] \in {"closing", "closed"}) =>
     \A i \in 1..call[k].n : ms[k][i] \in Terminal
\* the task of a queued message that was cancelled at disconnect ends cancelled (it neither completes nor fails
\* later); one that was dropped completes; one that was written does not fail.  (A task can still be cancelled
\* after its message was written, and a task whose own write failed is cancelled by the disconnect it causes.)
HowOk(s, how) ==
  CASE s = "canc" -> how = "cancelled"
    [] s = "skip" -> how = "done"
    [] s = "ok"   -> how \in {"done", "cancelled"}
    [] s = "err"  -> how \in {"error", "cancelled"}
    [] OTHER      -> FALSE
QueueEndsAsItWent ==
  \A k \in Calls : \A i \in Msgs : qrep[k][i] # "none" => HowOk(ms[k][i], qrep[k][i])

\* a message is delivered before the CLOSED of its connection, in the order it was sent, once
DeliveredBeforeClosedA == \A c \in AllConns : pdel'[c] # pdel[c] => cs[c] \in ReadingStates
DeliveredBeforeClosed == [][DeliveredBeforeClosedA]_vars
DeliveredInOrderA == \A c \in AllConns : pdel'[c] # pdel[c] => pdel'[c] = pdel[c] + 1 /\ pdel'[c] <= pin[c]
DeliveredInOrder == [][DeliveredInOrderA]_vars
\* the other end closed after writing: everything it wrote was delivered before the connection is given up
AllDeliveredAtEof ==
  \A c \in AllConns : why[c] = "EOF" => pdel[c] = pin[c]

\* time-outs: a connection is closed for TIMEOUT exactly R after it was last used, or when a write waited WT
TimeoutJustified == \A c \in AllConns : cls[c] # "bad"
NoIdleOverstay == \A c \in AllConns : (cs[c] \in ReadingStates /\ R(c) > 0) => now <= DocDL(c)
NoWriteOverstay == \A k \in Calls : \A i \in Msgs : ms[k][i] = "pend" => now <= wdl[k][i]

TypeOK ==
  /\ now \in Nat
  /\ \A c \in AllConns : cs[c] \in {"free", "opening", "connected", "init", "est", "closing", "closed"}
  /\ \A k \in Calls : \A i \in Msgs : ms[k][i] \in {"todo", "pend", "thru", "ok", "err", "skip", "canc"}
=============================================================================

------------------------ MODULE PeerMessagingTrace ------------------------
(***************************************************************************)
(* Trace validation for X05: executions of a real aioslsk Network (bare, or *)
(* inside a logged-in SoulSeekClient) with a scripted server and scripted   *)
(* peers in virtual time, recorded by harness/lib_x05.py, judged against    *)
(* PeerMessaging.                                                           *)
(*                                                                         *)
(* Records (JSON), in the order things happened in the one event loop;      *)
(* connections are numbered in the order they were first reported (0 = the  *)
(* server connection), calls in the order they were made:                   *)
(*   init   srv                      server connection connected or not     *)
(*   tick   t                        the virtual clock now shows t (ms)     *)
(*   open   c user                   ConnectionStateChangedEvent CONNECTING *)
(*                                   of a connection we make to user        *)
(*   state  c st reason              ... CONNECTED / CLOSING / CLOSED       *)
(*   est    c user dir rq            PeerInitializedEvent ('P' connection)  *)
(*   call   k kind user n raise c    send_peer_messages /                   *)
(*                                   send_server_messages is entered (kind  *)
(*                                   "send"), connection.queue_messages /   *)
(*                                   queue_server_messages (kind "queue")   *)
(*   write  c k i                    the transport of c was handed the      *)
(*                                   complete frame of message i of call k  *)
(*   wfail  c k i                    the transport refused it (raised)      *)
(*   iwrite c                        a frame that belongs to no call        *)
(*   irecv  c                        a message that is not a scripted one   *)
(*   ret    k out res                the call returned / raised             *)
(*   qdone  k i how                  the task of a queued message ended     *)
(*   block c / unblock c / break c mode / psend c j    the environment      *)
(*   flush  c                        a drain() that waited on c returned    *)
(*   recv   c j                      MessageReceivedEvent                   *)
(*   end                             the harness stopped looking            *)
(*   exc    what                     something escaped (no action: the      *)
(*                                   trace is rejected)                     *)
(*                                                                         *)
(* Inferred (silent) steps, each only when the next record needs it: Adopt  *)
(* (which connection a waiting call got), Skip (a message was dropped on a  *)
(* closing connection), WriteFail on a connection that was never opened.    *)
(*                                                                         *)
(* Tolerated, MARKED deviations (observations: the code contradicts its     *)
(* documentation; x05.py prints them, they never fail a run):               *)
(*   closed-send-reports-success   TRetDev                                  *)
(*   idle-timeout-accumulates      TRebase                                  *)
(***************************************************************************)
EXTENDS PeerMessaging, Json, IOUtils

Traces == JsonDeserialize(IOEnv.TRACE_FILE)

VARIABLES tid, l, marks, ended
tvars == <<vars, tid, l, marks, ended>>

T == Traces[tid]
Rec == T[l]

TInit ==
  /\ tid \in 1..Len(Traces)
  /\ l = 2 /\ marks = {} /\ ended = FALSE
  /\ Len(Traces[tid]) >= 1 /\ Traces[tid][1].ev = "init"
  /\ LET srv == Traces[tid][1].srv IN
     /\ cs = [c \in AllConns |-> IF c = SC /\ srv THEN "est" ELSE "free"]
     /\ estd = [c \in AllConns |-> IF c = SC /\ srv THEN 1 ELSE 0]
  /\ now = 0
  /\ dest = [c \in AllConns |-> IF c = SC THEN Server ELSE "none"]
  /\ why = [c \in AllConns |-> "none"]
  /\ cls = [c \in AllConns |-> "none"]
  /\ link = [c \in AllConns |-> "up"]
  /\ blocked = [c \in AllConns |-> FALSE]
  /\ wire = [c \in AllConns |-> <<>>]
  /\ rstart = [c \in AllConns |-> 0]
  /\ nsent = [c \in AllConns |-> 0]
  /\ lastAct = [c \in AllConns |-> 0]
  /\ pin = [c \in AllConns |-> 0]
  /\ pdel = [c \in AllConns |-> 0]
  /\ born = [c \in AllConns |-> 0]
  /\ rq = [c \in AllConns |-> FALSE]
  /\ owner = [c \in AllConns |-> 0]
  /\ call = [k \in Calls |-> NoCall]
  /\ ms = [k \in Calls |-> [i \in Msgs |-> "todo"]]
  /\ wdl = [k \in Calls |-> [i \in Msgs |-> 0]]
  /\ res = [k \in Calls |-> [i \in Msgs |-> "none"]]
  /\ out = [k \in Calls |-> "none"]
  /\ qrep = [k \in Calls |-> [i \in Msgs |-> "none"]]
  /\ ev = 1
  /\ need = [u \in Peers |-> 0]
  /\ nreq = [u \in Peers |-> 0]

IsEv(e) == l <= Len(T) /\ Rec.ev = e
Consume == l' = l + 1 /\ UNCHANGED <<tid, marks, ended>>
Silent == UNCHANGED <<tid, l, marks, ended>>
Same == UNCHANGED vars

TTick == IsEv("tick") /\ Tick(Rec.t) /\ Consume

\* OBSERVATION "idle-timeout-accumulates" (tolerated, marked): DataConnection._increase_read_timeout calls
\* Timeout.shift(read_timeout), which moves the deadline read_timeout further from the OLD deadline for every
\* completed send.  A connection on which n messages were sent since its last read began is therefore closed
\* (n + 1) x 60 s after that read began, however long ago it was last used (PEER_READ_TIMEOUT: "Timeout waiting
\* for message on a peer or distributed connection").  Exactly this is let through: when the clock is about to
\* pass the documented deadline of a reading connection whose accumulated deadline is later, the connection is
\* judged as if it had last been used read_timeout before the accumulated deadline.
TRebase ==
  /\ IsEv("tick")
  /\ \E c \in AllConns :
       /\ cs[c] \in ReadingStates /\ R(c) > 0
       /\ Rec.t > DocDL(c) /\ CodeDL(c) > DocDL(c)
       /\ lastAct' = [lastAct EXCEPT ![c] = CodeDL(c) - R(c)]
  /\ marks' = marks \cup {"idle-timeout-accumulates"}
  /\ UNCHANGED <<now, cs, dest, why, cls, link, blocked, wire, rstart, nsent, pin, pdel, born, estd, rq, owner,
                 call, ms, wdl, res, out, qrep, ev, need, nreq, tid, l, ended>>

TOpen == IsEv("open") /\ Rec.c \in Conns /\ Rec.user \in Peers /\ Open(Rec.c, Rec.user) /\ UNCHANGED owner /\ Consume

TState ==
  /\ IsEv("state") /\ Rec.c \in AllConns
  /\ \/ Rec.st = "CONNECTED" /\ Connected(Rec.c)
     \/ Rec.st = "CLOSING" /\ Closing(Rec.c, Rec.reason)
     \/ Rec.st = "CLOSED" /\ Closed(Rec.c)
  /\ Consume

TEst ==
  /\ IsEv("est") /\ Rec.c \in Conns /\ Rec.user \in Peers
  /\ \/ Rec.dir = "out" /\ dest[Rec.c] = Rec.user /\ EstOut(Rec.c)
     \/ Rec.dir = "in" /\ EstIn(Rec.c, Rec.user, Rec.rq) /\ UNCHANGED owner
  /\ Consume

TCall ==
  /\ IsEv("call") /\ Rec.k \in Calls
  /\ \/ Rec.kind = "send" /\ Rec.user \in Peers \cup {Server} /\ Invoke(Rec.k, Rec.user, Rec.n, Rec.raise)
     \/ Rec.kind = "queue" /\ Enqueue(Rec.k, Rec.c, Rec.n)
  /\ Consume

\* which connection the call waited for shows when it first writes / returns
TAdopt ==
  /\ l <= Len(T) /\ Rec.ev \in {"write", "wfail", "ret"} /\ Rec.k \in Calls
  /\ call[Rec.k].st = "wait"
  /\ IF Rec.ev = "ret" THEN Rec.out # "connfail" /\ \E c \in Conns : Adopt(Rec.k, c)
     ELSE Rec.c \in Conns /\ Adopt(Rec.k, Rec.c)
  /\ Silent

\* the call goes on with a connection the design would not give it (another user's, one that was CLOSING when the
\* call was made ...): taken down so that Reuse can say so
TAdoptOdd ==
  /\ l <= Len(T) /\ Rec.ev \in {"write", "wfail"} /\ Rec.k \in Calls /\ Rec.c \in Conns
  /\ call[Rec.k].st = "wait" /\ ~Eligible(Rec.k, Rec.c) /\ cs[Rec.c] # "free"
  /\ call' = [call EXCEPT ![Rec.k].st = "send", ![Rec.k].conn = Rec.c, ![Rec.k].go = ev + 1, ![Rec.k].fit = FALSE]
  /\ ev' = ev + 1
  /\ UNCHANGED <<now, cs, dest, why, cls, link, blocked, wire, rstart, nsent, lastAct, pin, pdel, born, estd, rq, owner,
                 ms, wdl, res, out, qrep, need, nreq>>
  /\ Silent

TWrite ==
  /\ IsEv("write") /\ Rec.k \in Calls /\ Rec.i \in Msgs /\ Rec.c \in AllConns
  /\ call[Rec.k].conn = Rec.c
  /\ Write(Rec.k, Rec.i)
  /\ Consume

\* a write the design does not have (second time, out of turn, on another connection, after CLOSING): it is put
\* on the wire so that the property it breaks can say so
TWriteOdd ==
  /\ IsEv("write") /\ Rec.k \in Calls /\ Rec.i \in Msgs /\ Rec.c \in AllConns
  /\ call[Rec.k].st \notin {"idle", "wait"}
  /\ ~(call[Rec.k].conn = Rec.c /\ CanWrite(Rec.k, Rec.i))
  /\ wire' = [wire EXCEPT ![Rec.c] = Append(@, <<Rec.k, Rec.i>>)]
  /\ UNCHANGED <<now, cs, dest, why, cls, link, blocked, rstart, nsent, lastAct, pin, pdel, born, estd, rq, owner,
                 call, ms, wdl, res, out, qrep, ev, need, nreq>>
  /\ Consume

TWFail ==
  /\ IsEv("wfail") /\ Rec.k \in Calls /\ Rec.i \in Msgs
  /\ call[Rec.k].conn = Rec.c
  /\ WriteFail(Rec.k, Rec.i)
  /\ Consume

TIWrite ==
  /\ IsEv("iwrite") /\ Rec.c \in AllConns
  /\ IF cs[Rec.c] \in ReadingStates /\ ~blocked[Rec.c] THEN InfraWrite(Rec.c) ELSE Same
  /\ Consume

TIRecv ==
  /\ IsEv("irecv") /\ Rec.c \in AllConns
  /\ IF cs[Rec.c] \in ReadingStates THEN InfraRecv(Rec.c) ELSE Same
  /\ Consume

\* messages that were dropped without a trace (closing connection) or refused for want of a writer, inferred when
\* the call returns / the queued task ends / the harness stops looking
NeedsFate(k) ==
  \/ Rec.ev = "ret" /\ Rec.k = k /\ call[k].st = "send" /\ Rec.out = "ok"
  \/ Rec.ev = "ret" /\ Rec.k = k /\ call[k].st = "send" /\ Rec.out = "raise" /\ ~\E i \in 1..call[k].n : ms[k][i] = "err"
  \/ Rec.ev = "qdone" /\ Rec.k = k
  \/ Rec.ev = "end" /\ call[k].kind = "queue"
TFate ==
  /\ l <= Len(T) /\ Rec.ev \in {"ret", "qdone", "end"}
  /\ \E k \in Calls : \E i \in Msgs :
       /\ NeedsFate(k)
       /\ \/ Skip(k, i)
          \/ cs[call[k].conn] \in {"free", "opening"} /\ WriteFail(k, i)
  /\ Silent

ResOf(rr) == [i \in Msgs |-> IF i <= Len(rr.res) THEN rr.res[i] ELSE "none"]

TRet ==
  /\ IsEv("ret") /\ Rec.k \in Calls
  /\ \/ Rec.out \in {"ok", "raise"} /\ ReturnWith(Rec.k, Rec.out, ResOf(Rec))
     \/ Rec.out = "connfail" /\ ConnFail(Rec.k)
  /\ Consume

\* OBSERVATION "closed-send-reports-success" (tolerated, marked): DataConnection.send_message returns without a
\* word when the connection is CLOSING / CLOSED, so send_peer_messages / send_server_messages report None
\* ("successfully sent") for a message that was never written, and raise_on_error=True does not raise.  Exactly
\* this is let through: the call is judged as if it had reported those messages as failed.
TRetDev ==
  /\ IsEv("ret") /\ Rec.k \in Calls /\ Rec.out = "ok"
  /\ LET k == Rec.k
         dropped == {i \in 1..call[k].n : ms[k][i] = "skip"}
     IN /\ dropped # {}
        /\ IF call[k].raise
           THEN ReturnWith(k, "raise", [i \in Msgs |-> "none"])
           ELSE /\ \A i \in dropped : ResOf(Rec)[i] = "ok"
                /\ ReturnWith(k, "ok", [i \in Msgs |-> IF i \in dropped THEN "err" ELSE ResOf(Rec)[i]])
  /\ marks' = marks \cup {"closed-send-reports-success"}
  /\ l' = l + 1 /\ UNCHANGED <<tid, ended>>

TQDone == IsEv("qdone") /\ Rec.k \in Calls /\ Rec.i \in Msgs /\ QDone(Rec.k, Rec.i, Rec.how) /\ Consume

TBlock == IsEv("block") /\ Rec.c \in AllConns /\ Block(Rec.c) /\ Consume
TUnblock == IsEv("unblock") /\ Rec.c \in AllConns /\ Unblock(Rec.c) /\ Consume
\* (a frame of the library itself can have waited as well: it counts as a completed send, like iwrite)
TFlush ==
  /\ IsEv("flush") /\ Rec.c \in AllConns
  /\ IF ThruOn(Rec.c) # {} THEN Flush(Rec.c)
     ELSE IF cs[Rec.c] \in ReadingStates THEN InfraWrite(Rec.c) ELSE Same
  /\ Consume
TBreak == IsEv("break") /\ Rec.c \in AllConns /\ Break(Rec.c, Rec.mode) /\ Consume
TPSend == IsEv("psend") /\ Rec.c \in AllConns /\ Rec.j = pin[Rec.c] + 1 /\ PeerSend(Rec.c) /\ Consume
TRecv == IsEv("recv") /\ Rec.c \in AllConns /\ Deliver(Rec.c, Rec.j) /\ Consume

\* a delivery the design does not have (out of order, twice, never sent): recorded so that DeliveredInOrder says so
TRecvOdd ==
  /\ IsEv("recv") /\ Rec.c \in AllConns /\ ~CanDeliver(Rec.c, Rec.j)
  /\ pdel' = [pdel EXCEPT ![Rec.c] = Rec.j]
  /\ UNCHANGED <<now, cs, dest, why, cls, link, blocked, wire, rstart, nsent, lastAct, pin, born, estd, rq, owner,
                 call, ms, wdl, res, out, qrep, ev, need, nreq>>
  /\ Consume

TEnd == IsEv("end") /\ Same /\ ended' = TRUE /\ l' = l + 1 /\ UNCHANGED <<tid, marks>>

\* bounded liveness on the recorded executions: when the harness stops looking (after more virtual time than any
\* time-out) every call has returned and the task of every queued message has ended as its fate says
EndQuiet ==
  ended =>
    /\ \A k \in Calls : call[k].kind = "send" => call[k].st = "ret"
    /\ \A k \in Calls : call[k].kind = "queue" => \A i \in 1..call[k].n : ms[k][i] \in Terminal /\ qrep[k][i] # "none"

Done == l = Len(T) + 1 /\ PrintT(<<"ACCEPT", tid, marks>>) /\ l' = l + 1 /\ UNCHANGED <<vars, tid, marks, ended>>
Finished == l = Len(T) + 2 /\ UNCHANGED tvars

TNext ==
  \/ TTick \/ TRebase \/ TOpen \/ TState \/ TEst \/ TCall \/ TAdopt \/ TAdoptOdd \/ TWrite \/ TWriteOdd \/ TWFail \/ TIWrite \/ TIRecv
  \/ TFate \/ TRet \/ TRetDev \/ TQDone \/ TBlock \/ TUnblock \/ TFlush \/ TBreak \/ TPSend \/ TRecv \/ TRecvOdd \/ TEnd
  \/ Done \/ Finished
TSpec == TInit /\ [][TNext]_tvars
\* the action properties, over the variables of the trace specification (TraceDiag.cfg)
TNoWriteAfterClose == [][NoWriteAfterCloseA]_tvars
TDeliveredBeforeClosed == [][DeliveredBeforeClosedA]_tvars
TDeliveredInOrder == [][DeliveredInOrderA]_tvars
=============================================================================

SPECIFICATION TSpec
CONSTANTS
  Peers = {"p1", "p2", "p3"}
  Conns = {1, 2, 3, 4, 5, 6, 7, 8, 9, 10, 11, 12}
  Calls = {1, 2, 3, 4, 5, 6, 7, 8, 9, 10}
  MaxMsgs = 3
  RT = 60000
  ST = 600000
  WT = 10000
  MaxNow = 0
  MaxIn = 0
  SrvOpen = TRUE
  Dsts = {}
  Envs = {}
  Ns = {}
  Raises = {}
  SkipReportsOk = FALSE
  ShiftAccumulates = FALSE
INVARIANT InCallOrder
INVARIANT AtMostOnce
INVARIANT SuccessiveCallsInOrder
INVARIANT QueueFifo
INVARIANT TruthfulResults
INVARIANT RaiseIffFailed
INVARIANT ConnFailTruthful
INVARIANT Reuse
INVARIANT FailedSendCloses
INVARIANT QueueCancelledAtClose
INVARIANT QueueEndsAsItWent
INVARIANT AllDeliveredAtEof
INVARIANT TimeoutJustified
INVARIANT NoIdleOverstay
INVARIANT NoWriteOverstay
INVARIANT EndQuiet
PROPERTY TNoWriteAfterClose
PROPERTY TDeliveredBeforeClosed
PROPERTY TDeliveredInOrder
CHECK_DEADLOCK TRUE

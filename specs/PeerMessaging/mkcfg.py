#!/usr/bin/env python3
"""Writes the MC_*.cfg files of PeerMessaging (one vocabulary, several windows on it)."""
import os
HERE = os.path.dirname(os.path.abspath(__file__))
INV = ['TypeOK', 'InCallOrder', 'AtMostOnce', 'SuccessiveCallsInOrder', 'QueueFifo', 'TruthfulResults', 'RaiseIffFailed',
       'ConnFailTruthful', 'Reuse', 'FailedSendCloses', 'QueueCancelledAtClose', 'QueueEndsAsItWent', 'AllDeliveredAtEof', 'TimeoutJustified',
       'NoIdleOverstay', 'NoWriteOverstay']
PROP = ['NoWriteAfterClose', 'DeliveredBeforeClosed', 'DeliveredInOrder']
BASE = dict(Peers='{"p1"}', Conns='{1, 2}', Calls='{1, 2}', MaxMsgs=2, RT=3, ST=0, WT=2, MaxNow=0, MaxIn=0, SrvOpen='TRUE',
            Dsts='{"p1"}', Envs='{}', Ns='{1, 2}', Raises='{TRUE, FALSE}', SkipReportsOk='FALSE', ShiftAccumulates='FALSE')
CFGS = {
    # quick
    'MC_reuse': dict(Calls='{1, 2, 3}', MaxMsgs=1, Ns='{1}', Raises='{FALSE}', Envs='{"dial"}'),
    'MC_reuse_close': dict(Calls='{1, 2}', MaxMsgs=1, Ns='{1}', Raises='{FALSE}', Envs='{"dial", "close"}'),
    'MC_fail': dict(Conns='{1}', Envs='{"reset", "eof", "failing", "close"}'),
    'MC_refuse': dict(MaxMsgs=1, Ns='{1}', Envs='{"refuse"}'),
    'MC_bp': dict(Conns='{1}', Envs='{"block"}', Ns='{2}', Raises='{FALSE}', RT=5, MaxNow=2),
    'MC_idle': dict(Conns='{1}', MaxMsgs=1, Ns='{1}', Raises='{FALSE}', Envs='{"psend"}', MaxNow=7, MaxIn=1),
    'MC_queue': dict(Conns='{1}', Calls='{1, 2}', Dsts='{}', Envs='{"queue", "dial", "close", "block"}'),
    'MC_queue_t': dict(Conns='{1}', Calls='{1, 2}', Dsts='{}', Envs='{"queue", "dial", "close", "block"}', MaxNow=2),
    'MC_server': dict(Conns='{}', Dsts='{"server"}', Ns='{1}', Raises='{FALSE}', Envs='{"srv", "reset", "psend"}', ST=3, MaxNow=7, MaxIn=1),
    'MC_server_down': dict(Conns='{}', Dsts='{"server"}', SrvOpen='FALSE', Envs='{"srv"}'),
    # the position of the code: the property named must be reported violated
    'MC_code_skip': dict(Conns='{1}', Calls='{1}', Envs='{"eof", "close"}', SkipReportsOk='TRUE'),
    'MC_code_shift': dict(Conns='{1}', Calls='{1}', MaxMsgs=1, Ns='{1}', Envs='{}', MaxNow=7, ShiftAccumulates='TRUE'),
    # thorough
    'MC_big_send': dict(Peers='{"p1", "p2"}', Dsts='{"p1", "p2"}', Conns='{1, 2}', Calls='{1, 2, 3}', MaxMsgs=1, Ns='{1}',
                        Raises='{FALSE}', Envs='{"dial"}'),
    'MC_big_fail': dict(Conns='{1, 2}', Calls='{1, 2}', Envs='{"failing", "refuse"}'),
    'MC_big_time': dict(Conns='{1}', Calls='{1, 2}', MaxMsgs=1, Ns='{1}', Raises='{FALSE}', Envs='{"block", "psend"}', MaxNow=7, MaxIn=1),
    'MC_sim': dict(Peers='{"p1", "p2"}', Dsts='{"p1", "p2", "server"}', Conns='{1, 2, 3, 4}', Calls='{1, 2, 3, 4}', MaxMsgs=3, Ns='{1, 2, 3}',
                   Envs='{"dial", "close", "reset", "eof", "failing", "refuse", "block", "psend", "queue", "srv"}',
                   RT=6, ST=12, WT=2, MaxNow=30, MaxIn=2),
}
for name, over in CFGS.items():
    c = dict(BASE)
    c.update(over)
    lines = ['SPECIFICATION Spec', 'CONSTANTS'] + [f'  {k} = {v}' for k, v in c.items()]
    lines += [f'INVARIANT {i}' for i in INV] + [f'PROPERTY {p}' for p in PROP] + ['CHECK_DEADLOCK FALSE']
    with open(os.path.join(HERE, name + '.cfg'), 'w') as fh:
        fh.write('\n'.join(lines) + '\n')

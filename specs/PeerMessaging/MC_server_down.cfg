SPECIFICATION Spec
CONSTANTS
  Peers = {"p1"}
  Conns = {}
  Calls = {1, 2}
  MaxMsgs = 2
  RT = 3
  ST = 0
  WT = 2
  MaxNow = 0
  MaxIn = 0
  SrvOpen = FALSE
  Dsts = {"server"}
  Envs = {"srv"}
  Ns = {1, 2}
  Raises = {TRUE, FALSE}
  SkipReportsOk = FALSE
  ShiftAccumulates = FALSE
INVARIANT TypeOK
INVARIANT InCallOrder
INVARIANT AtMostOnce
INVARIANT SuccessiveCallsInOrder
INVARIANT QueueFifo
INVARIANT TruthfulResults
INVARIANT RaiseIffFailed
INVARIANT ConnFailTruthful
INVARIANT Reuse
INVARIANT FailedSendCloses
INVARIANT QueueCancelledAtClose
INVARIANT QueueEndsAsItWent
INVARIANT AllDeliveredAtEof
INVARIANT TimeoutJustified
INVARIANT NoIdleOverstay
INVARIANT NoWriteOverstay
PROPERTY NoWriteAfterClose
PROPERTY DeliveredBeforeClosed
PROPERTY DeliveredInOrder
CHECK_DEADLOCK FALSE

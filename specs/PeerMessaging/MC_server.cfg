SPECIFICATION Spec
CONSTANTS
  Peers = {"p1"}
  Conns = {}
  Calls = {1, 2}
  MaxMsgs = 2
  RT = 3
  ST = 3
  WT = 2
  MaxNow = 7
  MaxIn = 1
  SrvOpen = TRUE
  Dsts = {"server"}
  Envs = {"srv", "reset", "psend"}
  Ns = {1}
  Raises = {FALSE}
  SkipReportsOk = FALSE
  ShiftAccumulates = FALSE
INVARIANT TypeOK
INVARIANT InCallOrder
INVARIANT AtMostOnce
INVARIANT SuccessiveCallsInOrder
INVARIANT QueueFifo
INVARIANT TruthfulResults
INVARIANT RaiseIffFailed
INVARIANT ConnFailTruthful
INVARIANT Reuse
INVARIANT FailedSendCloses
INVARIANT QueueCancelledAtClose
INVARIANT QueueEndsAsItWent
INVARIANT AllDeliveredAtEof
INVARIANT TimeoutJustified
INVARIANT NoIdleOverstay
INVARIANT NoWriteOverstay
PROPERTY NoWriteAfterClose
PROPERTY DeliveredBeforeClosed
PROPERTY DeliveredInOrder
CHECK_DEADLOCK FALSE

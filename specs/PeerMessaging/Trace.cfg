SPECIFICATION TSpec
CONSTANTS
  Peers = {"p1", "p2", "p3"}
  Conns = {1, 2, 3, 4, 5, 6, 7, 8, 9, 10, 11, 12}
  Calls = {1, 2, 3, 4, 5, 6, 7, 8, 9, 10}
  MaxMsgs = 3
  RT = 60000
  ST = 600000
  WT = 10000
  MaxNow = 0
  MaxIn = 0
  SrvOpen = TRUE
  Dsts = {}
  Envs = {}
  Ns = {}
  Raises = {}
  SkipReportsOk = FALSE
  ShiftAccumulates = FALSE
CONSTRAINT InCallOrder
CONSTRAINT AtMostOnce
CONSTRAINT SuccessiveCallsInOrder
CONSTRAINT QueueFifo
CONSTRAINT TruthfulResults
CONSTRAINT RaiseIffFailed
CONSTRAINT ConnFailTruthful
CONSTRAINT Reuse
CONSTRAINT FailedSendCloses
CONSTRAINT QueueCancelledAtClose
CONSTRAINT QueueEndsAsItWent
CONSTRAINT AllDeliveredAtEof
CONSTRAINT TimeoutJustified
CONSTRAINT NoIdleOverstay
CONSTRAINT NoWriteOverstay
CONSTRAINT EndQuiet
ACTION_CONSTRAINT NoWriteAfterCloseA
ACTION_CONSTRAINT DeliveredBeforeClosedA
ACTION_CONSTRAINT DeliveredInOrderA
CHECK_DEADLOCK FALSE

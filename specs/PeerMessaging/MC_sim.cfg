SPECIFICATION Spec
CONSTANTS
  Peers = {"p1", "p2"}
  Conns = {1, 2, 3, 4}
  Calls = {1, 2, 3, 4}
  MaxMsgs = 3
  RT = 6
  ST = 12
  WT = 2
  MaxNow = 30
  MaxIn = 2
  SrvOpen = TRUE
  Dsts = {"p1", "p2", "server"}
  Envs = {"dial", "close", "reset", "eof", "failing", "refuse", "block", "psend", "queue", "srv"}
  Ns = {1, 2, 3}
  Raises = {TRUE, FALSE}
  SkipReportsOk = FALSE
  ShiftAccumulates = FALSE
INVARIANT TypeOK
INVARIANT InCallOrder
INVARIANT AtMostOnce
INVARIANT SuccessiveCallsInOrder
INVARIANT QueueFifo
INVARIANT TruthfulResults
INVARIANT RaiseIffFailed
INVARIANT ConnFailTruthful
INVARIANT Reuse
INVARIANT FailedSendCloses
INVARIANT QueueCancelledAtClose
INVARIANT QueueEndsAsItWent
INVARIANT AllDeliveredAtEof
INVARIANT TimeoutJustified
INVARIANT NoIdleOverstay
INVARIANT NoWriteOverstay
PROPERTY NoWriteAfterClose
PROPERTY DeliveredBeforeClosed
PROPERTY DeliveredInOrder
CHECK_DEADLOCK FALSE

SPECIFICATION Spec
CONSTANTS
  MaxFrames = 2
  HdrLen = 2
  HostileLens = {0, 2}
  LyingAvail = {1}
  Kinds = {"server", "peer", "dist", "accept"}
  Bystanders = {"listener"}
  BaseExcEscapes = TRUE
INVARIANT NoSilentStop
CHECK_DEADLOCK FALSE

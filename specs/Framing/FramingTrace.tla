---------------------------- MODULE FramingTrace ----------------------------
(***************************************************************************)
(* Trace validation for C02.  A batch of executions of a real, logged-in   *)
(* SoulSeekClient on the simulated network, recorded by                    *)
(* harness/props/c02.py, is checked against Framing.                       *)
(*                                                                         *)
(* Event records (JSON):                                                   *)
(*   init     kind, frames = [[k, id, h, b, a] as records]  (first record) *)
(*   feed     n        n more bytes were written to the connection         *)
(*   eof               the remote end closed                               *)
(*   tick              virtual time was advanced                           *)
(*   lclose            the harness called connection.disconnect()          *)
(*   msg      sid      MessageReceivedEvent for this connection, seen by the *)
(*                     first listener on the bus; sid is the sentinel id   *)
(*                     carried by the message if the message EQUALS the    *)
(*                     sentinel that was sent (sentinels come in several   *)
(*                     frame sizes), -1 if it carries the id with altered  *)
(*                     content, 0 if it is no sentinel                     *)
(*   hdone             the same event reached the last listener on the bus: *)
(*                     every manager's handler has run                     *)
(*   peer_init typ     PeerInitializedEvent for this connection (P, D, F)  *)
(*   state    st       ConnectionStateChangedEvent for this connection     *)
(*   ostate   which, st   ... for one of the bystander connections         *)
(*   reader_done       the task reading the connection finished            *)
(*   quiet             the loop's ready queue is empty                     *)
(* Anything else (hang, unhandled, accept_raised) matches no action.       *)
(*                                                                         *)
(* ReadHeader, ReadBody, DecodeReject and DecodeMsg are silent steps; every *)
(* other action of Framing needs its event, so the search is linear.  The stream and the frame lengths (in bytes) come from the init  *)
(* record; what the frames contain is not known to the spec.               *)
(***************************************************************************)
EXTENDS Framing, Json, IOUtils

Traces == JsonDeserialize(IOEnv.TRACE_FILE)

VARIABLES tid, l

tvars == <<vars, tid, l>>

T == Traces[tid]
Rec == T[l]

TInit ==
  /\ tid \in 1..Len(Traces)
  /\ l = 2
  /\ Len(Traces[tid]) >= 1 /\ Traces[tid][1].ev = "init"
  /\ kind = Traces[tid][1].kind
  /\ stream = [i \in 1..Len(Traces[tid][1].frames) |->
                 [k |-> Traces[tid][1].frames[i].k, id |-> Traces[tid][1].frames[i].id,
                  h |-> Traces[tid][1].frames[i].h, b |-> Traces[tid][1].frames[i].b,
                  a |-> Traces[tid][1].frames[i].a]]
  /\ fed = 0 /\ eof = FALSE /\ ticked = FALSE /\ lreq = FALSE
  /\ phase = (IF kind = "accept" THEN "init" ELSE "est")
  /\ rpos = 0 /\ cur = 1 /\ rpc = "hdr" /\ alive = TRUE
  /\ conn = "OPEN"
  /\ delivered = <<>>
  /\ reacted = FALSE
  /\ others = [o \in Bystanders |-> "OPEN"]

IsEv(e) == l <= Len(T) /\ Rec.ev = e
Consume == l' = l + 1 /\ UNCHANGED tid

TFeed == IsEv("feed") /\ FeedSegment(Rec.n) /\ Consume

TEof == IsEv("eof") /\ FeedEof /\ Consume

\* time passing is only interesting while the reader waits for bytes
TTick ==
  /\ IsEv("tick")
  /\ IF ~ticked /\ Reading /\ Avail < Need /\ conn = "OPEN" THEN Tick ELSE UNCHANGED vars
  /\ Consume

TLocalClose ==
  /\ IsEv("lclose")
  /\ LocalCloseRequest \/ (conn # "OPEN" /\ UNCHANGED vars)
  /\ Consume

\* the message emitted is the one of the frame the reader is at: a sentinel carries its id,
\* anything decoded from a hostile body carries none
TMsg ==
  /\ IsEv("msg")
  /\ Deliver
  /\ \/ F.k = "S" /\ Rec.sid = F.id
     \/ F.k = "H" /\ Rec.sid = 0
  /\ Consume

\* all listeners have been called (one of them may have raised an Exception, which the bus logs)
THandlerDone == IsEv("hdone") /\ (HandlerDone \/ HandlerRaises) /\ Consume

TPeerInit ==
  /\ IsEv("peer_init")
  /\ \E typ \in {"P", "D", "F"} : typ = Rec.typ /\ InitOk(typ)
  /\ Consume

TState ==
  /\ IsEv("state")
  /\ \/ /\ Rec.st = "CLOSING"
        /\ EofSeen \/ Timeout \/ InitBad \/ Close("local") \/ Close("protocol")
     \/ Rec.st = "CLOSED" /\ CloseDone
     \* accepted connections report CONNECTED when on_peer_accepted returns - even after CLOSED,
     \* and a later disconnect() then reports CLOSING/CLOSED once more.  What a connection
     \* reports after it has CLOSED is C10's business, not this property's.
     \/ Rec.st \in {"CONNECTED", "CONNECTING"} /\ UNCHANGED vars
     \/ conn = "CLOSED" /\ UNCHANGED vars
  /\ Consume

\* the reading task finished: with the connection (ReaderExit), or - an observation the
\* NoSilentStop constraint rejects - while the connection is open
SilentStop ==
  /\ alive /\ conn = "OPEN" /\ phase # "file"
  /\ alive' = FALSE /\ rpc' = "exit"
  /\ UNCHANGED <<kind, stream, fed, eof, ticked, lreq, phase, rpos, cur, conn, delivered, reacted, others>>

TReaderDone ==
  /\ IsEv("reader_done")
  /\ ReaderExit \/ SilentStop
  /\ Consume

\* a bystander connection changed state: bound from the log, judged by BadInitClosesOnlyThatA
TOther ==
  /\ IsEv("ostate")
  /\ Rec.which \in Bystanders
  /\ others' = [others EXCEPT ![Rec.which] = IF Rec.st \in {"CLOSING", "CLOSED"} THEN "CLOSED" ELSE @]
  /\ UNCHANGED <<kind, stream, fed, eof, ticked, lreq, phase, rpos, cur, rpc, alive, conn, delivered, reacted>>
  /\ Consume

TQuiet == IsEv("quiet") /\ Blocked /\ UNCHANGED vars /\ Consume

\* a connection handed to the transfer manager (PeerInit typ F) is no longer read as messages
TFile ==
  /\ l <= Len(T) /\ phase = "file" /\ Rec.ev \in {"state", "reader_done", "msg", "hdone", "quiet", "feed", "eof", "tick", "lclose"}
  /\ UNCHANGED vars /\ Consume

Silent ==
  /\ l <= Len(T)
  /\ ReadHeader \/ ReadBody \/ DecodeReject \/ DecodeMsg
  /\ UNCHANGED <<tid, l>>

Done ==
  /\ l = Len(T) + 1
  /\ PrintT(<<"ACCEPT", tid, {}>>)
  /\ l' = l + 1
  /\ UNCHANGED <<vars, tid>>

Finished == l = Len(T) + 2 /\ UNCHANGED tvars

TNext ==
  \/ TFeed \/ TEof \/ TTick \/ TLocalClose \/ TMsg \/ THandlerDone \/ TPeerInit \/ TState \/ TReaderDone \/ TOther
  \/ TQuiet \/ TFile \/ Silent \/ Done \/ Finished

TSpec == TInit /\ [][TNext]_tvars

\* Framing's action properties over the trace variables (for TraceDiag.cfg)
THostileIsLocal == [][HostileIsLocalA]_tvars
TBadInitClosesOnlyThat == [][BadInitClosesOnlyThatA]_tvars
TBadInitCloses == [][BadInitClosesA]_tvars
TClosesForAReason == [][ClosesForAReasonA]_tvars
=============================================================================

SPECIFICATION TSpec
CONSTANTS
  MaxFrames = 12
  HdrLen = 4
  HostileLens = {}
  LyingAvail = {}
  Kinds = {"server", "peer", "dist", "accept"}
  Bystanders = {"server", "listen0", "listen1", "peer"}
  BaseExcEscapes = FALSE
CONSTRAINT NoSilentStop
CONSTRAINT Aligned
CONSTRAINT InOrderOnce
CONSTRAINT NothingPending
ACTION_CONSTRAINT HostileIsLocalA
ACTION_CONSTRAINT BadInitClosesOnlyThatA
ACTION_CONSTRAINT BadInitClosesA
ACTION_CONSTRAINT ClosesForAReasonA
CHECK_DEADLOCK FALSE

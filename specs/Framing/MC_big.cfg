SPECIFICATION Spec
CONSTANTS
  MaxFrames = 3
  HdrLen = 2
  HostileLens = {0, 1, 2}
  LyingAvail = {0, 1, 2}
  Kinds = {"server", "peer", "dist", "accept"}
  Bystanders = {"listener", "peer"}
  BaseExcEscapes = FALSE
INVARIANT TypeOK
INVARIANT NoSilentStop
INVARIANT Aligned
INVARIANT InOrderOnce
INVARIANT NothingPending
PROPERTY HostileIsLocal
PROPERTY BadInitClosesOnlyThat
PROPERTY BadInitCloses
PROPERTY ClosesForAReason
CHECK_DEADLOCK FALSE

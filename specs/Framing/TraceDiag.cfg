SPECIFICATION TSpec
CONSTANTS
  MaxFrames = 12
  HdrLen = 4
  HostileLens = {}
  LyingAvail = {}
  Kinds = {"server", "peer", "dist", "accept"}
  Bystanders = {"server", "listen0", "listen1", "peer"}
  BaseExcEscapes = FALSE
INVARIANT NoSilentStop
INVARIANT Aligned
INVARIANT InOrderOnce
INVARIANT NothingPending
PROPERTY THostileIsLocal
PROPERTY TBadInitClosesOnlyThat
PROPERTY TBadInitCloses
PROPERTY TClosesForAReason
CHECK_DEADLOCK TRUE

SPECIFICATION Spec
CONSTANTS
  MaxFrames = 2
  HdrLen = 2
  HostileLens = {0, 2}
  LyingAvail = {1}
  Kinds = {"server", "peer", "dist", "accept"}
  Bystanders = {"listener"}
  BaseExcEscapes = FALSE
INVARIANT TypeOK
INVARIANT NoSilentStop
INVARIANT Aligned
INVARIANT InOrderOnce
INVARIANT NothingPending
PROPERTY HostileIsLocal
PROPERTY BadInitClosesOnlyThat
PROPERTY BadInitCloses
PROPERTY ClosesForAReason
CHECK_DEADLOCK FALSE

------------------------------ MODULE Framing ------------------------------
(***************************************************************************)
(* C02 - malformed or hostile bytes never crash a reader or desynchronise  *)
(* the stream.                                                             *)
(*                                                                         *)
(* One connection of a logged-in client, read by                           *)
(*   network/connection.py  _message_reader_loop (295-323),                *)
(*                          receive_message_object (393-412),              *)
(*                          _read (325-367), _read_message (369-383),      *)
(*                          decode_message_data (523-539),                 *)
(*                          _perform_message_callback (560-564),           *)
(*                          disconnect (247-281)                           *)
(*   network/network.py     on_peer_accepted (1079-1146) for the first     *)
(*                          frame of an accepted connection,               *)
(*                          on_message_received (1148-1165).               *)
(*                                                                         *)
(* The remote end is the adversary.  What it sends is an abstract stream   *)
(* of frames, cut into arbitrary segments:                                 *)
(*   "S"  Sentinel(id): a valid, recognisable message of the connection    *)
(*        kind (its handler is known to be harmless);                      *)
(*   "I"  a valid PeerInit as first frame of an accepted connection;       *)
(*   "H"  Hostile: well-formed length prefix, arbitrary body.  Whether the *)
(*        body decodes (Msg) or not (Reject) is the adversary's choice;    *)
(*   "L"  Lying: the prefix announces b bytes but only a < b ever arrive   *)
(*        (necessarily the last frame).                                    *)
(* A frame is [k, id, h, b, a]: kind, identity, header length, announced   *)
(* body length, body bytes that really arrive.  Lengths are abstract units *)
(* in the exhaustive configurations and bytes in trace validation.         *)
(* Whether the connection is obfuscated only changes the concrete header   *)
(* (8 bytes instead of 4) and is therefore a matter of the concretisation. *)
(*                                                                         *)
(* The input quantifier (which bytes are in a Hostile body) is not in the  *)
(* model: harness/props/c02.py substitutes many concrete bodies per slot.  *)
(***************************************************************************)
EXTENDS Naturals, Sequences, FiniteSets, TLC

CONSTANTS
  MaxFrames,       \* exhaustive configs: streams of 1..MaxFrames frames
  HdrLen,          \* exhaustive configs: header length in units
  HostileLens,     \* exhaustive configs: body lengths of Hostile frames, subset of {0, 1, 2}
  LyingAvail,      \* exhaustive configs: bytes that arrive of a Lying frame's 3, subset of {0, 1, 2}
  Kinds,           \* connection kinds explored: subset of {"server", "peer", "dist", "accept"}
  Bystanders,      \* other connections of the same client (server, listeners, an established peer)
  BaseExcEscapes   \* TRUE : a BaseException raised inside a message handler ends the reader task
                   \*        while the connection stays open (the code as found: `except Exception`
                   \*        in _perform_message_callback / EventBus.emit, F02-1)
                   \* FALSE: handlers cannot end the reader (repaired position)

VARIABLES
  kind,        \* "server" | "peer" | "dist" | "accept"
  stream,      \* Seq of frames, fixed in Init
  fed,         \* bytes the remote end has delivered so far
  eof,         \* the remote end has closed: nothing more will ever arrive
  ticked,      \* (virtual) time has passed since the reader last made progress
  lreq,        \* the local side asked for this connection to be closed (client API / stop)
  phase,       \* "init" : accepted, first frame not yet decoded (read by on_peer_accepted)
               \* "est"  : established, read by the reader task
               \* "file" : handed over to the transfer manager (PeerInit typ F): no message reader
  rpos,        \* bytes consumed by the reader: the stream position
  cur,         \* index of the frame the reader is at
  rpc,         \* "hdr" | "body" | "decode" | "deliver" | "handler" | "exit"
  alive,       \* the task that reads this connection has not finished
  conn,        \* "OPEN" | "CLOSING" | "CLOSED"
  delivered,   \* what was emitted on the event bus, in order: the id of a sentinel, 0 for a message
               \* decoded from a hostile body
  reacted,     \* a decodable non-sentinel message was accepted: from here on the client may react
               \* at protocol level (close this or another connection); until then it may not
  others       \* [Bystanders -> {"OPEN", "CLOSED"}]

vars == <<kind, stream, fed, eof, ticked, lreq, phase, rpos, cur, rpc, alive, conn, delivered,
          reacted, others>>

----------------------------------------------------------------------------
\* Streams of the exhaustive configurations

RECURSIVE SumTo(_, _)
SumTo(s, n) == IF n = 0 THEN 0 ELSE SumTo(s, n - 1) + s[n].h + s[n].a

Total(s) == SumTo(s, Len(s))
StartOff(i) == SumTo(stream, i - 1)          \* offset of the first header byte of frame i
EndOff(i) == SumTo(stream, i)

Fr(k, b, a) == [k |-> k, id |-> 0, h |-> HdrLen, b |-> b, a |-> a]
Inner == {Fr("S", 2, 2)} \cup {Fr("H", b, b) : b \in HostileLens}
FirstAccept == {Fr("I", 2, 2)} \cup {Fr("H", b, b) : b \in HostileLens}

\* sentinel / init ids = position in the stream
Numbered(s) == [i \in 1..Len(s) |-> [s[i] EXCEPT !.id = i]]

Lying == {Fr("L", 3, a) : a \in LyingAvail}
AllFrames == Inner \cup FirstAccept \cup Lying

\* frames allowed at position i of an n-frame stream: a Lying frame can only be the last one, the
\* first frame of an accepted connection is an init frame
AllowedAt(kd, i, n) ==
  LET base == IF kd = "accept" /\ i = 1 THEN FirstAccept ELSE Inner
  IN  IF i = n THEN base \cup Lying ELSE base

StreamsFor(kd) ==
  UNION { { Numbered(s) : s \in { t \in [1..n -> AllFrames] : \A i \in 1..n : t[i] \in AllowedAt(kd, i, n) } }
          : n \in 1..MaxFrames }

----------------------------------------------------------------------------
Init ==
  /\ kind \in Kinds
  /\ stream \in StreamsFor(kind)
  /\ fed = 0 /\ eof = FALSE /\ ticked = FALSE /\ lreq = FALSE
  /\ phase = (IF kind = "accept" THEN "init" ELSE "est")
  /\ rpos = 0 /\ cur = 1 /\ rpc = "hdr" /\ alive = TRUE
  /\ conn = "OPEN"
  /\ delivered = <<>>
  /\ reacted = FALSE
  /\ others = [o \in Bystanders |-> "OPEN"]

Avail == fed - rpos
HasFrame == cur <= Len(stream)
F == stream[cur]
\* what the pending readexactly() is waiting for
Need == IF rpc = "hdr" THEN (IF HasFrame THEN F.h ELSE 1) ELSE F.b
Reading == alive /\ rpc \in {"hdr", "body"} /\ phase # "file"
\* the reading task is suspended (other tasks and callbacks can only run then)
Suspended == rpc \in {"hdr", "body", "handler", "exit"}

----------------------------------------------------------------------------
\* The adversary and the environment

\* n more bytes arrive (any TCP segmentation)
FeedSegment(n) ==
  /\ ~eof /\ n >= 1 /\ fed + n <= Total(stream)
  /\ fed' = fed + n
  /\ UNCHANGED <<kind, stream, eof, ticked, lreq, phase, rpos, cur, rpc, alive, conn, delivered,
                 reacted, others>>

\* the remote end closes; whatever was not fed never arrives (truncation)
FeedEof ==
  /\ ~eof /\ eof' = TRUE
  /\ UNCHANGED <<kind, stream, fed, ticked, lreq, phase, rpos, cur, rpc, alive, conn, delivered,
                 reacted, others>>

\* time passes (at least one read timeout) while the reader waits for bytes
Tick ==
  /\ ~ticked /\ Reading /\ Avail < Need /\ conn = "OPEN"
  /\ ticked' = TRUE
  /\ UNCHANGED <<kind, stream, fed, eof, lreq, phase, rpos, cur, rpc, alive, conn, delivered,
                 reacted, others>>

\* the application asks for the connection to be closed
LocalCloseRequest ==
  /\ ~lreq /\ conn = "OPEN" /\ Suspended
  /\ lreq' = TRUE
  /\ UNCHANGED <<kind, stream, fed, eof, ticked, phase, rpos, cur, rpc, alive, conn, delivered,
                 reacted, others>>

----------------------------------------------------------------------------
\* The reader.  connection.py:369-383: header, then exactly the announced number of bytes.

ReadHeader ==
  /\ Reading /\ rpc = "hdr" /\ conn = "OPEN" /\ HasFrame /\ Avail >= F.h
  /\ rpos' = rpos + F.h
  /\ rpc' = "body"
  /\ ticked' = FALSE
  /\ UNCHANGED <<kind, stream, fed, eof, lreq, phase, cur, alive, conn, delivered, reacted, others>>

ReadBody ==
  /\ Reading /\ rpc = "body" /\ conn = "OPEN" /\ Avail >= F.b
  /\ rpos' = rpos + F.b
  /\ rpc' = "decode"
  /\ ticked' = FALSE
  /\ UNCHANGED <<kind, stream, fed, eof, lreq, phase, cur, alive, conn, delivered, reacted, others>>

\* decode_message_data: every parser exception becomes MessageDeserializationError, which the
\* reader loop logs; the frame is dropped and the next header starts right after it.
DecodeReject ==
  /\ rpc = "decode" /\ phase = "est" /\ F.k = "H"
  /\ rpc' = "hdr" /\ cur' = cur + 1
  /\ UNCHANGED <<kind, stream, fed, eof, ticked, lreq, phase, rpos, alive, conn, delivered,
                 reacted, others>>

DecodeMsg ==
  /\ rpc = "decode" /\ phase = "est" /\ F.k \in {"S", "H"}
  /\ rpc' = "deliver"
  /\ UNCHANGED <<kind, stream, fed, eof, ticked, lreq, phase, rpos, cur, alive, conn, delivered,
                 reacted, others>>

\* network.py:1148-1160 the message is emitted on the event bus
Deliver ==
  /\ rpc = "deliver" /\ conn = "OPEN"
  /\ delivered' = Append(delivered, IF F.k = "S" THEN F.id ELSE 0)
  /\ reacted' = (reacted \/ F.k = "H")
  /\ rpc' = "handler"
  /\ UNCHANGED <<kind, stream, fed, eof, ticked, lreq, phase, rpos, cur, alive, conn, others>>

HandlerDone ==
  /\ rpc = "handler"
  /\ rpc' = "hdr" /\ cur' = cur + 1
  /\ UNCHANGED <<kind, stream, fed, eof, ticked, lreq, phase, rpos, alive, conn, delivered,
                 reacted, others>>

\* an Exception in a listener: EventBus.emit (events.py:156-173) / connection.py:560-564 log it
HandlerRaises ==
  /\ rpc = "handler" /\ F.k = "H"
  /\ rpc' = "hdr" /\ cur' = cur + 1
  /\ UNCHANGED <<kind, stream, fed, eof, ticked, lreq, phase, rpos, alive, conn, delivered,
                 reacted, others>>

\* DEVIATION (F02-1).  A BaseException (CancelledError from `await cancelled_task`,
\* search/manager.py:405-413) passes every `except Exception` on the way out of the reader task.
HandlerRaisesBase ==
  /\ BaseExcEscapes
  /\ rpc = "handler" /\ F.k = "H"
  /\ alive' = FALSE /\ rpc' = "exit"
  /\ UNCHANGED <<kind, stream, fed, eof, ticked, lreq, phase, rpos, cur, conn, delivered,
                 reacted, others>>

\* First frame of an accepted connection (on_peer_accepted).  A valid init establishes the
\* connection (the reader task takes over); typ is P, D or - for a hostile but decodable body -
\* anything, including F, which hands the connection to the transfer manager.
InitOk(typ) ==
  /\ rpc = "decode" /\ phase = "init"
  /\ \/ F.k = "I" /\ typ \in {"P", "D"} /\ UNCHANGED reacted
     \/ F.k = "H" /\ typ \in {"P", "D", "F"} /\ reacted' = TRUE
  /\ phase' = (IF typ = "F" THEN "file" ELSE "est")
  /\ rpc' = "hdr" /\ cur' = cur + 1
  /\ UNCHANGED <<kind, stream, fed, eof, ticked, lreq, rpos, alive, conn, delivered, others>>

\* network.py:1098-1111, 1125-1130, 1141-1146: undecodable / unknown init closes THIS connection
InitBad ==
  /\ rpc = "decode" /\ phase = "init" /\ F.k = "H" /\ conn = "OPEN"
  /\ conn' = "CLOSING"
  /\ rpc' = "hdr" /\ cur' = cur + 1
  /\ UNCHANGED <<kind, stream, fed, eof, ticked, lreq, phase, rpos, alive, delivered, reacted, others>>

\* _read: IncompleteReadError (EOF, or partial data then EOF) -> disconnect
EofSeen ==
  /\ Reading /\ conn = "OPEN" /\ eof /\ Avail < Need
  /\ conn' = "CLOSING"
  /\ UNCHANGED <<kind, stream, fed, eof, ticked, lreq, phase, rpos, cur, rpc, alive, delivered,
                 reacted, others>>

\* _read: read timeout -> disconnect(TIMEOUT).  Only possible while waiting for bytes.
Timeout ==
  /\ Reading /\ conn = "OPEN" /\ ~eof /\ Avail < Need /\ ticked
  /\ conn' = "CLOSING"
  /\ UNCHANGED <<kind, stream, fed, eof, ticked, lreq, phase, rpos, cur, rpc, alive, delivered,
                 reacted, others>>

\* disconnect() called by somebody else: the application ("local"), or the client reacting to a
\* decodable message ("protocol": e.g. the search manager closes after a PeerSearchReply, the
\* distributed network drops a peer).  Never for a frame that was merely rejected.
Close(by) ==
  /\ conn = "OPEN" /\ Suspended
  /\ \/ by = "local" /\ lreq
     \/ by = "protocol" /\ reacted
  /\ conn' = "CLOSING"
  /\ UNCHANGED <<kind, stream, fed, eof, ticked, lreq, phase, rpos, cur, rpc, alive, delivered,
                 reacted, others>>

\* connection.py:275-276
CloseDone ==
  /\ conn = "CLOSING"
  /\ conn' = "CLOSED"
  /\ UNCHANGED <<kind, stream, fed, eof, ticked, lreq, phase, rpos, cur, rpc, alive, delivered,
                 reacted, others>>

\* the reading task returns: only when the connection is closing or closed
\* (loop condition connection.py:299; ConnectionReadError / None after disconnect)
ReaderExit ==
  /\ alive /\ rpc \in {"hdr", "body"} /\ conn # "OPEN"
  /\ alive' = FALSE /\ rpc' = "exit"
  /\ UNCHANGED <<kind, stream, fed, eof, ticked, lreq, phase, rpos, cur, conn, delivered,
                 reacted, others>>

\* protocol-level reaction on another connection of the client
OtherCloses(o) ==
  /\ others[o] = "OPEN"
  /\ reacted \/ (kind = "server" /\ conn # "OPEN")
  /\ others' = [others EXCEPT ![o] = "CLOSED"]
  /\ UNCHANGED <<kind, stream, fed, eof, ticked, lreq, phase, rpos, cur, rpc, alive, conn,
                 delivered, reacted>>

\* segment sizes of the exhaustive configurations (FeedSegment bounds n by what is left)
SegSizes == 1..(MaxFrames * (HdrLen + 3))

ReaderStep ==
  \/ ReadHeader \/ ReadBody \/ DecodeReject \/ DecodeMsg \/ Deliver
  \/ HandlerDone \/ HandlerRaises \/ HandlerRaisesBase
  \/ \E typ \in {"P", "D", "F"} : InitOk(typ)
  \/ InitBad \/ EofSeen \/ Timeout \/ CloseDone \/ ReaderExit

Next ==
  \/ ReaderStep
  \/ \E n \in SegSizes : FeedSegment(n)
  \/ FeedEof \/ Tick \/ LocalCloseRequest
  \/ \E by \in {"local", "protocol"} : Close(by)
  \/ \E o \in Bystanders : OtherCloses(o)

Spec == Init /\ [][Next]_vars
FairSpec == Spec /\ WF_vars(ReaderStep)

----------------------------------------------------------------------------
\* Properties

TypeOK ==
  /\ kind \in {"server", "peer", "dist", "accept"}
  /\ phase \in {"init", "est", "file"}
  /\ rpc \in {"hdr", "body", "decode", "deliver", "handler", "exit"}
  /\ conn \in {"OPEN", "CLOSING", "CLOSED"}
  /\ rpos <= fed /\ fed <= Total(stream)
  /\ cur \in 1..(Len(stream) + 1)

\* The task reading the connection ends only together with the connection.
NoSilentStop == alive \/ conn \in {"CLOSING", "CLOSED"}

\* The stream position is a frame boundary whenever a header is expected (no desynchronisation).
Aligned == (rpc = "hdr" /\ phase # "file") => rpos = StartOff(cur)

\* ids of the sentinels among the first n frames, in stream order
RECURSIVE SentIds(_)
SentIds(n) == IF n = 0 THEN <<>>
              ELSE IF stream[n].k = "S" THEN Append(SentIds(n - 1), stream[n].id) ELSE SentIds(n - 1)
SentDelivered == SelectSeq(delivered, LAMBDA x : x # 0)

\* The sentinels delivered are exactly the sentinels the reader has passed (plus the one whose
\* handlers are running), in stream order, once each: none lost, duplicated or reordered.  With
\* Aligned and NothingPending: exactly the sentinels fed before the connection closed.
InOrderOnce ==
  \/ SentDelivered = SentIds(cur - 1)
  \/ HasFrame /\ F.k = "S" /\ rpc \in {"handler", "exit"} /\ SentDelivered = SentIds(cur)

\* Nothing is left to do for the reader: it waits for bytes that are not there, or waits inside the
\* handler of a decodable non-sentinel message, or has ended with the connection.
Blocked ==
  \/ phase = "file"
  \/ ~alive /\ conn = "CLOSED"
  \/ alive /\ conn = "OPEN" /\ rpc \in {"hdr", "body"} /\ Avail < Need /\ ~eof
  \/ alive /\ rpc = "handler" /\ F.k = "H"

\* When the reader waits for bytes on an open connection every complete frame has been consumed.
NothingPending ==
  (alive /\ conn = "OPEN" /\ rpc = "hdr" /\ Avail < Need /\ phase # "file") =>
      \A i \in 1..Len(stream) : (EndOff(i) <= fed /\ stream[i].a = stream[i].b) => i < cur

\* A hostile frame that is dropped changes nothing but the stream position; no step delivers twice.
HostileIsLocalA ==
  /\ Len(delivered') <= Len(delivered) + 1
  /\ (cur' = cur + 1 /\ F.k = "H" /\ phase = "est" /\ ~reacted') =>
        /\ conn' = conn /\ others' = others /\ alive' = alive
        /\ rpos' = StartOff(cur + 1) /\ delivered' = delivered
HostileIsLocal == [][HostileIsLocalA]_vars

\* Another connection changes state only as a protocol-level reaction to a decodable message (or
\* because the server connection itself went away), never because of an undecodable frame or a
\* bad init.
BadInitClosesOnlyThatA == others' # others => (reacted \/ (kind = "server" /\ conn # "OPEN"))
BadInitClosesOnlyThat == [][BadInitClosesOnlyThatA]_vars

\* ... and this connection is closed by a bad init
BadInitClosesA == (phase = "init" /\ rpc = "decode" /\ cur' = cur + 1 /\ phase' = "init") => conn' = "CLOSING"
BadInitCloses == [][BadInitClosesA]_vars

\* This connection leaves OPEN only for a reason: EOF / timeout while waiting for bytes, a local
\* request, a bad init, or a protocol-level reaction.
ClosesForAReasonA ==
  (conn = "OPEN" /\ conn' # "OPEN") =>
     \/ Reading /\ Avail < Need /\ (eof \/ ticked)
     \/ lreq \/ reacted
     \/ phase = "init" /\ rpc = "decode"
ClosesForAReason == [][ClosesForAReasonA]_vars

\* Liveness under FairSpec: every complete frame is consumed unless the connection goes away.
Progress ==
  \A i \in 1..MaxFrames :
    (i <= Len(stream) /\ EndOff(i) <= fed /\ stream[i].a = stream[i].b /\ phase # "file")
       ~> (cur > i \/ conn # "OPEN" \/ ~alive \/ phase = "file")

\* ... and a finished connection takes its reader with it
ReaderEnds == (conn = "CLOSED" /\ phase # "file") ~> ~alive
=============================================================================

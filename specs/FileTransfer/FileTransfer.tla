---------------------------- MODULE FileTransfer ----------------------------
(***************************************************************************)
(* C04 - COMPLETE means the whole file arrived intact; resuming never      *)
(* corrupts it; once faults stop the pair finishes.                        *)
(*                                                                         *)
(* Two parties, the downloader D and the uploader U, the control channels  *)
(* between them (peer "P" connections) and the file connection ("F").      *)
(* Mirrors src/aioslsk/transfer/manager.py:                                *)
(*   manage_transfers/_queue_remotely              542-567, 709-728        *)
(*   _on_peer_transfer_queue                       1167-1237               *)
(*   _initialize_upload / _upload_file             853-1068                *)
(*   _on_peer_transfer_request                     1277-1435               *)
(*   _initialize_download / _download_file         765-851, 1070-1144      *)
(*   _on_peer_initialized (ticket -> future)       1239-1272               *)
(*   _on_peer_upload_failed                        1482-1504               *)
(* and network/connection.py receive_file/send_file/receive_until_eof,     *)
(* transfer/model.py is_transfered, transfer/state.py (reset_queue_vars).  *)
(* One action = one stretch of a coroutine between two suspending awaits.  *)
(*                                                                         *)
(* Bytes: the source file is 1..size.  A file / a stream is a sequence of  *)
(* segments [a |-> lo, b |-> hi] (source bytes lo..hi) or [a |-> 0, b |-> n]*)
(* (n bytes that are not the source: junk).  Adjacent segments are merged, *)
(* so "the local file is the source" is  local = Src(size).                *)
(*                                                                         *)
(* Time is abstract: a timer (reply 30 s, file connection 60 s, data 180 s)*)
(* fires only when what it waits for can no longer arrive.                 *)
(*                                                                         *)
(* Two places where the code as found deviates from the property are named *)
(* switches: ZeroFix (nothing remaining to receive) and OffsetErrFix (the  *)
(* offset cannot be written).  TRUE = repaired design, FALSE = code.       *)
(***************************************************************************)
EXTENDS Integers, Sequences, FiniteSets, TLC

CONSTANTS
  Sizes,         \* announced sizes explored
  Chunk,         \* largest number of bytes moved by one send / receive step
  MaxFaults,     \* fault budget F
  Modes,         \* subset of {"real2", "scrU", "scrD"}: both real / scripted uploader / scripted downloader
  Resume,        \* TRUE: the download may start INCOMPLETE with a partial local file and a stale counter
  ZeroFix,       \* TRUE: a download with nothing remaining does not wait for data (repaired)
  OffsetErrFix,  \* TRUE: a failed offset write puts the download back to QUEUED (repaired)
  Twin,          \* TRUE: a second download of an equally named file (other uploader) runs next to ours
  PathLockFix,   \* TRUE: the download-path lock is held until the chosen file exists (the code);
                 \*       FALSE: it is released right after the name was chosen
  LateNotice     \* TRUE: the downloader's re-queue may overtake the uploader's own end of the attempt
                 \*       (code: a rate-limited uploader waits for tokens before it sees end of file);
                 \*       FALSE: timing assumption UNoticedEnd

TkMod == MaxFaults + 3
MaxSize == CHOOSE s \in Sizes : \A t \in Sizes : t <= s

----------------------------------------------------------------------------
\* byte strings as merged segments

SegLen(s) == IF s.a = 0 THEN s.b ELSE s.b - s.a + 1

RECURSIVE BLen(_)
BLen(q) == IF q = <<>> THEN 0 ELSE SegLen(Head(q)) + BLen(Tail(q))

AppendSeg(q, s) ==
  IF SegLen(s) <= 0 THEN q
  ELSE IF q = <<>> THEN <<s>>
  ELSE LET z == q[Len(q)] IN
       IF z.a # 0 /\ s.a # 0 /\ z.b + 1 = s.a THEN [q EXCEPT ![Len(q)] = [a |-> z.a, b |-> s.b]]
       ELSE IF z.a = 0 /\ s.a = 0 THEN [q EXCEPT ![Len(q)] = [a |-> 0, b |-> z.b + s.b]]
       ELSE Append(q, s)

RECURSIVE Cat(_, _)
Cat(q, r) == IF r = <<>> THEN q ELSE Cat(AppendSeg(q, Head(r)), Tail(r))

CutSeg(s, n) == IF s.a = 0 THEN [a |-> 0, b |-> n] ELSE [a |-> s.a, b |-> s.a + n - 1]
RestSeg(s, n) == IF s.a = 0 THEN [a |-> 0, b |-> s.b - n] ELSE [a |-> s.a + n, b |-> s.b]

RECURSIVE Take(_, _)
Take(q, n) ==
  IF n <= 0 \/ q = <<>> THEN <<>>
  ELSE LET h == Head(q) IN
       IF SegLen(h) <= n THEN <<h>> \o Take(Tail(q), n - SegLen(h)) ELSE <<CutSeg(h, n)>>

RECURSIVE Drop(_, _)
Drop(q, n) ==
  IF n <= 0 \/ q = <<>> THEN q
  ELSE LET h == Head(q) IN
       IF SegLen(h) <= n THEN Drop(Tail(q), n - SegLen(h)) ELSE <<RestSeg(h, n)>> \o Tail(q)

Src(n) == IF n <= 0 THEN <<>> ELSE <<[a |-> 1, b |-> n]>>
Range(lo, hi) == IF hi < lo THEN <<>> ELSE <<[a |-> lo, b |-> hi]>>
Junk(n) == IF n <= 0 THEN <<>> ELSE <<[a |-> 0, b |-> n]>>
Min(x, y) == IF x < y THEN x ELSE y

----------------------------------------------------------------------------
VARIABLES
  mode,      \* who is real
  size,      \* announced size = length of the source file
  local,     \* bytes of the download on D's disk
  cnt,       \* D's progress counter (Transfer.bytes_transfered)
  sizeD,     \* size D was told (Transfer.filesize), -1 before the first request
  stD, rsnD, \* D's transfer state; a fail reason is set
  remQ,      \* D's remotely_queued mark
  pcD,       \* idle | waitfc | offerr | starting | picked | prepared | recv | timedout | verdict | closed | toclose | stuck
  expTk,     \* ticket D waits for on a file connection
  recvD,     \* bytes received in this attempt
  needD,     \* bytes D expects in this attempt (filesize - offset)
  stU, rsnU, \* U's transfer state ("NONE" = no upload yet); a fail reason is set
  pcU,       \* idle | waitreply | connect | waitoffset | send | waiteof
  tkt,       \* U's current ticket
  offU,      \* offset U was told
  sentU,     \* bytes U wrote in this attempt
  chDU, chUD,\* control messages in flight D->U / U->D (FIFO)
  fc,        \* file connection [st, tk, off, fl]
  stall,     \* scripted U has stopped sending (keeps the connection open)
  faults,    \* faults / scripted deviations used so far
  heldUF,    \* PeerUploadFailed messages held back in the network (delivered later, out of order)
  pathD,     \* name of our local file in the download directory: "none" | "n0" | "n1"
  pathT,     \* name chosen by the twin download
  made,      \* names that exist in the download directory
  plock,     \* holder of the download-path lock: "none" | "D" | "T"
  pcT        \* twin download: off | start | picked | writing | done

vars == <<mode, size, local, cnt, sizeD, stD, rsnD, remQ, pcD, expTk, recvD, needD, stU, rsnU, pcU, tkt, offU,
          sentU, chDU, chUD, fc, stall, faults, heldUF, pathD, pathT, made, plock, pcT>>

NoFc == [st |-> "none", tk |-> -1, off |-> -1, fl |-> <<>>]

\* the file connection as the uploader's peer sees it: the downloader has closed it or the network broke it
PeerGone == fc.st \in {"closedD", "eof", "reset"}

LocalLen == BLen(local)
IsPrefix(q) == q = <<>> \/ (Len(q) = 1 /\ q[1].a = 1 /\ q[1].b <= size)
IsSrc(q) == q = Src(size)

RealD == mode # "scrD"
RealU == mode # "scrU"

Init ==
  /\ mode \in Modes
  /\ size \in Sizes
  /\ \E k \in 0..size, c \in 0..size :
        /\ (~Resume \/ mode = "scrD") => (k = 0 /\ c = 0)
        /\ c <= k
        /\ local = Src(k)
        /\ cnt = c
        /\ stD = IF k = 0 /\ c = 0 THEN "QUEUED" ELSE "INCOMPLETE"
        /\ sizeD = IF k = 0 /\ c = 0 THEN -1 ELSE size
        \* a download that is resumed has its file; a new one has no local path yet
        /\ pathD = IF k = 0 /\ c = 0 THEN "none" ELSE "n0"
        /\ made = IF k = 0 /\ c = 0 THEN {} ELSE {"n0"}
  /\ rsnD = FALSE /\ remQ = FALSE /\ pcD = "idle" /\ expTk = -1 /\ recvD = 0 /\ needD = 0
  /\ stU = "NONE" /\ rsnU = FALSE /\ pcU = "idle" /\ tkt = 0 /\ offU = 0 /\ sentU = 0
  /\ chDU = <<>> /\ chUD = <<>> /\ fc = NoFc /\ stall = FALSE /\ faults = 0 /\ heldUF = 0
  /\ pathT = "none" /\ plock = "none" /\ pcT = IF Twin THEN "start" ELSE "off"

----------------------------------------------------------------------------
\* Downloader

\* manager.py 542-567, 596-647, 709-728: the management cycle queues a download remotely when it
\* is QUEUED / INCOMPLETE / FAILED without a reason and not marked remotely queued.
\* Timing assumption: the management cycle (>= 50 ms) is slower than the uploader's reaction to the
\* end of a connection once it has nothing left to send (end of file, receive_until_eof returns at once).
\* Where it does not hold (LateNotice) the PeerTransferQueue reaches an upload that is still UPLOADING,
\* is ignored (1217-1229), the upload then ends COMPLETE without PeerUploadFailed, and the download
\* stays marked remotely queued for ever.
UNoticedEnd == ~(pcU \in {"send", "waiteof"} /\ PeerGone /\ size - offU - sentU <= 0)

DQueueRemotelyCore ==
  /\ pcD = "idle" /\ ~remQ
  /\ stD \in {"QUEUED", "INCOMPLETE"} \/ (stD = "FAILED" /\ ~rsnD)
  /\ chDU' = Append(chDU, [t |-> "queue"])
  /\ remQ' = TRUE
  /\ UNCHANGED <<mode, size, local, cnt, sizeD, stD, rsnD, pcD, expTk, recvD, needD, stU, rsnU, pcU, tkt, offU,
                 sentU, chUD, fc, stall, faults, heldUF, pathD, pathT, made, plock, pcT>>

DQueueRemotely == (UNoticedEnd \/ LateNotice) /\ DQueueRemotelyCore

\* 1277-1435 + 765-816: a PeerTransferRequest arrives.
\*   processing                 -> ignored
\*   COMPLETE                   -> refused ("Complete")
\*   QUEUED / INCOMPLETE        -> INITIALIZING, reply allowed, wait for the file connection
\*   FAILED                     -> first back to QUEUED (remotely queued), see DRequeueOnRequest
DRecvRequest ==
  /\ chUD # <<>> /\ Head(chUD).t = "request"
  /\ stD # "FAILED"
  /\ LET m == Head(chUD) IN
       /\ chUD' = Tail(chUD)
       /\ IF stD \in {"QUEUED", "INCOMPLETE"} /\ pcD = "idle"
            THEN /\ stD' = "INITIALIZING" /\ sizeD' = m.sz /\ expTk' = m.k /\ pcD' = "waitfc"
                 /\ chDU' = Append(chDU, [t |-> "reply", k |-> m.k, ok |-> TRUE])
            ELSE IF stD = "COMPLETE"
            THEN /\ chDU' = Append(chDU, [t |-> "reply", k |-> m.k, ok |-> FALSE])
                 /\ UNCHANGED <<stD, sizeD, expTk, pcD>>
            ELSE UNCHANGED <<stD, sizeD, expTk, pcD, chDU>>
  /\ UNCHANGED <<mode, size, local, cnt, rsnD, remQ, recvD, needD, stU, rsnU, pcU, tkt, offU, sentU, fc, stall, faults, heldUF, pathD, pathT, made, plock, pcT>>

\* 1417-1418: FAILED -> queue(remotely=True); the request is then handled as for QUEUED.
DRequeueOnRequest ==
  /\ chUD # <<>> /\ Head(chUD).t = "request"
  /\ stD = "FAILED" /\ pcD = "idle"
  /\ stD' = "QUEUED" /\ rsnD' = FALSE /\ remQ' = TRUE
  /\ UNCHANGED <<mode, size, local, cnt, sizeD, pcD, expTk, recvD, needD, stU, rsnU, pcU, tkt, offU, sentU, chDU,
                 chUD, fc, stall, faults, heldUF, pathD, pathT, made, plock, pcT>>

\* 822-824: no file connection within 60 s -> QUEUED (queue() clears the remote mark).
\* Fires only when the connection can no longer come.
FileConnStillPossible ==
  \/ fc.tk = expTk
  \/ tkt = expTk /\ pcU \in {"waitreply", "connect"}
       /\ (pcU = "waitreply" => \E i \in 1..Len(chDU) : chDU[i].t = "reply" /\ chDU[i].k = tkt)

DFileConnTimeout ==
  /\ pcD = "waitfc" /\ ~FileConnStillPossible
  /\ stD' = "QUEUED" /\ remQ' = FALSE /\ pcD' = "idle"
  /\ UNCHANGED <<mode, size, local, cnt, sizeD, rsnD, expTk, recvD, needD, stU, rsnU, pcU, tkt, offU, sentU, chDU,
                 chUD, fc, stall, faults, heldUF, pathD, pathT, made, plock, pcT>>

\* 1239-1272 + 826-846: the ticket arrives on a file connection; D computes the offset = size of
\* the local file, sets its counter and writes the offset.  A scripted D may send any offset.
\* If the connection was reset meanwhile the write fails: the code calls incomplete(), which is
\* not a transition of INITIALIZING, and the download stays INITIALIZING for ever (OffsetErrFix).
DSendOffset(o) ==
  /\ pcD = "waitfc" /\ fc.tk = expTk /\ fc.tk >= 0
  /\ RealD => o = LocalLen
  /\ cnt' = o
  /\ IF fc.st = "reset"
       THEN fc' = [fc EXCEPT !.tk = -1] /\ pcD' = "offerr"
       ELSE fc' = [fc EXCEPT !.tk = -1, !.off = IF fc.st = "open" THEN o ELSE -1] /\ pcD' = "starting"
  /\ UNCHANGED <<mode, size, local, sizeD, stD, rsnD, remQ, expTk, recvD, needD, stU, rsnU, pcU, tkt, offU, sentU,
                 chDU, chUD, stall, faults, heldUF, pathD, pathT, made, plock, pcT>>

\* 834-840: ConnectionWriteError while writing the offset
DOffsetErr ==
  /\ pcD = "offerr"
  /\ IF OffsetErrFix THEN stD' = "QUEUED" /\ remQ' = FALSE /\ pcD' = "idle"
                     ELSE pcD' = "stuck" /\ UNCHANGED <<stD, remQ>>
  /\ UNCHANGED <<mode, size, local, cnt, sizeD, rsnD, expTk, recvD, needD, stU, rsnU, pcU, tkt, offU, sentU, chDU,
                 chUD, fc, stall, faults, heldUF, pathD, pathT, made, plock, pcT>>

\* _prepare_download_path: under the download-path lock the name is chosen by looking at the files
\* that exist right now (naming strategies: the plain name, else the next numbered one) ...
FirstFree == IF "n0" \notin made THEN "n0" ELSE "n1"

DPickPath ==
  /\ pcD = "starting" /\ plock = "none"
  /\ pathD' = IF pathD = "none" THEN FirstFree ELSE pathD
  /\ plock' = IF PathLockFix THEN "D" ELSE "none"
  /\ pcD' = "picked"
  /\ UNCHANGED <<mode, size, local, cnt, sizeD, stD, rsnD, remQ, expTk, recvD, needD, stU, rsnU, pcU, tkt, offU,
                 sentU, chDU, chUD, fc, stall, faults, heldUF, pathT, made, pcT>>

\* ... and the directory and the (empty) file are created before the lock is given up
DCreateFile ==
  /\ pcD = "picked"
  /\ made' = made \cup {pathD}
  /\ plock' = IF plock = "D" THEN "none" ELSE plock
  /\ pcD' = "prepared"
  /\ UNCHANGED <<mode, size, local, cnt, sizeD, stD, rsnD, remQ, expTk, recvD, needD, stU, rsnU, pcU, tkt, offU,
                 sentU, chDU, chUD, fc, stall, faults, heldUF, pathD, pathT, pcT>>

\* The twin: another download whose remote path ends in the same file name, from another uploader,
\* whose file connection arrives at about the same time.  It chooses its name the same way and writes
\* its own bytes to it; if that is our file, they end up in our file.
TPickPath ==
  /\ pcT = "start" /\ plock = "none"
  /\ pathT' = FirstFree
  /\ plock' = IF PathLockFix THEN "T" ELSE "none"
  /\ pcT' = "picked"
  /\ UNCHANGED <<mode, size, local, cnt, sizeD, stD, rsnD, remQ, pcD, expTk, recvD, needD, stU, rsnU, pcU, tkt, offU,
                 sentU, chDU, chUD, fc, stall, faults, heldUF, pathD, made>>

TCreateFile ==
  /\ pcT = "picked"
  /\ made' = made \cup {pathT}
  /\ plock' = IF plock = "T" THEN "none" ELSE plock
  /\ pcT' = "writing"
  /\ UNCHANGED <<mode, size, local, cnt, sizeD, stD, rsnD, remQ, pcD, expTk, recvD, needD, stU, rsnU, pcU, tkt, offU,
                 sentU, chDU, chUD, fc, stall, faults, heldUF, pathD, pathT>>

TWrite ==
  /\ pcT = "writing"
  /\ local' = IF pathT = pathD THEN Cat(local, Junk(1)) ELSE local
  /\ pcT' = "done"
  /\ UNCHANGED <<mode, size, cnt, sizeD, stD, rsnD, remQ, pcD, expTk, recvD, needD, stU, rsnU, pcU, tkt, offU,
                 sentU, chDU, chUD, fc, stall, faults, heldUF, pathD, pathT, made, plock>>

TStep == TPickPath \/ TCreateFile \/ TWrite

\* 1095-1112 + state.py start_transferring (reset_queue_vars): DOWNLOADING.
\* The number of bytes to receive is filesize - offset; with nothing remaining the repaired
\* design goes straight to the verdict, the code as found waits for data.
DStartDownload ==
  /\ pcD = "prepared"
  /\ stD' = "DOWNLOADING" /\ remQ' = FALSE /\ recvD' = 0 /\ needD' = sizeD - cnt
  /\ pcD' = IF ZeroFix /\ sizeD - cnt <= 0 THEN "verdict" ELSE "recv"
  /\ UNCHANGED <<mode, size, local, cnt, sizeD, rsnD, expTk, stU, rsnU, pcU, tkt, offU, sentU, chDU, chUD, fc,
                 stall, faults, heldUF, pathD, pathT, made, plock, pcT>>

\* connection.py 699-728 + 1114-1120: read up to Chunk bytes, append them to the file, count them.
DRecv(n) ==
  /\ pcD = "recv" /\ n >= 1 /\ n <= Chunk /\ n <= BLen(fc.fl)
  /\ local' = Cat(local, Take(fc.fl, n))
  /\ fc' = [fc EXCEPT !.fl = Drop(fc.fl, n)]
  /\ cnt' = cnt + n /\ recvD' = recvD + n
  /\ pcD' = IF recvD + n >= needD THEN "verdict" ELSE "recv"
  /\ UNCHANGED <<mode, size, sizeD, stD, rsnD, remQ, expTk, needD, stU, rsnU, pcU, tkt, offU, sentU, chDU, chUD,
                 stall, faults, heldUF, pathD, pathT, made, plock, pcT>>

\* receive_data returned None: the peer (or the network) closed the connection.
DSeeEof ==
  /\ pcD = "recv" /\ fc.fl = <<>> /\ fc.st \in {"closedU", "eof"}
  /\ pcD' = "verdict"
  /\ UNCHANGED <<mode, size, local, cnt, sizeD, stD, rsnD, remQ, expTk, recvD, needD, stU, rsnU, pcU, tkt, offU,
                 sentU, chDU, chUD, fc, stall, faults, heldUF, pathD, pathT, made, plock, pcT>>

\* 1128-1130: read error -> INCOMPLETE
DSeeReset ==
  /\ pcD = "recv" /\ fc.fl = <<>> /\ fc.st = "reset"
  /\ stD' = "INCOMPLETE" /\ pcD' = "idle"
  /\ UNCHANGED <<mode, size, local, cnt, sizeD, rsnD, remQ, expTk, recvD, needD, stU, rsnU, pcU, tkt, offU, sentU,
                 chDU, chUD, fc, stall, faults, heldUF, pathD, pathT, made, plock, pcT>>

\* no data for 180 s (the sender will not send any more): read timeout -> disconnect, INCOMPLETE
SenderSilent == fc.st = "open" /\ fc.fl = <<>> /\ (pcU = "waiteof" \/ stall)

DDataTimeout ==
  /\ pcD = "recv" /\ SenderSilent
  /\ pcD' = "timedout"
  /\ fc' = [fc EXCEPT !.st = "closedD"]
  /\ UNCHANGED <<mode, size, local, cnt, sizeD, stD, rsnD, remQ, expTk, recvD, needD, stU, rsnU, pcU, tkt, offU, sentU,
                 chDU, chUD, stall, faults, heldUF, pathD, pathT, made, plock, pcT>>

\* ... and after the disconnect the download becomes INCOMPLETE (1128-1130)
DTimedOut ==
  /\ pcD = "timedout"
  /\ stD' = "INCOMPLETE" /\ pcD' = "idle"
  /\ UNCHANGED <<mode, size, local, cnt, sizeD, rsnD, remQ, expTk, recvD, needD, stU, rsnU, pcU, tkt, offU, sentU,
                 chDU, chUD, fc, stall, faults, heldUF, pathD, pathT, made, plock, pcT>>

\* 1139-1144: D closes the file connection (this is how it confirms reception) and announces the
\* verdict: COMPLETE iff counter = announced size (model.py is_transfered), else FAILED "Cancelled".
\* The code closes first; the property does not depend on the order, so both orders are behaviours.
DClose ==
  /\ pcD \in {"verdict", "toclose"}
  /\ fc' = IF ~PeerGone THEN [fc EXCEPT !.st = "closedD", !.fl = <<>>] ELSE fc
  /\ pcD' = IF pcD = "verdict" THEN "closed" ELSE "idle"
  /\ UNCHANGED <<mode, size, local, cnt, sizeD, stD, rsnD, remQ, expTk, recvD, needD, stU, rsnU, pcU, tkt, offU,
                 sentU, chDU, chUD, stall, faults, heldUF, pathD, pathT, made, plock, pcT>>

DVerdict ==
  /\ pcD \in {"closed", "verdict"}
  /\ IF cnt = sizeD THEN stD' = "COMPLETE" /\ UNCHANGED rsnD
                    ELSE stD' = "FAILED" /\ rsnD' = TRUE
  /\ pcD' = IF pcD = "closed" THEN "idle" ELSE "toclose"
  /\ UNCHANGED <<mode, size, local, cnt, sizeD, remQ, expTk, recvD, needD, stU, rsnU, pcU, tkt, offU, sentU, chDU,
                 chUD, fc, stall, faults, heldUF, pathD, pathT, made, plock, pcT>>

\* 1482-1497
DRecvUpFailed ==
  /\ chUD # <<>> /\ Head(chUD).t = "upfailed"
  /\ chUD' = Tail(chUD)
  /\ remQ' = FALSE
  /\ UNCHANGED <<mode, size, local, cnt, sizeD, stD, rsnD, pcD, expTk, recvD, needD, stU, rsnU, pcU, tkt, offU,
                 sentU, chDU, fc, stall, faults, heldUF, pathD, pathT, made, plock, pcT>>

\* environment: the user re-queues a download that FAILED with a reason (TransferManager.queue),
\* once the uploader has noticed the end of its attempt
UserRetry ==
  /\ stD = "FAILED" /\ rsnD /\ pcD = "idle"
  /\ stU \notin {"INITIALIZING", "UPLOADING"}
  /\ stD' = "QUEUED" /\ rsnD' = FALSE /\ remQ' = FALSE
  /\ UNCHANGED <<mode, size, local, cnt, sizeD, pcD, expTk, recvD, needD, stU, rsnU, pcU, tkt, offU, sentU, chDU,
                 chUD, fc, stall, faults, heldUF, pathD, pathT, made, plock, pcT>>

----------------------------------------------------------------------------
\* Uploader

\* 1167-1237: PeerTransferQueue: new upload -> QUEUED; FAILED / COMPLETE -> QUEUED; else ignored
URecvQueue ==
  /\ chDU # <<>> /\ Head(chDU).t = "queue"
  /\ chDU' = Tail(chDU)
  /\ IF stU \in {"NONE", "FAILED", "COMPLETE"} /\ pcU = "idle"
       THEN stU' = "QUEUED" /\ rsnU' = FALSE
       ELSE UNCHANGED <<stU, rsnU>>
  /\ UNCHANGED <<mode, size, local, cnt, sizeD, stD, rsnD, remQ, pcD, expTk, recvD, needD, pcU, tkt, offU, sentU,
                 chUD, fc, stall, faults, heldUF, pathD, pathT, made, plock, pcT>>

\* 853-905: INITIALIZING, new ticket, PeerTransferRequest(ticket, size)
UInitialize ==
  /\ stU = "QUEUED" /\ pcU = "idle"
  /\ stU' = "INITIALIZING" /\ pcU' = "waitreply"
  /\ tkt' = (tkt + 1) % TkMod
  /\ chUD' = Append(chUD, [t |-> "request", k |-> (tkt + 1) % TkMod, sz |-> size])
  /\ UNCHANGED <<mode, size, local, cnt, sizeD, stD, rsnD, remQ, pcD, expTk, recvD, needD, rsnU, offU, sentU, chDU,
                 fc, stall, faults, heldUF, pathD, pathT, made, plock, pcT>>

\* 907-924: the reply for the current ticket; a refusal fails the upload with the given reason.
\* Replies nobody waits for are dropped.
URecvReply ==
  /\ chDU # <<>> /\ Head(chDU).t = "reply"
  /\ chDU' = Tail(chDU)
  /\ IF pcU = "waitreply" /\ Head(chDU).k = tkt
       THEN IF Head(chDU).ok THEN pcU' = "connect" /\ UNCHANGED <<stU, rsnU>>
                             ELSE pcU' = "idle" /\ stU' = "FAILED" /\ rsnU' = TRUE
       ELSE UNCHANGED <<pcU, stU, rsnU>>
  /\ UNCHANGED <<mode, size, local, cnt, sizeD, stD, rsnD, remQ, pcD, expTk, recvD, needD, tkt, offU, sentU, chUD,
                 fc, stall, faults, heldUF, pathD, pathT, made, plock, pcT>>

\* 917-920: no reply within 30 s -> QUEUED.  Fires only when the reply can no longer come.
ReplyStillPossible ==
  \/ \E i \in 1..Len(chUD) : chUD[i].t = "request" /\ chUD[i].k = tkt
  \/ \E i \in 1..Len(chDU) : chDU[i].t = "reply" /\ chDU[i].k = tkt

UReplyTimeout ==
  /\ pcU = "waitreply" /\ ~ReplyStillPossible
  /\ stU' = "QUEUED" /\ pcU' = "idle"
  /\ UNCHANGED <<mode, size, local, cnt, sizeD, stD, rsnD, remQ, pcD, expTk, recvD, needD, rsnU, tkt, offU, sentU,
                 chDU, chUD, fc, stall, faults, heldUF, pathD, pathT, made, plock, pcT>>

\* 926-944: open the file connection and write the ticket
UOpenFileConn ==
  /\ pcU = "connect"
  /\ fc' = [st |-> "open", tk |-> tkt, off |-> -1, fl |-> <<>>]
  /\ pcU' = "waitoffset"
  /\ UNCHANGED <<mode, size, local, cnt, sizeD, stD, rsnD, remQ, pcD, expTk, recvD, needD, stU, rsnU, tkt, offU,
                 sentU, chDU, chUD, stall, faults, heldUF, pathD, pathT, made, plock, pcT>>

\* 946-957 + 1007-1008: the offset arrives -> counter := offset, UPLOADING
URecvOffset ==
  /\ pcU = "waitoffset" /\ fc.off >= 0
  /\ offU' = fc.off /\ sentU' = 0
  /\ fc' = [fc EXCEPT !.off = -1]
  /\ stU' = "UPLOADING" /\ pcU' = "send"
  /\ UNCHANGED <<mode, size, local, cnt, sizeD, stD, rsnD, remQ, pcD, expTk, recvD, needD, rsnU, tkt, chDU, chUD,
                 stall, faults, heldUF, pathD, pathT, made, plock, pcT>>

\* 949-952: the connection ended before the offset came -> QUEUED
UOffsetFail ==
  /\ pcU = "waitoffset" /\ fc.off < 0 /\ fc.st \in {"reset", "eof", "closedD"}
  /\ stU' = "QUEUED" /\ pcU' = "idle"
  /\ UNCHANGED <<mode, size, local, cnt, sizeD, stD, rsnD, remQ, pcD, expTk, recvD, needD, rsnU, tkt, offU, sentU,
                 chDU, chUD, fc, stall, faults, heldUF, pathD, pathT, made, plock, pcT>>

Remaining == size - offU - sentU

\* connection.py 733-750: read up to Chunk bytes at the file position, write them.  On a reset
\* connection the write fails: FAILED (no reason) and PeerUploadFailed (1027-1041).  Bytes
\* written to a connection the other side has left are lost silently.
USend(n) ==
  /\ pcU = "send" /\ ~stall /\ n >= 1 /\ n <= Chunk /\ n <= Remaining
  /\ IF fc.st \in {"reset", "ubroken"}
       THEN /\ stU' = "FAILED" /\ rsnU' = FALSE /\ pcU' = "idle"
            /\ chUD' = Append(chUD, [t |-> "upfailed"])
            /\ fc' = IF fc.st = "ubroken" THEN [fc EXCEPT !.st = "closedU"] ELSE fc   \* _send disconnects
            /\ UNCHANGED sentU
       ELSE /\ sentU' = sentU + n
            /\ fc' = IF fc.st = "open"
                       THEN [fc EXCEPT !.fl = Cat(fc.fl, Range(offU + sentU + 1, offU + sentU + n))]
                       ELSE fc
            /\ UNCHANGED <<stU, rsnU, pcU, chUD>>
  /\ UNCHANGED <<mode, size, local, cnt, sizeD, stD, rsnD, remQ, pcD, expTk, recvD, needD, tkt, offU, chDU, stall,
                 faults, heldUF, pathD, pathT, made, plock, pcT>>

\* end of file reached (at once when the offset is at or beyond the end)
USendDone ==
  /\ pcU = "send" /\ ~stall /\ Remaining <= 0
  /\ pcU' = "waiteof"
  /\ UNCHANGED <<mode, size, local, cnt, sizeD, stD, rsnD, remQ, pcD, expTk, recvD, needD, stU, rsnU, tkt, offU,
                 sentU, chDU, chUD, fc, stall, faults, heldUF, pathD, pathT, made, plock, pcT>>

\* 1063-1068: wait until the connection ends, then COMPLETE iff offset + sent = size, else FAILED
UVerdict ==
  /\ pcU = "waiteof" /\ PeerGone
  /\ IF offU + sentU = size THEN stU' = "COMPLETE" /\ UNCHANGED rsnU
                            ELSE stU' = "FAILED" /\ rsnU' = FALSE
  /\ pcU' = "idle"
  /\ UNCHANGED <<mode, size, local, cnt, sizeD, stD, rsnD, remQ, pcD, expTk, recvD, needD, tkt, offU, sentU, chDU,
                 chUD, fc, stall, faults, heldUF, pathD, pathT, made, plock, pcT>>

----------------------------------------------------------------------------
\* Faults (budgeted)

\* the file connection breaks: m = "reset" | "eof"; j of the bytes in flight still reach D, the
\* ticket / offset in flight may be lost
Cut(m, j, keepTk, keepOff) ==
  /\ faults < MaxFaults /\ fc.st = "open"
  /\ j \in 0..BLen(fc.fl)
  /\ fc' = [st |-> m, tk |-> IF keepTk THEN fc.tk ELSE -1, off |-> IF keepOff THEN fc.off ELSE -1,
            fl |-> Take(fc.fl, j)]
  /\ faults' = faults + 1
  /\ UNCHANGED <<mode, size, local, cnt, sizeD, stD, rsnD, remQ, pcD, expTk, recvD, needD, stU, rsnU, pcU, tkt, offU,
                 sentU, chDU, chUD, stall, heldUF, pathD, pathT, made, plock, pcT>>

\* a PeerTransferRequest / PeerTransferReply is lost with its peer connection
LoseRequest ==
  /\ faults < MaxFaults /\ chUD # <<>> /\ Head(chUD).t = "request"
  /\ chUD' = Tail(chUD) /\ faults' = faults + 1
  /\ UNCHANGED <<mode, size, local, cnt, sizeD, stD, rsnD, remQ, pcD, expTk, recvD, needD, stU, rsnU, pcU, tkt, offU,
                 sentU, chDU, fc, stall, heldUF, pathD, pathT, made, plock, pcT>>

LoseReply ==
  /\ faults < MaxFaults /\ chDU # <<>> /\ Head(chDU).t = "reply"
  /\ chDU' = Tail(chDU) /\ faults' = faults + 1
  /\ UNCHANGED <<mode, size, local, cnt, sizeD, stD, rsnD, remQ, pcD, expTk, recvD, needD, stU, rsnU, pcU, tkt, offU,
                 sentU, chUD, fc, stall, heldUF, pathD, pathT, made, plock, pcT>>

\* the uploader's end of the file connection breaks: its next write fails, what is in flight still
\* reaches the downloader, followed by EOF
BreakUSide ==
  /\ faults < MaxFaults /\ fc.st = "open" /\ pcU = "send"
  /\ fc' = [fc EXCEPT !.st = "ubroken"]
  /\ faults' = faults + 1
  /\ UNCHANGED <<mode, size, local, cnt, sizeD, stD, rsnD, remQ, pcD, expTk, recvD, needD, stU, rsnU, pcU, tkt, offU,
                 sentU, chDU, chUD, stall, heldUF, pathD, pathT, made, plock, pcT>>

\* a PeerUploadFailed is held back in the network (it travels on another connection than the messages
\* that follow it): a delivery order, not a fault - every such message can be overtaken ...
HoldUpFailed ==
  /\ \E i \in 1..Len(chUD) :
        /\ chUD[i].t = "upfailed"
        /\ chUD' = SubSeq(chUD, 1, i - 1) \o SubSeq(chUD, i + 1, Len(chUD))
  /\ heldUF' = heldUF + 1
  /\ UNCHANGED <<mode, size, local, cnt, sizeD, stD, rsnD, remQ, pcD, expTk, recvD, needD, stU, rsnU, pcU, tkt, offU,
                 sentU, chDU, fc, stall, faults, pathD, pathT, made, plock, pcT>>

\* ... and delivered later, whatever the download is doing then (1482-1497: only the mark is cleared)
ReleaseUpFailed ==
  /\ heldUF > 0
  /\ heldUF' = heldUF - 1
  /\ remQ' = FALSE
  /\ UNCHANGED <<mode, size, local, cnt, sizeD, stD, rsnD, pcD, expTk, recvD, needD, stU, rsnU, pcU, tkt, offU,
                 sentU, chDU, chUD, fc, stall, faults, pathD, pathT, made, plock, pcT>>

\* scripted uploader (another implementation, possibly dishonest)
\* announces failure of a queued upload before requesting (PeerUploadFailed while D is queued remotely)
ScrUFailEarly ==
  /\ mode = "scrU" /\ faults < MaxFaults /\ stU = "QUEUED" /\ pcU = "idle"
  /\ stU' = "FAILED" /\ rsnU' = FALSE
  /\ chUD' = Append(chUD, [t |-> "upfailed"])
  /\ faults' = faults + 1
  /\ UNCHANGED <<mode, size, local, cnt, sizeD, stD, rsnD, remQ, pcD, expTk, recvD, needD, pcU, tkt, offU, sentU,
                 chDU, fc, stall, heldUF, pathD, pathT, made, plock, pcT>>

\* gives up after the reply (crash, other implementation): no file connection, no message; the
\* downloader has to recover by its own 60 s timer
ScrUAbandon ==
  /\ mode = "scrU" /\ faults < MaxFaults /\ pcU = "connect"
  /\ stU' = "FAILED" /\ rsnU' = FALSE /\ pcU' = "idle"
  /\ faults' = faults + 1
  /\ UNCHANGED <<mode, size, local, cnt, sizeD, stD, rsnD, remQ, pcD, expTk, recvD, needD, tkt, offU, sentU, chDU,
                 chUD, fc, stall, heldUF, pathD, pathT, made, plock, pcT>>

\* sends n bytes beyond the announced size (lost if the downloader has already left)
ScrUSendJunk(n) ==
  /\ mode = "scrU" /\ faults < MaxFaults /\ pcU = "send" /\ Remaining <= 0 /\ fc.st # "reset" /\ ~stall
  /\ n >= 1 /\ n <= Chunk
  /\ fc' = IF fc.st = "open" THEN [fc EXCEPT !.fl = Cat(fc.fl, Junk(n))] ELSE fc
  /\ sentU' = sentU + n
  /\ faults' = faults + 1
  /\ UNCHANGED <<mode, size, local, cnt, sizeD, stD, rsnD, remQ, pcD, expTk, recvD, needD, stU, rsnU, pcU, tkt, offU,
                 chDU, chUD, stall, heldUF, pathD, pathT, made, plock, pcT>>

\* closes the connection before everything was sent
ScrUCloseEarly ==
  /\ mode = "scrU" /\ faults < MaxFaults /\ pcU = "send" /\ Remaining > 0 /\ fc.st = "open" /\ ~stall
  /\ fc' = [fc EXCEPT !.st = "closedU"]
  /\ stU' = "FAILED" /\ rsnU' = FALSE /\ pcU' = "idle"
  /\ faults' = faults + 1
  /\ UNCHANGED <<mode, size, local, cnt, sizeD, stD, rsnD, remQ, pcD, expTk, recvD, needD, tkt, offU, sentU, chDU,
                 chUD, stall, heldUF, pathD, pathT, made, plock, pcT>>

\* stops sending and keeps the connection open until D gives up
ScrUStall ==
  /\ mode = "scrU" /\ faults < MaxFaults /\ pcU = "send" /\ Remaining > 0 /\ fc.st = "open" /\ ~stall
  /\ stall' = TRUE /\ faults' = faults + 1
  /\ UNCHANGED <<mode, size, local, cnt, sizeD, stD, rsnD, remQ, pcD, expTk, recvD, needD, stU, rsnU, pcU, tkt, offU,
                 sentU, chDU, chUD, fc, heldUF, pathD, pathT, made, plock, pcT>>

ScrUStallEnd ==
  /\ stall /\ fc.st # "open"
  /\ stall' = FALSE /\ stU' = "FAILED" /\ rsnU' = FALSE /\ pcU' = "idle"
  /\ UNCHANGED <<mode, size, local, cnt, sizeD, stD, rsnD, remQ, pcD, expTk, recvD, needD, tkt, offU, sentU, chDU,
                 chUD, fc, faults, heldUF, pathD, pathT, made, plock, pcT>>

\* scripted downloader closes before it has everything
ScrDCloseEarly ==
  /\ mode = "scrD" /\ faults < MaxFaults /\ pcD = "recv" /\ fc.st = "open"
  /\ fc' = [fc EXCEPT !.st = "closedD", !.fl = <<>>]
  /\ stD' = "INCOMPLETE" /\ pcD' = "idle"
  /\ faults' = faults + 1
  /\ UNCHANGED <<mode, size, local, cnt, sizeD, rsnD, remQ, expTk, recvD, needD, stU, rsnU, pcU, tkt, offU, sentU,
                 chDU, chUD, stall, heldUF, pathD, pathT, made, plock, pcT>>

Offsets == IF RealD THEN {LocalLen} ELSE 0..(size + 1)

DStep ==
  \/ DQueueRemotely \/ DRecvRequest \/ DRequeueOnRequest \/ DFileConnTimeout
  \/ (\E o \in Offsets : DSendOffset(o)) \/ DOffsetErr
  \/ DPickPath \/ DCreateFile \/ DStartDownload \/ (\E n \in 1..Chunk : DRecv(n)) \/ DSeeEof \/ DSeeReset \/ DDataTimeout \/ DTimedOut
  \/ DClose \/ DVerdict \/ DRecvUpFailed

UStep ==
  \/ URecvQueue \/ UInitialize \/ URecvReply \/ UReplyTimeout \/ UOpenFileConn \/ URecvOffset \/ UOffsetFail
  \/ (\E n \in 1..Chunk : USend(n)) \/ USendDone \/ UVerdict \/ ScrUStallEnd

Fault ==
  \/ \E m \in {"reset", "eof"}, j \in 0..(MaxSize + Chunk), kt \in BOOLEAN, ko \in BOOLEAN :
        /\ (fc.tk < 0 => kt) /\ (fc.off < 0 => ko)
        /\ Cut(m, j, kt, ko)
  \/ LoseRequest \/ LoseReply \/ BreakUSide \/ HoldUpFailed
  \/ ScrUFailEarly \/ ScrUAbandon \/ (\E n \in 1..Chunk : ScrUSendJunk(n)) \/ ScrUCloseEarly \/ ScrUStall \/ ScrDCloseEarly

Next == DStep \/ UStep \/ TStep \/ UserRetry \/ ReleaseUpFailed \/ Fault

Spec == Init /\ [][Next]_vars

\* fairness: every step of the two programs and of the user; faults are never forced
FairSpec ==
  /\ Spec
  /\ WF_vars(DQueueRemotely) /\ WF_vars(DRecvRequest) /\ WF_vars(DRequeueOnRequest) /\ WF_vars(DFileConnTimeout)
  /\ WF_vars(\E o \in Offsets : DSendOffset(o)) /\ WF_vars(DOffsetErr) /\ WF_vars(DStartDownload)
  /\ WF_vars(\E n \in 1..Chunk : DRecv(n)) /\ WF_vars(DSeeEof) /\ WF_vars(DSeeReset) /\ WF_vars(DDataTimeout) /\ WF_vars(DTimedOut)
  /\ WF_vars(DClose) /\ WF_vars(DVerdict) /\ WF_vars(DRecvUpFailed) /\ WF_vars(UserRetry)
  /\ WF_vars(URecvQueue) /\ WF_vars(UInitialize) /\ WF_vars(URecvReply) /\ WF_vars(UReplyTimeout)
  /\ WF_vars(UOpenFileConn) /\ WF_vars(URecvOffset) /\ WF_vars(UOffsetFail)
  /\ WF_vars(\E n \in 1..Chunk : USend(n)) /\ WF_vars(USendDone) /\ WF_vars(UVerdict)
  /\ WF_vars(ReleaseUpFailed)
  /\ WF_vars(DPickPath) /\ WF_vars(DCreateFile) /\ WF_vars(TPickPath) /\ WF_vars(TCreateFile) /\ WF_vars(TWrite)

----------------------------------------------------------------------------
\* Properties

States == {"QUEUED", "INITIALIZING", "INCOMPLETE", "DOWNLOADING", "UPLOADING", "COMPLETE", "FAILED"}

TypeOK ==
  /\ stD \in States /\ stU \in States \cup {"NONE"}
  /\ pcD \in {"idle", "waitfc", "offerr", "starting", "picked", "prepared", "recv", "timedout", "verdict", "closed", "toclose", "stuck"}
  /\ pcU \in {"idle", "waitreply", "connect", "waitoffset", "send", "waiteof"}
  /\ fc.st \in {"none", "open", "ubroken", "closedD", "closedU", "eof", "reset"}
  /\ faults \in 0..MaxFaults

\* A download is COMPLETE only if the local file is the source file.
DCompleteIsIdentical == (RealD /\ stD = "COMPLETE") => IsSrc(local)

\* An upload becomes COMPLETE only if every byte from the negotiated offset was sent and the
\* connection has ended (the peer closed it).
UCompleteSentAll ==
  [][(stU # "COMPLETE" /\ stU' = "COMPLETE") =>
        (offU <= size /\ sentU = size - offU /\ PeerGone)]_vars

\* The offset a real downloader sends is the size of its local file.
ResumeAtLocalSize ==
  [][(RealD /\ fc'.off >= 0 /\ fc'.off # fc.off) => fc'.off = LocalLen]_vars

\* With an honest sender the local file is always a prefix of the source and never shrinks.
PrefixKept == (mode = "real2") => IsPrefix(local)
NeverShrinks == [][BLen(local') >= BLen(local) /\ Take(local', BLen(local)) = local]_vars

\* A download that was receiving ends COMPLETE, INCOMPLETE or FAILED with a reason.
BreakOutcome ==
  [][(stD = "DOWNLOADING" /\ stD' # stD) =>
        (stD' \in {"COMPLETE", "INCOMPLETE"} \/ (stD' = "FAILED" /\ rsnD'))]_vars

\* D's counter is the local file size whenever it decides (lemma used by the verdict)
CounterIsFileSize ==
  (RealD /\ ~Twin /\ pcD \in {"starting", "picked", "prepared", "recv", "verdict", "closed"}) => cnt = LocalLen

\* Two downloads never share a local file.
DistinctPaths == (pathD # "none" /\ pathT # "none") => pathD # pathT

Settled ==
  /\ stD = "COMPLETE"
  /\ stU = "COMPLETE" \/ (stU = "FAILED" /\ rsnU)
  /\ pcD = "idle" /\ pcU = "idle"
  /\ heldUF = 0

\* Once faults stop the pair finishes (real parties; a scripted party is not obliged to).
Finishes == (mode = "real2") => <>[]Settled
\* Without faults both ends are COMPLETE.
BothComplete == (mode = "real2") => <>(faults > 0 \/ (stD = "COMPLETE" /\ stU = "COMPLETE"))
=============================================================================

SPECIFICATION TSpec
CONSTANTS
  Sizes = {0}
  Chunk = 1073741824
  MaxFaults = 100
  Modes = {"real2", "scrU", "scrD"}
  Resume = TRUE
  ZeroFix = TRUE
  OffsetErrFix = TRUE
  LateNotice = FALSE
  Twin = FALSE
  PathLockFix = TRUE
CONSTRAINT TypeOK
CONSTRAINT DCompleteIsIdentical
CONSTRAINT PrefixKept
CONSTRAINT CounterIsFileSize
ACTION_CONSTRAINT UCompleteSentAllC
ACTION_CONSTRAINT ResumeAtLocalSizeC
ACTION_CONSTRAINT NeverShrinksC
ACTION_CONSTRAINT BreakOutcomeC
CHECK_DEADLOCK FALSE

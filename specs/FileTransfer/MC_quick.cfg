SPECIFICATION FairSpec
CONSTANTS
  Sizes = {0, 1, 2, 3}
  Chunk = 2
  MaxFaults = 1
  Modes = {"real2", "scrU", "scrD"}
  Resume = TRUE
  ZeroFix = TRUE
  OffsetErrFix = TRUE
  LateNotice = FALSE
  Twin = FALSE
  PathLockFix = TRUE
INVARIANT TypeOK
INVARIANT DCompleteIsIdentical
INVARIANT PrefixKept
INVARIANT CounterIsFileSize
PROPERTY UCompleteSentAll
PROPERTY ResumeAtLocalSize
PROPERTY NeverShrinks
PROPERTY BreakOutcome
PROPERTY Finishes
PROPERTY BothComplete
CHECK_DEADLOCK FALSE

SPECIFICATION TSpec
CONSTANTS
  Sizes = {0}
  Chunk = 1073741824
  MaxFaults = 100
  Modes = {"real2", "scrU", "scrD"}
  Resume = TRUE
  ZeroFix = TRUE
  OffsetErrFix = TRUE
  LateNotice = FALSE
  Twin = FALSE
  PathLockFix = TRUE
INVARIANT TypeOK
INVARIANT DCompleteIsIdentical
INVARIANT PrefixKept
INVARIANT CounterIsFileSize
PROPERTY UCompleteSentAll
PROPERTY ResumeAtLocalSize
PROPERTY NeverShrinks
PROPERTY BreakOutcome
CHECK_DEADLOCK TRUE

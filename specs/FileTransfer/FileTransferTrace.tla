------------------------- MODULE FileTransferTrace -------------------------
(***************************************************************************)
(* Trace validation for C04.  A batch of executions of two real            *)
(* SoulSeekClients (or one real client and a scripted counterpart) on the  *)
(* simulated network, recorded by harness/props/c04.py, is checked against *)
(* FileTransfer with concrete byte counts.                                 *)
(*                                                                         *)
(* Records (JSON):                                                         *)
(*   init   : mode, size, k0 (bytes already on D's disk), b0 (D's counter),*)
(*            st (D's state)                              first record     *)
(*   d      : old, new, rsn     D's Transfer.state notification            *)
(*   u      : old, new, rsn     U's Transfer.state notification            *)
(*   offset : val               8 bytes D -> U seen on the file connection *)
(*   fault  : kind              reset | eof (file connection cut),         *)
(*                              lose_request | lose_reply, ufail (the      *)
(*                              uploader's end breaks), hold_upfailed /    *)
(*                              release_upfailed (PeerUploadFailed held    *)
(*                              back in the network / delivered)           *)
(*   scr    : act, n            act of a scripted uploader: junk | stall   *)
(*   final  : expect, bound,    quiescent end of the run; pd / pu = bytes  *)
(*            pd, pu            reported by the last progress snapshots    *)
(* every record carries                                                    *)
(*   snap = [dst, ust, len, pre, iden, sent, sentok, uoff, fcs, rq, nq, t] *)
(*     taken right after the event: both states; length of D's file and    *)
(*     whether it is a prefix of / identical to the source (len = -1 while *)
(*     the file is open for writing); data bytes U put on the current file *)
(*     connection and whether they are the source bytes from the offset;   *)
(*     whether that connection is still open from U's point of view; nq =  *)
(*     PeerTransferQueue frames D has put on the wire so far;              *)
(*   nlen = D's file length at the end of the current attempt (look-ahead).*)
(*                                                                         *)
(* State notifications, the offset, faults and scripted acts consume a     *)
(* record; control-message hand-over, sending, receiving and closing are   *)
(* silent steps of the design spec, driven towards the next snapshot.      *)
(***************************************************************************)
EXTENDS FileTransfer, Json, IOUtils

Traces == JsonDeserialize(IOEnv.TRACE_FILE)

VARIABLES tid, l,
          nq,       \* PeerTransferQueue frames the downloader has sent (bound to the count seen on the wire)
          marks     \* tolerated deviation steps taken on this path (open findings), reported by Done

tvars == <<vars, tid, l, nq, marks>>

\* Open finding: the downloader re-queued while the upload of the broken attempt was still UPLOADING
LateMark == "requeue-ignored-while-UPLOADING"

T == Traces[tid]
Rec == T[l]
S == Rec.snap

Max0(x) == IF x < 0 THEN 0 ELSE x

TInit ==
  /\ tid \in 1..Len(Traces)
  /\ l = 2
  /\ Len(Traces[tid]) >= 1
  /\ LET r == Traces[tid][1] IN
       /\ r.ev = "init"
       /\ mode = r.mode /\ size = r.size
       /\ local = Src(r.k0) /\ cnt = r.b0
       /\ stD = r.st
       /\ sizeD = IF r.st = "QUEUED" THEN -1 ELSE r.size
       /\ pathD = IF r.st = "QUEUED" THEN "none" ELSE "n0"
       /\ made = IF r.st = "QUEUED" THEN {} ELSE {"n0"}
  /\ rsnD = FALSE /\ remQ = FALSE /\ pcD = "idle" /\ expTk = -1 /\ recvD = 0 /\ needD = 0
  /\ stU = "NONE" /\ rsnU = FALSE /\ pcU = "idle" /\ tkt = 0 /\ offU = 0 /\ sentU = 0
  /\ chDU = <<>> /\ chUD = <<>> /\ fc = NoFc /\ stall = FALSE /\ faults = 0 /\ heldUF = 0
  \* every download of a run is validated as "ours" in its own trace; what another download does is not a
  \* step of this trace, so bytes of another download in our file are never explained
  /\ pathT = "none" /\ plock = "none" /\ pcT = "off"
  /\ marks = {} /\ nq = 0

IsEv(e) == l <= Len(T) /\ Rec.ev = e
\* with C04_PROGRESS = "1" every consumed record is reported: the harness reads off how far a rejected
\* trace could be followed (the first record nothing explains is the one after the last reported)
Progress == IOEnv.C04_PROGRESS = "1" => PrintT(<<"AT", tid, l>>)
Consume == l' = l + 1 /\ UNCHANGED <<tid, nq, marks>> /\ Progress

\* the snapshot taken right after the event shows the state the model is in
Agrees ==
  /\ stD' = S.dst /\ stU' = S.ust
  /\ nq = S.nq            \* the downloader has queued remotely exactly as often as frames were seen
  /\ (RealD /\ S.len >= 0) =>
        (BLen(local') = S.len /\ IsPrefix(local') = S.pre /\ IsSrc(local') = S.iden)
  /\ (S.ust = "UPLOADING") => sentU' = S.sent
  \* "open" = the link is alive and the downloader's end has not closed it (the uploader's own close does
  \* not count: "the peer closed the connection" is observed at the peer's end of the recorded link)
  /\ (fc'.st \in {"open", "ubroken", "closedU"}) = (S.fcs = "open")

UOld == IF stU = "NONE" THEN "VIRGIN" ELSE stU

TD ==
  /\ IsEv("d")
  /\ Rec.old = stD
  /\ \/ /\ Rec.new = "INITIALIZING" /\ DRecvRequest
     \/ /\ Rec.old = "FAILED" /\ Rec.new = "QUEUED"
        /\ IF S.rq THEN DRequeueOnRequest ELSE UserRetry
     \/ /\ Rec.old = "INITIALIZING" /\ Rec.new = "QUEUED" /\ (DFileConnTimeout \/ DOffsetErr)
     \/ /\ Rec.new = "DOWNLOADING" /\ DStartDownload
     \/ /\ Rec.old = "DOWNLOADING" /\ Rec.new \in {"COMPLETE", "FAILED"} /\ DVerdict
     \/ /\ Rec.old = "DOWNLOADING" /\ Rec.new = "INCOMPLETE" /\ (DSeeReset \/ DTimedOut \/ ScrDCloseEarly)
  /\ stD' = Rec.new
  /\ (Rec.new = "FAILED") => (rsnD' = Rec.rsn)
  /\ Agrees /\ Consume

TU ==
  /\ IsEv("u")
  /\ Rec.old = UOld
  /\ \/ /\ Rec.new = "QUEUED" /\ Rec.old \in {"VIRGIN", "FAILED", "COMPLETE"} /\ URecvQueue
     \/ /\ Rec.new = "INITIALIZING" /\ UInitialize
     \/ /\ Rec.old = "INITIALIZING" /\ Rec.new = "QUEUED" /\ (UReplyTimeout \/ UOffsetFail)
     \/ /\ Rec.new = "UPLOADING" /\ URecvOffset
     \/ /\ Rec.old = "INITIALIZING" /\ Rec.new = "FAILED" /\ (URecvReply \/ ScrUAbandon)
     \/ /\ Rec.old = "QUEUED" /\ Rec.new = "FAILED" /\ ScrUFailEarly
     \/ /\ Rec.old = "UPLOADING" /\ Rec.new = "COMPLETE" /\ UVerdict /\ (RealU => S.sentok)
     \/ /\ Rec.old = "UPLOADING" /\ Rec.new = "FAILED"
        /\ \/ UVerdict
           \/ fc.st \in {"reset", "ubroken"} /\ USend(1)
           \/ ScrUCloseEarly
           \/ ScrUStallEnd
  /\ stU' = Rec.new
  /\ (Rec.new = "FAILED") => (rsnU' = Rec.rsn)
  /\ Agrees /\ Consume

\* the offset on the wire: DSendOffset requires it to be the size of the local file (real D)
TOffset ==
  /\ IsEv("offset")
  /\ DSendOffset(Rec.val)
  /\ Agrees /\ Consume

\* how many of the bytes in flight D will still read: what its file holds at the end of the attempt
Kept == IF Rec.nlen >= 0 THEN Min(BLen(fc.fl), Max0(Rec.nlen - LocalLen)) ELSE 0

TFault ==
  /\ IsEv("fault")
  /\ \/ /\ Rec.kind \in {"reset", "eof"}
        /\ \E kt \in BOOLEAN, ko \in BOOLEAN :
              /\ (fc.tk < 0 => kt) /\ (fc.off < 0 => ko)
              /\ Cut(Rec.kind, Kept, kt, ko)
     \/ Rec.kind = "lose_request" /\ LoseRequest
     \/ Rec.kind = "lose_reply" /\ LoseReply
     \/ Rec.kind = "ufail" /\ BreakUSide
     \/ Rec.kind = "hold_upfailed" /\ HoldUpFailed
     \/ Rec.kind = "release_upfailed" /\ ReleaseUpFailed
  /\ Agrees /\ Consume

TScr ==
  /\ IsEv("scr")
  /\ \/ Rec.act = "junk" /\ ScrUSendJunk(Rec.n)
     \/ Rec.act = "stall" /\ ScrUStall
  /\ Agrees /\ Consume

\* where the open finding leaves the pair: upload COMPLETE, download waiting, marked remotely queued
StuckRemotelyQueued ==
  /\ stD = "INCOMPLETE" /\ remQ /\ stU = "COMPLETE" /\ pcD = "idle" /\ pcU = "idle" /\ chDU = <<>> /\ chUD = <<>>

\* the quiescent end: what the schedule entitles us to expect (bounded-time form of Finishes)
TFinal ==
  /\ IsEv("final")
  /\ (Rec.expect = "settled") => (Settled \/ (LateMark \in marks /\ StuckRemotelyQueued))
  /\ (LateMark \in marks) => StuckRemotelyQueued      \* the deviation is tolerated with its known outcome only
  /\ (Rec.expect = "dcomplete") => (stD = "COMPLETE" /\ pcD = "idle")
  /\ S.t <= Rec.bound
  \* the last TransferProgressEvent snapshot of a COMPLETE transfer reports the whole file
  /\ (RealD /\ stD = "COMPLETE" /\ Rec.pd >= 0) => Rec.pd = size
  /\ (RealU /\ stU = "COMPLETE" /\ Rec.pu >= 0) => Rec.pu = size
  /\ UNCHANGED vars
  /\ Agrees /\ Consume

Silent ==
  /\ l <= Len(T)
  /\ \/ nq < S.nq /\ DQueueRemotely /\ nq' = nq + 1 /\ UNCHANGED marks
     \/ nq < S.nq /\ mode = "real2" /\ ~UNoticedEnd /\ DQueueRemotelyCore /\ nq' = nq + 1
        /\ marks' = marks \cup {LateMark}
     \/ UNCHANGED <<marks, nq>> /\
        \/ DRecvRequest /\ stD' = stD
        \/ DRecvUpFailed
        \/ URecvQueue /\ stU' = stU
        \/ URecvReply /\ stU' = stU
        \/ UOpenFileConn
        \/ DPickPath
        \/ DCreateFile
        \/ pcU = "send" /\ fc.st \notin {"reset", "ubroken"} /\ S.sent > sentU /\ USend(Min(S.sent - sentU, Remaining))
        \/ S.sent = sentU /\ USendDone
        \/ LET n == Min(BLen(fc.fl), Rec.nlen - LocalLen) IN n >= 1 /\ DRecv(n)
        \/ DSeeEof
        \/ DDataTimeout
        \/ DClose
  /\ UNCHANGED <<tid, l>>

Done ==
  /\ l = Len(T) + 1
  /\ PrintT(<<"ACCEPT", tid, marks>>)
  /\ l' = l + 1
  /\ UNCHANGED <<vars, tid, nq, marks>>

Finished == l = Len(T) + 2 /\ UNCHANGED tvars

TNext == TD \/ TU \/ TOffset \/ TFault \/ TScr \/ TFinal \/ Silent \/ Done \/ Finished

TSpec == TInit /\ [][TNext]_tvars

\* the action properties of FileTransfer as constraints (a path that breaks one is cut)
UCompleteSentAllC ==
  (stU # "COMPLETE" /\ stU' = "COMPLETE") => (offU <= size /\ sentU = size - offU /\ PeerGone)
ResumeAtLocalSizeC == (RealD /\ fc'.off >= 0 /\ fc'.off # fc.off) => fc'.off = LocalLen
NeverShrinksC == BLen(local') >= BLen(local) /\ Take(local', BLen(local)) = local
BreakOutcomeC ==
  (stD = "DOWNLOADING" /\ stD' # stD) =>
     (stD' \in {"COMPLETE", "INCOMPLETE"} \/ (stD' = "FAILED" /\ rsnD'))
=============================================================================

SPECIFICATION FairSpec
CONSTANTS
  Sizes = {0, 1}
  Chunk = 2
  MaxFaults = 1
  Modes = {"real2"}
  Resume = TRUE
  ZeroFix = TRUE
  OffsetErrFix = FALSE
  LateNotice = FALSE
  Twin = FALSE
  PathLockFix = TRUE
INVARIANT TypeOK
INVARIANT DCompleteIsIdentical
INVARIANT PrefixKept
INVARIANT CounterIsFileSize
PROPERTY UCompleteSentAll
PROPERTY ResumeAtLocalSize
PROPERTY NeverShrinks
PROPERTY BreakOutcome
PROPERTY Finishes
PROPERTY BothComplete
CHECK_DEADLOCK FALSE

SPECIFICATION FairSpec
CONSTANTS
  Sizes = {0, 1}
  Chunk = 2
  MaxFaults = 0
  Modes = {"real2"}
  Resume = TRUE
  ZeroFix = FALSE
  OffsetErrFix = TRUE
  LateNotice = FALSE
  Twin = FALSE
  PathLockFix = TRUE
INVARIANT TypeOK
INVARIANT DCompleteIsIdentical
INVARIANT PrefixKept
INVARIANT CounterIsFileSize
PROPERTY UCompleteSentAll
PROPERTY ResumeAtLocalSize
PROPERTY NeverShrinks
PROPERTY BreakOutcome
PROPERTY Finishes
PROPERTY BothComplete
CHECK_DEADLOCK FALSE

SPECIFICATION FairSpec
CONSTANTS
  Sizes = {2, 3}
  Chunk = 2
  MaxFaults = 1
  Modes = {"real2"}
  Resume = TRUE
  ZeroFix = TRUE
  OffsetErrFix = TRUE
  LateNotice = TRUE
  Twin = FALSE
  PathLockFix = TRUE
INVARIANT TypeOK
INVARIANT DCompleteIsIdentical
INVARIANT PrefixKept
INVARIANT CounterIsFileSize
PROPERTY UCompleteSentAll
PROPERTY ResumeAtLocalSize
PROPERTY NeverShrinks
PROPERTY BreakOutcome
PROPERTY Finishes
PROPERTY BothComplete
CHECK_DEADLOCK FALSE

SPECIFICATION Spec
CONSTANTS
  Sizes = {0, 1, 2, 3, 4, 5}
  Chunk = 2
  MaxFaults = 2
  Modes = {"real2", "scrU", "scrD"}
  Resume = TRUE
  ZeroFix = TRUE
  OffsetErrFix = TRUE
  LateNotice = FALSE
  Twin = FALSE
  PathLockFix = TRUE
INVARIANT TypeOK
CHECK_DEADLOCK FALSE

SPECIFICATION TSpec
CONSTANTS
  Users = {}
  Paths = {}
  Dirs = {}
  KeyInjective = TRUE
  StaleByKey = TRUE
  OldVersions = TRUE
  StartRecipes = {}
  MutOps = {}
  SetVals = {"some", "full", "zero", "empty", "one", "onez"}
  PeerFaults = TRUE
  PeerToggles = TRUE
  MaxInit = 0
  MaxPresent = 1000
  MaxOps = 1000000
  MaxLives = 1000
CONSTRAINT TypeOK
CONSTRAINT WiredAll
ACTION_CONSTRAINT WriteReadBackA
ACTION_CONSTRAINT RoundTripA
ACTION_CONSTRAINT NothingInProgressAfterLoadA
ACTION_CONSTRAINT RepairIsLegalA
ACTION_CONSTRAINT LoadedLikeFreshA
ACTION_CONSTRAINT ReportsToOwnListenersA
CHECK_DEADLOCK FALSE

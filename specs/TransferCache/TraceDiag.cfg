SPECIFICATION TSpec
CONSTANTS
  Users = {}
  Paths = {}
  Dirs = {}
  KeyInjective = TRUE
  StaleByKey = TRUE
  OldVersions = TRUE
  StartRecipes = {}
  MutOps = {}
  SetVals = {"some", "full", "zero", "empty", "one", "onez"}
  PeerFaults = TRUE
  PeerToggles = TRUE
  MaxInit = 0
  MaxPresent = 1000
  MaxOps = 1000000
  MaxLives = 1000
INVARIANT TypeOK
INVARIANT WiredAll
PROPERTY WriteReadBack
PROPERTY RoundTrip
PROPERTY NothingInProgressAfterLoad
PROPERTY RepairIsLegal
PROPERTY LoadedLikeFresh
PROPERTY ReportsToOwnListeners
CHECK_DEADLOCK TRUE

SPECIFICATION TSpec
CONSTANTS
  Users = {}
  Paths = {}
  Dirs = {}
  KeyInjective = TRUE
  StaleByKey = TRUE
  OldVersions = TRUE
  StartRecipes = {}
  MutOps = {}
  MaxInit = 0
  MaxPresent = 1000
  MaxOps = 1000000
  MaxLives = 1000
INVARIANT TypeOK
INVARIANT WiredAll
PROPERTY WriteReadBack
PROPERTY RoundTrip
PROPERTY NothingInProgressAfterLoad
PROPERTY RepairIsLegal
PROPERTY LoadedLikeFresh
CHECK_DEADLOCK TRUE

SPECIFICATION Spec
CONSTANTS
  Users = {"a", "ab"}
  Paths = {"bc", "c"}
  Dirs = {"1"}
  KeyInjective = TRUE
  StaleByKey = TRUE
  OldVersions = TRUE
  StartRecipes = {"queued", "xfer_some"}
  MutOps = {"abort"}
  SetVals = {"some", "full"}
  PeerFaults = FALSE
  PeerToggles = FALSE
  MaxInit = 2
  MaxPresent = 2
  MaxOps = 4
  MaxLives = 2
INVARIANT TypeOK
INVARIANT WiredAll
PROPERTY WriteReadBack
PROPERTY RoundTrip
PROPERTY NothingInProgressAfterLoad
PROPERTY RepairIsLegal
PROPERTY LoadedLikeFresh
PROPERTY ReportsToOwnListeners
CHECK_DEADLOCK FALSE

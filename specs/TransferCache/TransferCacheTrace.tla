------------------------ MODULE TransferCacheTrace ------------------------
(***************************************************************************)
(* Trace validation for C17: histories of a real TransferManager with a    *)
(* real TransferShelveCache in a temp directory, recorded by               *)
(* harness/props/c17.py, are checked against TransferCache.                *)
(*                                                                         *)
(* A history starts with an empty manager over an empty directory.  Event  *)
(* records (JSON); every record carries mem = the list of transfers the    *)
(* manager holds right after the event (for stopwrite / oldwrite: the      *)
(* members that were written), each as                                     *)
(*   [k |-> <<user, path, dir>>, st, rq, fr, ar, lp, fs, bt]               *)
(*   add       : k              manager.add(Transfer(...))                 *)
(*   mutate    : k, op          a state method / manager.queue|abort|pause *)
(*   setdata   : k              local_path / filesize / bytes set          *)
(*   remove    : k              manager.remove                             *)
(*   write     : readback       write_cache(); readback = cache.read() of a*)
(*                              fresh cache object over the directory      *)
(*   stopwrite : readback       stop(), tasks awaited, store_data(); end   *)
(*   oldwrite  : fmt, readback  the file is written in the format of an    *)
(*                              older release (old key scheme); end        *)
(*   crash     :                the process ends                           *)
(*   restart   :                fresh manager + cache, load_data()         *)
(*   start     :                manager.start()                            *)
(*   peerdown / peerup : u      queue requests to user u fail / arrive     *)
(*   quiesce   : sent           the loop ran until idle; sent = keys for   *)
(*                              which a PeerTransferQueue (download) or    *)
(*                              PeerTransferRequest (upload) left          *)
(* Fields the property does not constrain are bound from the log (the "To" *)
(* variants of the design actions); the property formulas of TransferCache *)
(* are ACTION_CONSTRAINTs in Trace.cfg and judge the bound steps.          *)
(***************************************************************************)
EXTENDS TransferCache, Json, IOUtils

Traces == JsonDeserialize(IOEnv.TRACE_FILE)

VARIABLES tid, l

tvars == <<vars, tid, l>>

T == Traces[tid]
Rec == T[l]

MemFn(L) == [k \in {L[i].k : i \in DOMAIN L} |-> L[CHOOSE i \in DOMAIN L : L[i].k = k]]
NoDup(L) == \A i, j \in DOMAIN L : L[i].k = L[j].k => i = j
Logged == MemFn(Rec.mem)

TInit ==
  /\ tid \in 1..Len(Traces)
  /\ l = 1
  /\ mem = Empty /\ db = EmptyDb /\ proc = "running" /\ lastW = Empty
  /\ started = FALSE /\ cycleReq = FALSE /\ wired = {} /\ picked = {} /\ busy = {} /\ failq = {} /\ held = {} /\ told = {}
  /\ act = "Init" /\ nops = 0 /\ lives = 0

IsEv(e) == l <= Len(T) /\ Rec.ev = e
\* every record carries reports = the state-change reports application listeners (one attached per
\* transfer when its TransferAddedEvent was seen) received during the event: [l, t, cur]
Reported == {Rec.reports[i] : i \in DOMAIN Rec.reports}
Consume == l' = l + 1 /\ UNCHANGED tid
\* what was reported is what the step of the model reports, each report once
ReportsAgree == told' = Reported /\ Len(Rec.reports) = Cardinality(Reported)

\* cache.read() returned exactly the entries of the file, as unpickling shows them
ReadBackAgrees(L, d) ==
  /\ Len(L) = DbCount(d)
  /\ {L[i] : i \in DOMAIN L} = {ReadOf(r) : r \in RecsOf(d)}

TAdd == IsEv("add") /\ NoDup(Rec.mem) /\ AddTo(Rec.k, Logged) /\ ReportsAgree /\ Consume

TMutate ==
  /\ IsEv("mutate") /\ NoDup(Rec.mem)
  /\ Rec.k \in DOMAIN Logged /\ DOMAIN Logged = DOMAIN mem
  /\ \A x \in DOMAIN mem \ {Rec.k} : Logged[x] = mem[x]
  /\ MutateTo(Rec.k, Rec.op, Logged[Rec.k])
  /\ ReportsAgree /\ Consume

TSetData ==
  /\ IsEv("setdata") /\ NoDup(Rec.mem)
  /\ Rec.k \in DOMAIN Logged /\ DOMAIN Logged = DOMAIN mem
  /\ \A x \in DOMAIN mem \ {Rec.k} : Logged[x] = mem[x]
  /\ SetDataTo(Rec.k, Logged[Rec.k])
  /\ ReportsAgree /\ Consume

TRemove == IsEv("remove") /\ NoDup(Rec.mem) /\ Remove(Rec.k) /\ Logged = mem' /\ ReportsAgree /\ Consume

TWrite ==
  /\ IsEv("write") /\ NoDup(Rec.mem) /\ Logged = mem
  /\ Write
  /\ ReadBackAgrees(Rec.readback, db')
  /\ ReportsAgree /\ Consume

TStopWrite ==
  /\ IsEv("stopwrite") /\ NoDup(Rec.mem)
  /\ StopWriteOf(Logged)
  /\ ReadBackAgrees(Rec.readback, db')
  /\ ReportsAgree /\ Consume

TOldWrite ==
  /\ IsEv("oldwrite") /\ NoDup(Rec.mem) /\ Logged = mem
  /\ OldVersionWrite(Rec.fmt)
  /\ ReadBackAgrees(Rec.readback, db')
  /\ ReportsAgree /\ Consume

TCrash == IsEv("crash") /\ Crash /\ ReportsAgree /\ Consume

\* "each exactly once": the loaded list has no two transfers with one key
TRestart == IsEv("restart") /\ NoDup(Rec.mem) /\ RestartTo(Logged) /\ ReportsAgree /\ Consume

\* the harness makes queue requests to user u (un)deliverable
TPeerDown == IsEv("peerdown") /\ PeerDown(Rec.u) /\ ReportsAgree /\ Consume
TPeerUp == IsEv("peerup") /\ PeerUp(Rec.u) /\ ReportsAgree /\ Consume

TStart == IsEv("start") /\ Logged = mem /\ StartMgr /\ ReportsAgree /\ Consume

TQuiesce ==
  /\ IsEv("quiesce")
  /\ LET P == {Rec.sent[i] : i \in DOMAIN Rec.sent} IN
       IF cycleReq /\ started
       THEN NoDup(Rec.mem) /\ CycleTo(P, Logged, Reported)
       ELSE P = {} /\ Logged = mem /\ Rec.reports = <<>> /\ UNCHANGED vars
  /\ Consume

Done ==
  /\ l = Len(T) + 1
  /\ PrintT(<<"ACCEPT", tid, {}>>)
  /\ l' = l + 1
  /\ UNCHANGED <<vars, tid>>

Finished == l = Len(T) + 2 /\ UNCHANGED tvars

TNext == \/ TAdd \/ TMutate \/ TSetData \/ TRemove \/ TWrite \/ TStopWrite \/ TOldWrite
         \/ TCrash \/ TRestart \/ TStart \/ TQuiesce \/ TPeerDown \/ TPeerUp \/ Done \/ Finished

TSpec == TInit /\ [][TNext]_tvars

=============================================================================

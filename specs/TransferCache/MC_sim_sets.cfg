SPECIFICATION Spec
CONSTANTS
  Users = {"a", "ab"}
  Paths = {"bc", "c"}
  Dirs = {"0", "1"}
  KeyInjective = TRUE
  StaleByKey = TRUE
  OldVersions = TRUE
  StartRecipes = {"queued", "xfer_some", "aborted", "complete"}
  MutOps = {"queue", "abort", "pause", "fail_nr"}
  SetVals = {"some", "full", "zero", "empty", "one", "onez"}
  PeerFaults = TRUE
  PeerToggles = TRUE
  MaxInit = 2
  MaxPresent = 4
  MaxOps = 10
  MaxLives = 3
INVARIANT TypeOK
INVARIANT WiredAll
PROPERTY WriteReadBack
PROPERTY RoundTrip
PROPERTY NothingInProgressAfterLoad
PROPERTY RepairIsLegal
PROPERTY LoadedLikeFresh
PROPERTY ReportsToOwnListeners
CHECK_DEADLOCK FALSE

SPECIFICATION Spec
CONSTANTS
  Users = {"a"}
  Paths = {"bc", "c"}
  Dirs = {"0", "1"}
  KeyInjective = TRUE
  StaleByKey = TRUE
  OldVersions = TRUE
  StartRecipes = {"virgin", "queued", "queued_r", "paused", "init", "init_d", "init_rq", "xfer_nosize", "xfer_some", "xfer_full", "complete", "incomplete", "failed_r", "failed_nr", "failed_xfer", "aborted", "aborted_xfer", "paused_xfer", "requeued", "xfer_zero", "xfer_empty", "xfer_one", "xfer_onez"}
  MutOps = {"queue", "queue_r", "initialize", "start", "complete", "incomplete", "fail", "fail_nr", "abort", "pause"}
  SetVals = {"some", "full", "zero", "empty", "one", "onez"}
  PeerFaults = TRUE
  PeerToggles = TRUE
  MaxInit = 2
  MaxPresent = 3
  MaxOps = 9
  MaxLives = 3
INVARIANT TypeOK
INVARIANT WiredAll
PROPERTY WriteReadBack
PROPERTY RoundTrip
PROPERTY NothingInProgressAfterLoad
PROPERTY RepairIsLegal
PROPERTY LoadedLikeFresh
PROPERTY ReportsToOwnListeners
CHECK_DEADLOCK FALSE

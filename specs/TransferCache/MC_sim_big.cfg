SPECIFICATION Spec
CONSTANTS
  Users = {"a", "ab", "x"}
  Paths = {"bc", "c", "y"}
  Dirs = {"0", "1"}
  KeyInjective = TRUE
  StaleByKey = TRUE
  OldVersions = TRUE
  StartRecipes = {"virgin", "queued", "queued_r", "paused", "init", "init_d", "init_rq", "xfer_nosize", "xfer_some", "xfer_full", "complete", "incomplete", "failed_r", "failed_nr", "failed_xfer", "aborted", "aborted_xfer", "paused_xfer", "requeued", "xfer_zero", "xfer_empty", "xfer_one", "xfer_onez"}
  MutOps = {"queue", "queue_r", "initialize", "start", "complete", "incomplete", "fail", "fail_nr", "abort", "pause"}
  SetVals = {"some", "full", "zero", "empty", "one", "onez"}
  PeerFaults = TRUE
  PeerToggles = TRUE
  MaxInit = 1
  MaxPresent = 8
  MaxOps = 30
  MaxLives = 4
INVARIANT TypeOK
INVARIANT WiredAll
PROPERTY WriteReadBack
PROPERTY RoundTrip
PROPERTY NothingInProgressAfterLoad
PROPERTY RepairIsLegal
PROPERTY LoadedLikeFresh
PROPERTY ReportsToOwnListeners
CHECK_DEADLOCK FALSE

--------------------------- MODULE TransferCache ---------------------------
(***************************************************************************)
(* C17 - transfers survive a restart: nothing lost, duplicated, or left    *)
(* "in progress".                                                          *)
(*                                                                         *)
(* Mirrors                                                                 *)
(*   transfer/cache.py    TransferShelveCache.read / write  (shelve file,  *)
(*                        one entry per key, stale-entry pass)             *)
(*   transfer/model.py    Transfer.__getstate__ / __setstate__             *)
(*   transfer/manager.py  read_cache (per-record repair + add), write_cache*)
(*                        load_data / store_data / add / remove, and the   *)
(*                        part of _get_queued_transfers / manage_transfers *)
(*                        that decides which transfers a cycle picks up    *)
(*   transfer/state.py    the state methods (through TransferState's Edge) *)
(*                                                                         *)
(* A transfer is identified by key = <<user, remote path, direction>>      *)
(* (Transfer.__eq__).  direction is the string "0" (upload) or "1"         *)
(* (download): str(TransferDirection.value), which is what the cache key   *)
(* is built from.                                                          *)
(*                                                                         *)
(* Deviation switches (rule 4 of DESIGN.md 2.2), code position / repaired: *)
(*   KeyInjective = FALSE / TRUE   the database key is a hash of the       *)
(*        *concatenation* user+path+direction (cache.py:62-68), so two     *)
(*        different keys can share an entry / an unambiguous encoding      *)
(*   StaleByKey   = FALSE / TRUE   the stale pass deletes an entry when    *)
(*        the stored transfer equals no member (cache.py:72-77) / when its *)
(*        database key is not the key of a member.  Only matters once the  *)
(*        key scheme changes: entries written under the old scheme equal a *)
(*        member and would survive next to the new entry.                  *)
(***************************************************************************)
EXTENDS Integers, Sequences, FiniteSets, TLC

CONSTANTS Users, Paths, Dirs,   \* sets of strings; Dirs \subseteq {"0", "1"}
          KeyInjective,         \* see above
          StaleByKey,           \* see above
          OldVersions,          \* BOOLEAN: a cache file written by an older release may pre-exist
          StartRecipes,         \* names of the life stories Init may give a transfer (see Recipe)
          MutOps,               \* the state methods Mutate may call (a subset of MOps)
          SetVals,              \* the data values SetData may install (a subset of DataVals)
          PeerFaults,           \* BOOLEAN: initially the queue requests to the peers we download from may be
                                \*          undeliverable (peer unreachable)
          PeerToggles,          \* BOOLEAN: peers become (un)reachable during a history
          MaxInit,              \* at most this many transfers already there in the initial state
          MaxPresent,           \* at most this many transfers in the manager at once (Add)
          MaxOps,               \* length bound of a history
          MaxLives              \* number of restarts

\* C03's documented state graph.  Only its constant-level definitions (Edge, Target, Allowed)
\* are used, so its variables are instantiated with dummies.
TS == INSTANCE TransferState WITH
        Callers <- {}, Redispatch <- TRUE, StartStates <- {}, Dirs <- {"up", "down"},
        dir <- "down", st <- "VIRGIN", file <- FALSE, failR <- FALSE, abortR <- FALSE,
        bg <- FALSE, bgCancelled <- FALSE, holder <- 0, waitq <- <<>>, pc <- <<>>, op <- <<>>,
        cap <- <<>>, isTask <- <<>>, ret <- <<>>, lastEdge <- <<>>,
        Lst2Kinds <- {"none"}, WithLoad <- FALSE, lst2 <- "none", loaded <- TRUE

Keys == Users \X Paths \X Dirs
IsDown(k) == k[3] = "1"
DirName(k) == IF k[3] = "0" THEN "up" ELSE "down"

Empty == [x \in {} |-> x]
Restrict(f, S) == [x \in S |-> f[x]]
Range(f) == {f[x] : x \in DOMAIN f}

----------------------------------------------------------------------------
\* The persistent part of a Transfer (what the property statement lists) plus state and
\* remote-queue mark.  fs = -1 stands for filesize None, "none" for None elsewhere.
Virgin(k) == [k |-> k, st |-> "VIRGIN", rq |-> FALSE, fr |-> "none", ar |-> "none",
              lp |-> "none", fs |-> -1, bt |-> 0]

InProgress == {"INITIALIZING", "DOWNLOADING", "UPLOADING"}
Transferring == {"DOWNLOADING", "UPLOADING"}

\* operations on a transfer: C03's eight plus queue(remotely=True) (manager.py:1418) and
\* fail(reason=None) (a FAILED download without reason is retried by the scheduler)
MOps == TS!Ops \cup {"queue_r", "fail_nr"}
Base(o) == IF o = "queue_r" THEN "queue" ELSE IF o = "fail_nr" THEN "fail" ELSE o
CanDo(r, o) == /\ TS!Allowed(r.st, Base(o), DirName(r.k))
               /\ o = "queue_r" => IsDown(r.k)

\* state.py: what each state method does to the persistent fields
Effect(r, o) ==
  LET b == Base(o)
      new == TS!Target(b, DirName(r.k))
      wipe == IsDown(r.k) /\ r.st \in {"COMPLETE", "ABORTED"}     \* reset_progress_vars/reset_local_vars
      clr == r.st \in {"FAILED", "ABORTED"}
  IN CASE b = "queue" ->
            [r EXCEPT !.st = new, !.rq = (o = "queue_r"),
                      !.fr = IF clr THEN "none" ELSE @, !.ar = IF clr THEN "none" ELSE @,
                      !.bt = IF wipe THEN 0 ELSE @, !.lp = IF wipe THEN "none" ELSE @,
                      !.fs = IF wipe THEN -1 ELSE @]
       [] b = "start" -> [r EXCEPT !.st = new, !.rq = FALSE]                 \* reset_queue_vars
       [] b = "fail"  -> [r EXCEPT !.st = new, !.fr = IF o = "fail_nr" THEN "none" ELSE "r"]
       [] b = "abort" -> [r EXCEPT !.st = new, !.ar = "Requested",
                                   !.lp = IF IsDown(r.k) THEN "none" ELSE @]  \* _remove_local_file
       [] OTHER -> [r EXCEPT !.st = new]

\* the manager's transfer code sets local path / file size / byte count
\* boundary file sizes {0, 1, n} x bytes {0, part, all}:  some = part of n, full = n of n,
\* zero = 0 of n, empty = 0 of 0 (an empty file: all of its bytes have arrived), one = 1 of 1, onez = 0 of 1
DataVals == {"some", "full", "zero", "empty", "one", "onez"}
DataFs(v) == CASE v \in {"some", "full", "zero"} -> 2 [] v = "empty" -> 0 [] OTHER -> 1
DataBt(v) == CASE v = "some" -> 1 [] v = "full" -> 2 [] v = "one" -> 1 [] OTHER -> 0
Data(r, v) == [r EXCEPT !.lp = "L", !.fs = DataFs(v), !.bt = DataBt(v)]

\* Life stories through which Init (and the replay driver, with the real state methods)
\* bring a transfer into a start state.
Recipe(n) ==
  CASE n = "virgin"       -> <<>>
    [] n = "queued"       -> <<"queue">>
    [] n = "queued_r"     -> <<"queue_r">>
    [] n = "paused"       -> <<"pause">>
    [] n = "init"         -> <<"queue", "initialize">>
    [] n = "init_d"       -> <<"queue", "initialize", "set_some">>
    [] n = "xfer_nosize"  -> <<"queue", "initialize", "start">>
    [] n = "xfer_some"    -> <<"queue_r", "initialize", "set_some", "start">>
    [] n = "xfer_full"    -> <<"queue", "initialize", "set_some", "start", "set_full">>
    [] n = "complete"     -> <<"queue", "initialize", "set_some", "start", "set_full", "complete">>
    [] n = "incomplete"   -> <<"queue", "initialize", "set_some", "start", "incomplete">>
    [] n = "failed_r"     -> <<"queue", "fail">>
    [] n = "failed_nr"    -> <<"queue", "fail_nr">>
    [] n = "failed_xfer"  -> <<"queue", "initialize", "set_some", "start", "fail">>
    [] n = "aborted"      -> <<"queue", "abort">>
    [] n = "aborted_xfer" -> <<"queue", "initialize", "set_some", "start", "abort">>
    [] n = "paused_xfer"  -> <<"queue", "initialize", "set_some", "start", "pause">>
    [] n = "requeued"     -> <<"queue", "fail", "queue">>
    [] n = "init_rq"      -> <<"queue_r", "initialize">>
    [] n = "xfer_zero"    -> <<"queue", "initialize", "set_zero", "start">>
    [] n = "xfer_empty"   -> <<"queue", "initialize", "set_empty", "start">>
    [] n = "xfer_one"     -> <<"queue", "initialize", "set_onez", "start", "set_one">>
    [] n = "xfer_onez"    -> <<"queue", "initialize", "set_onez", "start">>

StepOf(r, o) ==
  IF r.st = "BAD" THEN r
  ELSE IF o \in {"set_" \o v : v \in DataVals} THEN Data(r, CHOOSE v \in DataVals : o = "set_" \o v)
  ELSE IF CanDo(r, o) THEN Effect(r, o)
  ELSE [r EXCEPT !.st = "BAD"]

RECURSIVE RunFrom(_, _)
RunFrom(r, ops) == IF ops = <<>> THEN r ELSE RunFrom(StepOf(r, Head(ops)), Tail(ops))

StartRecs(k) == {r \in {RunFrom(Virgin(k), Recipe(n)) : n \in StartRecipes} : r.st # "BAD"}

RECURSIVE Mems(_)
Mems(S) == IF S = {} THEN {Empty}
           ELSE LET k == CHOOSE x \in S : TRUE
                IN {m @@ (k :> r) : m \in Mems(S \ {k}), r \in StartRecs(k)}

----------------------------------------------------------------------------
\* The database: entries written under the old key scheme (string = concatenation) and under
\* an unambiguous scheme (the key itself).  Both are functions dbkey -> stored record.
EmptyDb == [old |-> Empty, new |-> Empty]
OldKey(k) == k[1] \o k[2] \o k[3]            \* cache.py:62-68 (the hash itself is injective enough)
RecsOf(d) == Range(d.old) \cup Range(d.new)
DbCount(d) == Cardinality(DOMAIN d.old) + Cardinality(DOMAIN d.new)

\* which member ends up under each old-scheme key: with colliding members the later one wins;
\* list order is not modelled, so the winner is chosen nondeterministically
RECURSIVE WinnersOf(_, _)
WinnersOf(W, K) ==
  IF W = {} THEN {Empty}
  ELSE LET s == CHOOSE x \in W : TRUE
       IN {c @@ (s :> k) : c \in WinnersOf(W \ {s}, K), k \in {x \in K : OldKey(x) = s}}

\* cache.py:59-77 : upsert every member, then drop stale entries
WriteRes(d, m) ==
  LET K == DOMAIN m IN
  IF KeyInjective
  THEN LET new1 == m @@ d.new IN
       IF StaleByKey
       THEN {[old |-> Empty, new |-> Restrict(new1, K)]}
       ELSE {[old |-> Restrict(d.old, {s \in DOMAIN d.old : d.old[s].k \in K}),
              new |-> Restrict(new1, {x \in DOMAIN new1 : new1[x].k \in K})]}
  ELSE LET W == {OldKey(k) : k \in K}
           old1(c) == [s \in W \cup DOMAIN d.old |-> IF s \in W THEN m[c[s]] ELSE d.old[s]]
       IN IF StaleByKey
          THEN {[old |-> Restrict(old1(c), W), new |-> Empty] : c \in WinnersOf(W, K)}
          ELSE {[old |-> Restrict(old1(c), {s \in DOMAIN old1(c) : old1(c)[s].k \in K}),
                 new |-> Restrict(d.new, {x \in DOMAIN d.new : d.new[x].k \in K})] : c \in WinnersOf(W, K)}

\* what an older release wrote: old key scheme; fmt = "legacy": records lack abort_reason
\* (and carry _offset / bytes_read / bytes_written, which are dropped on load)
StoredAs(r, fmt) == IF fmt = "legacy" THEN [r EXCEPT !.ar = "none"] ELSE r
OldWriteRes(m, fmt) ==
  LET K == DOMAIN m
      W == {OldKey(k) : k \in K}
  IN {[old |-> [s \in W |-> StoredAs(m[c[s]], fmt)], new |-> Empty] : c \in WinnersOf(W, K)}

\* model.py:129-152  what unpickling makes of a stored record
ReadOf(r) == [r EXCEPT !.ar = IF r.ar = "none" /\ r.st = "ABORTED" THEN "Requested" ELSE @]

\* manager.py:151-165  per-record repair in read_cache
Repair(r) ==
  LET x == ReadOf(r) IN
  [x EXCEPT !.rq = FALSE,
            !.st = IF x.st = "INITIALIZING" THEN "QUEUED"
                   ELSE IF x.st \in Transferring THEN (IF x.fs = x.bt THEN "COMPLETE" ELSE "INCOMPLETE")
                   ELSE @]

\* manager.py:151-167  read() + add(): add() skips a record whose key is already present, so of
\* several entries with one key the first in database order is loaded (order not modelled).
RECURSIVE LoadFrom(_, _)
LoadFrom(R, LK) ==
  IF LK = {} THEN {Empty}
  ELSE LET k == CHOOSE x \in LK : TRUE
       IN {f @@ (k :> Repair(r)) : f \in LoadFrom(R, LK \ {k}), r \in {x \in R : x.k = k}}
LoadRes(d) == LoadFrom(RecsOf(d), {r.k : r \in RecsOf(d)})

ByKey(R) == [k \in {r.k : r \in R} |-> CHOOSE r \in R : r.k = k]

----------------------------------------------------------------------------
\* scheduling (_get_queued_transfers / manage_transfers, upload slots assumed free): what a
\* management cycle picks.  b = keys whose previous attempt is still in flight (an upload whose
\* PeerTransferRequest the peer has not answered).  What a cycle does with a QUEUED upload whose
\* task slot is still occupied - and with the other queued uploads of that user, whose turn depends
\* on list order - is C06's subject, not C17's: those picks are left open.  A loaded transfer never
\* has an attempt in flight, so for loaded transfers the rule is exact.
Downs(m) == {k \in DOMAIN m : IsDown(k)}
Ups(m) == {k \in DOMAIN m : ~IsDown(k)}
EligDown(m) == {k \in Downs(m) : /\ ~m[k].rq
                                 /\ \/ m[k].st \in {"QUEUED", "INCOMPLETE"}
                                    \/ m[k].st = "FAILED" /\ m[k].fr = "none"}
BusyUsers(m) == {k[1] : k \in {x \in Ups(m) : m[x].st \in InProgress}}
EligUp(m) == {k \in Ups(m) : m[k].st = "QUEUED" /\ k[1] \notin BusyUsers(m)}
OpenUsers(m, b) == {k[1] : k \in EligUp(m) \cap b}
\* h = downloads whose queue request could not be delivered in this life.  Whether and when such a
\* download is tried again within the life (a back-off would be legitimate) is not C17's subject:
\* those picks are left open too.  After a restart h is empty: a loaded download is attempted like
\* a fresh one, whatever happened to it in the previous life.
PickSets(m, b, h) ==
  LET strict == {k \in EligUp(m) : k[1] \notin OpenUsers(m, b)}
      open == {k \in EligUp(m) : k[1] \in OpenUsers(m, b)}
  IN {(EligDown(m) \ h) \cup D \cup U \cup L :
        D \in SUBSET (EligDown(m) \cap h),
        U \in {X \in SUBSET strict : \A u \in {k[1] : k \in strict} : Cardinality({k \in X : k[1] = u}) = 1},
        L \in SUBSET open}
\* a picked download is queued remotely when the request is delivered (the peer acknowledges);
\* when it is not (fq = users whose queue requests fail) _queue_remotely counts the attempt and
\* calls state.queue(): INCOMPLETE / FAILED become QUEUED, and the cycle this triggers tries - and
\* fails - once more.  A picked upload is initialised.
CycleEffect(m, P, fq) ==
  [k \in DOMAIN m |-> IF k \notin P THEN m[k]
                      ELSE IF ~IsDown(k) THEN [m[k] EXCEPT !.st = "INITIALIZING"]
                      ELSE IF k[1] \notin fq THEN [m[k] EXCEPT !.rq = TRUE]
                      ELSE IF CanDo(m[k], "queue") THEN Effect(m[k], "queue") ELSE m[k]]

----------------------------------------------------------------------------
VARIABLES
  mem,       \* the manager's transfers: function key -> record (domain = keys present)
  db,        \* the cache file
  proc,      \* "running" | "dead"
  lastW,     \* history: what the last write put into the file (function key -> stored record)
  started,   \* the management task runs (manager.start())
  cycleReq,  \* a management cycle has been requested and not run yet
  wired,     \* keys whose transfer has the manager as state listener
  picked,    \* what the last cycle picked up
  busy,      \* keys with an attempt (task) in flight that only a cancellation ends
  failq,     \* environment: users to whom a queue request cannot be delivered at the moment
  held,      \* downloads whose queue request failed in this life (and was not delivered since)
  told,      \* the state-change reports made during the last step: set of [l, t, cur] = the listener
             \* attached for transfer l (in the current life iff cur) was told about a change of transfer t
  act,       \* kind of the last step: "Init" | "Other" | "Write" | "OldWrite" | "Restart" | "Cycle"
  nops, lives

vars == <<mem, db, proc, lastW, started, cycleReq, wired, picked, busy, failq, held, told, act, nops, lives>>

Init ==
  /\ mem \in UNION {Mems(S) : S \in {X \in SUBSET Keys : Cardinality(X) <= MaxInit}}
  /\ db = EmptyDb /\ proc = "running" /\ lastW = Empty
  /\ started = FALSE /\ cycleReq = (DOMAIN mem # {}) /\ wired = DOMAIN mem /\ picked = {} /\ busy = {}
  /\ failq \in (IF PeerFaults /\ Downs(mem) # {} THEN {{}, {k[1] : k \in Downs(mem)}} ELSE {{}})
  /\ held = {} /\ told = {}
  /\ act = "Init" /\ nops = 0 /\ lives = 0

Own(k) == [l |-> k, t |-> k, cur |-> TRUE]
Running == proc = "running" /\ nops < MaxOps
\* Between two API calls the event loop is idle: when the management task runs, a requested
\* cycle happens before the next call.
Free == ~(started /\ cycleReq)
Tick == nops' = nops + 1

\* manager.add (manager.py:319-344)
AddTo(k, m2) ==
  /\ Running /\ Free /\ k \notin DOMAIN mem
  /\ DOMAIN m2 = DOMAIN mem \cup {k} /\ m2[k].k = k
  /\ \A x \in DOMAIN mem : m2[x] = mem[x]
  /\ mem' = m2 /\ wired' = wired \cup {k} /\ cycleReq' = TRUE
  /\ act' = "Other" /\ told' = {} /\ Tick
  /\ UNCHANGED <<db, proc, lastW, started, picked, busy, failq, held, lives>>
Add(k) == Cardinality(DOMAIN mem) < MaxPresent /\ AddTo(k, mem @@ (k :> Virgin(k)))

\* a state method (state.py); the manager is told when it is a listener (manager.py:1146-1149)
MutateTo(k, o, r2) ==
  /\ Running /\ Free /\ k \in DOMAIN mem
  /\ CanDo(mem[k], o)
  /\ r2.k = k /\ r2.st = TS!Target(Base(o), DirName(k))
  /\ mem' = [mem EXCEPT ![k] = r2]
  /\ cycleReq' = (cycleReq \/ k \in wired)
  /\ busy' = IF Base(o) \in {"abort", "pause"} THEN busy \ {k} ELSE busy    \* these cancel the tasks
  /\ told' = (IF k \in wired THEN {Own(k)} ELSE {})        \* Transfer.transition tells the listeners
  /\ act' = "Other" /\ Tick
  /\ UNCHANGED <<db, proc, lastW, started, wired, picked, failq, held, lives>>
Mutate(k, o) == k \in DOMAIN mem /\ MutateTo(k, o, Effect(mem[k], o))

SetDataTo(k, r2) ==
  /\ Running /\ Free /\ k \in DOMAIN mem
  /\ r2 = [mem[k] EXCEPT !.lp = r2.lp, !.fs = r2.fs, !.bt = r2.bt]
  /\ r2 # mem[k]
  /\ mem' = [mem EXCEPT ![k] = r2]
  /\ act' = "Other" /\ told' = {} /\ Tick
  /\ UNCHANGED <<db, proc, lastW, started, cycleReq, wired, picked, busy, failq, held, lives>>
SetData(k, v) == k \in DOMAIN mem /\ mem[k].st \in InProgress /\ SetDataTo(k, Data(mem[k], v))

\* manager.remove (manager.py:346-369)
Remove(k) ==
  /\ Running /\ Free /\ k \in DOMAIN mem
  /\ mem' = Restrict(mem, DOMAIN mem \ {k})
  /\ wired' = wired \ {k} /\ cycleReq' = TRUE /\ busy' = busy \ {k} /\ held' = held \ {k}
  /\ told' = (IF k \in wired /\ CanDo(mem[k], "abort") THEN {Own(k)} ELSE {})   \* remove() aborts first
  /\ act' = "Other" /\ Tick
  /\ UNCHANGED <<db, proc, lastW, started, picked, failq, lives>>

\* write_cache / store_data without stopping (a periodic write)
Write ==
  /\ Running /\ Free
  /\ db' \in WriteRes(db, mem) /\ lastW' = mem
  /\ act' = "Write" /\ told' = {} /\ Tick
  /\ UNCHANGED <<mem, proc, started, cycleReq, wired, picked, busy, failq, held, lives>>

Dies == proc' = "dead" /\ mem' = Empty /\ started' = FALSE /\ cycleReq' = FALSE /\ wired' = {} /\ busy' = {}
        /\ held' = {} /\ UNCHANGED failq

\* client.stop(): tasks cancelled, then store_data(); m = the members at that moment
StopWriteOf(m) ==
  /\ Running /\ Free
  /\ db' \in WriteRes(db, m) /\ lastW' = m
  /\ Dies /\ act' = "Write" /\ told' = {} /\ Tick
  /\ UNCHANGED <<picked, lives>>
StopWrite == proc = "running" /\ StopWriteOf(mem)

\* the process ends without writing
Crash ==
  /\ Running /\ Free
  /\ Dies /\ act' = "Other" /\ told' = {} /\ Tick
  /\ UNCHANGED <<db, lastW, picked, lives>>

\* the whole first life was run by an older release, which wrote the file on exit
OldVersionWrite(fmt) ==
  /\ OldVersions /\ Running /\ ~started /\ lives = 0 /\ db = EmptyDb /\ lastW = Empty
  /\ db' \in OldWriteRes(mem, fmt) /\ lastW' = ByKey(RecsOf(db'))
  /\ Dies /\ act' = "OldWrite" /\ told' = {} /\ Tick
  /\ UNCHANGED <<picked, lives>>

\* a new client: load_data() = read_cache() over the same directory
RestartTo(m2) ==
  /\ proc = "dead" /\ lives < MaxLives /\ nops < MaxOps
  /\ mem' = m2 /\ proc' = "running"
  /\ wired' = DOMAIN m2 /\ cycleReq' = (DOMAIN m2 # {})
  /\ picked' = {} /\ lives' = lives + 1
  /\ act' = "Restart" /\ told' = {} /\ Tick
  /\ UNCHANGED <<db, lastW, started, busy, failq, held>>
Restart == proc = "dead" /\ \E m2 \in LoadRes(db) : RestartTo(m2)

\* manager.start()
StartMgr ==
  /\ Running /\ ~started
  /\ started' = TRUE /\ act' = "Other" /\ told' = {} /\ Tick
  /\ UNCHANGED <<mem, db, proc, lastW, cycleReq, wired, picked, busy, failq, held, lives>>

\* as in client.start(): right after load_data() (or first thing in a fresh client); a life in
\* which start() is not called then stays without scheduling (keeps the model small)
StartEarly == act \in {"Init", "Restart"} /\ StartMgr

\* _management_job -> manage_transfers (and the immediate consequences of what it starts)
CycleTo(P, m2, T) ==
  /\ Running /\ started /\ cycleReq
  /\ DOMAIN m2 = DOMAIN mem
  /\ mem' = m2 /\ picked' = P /\ cycleReq' = FALSE
  /\ busy' = busy \cup {k \in P : ~IsDown(k)}      \* the peer does not answer: the attempt stays in flight
  /\ held' = (held \ {k \in P : IsDown(k) /\ k[1] \notin failq}) \cup {k \in P : IsDown(k) /\ k[1] \in failq}
  /\ told' = T
  /\ act' = "Cycle" /\ Tick
  /\ UNCHANGED <<db, proc, lastW, started, wired, failq, lives>>
\* the code (manage_transfers) does not start a second attempt while one is in flight
\* and tries every eligible download in every cycle
Cycle == cycleReq /\ \E P \in PickSets(mem, busy, held) :
            /\ P \cap busy = {} /\ EligDown(mem) \subseteq P
            /\ \A k1, k2 \in P : (~IsDown(k1) /\ ~IsDown(k2) /\ k1[1] = k2[1]) => k1 = k2
            /\ LET m2 == CycleEffect(mem, P, failq)
               IN CycleTo(P, m2, {Own(k) : k \in {x \in DOMAIN mem : m2[x].st # mem[x].st}})

\* environment: a peer becomes (un)reachable for queue requests
PeerDown(u) ==
  /\ nops < MaxOps /\ Free /\ u \notin failq
  /\ failq' = failq \cup {u} /\ act' = "Other" /\ told' = {} /\ Tick
  /\ UNCHANGED <<mem, db, proc, lastW, started, cycleReq, wired, picked, busy, held, lives>>
PeerUp(u) ==
  /\ nops < MaxOps /\ Free /\ u \in failq
  /\ failq' = failq \ {u} /\ act' = "Other" /\ told' = {} /\ Tick
  /\ UNCHANGED <<mem, db, proc, lastW, started, cycleReq, wired, picked, busy, held, lives>>

EnvDown(u) == PeerToggles /\ PeerDown(u)
EnvUp(u) == PeerToggles /\ PeerUp(u)

Next ==
  \/ \E k \in Keys : Add(k) \/ Remove(k)
  \/ \E k \in Keys, o \in MutOps \cap MOps : Mutate(k, o)
  \/ \E k \in Keys, v \in SetVals \cap DataVals : SetData(k, v)
  \/ Write \/ StopWrite \/ Crash \/ Restart \/ Cycle \/ StartEarly
  \/ \E u \in Users : EnvDown(u) \/ EnvUp(u)
  \/ \E fmt \in {"current", "legacy"} : OldVersionWrite(fmt)

Spec == Init /\ [][Next]_vars

----------------------------------------------------------------------------
\* Properties (C17's statement)

TypeOK ==
  /\ proc \in {"running", "dead"}
  /\ \A k \in DOMAIN mem : mem[k].k = k /\ mem[k].st \in TS!States
  /\ \A r \in RecsOf(db) : r.st \in TS!States
  /\ proc = "dead" => mem = Empty
  /\ busy \subseteq Ups(mem) /\ held \subseteq Downs(mem)

\* the fields the statement says come back unchanged
SameTransfer(a, b) ==
  a.k = b.k /\ a.lp = b.lp /\ a.fs = b.fs /\ a.bt = b.bt /\ a.fr = b.fr /\ a.ar = b.ar

\* cache.read() after cache.write(): the members, each exactly once
WriteReadBackA ==
  act' = "Write" =>
     /\ DbCount(db') = Cardinality(DOMAIN lastW')
     /\ RecsOf(db') = Range(lastW')
WriteReadBack == [][WriteReadBackA]_vars

\* write; restart: same set of transfers, same persistent fields, removed ones gone
RoundTripA ==
  act' = "Restart" =>
     /\ DOMAIN mem' = DOMAIN lastW
     /\ \A k \in DOMAIN mem' \cap DOMAIN lastW : SameTransfer(mem'[k], ReadOf(lastW[k]))
RoundTrip == [][RoundTripA]_vars

NothingInProgressAfterLoadA ==
  act' = "Restart" =>
     \A k \in DOMAIN mem' :
        /\ mem'[k].st \notin InProgress
        /\ mem'[k].rq = FALSE
        /\ k \in DOMAIN lastW =>
             LET old == lastW[k].st
                 new == mem'[k].st
             IN /\ old = "INITIALIZING" => new = "QUEUED"
                /\ old \in Transferring =>
                     new = IF lastW[k].fs = lastW[k].bt THEN "COMPLETE" ELSE "INCOMPLETE"
                /\ old \notin InProgress => new = old
NothingInProgressAfterLoad == [][NothingInProgressAfterLoadA]_vars

\* the two repairs the statement documents; every other change of state on load must be an
\* edge of C03's graph
DocumentedRepairs ==
  {<<"INITIALIZING", "QUEUED">>} \cup (Transferring \X {"COMPLETE", "INCOMPLETE"})
RepairIsLegalA ==
  act' = "Restart" =>
     \A k \in DOMAIN mem' \cap DOMAIN lastW :
        mem'[k].st # lastW[k].st =>
           <<lastW[k].st, mem'[k].st>> \in TS!Edge \cup DocumentedRepairs
RepairIsLegal == [][RepairIsLegalA]_vars

\* loaded transfers behave like fresh ones: the manager listens to each of them, a cycle is
\* requested, and a cycle picks exactly what it would pick among fresh transfers in those states
LoadedLikeFreshA ==
  /\ act' = "Restart" => wired' = DOMAIN mem' /\ (DOMAIN mem' # {} => cycleReq')
  /\ act' = "Cycle" => picked' \in PickSets(mem, busy, held)
LoadedLikeFresh == [][LoadedLikeFreshA]_vars

\* state changes are reported: a change of a transfer is told to the listeners of that transfer -
\* of the running client - and to nobody else, and every change of a listened-to transfer is told
ReportsToOwnListenersA ==
  /\ \A r \in told' : r.l = r.t /\ r.cur
  /\ (proc = "running" /\ proc' = "running" /\ act' \in {"Other", "Cycle"}) =>
        \A k \in DOMAIN mem \cap DOMAIN mem' :
           (mem[k].st # mem'[k].st /\ k \in wired) => Own(k) \in told'
ReportsToOwnListeners == [][ReportsToOwnListenersA]_vars
WiredAll == proc = "running" => wired = DOMAIN mem
=============================================================================

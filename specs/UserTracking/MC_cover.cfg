SPECIFICATION Spec
CONSTANTS
  Users = {"u1"}
  Flags = {"R", "F"}
  FlagSets = {{"R"}, {"F"}, {"R", "F"}}
  MaxCalls = 3
  MaxFaults = 1
  MaxCloses = 1
  Fifo = TRUE
  FixWindow = TRUE
  FixSendClose = TRUE
  FixStaleRetry = TRUE
  FixCancelSwallow = TRUE
INVARIANT TypeOK
INVARIANT NoLostCall
INVARIANT ServerMirrorsWant
INVARIANT SettledState
INVARIANT EventsAgree
INVARIANT RetryOnlyWhileReason
INVARIANT DroppedOnClose
PROPERTY AddOnlyOnRise
PROPERTY RemoveOnlyOnFall
CHECK_DEADLOCK FALSE

--------------------------- MODULE UserTrackingTrace ---------------------------
(***************************************************************************)
(* Trace validation for C15: executions of the real UserManager /          *)
(* UserTrackingManager on a simulated server connection, recorded by        *)
(* harness/props/c15.py, are judged with the reference layer and the        *)
(* property formulas of UserTracking.                                       *)
(*                                                                          *)
(* Records (JSON; every record has t = virtual time in ms):                 *)
(*   call   : u, op ("add" = track_user | "rem" = untrack_user), f = list   *)
(*            of the reasons in the flag argument (one or several)           *)
(*   frame  : u, k ("add" = AddUser | "rem" = RemoveUser) written to the     *)
(*            server connection                                             *)
(*   reply  : u, exists          the scripted server answers the AddUser     *)
(*   evt    : u, st, msg         UserTrackingStateChangedEvent               *)
(*   close  : how                the connection is being broken (stimulus)   *)
(*   closed :                    CLOSED has been delivered to a listener     *)
(*                               registered after the library's              *)
(*   q      : flags, st, ntasks  the loop is drained: get_tracking_flags /   *)
(*            get_tracking_state of every user, pending library tasks        *)
(*   exc    : what               the code under test raised (never accepted) *)
(*                                                                          *)
(* The reference layer `ref` is advanced with the design spec's operators    *)
(* (RefCall, RefFrame, RefReply, RefSilence, RefEvent, RefClose); the        *)
(* observables (serverLog, obsFlags, obsState, settled, alive) are bound     *)
(* from the records; the implementation layer (U, ready) is not observable   *)
(* and stays at its initial value.  The properties are those of the design   *)
(* spec, unchanged.                                                          *)
(***************************************************************************)
EXTENDS UserTracking, Integers, Json, IOUtils

CONSTANTS NetErrorDelay,   \* ms: retry after a send error / no answer (RETRY_TIMEOUT_NET_ERROR)
          NoUserDelay,     \* ms: retry after "user does not exist" (RETRY_TIMEOUT_NON_EXISTING_USER)
          AnswerWaitMax,   \* ms: upper bound on how long an AddUser may stay unanswered before it counts as failed
          Slack            \* ms: tolerance of the bounded-time statements

Traces == JsonDeserialize(IOEnv.TRACE_FILE)

VARIABLES tid, l,
          failT,     \* [Users -> ms] when the latest failed attempt was reported
          closing,   \* the connection is being broken
          lastRetry, \* <<u, t, due>> of the last frame classified as a retry, or <<>>
          now,       \* time of the last record
          dueBy      \* [Users -> ms | -1] while the server is supposed to track u and has not confirmed it:
                     \* the time by which the next AddUser has to be on the wire

tvars == <<vars, tid, l, failT, closing, lastRetry, now, dueBy>>
NoDue == [u \in Users |-> -1]

T == Traces[tid]
Rec == T[l]

ToSet(s) == {s[i] : i \in 1..Len(s)}

TInit ==
  /\ Init
  /\ tid \in 1..Len(Traces)
  /\ l = 1
  /\ failT = [u \in Users |-> 0]
  /\ closing = FALSE
  /\ lastRetry = <<>>
  /\ now = 0
  /\ dueBy = NoDue

IsEv(e) == l <= Len(T) /\ Rec.ev = e
Consume == l' = l + 1 /\ now' = Rec.t /\ UNCHANGED tid
\* not observable
Hidden == UNCHANGED <<U, ready, ncalls, nfaults, ncloses>>
\* between two drained points nothing is claimed about flags/state
Busy == settled' = FALSE /\ UNCHANGED <<obsFlags, obsState, alive>>

TCall ==
  /\ IsEv("call") /\ Rec.u \in Users /\ Rec.op \in {"add", "rem"}
  /\ ToSet(Rec.f) \subseteq Flags /\ Rec.f # <<>>
  /\ ~closing
  /\ ref' = RefCall(ref, Rec.u, Rec.op, ToSet(Rec.f))
  /\ UNCHANGED <<serverLog, failT, closing, lastRetry, dueBy>>
  /\ Busy /\ Hidden /\ Consume

TFrame ==
  /\ IsEv("frame") /\ Rec.u \in Users /\ Rec.k \in {"add", "rem"}
  /\ serverLog' = Append(serverLog, [k |-> Rec.k, u |-> Rec.u])
  /\ lastRetry' = IF IsRetryFrame(ref, Rec.u, Rec.k)
                    THEN <<Rec.u, Rec.t, failT[Rec.u] + (IF ref.attempt[Rec.u] = "f600" THEN NoUserDelay ELSE NetErrorDelay)>>
                    ELSE <<>>
  /\ ref' = RefFrame(ref, Rec.u, Rec.k)
  \* an AddUser that gets no answer counts as failed after AnswerWaitMax at the latest and is then
  \* retried after NetErrorDelay; a RemoveUser ends the obligation
  /\ dueBy' = [dueBy EXCEPT ![Rec.u] = IF Rec.k = "add" /\ ~closing THEN Rec.t + AnswerWaitMax + NetErrorDelay ELSE -1]
  /\ UNCHANGED <<failT, closing>>
  /\ Busy /\ Hidden /\ Consume

TReply ==
  /\ IsEv("reply") /\ Rec.u \in Users
  /\ ref.attempt[Rec.u] = "open"
  /\ ref' = RefReply(ref, Rec.u, Rec.exists)
  /\ dueBy' = [dueBy EXCEPT ![Rec.u] = IF Rec.exists \/ closing THEN -1 ELSE Rec.t + NoUserDelay]
  /\ UNCHANGED <<serverLog, failT, closing, lastRetry>>
  /\ Busy /\ Hidden /\ Consume

TEvt ==
  /\ IsEv("evt") /\ Rec.u \in Users /\ Rec.st \in {"untracked", "tracked", "retry_pending"}
  \* after the close everything is gone: the only thing that may still be reported is "untracked"
  /\ ~ref.closed \/ Rec.st = "untracked"
  /\ IF Rec.st = "retry_pending"
       THEN /\ ref' = RefEvent(IF ref.attempt[Rec.u] = "open" THEN RefSilence(ref, Rec.u) ELSE ref, Rec.u, Rec.st)
            /\ failT' = [failT EXCEPT ![Rec.u] = Rec.t]
            \* the failure is reported: from here the documented delay counts
            /\ dueBy' = [dueBy EXCEPT ![Rec.u] = IF dueBy[Rec.u] < 0 THEN -1
                                                   ELSE Rec.t + (IF Rec.msg = "notexists" THEN NoUserDelay ELSE NetErrorDelay)]
       ELSE /\ ref' = RefEvent(ref, Rec.u, Rec.st)
            /\ UNCHANGED <<failT, dueBy>>
  /\ UNCHANGED <<serverLog, closing, lastRetry>>
  /\ Busy /\ Hidden /\ Consume

TClosing ==
  /\ IsEv("close")
  /\ closing' = TRUE
  /\ dueBy' = NoDue
  /\ UNCHANGED <<ref, serverLog, failT, lastRetry>>
  /\ Busy /\ Hidden /\ Consume

TClosed ==
  /\ IsEv("closed")
  /\ closing
  /\ ref' = RefClose(ref)
  /\ dueBy' = NoDue
  /\ UNCHANGED <<serverLog, failT, closing, lastRetry>>
  /\ Busy /\ Hidden /\ Consume

\* the loop is drained; activity has settled unless an AddUser is still unanswered
TQuiet ==
  /\ IsEv("q")
  /\ obsFlags' = [u \in Users |-> ToSet(Rec.flags[u])]
  /\ obsState' = [u \in Users |-> Rec.st[u]]
  /\ alive' = Rec.ntasks
  /\ settled' = \A u \in Users : ref.attempt[u] # "open"
  /\ UNCHANGED <<ref, serverLog, failT, closing, lastRetry, dueBy>>
  /\ Hidden /\ Consume

Done ==
  /\ l = Len(T) + 1
  /\ PrintT(<<"ACCEPT", tid, {}>>)
  /\ l' = l + 1
  /\ UNCHANGED <<vars, tid, failT, closing, lastRetry, now, dueBy>>

Finished == l = Len(T) + 2 /\ UNCHANGED tvars

TNext == TCall \/ TFrame \/ TReply \/ TEvt \/ TClosing \/ TClosed \/ TQuiet \/ Done \/ Finished

TSpec == TInit /\ [][TNext]_tvars

-----------------------------------------------------------------------------
\* the design spec's properties as constraints (a path that breaks one is cut, see tlc.py)
NewFrameC == Len(serverLog') = Len(serverLog) + 1
AddOnlyOnRiseC ==
  NewFrameC /\ serverLog'[Len(serverLog')].k = "add" => FrameLegal(ref, serverLog'[Len(serverLog')].u, "add")
RemoveOnlyOnFallC ==
  NewFrameC /\ serverLog'[Len(serverLog')].k = "rem" => FrameLegal(ref, serverLog'[Len(serverLog')].u, "rem")

\* trace-level only (the design spec has no clock): a retry goes out exactly the documented delay
\* after the failure was reported
RetryAfterDocumentedDelay == lastRetry # <<>> => lastRetry[2] = lastRetry[3]
\* bounded-time form of "failed attempts are retried after the documented delay while a reason remains":
\* while the server is supposed to track u and has not confirmed it, the next AddUser is on the wire
\* no later than the documented delay after the failure (was reported / must have been noticed) - after
\* EVERY failed attempt, not only the first.  A RemoveUser, a confirmation or the close end the obligation.
RetryHappens == \A u \in Users : dueBy[u] >= 0 => now <= dueBy[u] + Slack
\* bounded liveness of the close itself: once activity settles the close has been delivered
CloseCompletes == settled /\ closing => ref.closed

AddOnlyOnRiseT == [][AddOnlyOnRiseC]_tvars
RemoveOnlyOnFallT == [][RemoveOnlyOnFallC]_tvars
=============================================================================

----------------------------- MODULE UserTracking -----------------------------
(***************************************************************************)
(* C15 - user tracking on the server mirrors the set of reasons to track.  *)
(*                                                                         *)
(* Mirrors src/aioslsk/user/manager.py: UserTrackingManager.track_user /   *)
(* untrack_user (536-553), _tracking_task (555-608), _request_retry        *)
(* (610-613), _set_tracking_state (654-678), _get_tracked_user_object /    *)
(* _on_tracking_task_done (680-710), _on_state_changed / stop (712-732).   *)
(*                                                                         *)
(* Two layers:                                                             *)
(*  reference layer `ref` = [want, owed, told, knows, attempt, lastEvt,    *)
(*     closed]: a fold of the environment's history (accepted calls,       *)
(*     frames seen on the wire, server answers, close) - what the property *)
(*     statement says should be the case.  It never reads the              *)
(*     implementation layer.                                               *)
(*  implementation layer `U` (per user: reg, flags, queue, wpc, needRem,   *)
(*     res, state, rt, mustCancel) and `ready`: one action per stretch of  *)
(*     a coroutine between two suspending awaits (DESIGN.md 2.2 rule 2,    *)
(*     appendix A: FIFO ready queue of handles).                           *)
(* The properties relate what the implementation shows at its public       *)
(* surfaces (serverLog = frames, obsFlags, obsState, events, alive tasks)  *)
(* to the reference layer.  UserTrackingTrace re-uses the reference        *)
(* operators and the property formulas and binds the observables from the  *)
(* recorded execution.                                                     *)
(***************************************************************************)
EXTENDS Naturals, Sequences, FiniteSets, TLC

CONSTANTS
  Users,            \* user names
  Flags,            \* tracking reasons (REQUESTED, FRIEND, TRANSFER)
  FlagSets,         \* the arguments a call may carry: non-empty sets of reasons (TrackingFlag is a Flag
                    \* enumeration: REQUESTED | FRIEND is as valid an argument as REQUESTED)
  MaxCalls,         \* bound on track/untrack calls
  MaxFaults,        \* bound on failing server behaviours (not-exists, silence, send failure)
  MaxCloses,        \* bound on server disconnects
  Fifo,             \* TRUE: handles run in FIFO order (CPython); FALSE: any ready handle may run
  \* deviation switches: TRUE = repaired design, FALSE = what the code at the pinned commit does
  FixWindow,        \* track_user after the worker returned but before its done-callback creates a new entry
  FixSendClose,     \* a failing send (which closes the connection from inside the send task) stops the worker
  FixStaleRetry,    \* a retry request that outlived the cancellation of its timer is ignored
  FixCancelSwallow  \* cancelling the worker while it cancels the retry timer is not swallowed

None == "none"

VARIABLES
  ref,          \* reference layer (record, see RefInit)
  U,            \* implementation layer per user (record, see UInit)
  ready,        \* Seq of handles [k |-> "w"|"d"|"r", u |-> user]
  serverLog,    \* Seq of [k, u]: AddUser/RemoveUser frames written to the server connection
  \* observables derived from the implementation layer; variables so that the trace spec can bind
  \* them from the recorded execution (see Derived)
  obsFlags,     \* get_tracking_flags(u)
  obsState,     \* get_tracking_state(u)
  settled,      \* nothing ready, no worker in flight (a retry timer may be armed)
  alive,        \* number of pending library tasks (workers, retry timers)
  ncalls, nfaults, ncloses

vars == <<ref, U, ready, serverLog, obsFlags, obsState, settled, alive, ncalls, nfaults, ncloses>>

H(k, u) == [k |-> k, u |-> u]
InSeq(s, h) == \E i \in 1..Len(s) : s[i] = h
Without(s, h) == SelectSeq(s, LAMBDA x : x # h)
Ended == {"returned", "cancelled"}
Armed == {"a10", "a600"}
Pending == {"a10", "a600", "due"}          \* retry task not done

-----------------------------------------------------------------------------
\* Reference layer (pure functions ref -> ref)

RefInit == [want |-> [u \in Users |-> {}],        \* fold of the accepted calls
            owed |-> [u \in Users |-> <<>>],      \* frames due: empty<->non-empty edges of want not yet on the wire
            told |-> [u \in Users |-> FALSE],     \* last edge frame on the wire was AddUser
            knows |-> [u \in Users |-> FALSE],    \* server confirmed existence, no RemoveUser / not-exists since
            attempt |-> [u \in Users |-> None],   \* fate of the latest AddUser: none, open, ok, f10, f600
            lastEvt |-> [u \in Users |-> "untracked"],  \* last UserTrackingStateChangedEvent since the last close
            closed |-> FALSE]

EdgeOf(old, new) == IF old = {} /\ new # {} THEN <<"add">>
                    ELSE IF old # {} /\ new = {} THEN <<"rem">> ELSE <<>>

\* an accepted track ("add") / untrack ("rem") call with the set of reasons fs: plain set algebra,
\* whether or not the reasons are (all) held
RefCall(r, u, op, fs) ==
  LET nw == IF op = "add" THEN r.want[u] \cup fs ELSE r.want[u] \ fs IN
  [r EXCEPT !.want[u] = nw, !.owed[u] = @ \o EdgeOf(r.want[u], nw)]

IsEdgeFrame(r, u, k) == r.owed[u] # <<>> /\ Head(r.owed[u]) = k
IsRetryFrame(r, u, k) == k = "add" /\ ~IsEdgeFrame(r, u, k) /\ r.told[u] /\ r.attempt[u] \in {"f10", "f600"}
\* the only frames the property statement allows
FrameLegal(r, u, k) == IsEdgeFrame(r, u, k) \/ IsRetryFrame(r, u, k)

\* a frame was written to the server connection
RefFrame(r, u, k) ==
  IF IsEdgeFrame(r, u, k)
    THEN [r EXCEPT !.owed[u] = Tail(@), !.told[u] = (k = "add"), !.knows[u] = FALSE,
                   !.attempt[u] = IF k = "add" THEN "open" ELSE None]
    ELSE [r EXCEPT !.attempt[u] = IF k = "add" THEN "open" ELSE @]

\* the server answered the open AddUser / did not answer within the wait
RefReply(r, u, exists) == [r EXCEPT !.knows[u] = exists, !.attempt[u] = IF exists THEN "ok" ELSE "f600"]
RefSilence(r, u) == [r EXCEPT !.attempt[u] = "f10"]
RefEvent(r, u, st) == [r EXCEPT !.lastEvt[u] = st]

\* the connection closed: everything is dropped
RefClose(r) == [RefInit EXCEPT !.closed = TRUE]

-----------------------------------------------------------------------------
\* Implementation layer

UInit == [reg |-> FALSE,          \* entry in _tracked_users
          flags |-> {},           \* TrackedUser.flags
          queue |-> <<>>,         \* TrackedUser.queue
          wpc |-> None,           \* worker pc
          needRem |-> FALSE,      \* previous_flags # 0 of the request in progress
          res |-> None,           \* outcome of the AddUser wait: none, exists, notexists, timeout
          state |-> "untracked",  \* TrackedUser.state
          rt |-> None,            \* retry task: none, a10, a600 (sleeping), due (woken), fired (done), cancelling
          mustCancel |-> FALSE,   \* worker cancelled: CancelledError at its next step
          lost |-> FALSE]         \* ghost: a track request was thrown away unprocessed by a worker that had returned

Init ==
  /\ ref = RefInit
  /\ U = [u \in Users |-> UInit]
  /\ ready = <<>> /\ serverLog = <<>>
  /\ obsFlags = [u \in Users |-> {}] /\ obsState = [u \in Users |-> "untracked"]
  /\ settled = TRUE /\ alive = 0
  /\ ncalls = 0 /\ nfaults = 0 /\ ncloses = 0

\* queue.put_nowait wakes a worker suspended in queue.get()
PutReady(rd, u) == IF U[u].wpc = "getq" /\ ~InSeq(rd, H("w", u)) THEN Append(rd, H("w", u)) ELSE rd

\* manager.py:536-542, 680-694.  `_get_tracked_user_object` re-uses the entry while it is in
\* _tracked_users - also when its worker has already finished (code: FixWindow = FALSE).
Track(u, f) ==
  /\ ~ref.closed /\ ncalls < MaxCalls /\ ncalls' = ncalls + 1
  /\ ref' = RefCall(ref, u, "add", f)
  /\ IF U[u].reg /\ (U[u].wpc \notin Ended \/ ~FixWindow)
       THEN /\ U' = [U EXCEPT ![u].queue = Append(@, [op |-> "add", f |-> f])]
            /\ ready' = PutReady(ready, u)
       ELSE /\ U' = [U EXCEPT ![u] = [UInit EXCEPT !.reg = TRUE, !.queue = <<[op |-> "add", f |-> f]>>,
                                                   !.wpc = "start", !.rt = U[u].rt, !.lost = U[u].lost]]
            \* the finished worker's done-callback no longer removes the (new) entry
            /\ ready' = Append(Without(ready, H("d", u)), H("w", u))
  /\ UNCHANGED <<serverLog, nfaults, ncloses>>

\* manager.py:544-553: no entry -> no-op
Untrack(u, f) ==
  /\ ~ref.closed /\ ncalls < MaxCalls /\ ncalls' = ncalls + 1
  /\ ref' = RefCall(ref, u, "rem", f)
  /\ IF U[u].reg
       THEN /\ U' = [U EXCEPT ![u].queue = Append(@, [op |-> "rem", f |-> f])]
            /\ ready' = PutReady(ready, u)
       ELSE UNCHANGED <<U, ready>>
  /\ UNCHANGED <<serverLog, nfaults, ncloses>>

\* ---- the CLOSED handler (manager.py:712-732): stop() cancels every registered worker and retry
\* task.  X is the implementation state to start from, rd the ready queue, `self` the user whose
\* worker's own send task performs the disconnect (or None) - that worker is dealt with by the caller.
MustCancelOnClose(x) == x.reg /\ x.wpc \notin (Ended \cup {None, "wedged"})
\* a worker suspended on a future is woken by the cancellation; one that is already scheduled, or
\* that waits for the retry task (itself being cancelled, it will wake the worker), is only flagged
WokenByClose(x, rd, u) == MustCancelOnClose(x) /\ ~InSeq(rd, H("w", u)) /\ x.wpc \notin {"cancelretry", "cancelretry2"}

CloseU(X, self) ==
  [u \in Users |->
     LET x == X[u] IN
     [x EXCEPT !.mustCancel = IF u # self /\ MustCancelOnClose(x) THEN TRUE ELSE @,
               !.rt = IF x.reg /\ @ \in Pending THEN "cancelling" ELSE @]]

RECURSIVE CloseReady(_, _, _, _)
CloseReady(X, S, rd, self) ==
  IF S = {} THEN rd
  ELSE LET u == CHOOSE x \in S : TRUE
           a == IF u # self /\ WokenByClose(X[u], rd, u) THEN <<H("w", u)>> ELSE <<>>
           b == IF X[u].reg /\ X[u].rt \in Armed THEN <<H("r", u)>> ELSE <<>>
       IN CloseReady(X, S \ {u}, rd \o a \o b, self)

\* environment: the connection is lost (EOF, reset, requested disconnect)
Close ==
  /\ ~ref.closed /\ ncloses < MaxCloses /\ ncloses' = ncloses + 1
  /\ ref' = RefClose(ref)
  /\ U' = CloseU(U, None)
  /\ ready' = CloseReady(U, Users, ready, None)
  /\ UNCHANGED <<serverLog, ncalls, nfaults>>

\* ---- worker (manager.py:555-608).  Each operator below yields a set of possible outcomes
\* [U, ready, ref, log, fault]: the new implementation state, ready queue, reference state,
\* server log and whether a fault (send failure) was injected.

Out(X, rd, r, lg, flt) == [U |-> X, ready |-> rd, ref |-> r, log |-> lg, fault |-> flt]

\* A frame is sent.  When the connection is already closed, send_message returns silently
\* (connection.py:480-486) and nothing reaches the wire.  Otherwise either it is written, or the
\* write fails: DataConnection._send then disconnects (connection.py:467-469) inside the send task
\* the worker is waiting for, and the CLOSED handler gathers the very worker it just cancelled:
\* a cyclic wait (code).  Repaired: the worker is cancelled like all the others.
\* X already has the worker's pc set to the place where it waits for the send.
Send(X, rd, r, lg, u, k, wakeAfterSend) ==
  LET rdOK == IF wakeAfterSend THEN Append(rd, H("w", u)) ELSE rd IN
  IF r.closed THEN {Out(X, rdOK, r, lg, FALSE)}
  ELSE {Out(X, rdOK, RefFrame(r, u, k), Append(lg, [k |-> k, u |-> u]), FALSE)}
       \cup (IF nfaults < MaxFaults /\ ncloses < MaxCloses
               THEN IF FixSendClose
                      THEN LET Y == [CloseU(X, u) EXCEPT ![u].mustCancel = TRUE]
                           IN {Out(Y, Append(CloseReady(X, Users, rd, u), H("w", u)), RefClose(r), lg, TRUE)}
                      ELSE LET Y == [CloseU(X, u) EXCEPT ![u].wpc = "wedged"]
                           IN {Out(Y, CloseReady(X, Users, rd, u), RefClose(r), lg, TRUE)}
               ELSE {})

\* exit test (manager.py:581-583) / loop back to queue.get(): a non-empty queue does not suspend
ExitOrLoop(X, rd, u) ==
  IF X[u].queue = <<>>
    THEN <<[X EXCEPT ![u].wpc = "returned"], Append(rd, H("d", u))>>
    ELSE <<[X EXCEPT ![u].wpc = "getq"], <<H("w", u)>> \o rd>>
Loop(X, rd, u) ==
  IF X[u].queue = <<>> THEN <<[X EXCEPT ![u].wpc = "getq"], rd>>
  ELSE <<[X EXCEPT ![u].wpc = "getq"], <<H("w", u)>> \o rd>>

\* the retry timer has been dealt with: RemoveUser if the set just became empty
AfterCancel(X, rd, r, lg, u) ==
  IF X[u].needRem
    THEN Send([X EXCEPT ![u].wpc = "sendrem"], rd, r, lg, u, "rem", TRUE)
    ELSE LET e == ExitOrLoop(X, rd, u) IN {Out(e[1], e[2], r, lg, FALSE)}

\* RemoveUser sent: state UNTRACKED + event, then the exit test
AfterRemove(X, rd, r, lg, u) ==
  LET Y == [X EXCEPT ![u].state = "untracked", ![u].needRem = FALSE]
      e == ExitOrLoop(Y, rd, u)
  IN {Out(e[1], e[2], RefEvent(r, u, "untracked"), lg, FALSE)}

RetryValid(x) == ~FixStaleRetry \/ x.rt = "fired"

\* one request taken from the queue
Process(X, rd, r, lg, u) ==
  LET x == X[u]
      q == Head(x.queue)
      nf == IF q.op = "add" THEN x.flags \cup q.f ELSE IF q.op = "rem" THEN x.flags \ q.f ELSE x.flags
      prevE == x.flags = {}
      Y == [X EXCEPT ![u].flags = nf, ![u].queue = Tail(x.queue)]
  IN
  IF nf = {}
    THEN IF x.rt \in Pending
           THEN \* `await cancel_task(retry_task)` suspends until the retry task has ended
                {Out([Y EXCEPT ![u].rt = "cancelling", ![u].wpc = "cancelretry", ![u].needRem = ~prevE],
                     IF x.rt \in Armed THEN Append(rd, H("r", u)) ELSE rd, r, lg, FALSE)}
           ELSE \* the repaired design forgets the finished timer: its request, if still queued, is stale
                AfterCancel([Y EXCEPT ![u].needRem = ~prevE,
                                      ![u].rt = IF FixStaleRetry THEN None ELSE @], rd, r, lg, u)
    ELSE IF prevE \/ (q.op = "retry" /\ RetryValid(x))
           THEN \* AddUser, then wait for the answer (manager.py:615-641)
                Send([Y EXCEPT ![u].wpc = "waitreply", ![u].res = None], rd, r, lg, u, "add", FALSE)
           ELSE LET e == Loop(Y, rd, u) IN {Out(e[1], e[2], r, lg, FALSE)}

\* arm the retry timer (manager.py:661-666)
ArmRetry(X, u) == [X EXCEPT ![u].rt = IF X[u].res = "notexists" THEN "a600" ELSE "a10"]

\* the worker's handle runs; rd = ready queue without that handle
WorkerStep(X, rd, r, lg, u) ==
  LET x == X[u] IN
  IF x.mustCancel /\ ~(x.wpc = "cancelretry" /\ ~FixCancelSwallow)
    THEN \* CancelledError ends the task; its done-callback runs one slot later
         {Out([X EXCEPT ![u].wpc = "cancelled", ![u].mustCancel = FALSE], Append(rd, H("d", u)), r, lg, FALSE)}
  ELSE
  LET Xc == [X EXCEPT ![u].mustCancel = FALSE] IN   \* (swallowed: utils.cancel_task `except CancelledError: pass`)
  CASE x.wpc \in {"start", "getq"} ->
         IF x.queue = <<>> THEN {Out([Xc EXCEPT ![u].wpc = "getq"], rd, r, lg, FALSE)}
         ELSE Process(Xc, rd, r, lg, u)
    [] x.wpc = "cancelretry" -> AfterCancel(Xc, rd, r, lg, u)
    [] x.wpc = "sendrem" -> AfterRemove(Xc, rd, r, lg, u)
    [] x.wpc = "waitreply" ->
         IF x.res = "exists"
           THEN LET e == Loop([Xc EXCEPT ![u].state = "tracked", ![u].res = None], rd, u)
                IN {Out(e[1], e[2], RefEvent(r, u, "tracked"), lg, FALSE)}
           ELSE IF x.rt \in Pending
                  THEN \* _set_tracking_state cancels a timer that is still pending (only after a stale retry)
                       {Out([Xc EXCEPT ![u].state = "retry_pending", ![u].rt = "cancelling", ![u].wpc = "cancelretry2"],
                            IF x.rt \in Armed THEN Append(rd, H("r", u)) ELSE rd, r, lg, FALSE)}
                  ELSE LET e == Loop([ArmRetry(Xc, u) EXCEPT ![u].state = "retry_pending", ![u].res = None], rd, u)
                       IN {Out(e[1], e[2], RefEvent(r, u, "retry_pending"), lg, FALSE)}
    [] x.wpc = "cancelretry2" ->
         LET e == Loop([ArmRetry(Xc, u) EXCEPT ![u].res = None], rd, u)
         IN {Out(e[1], e[2], RefEvent(r, u, "retry_pending"), lg, FALSE)}
    [] OTHER -> {Out(Xc, rd, r, lg, FALSE)}

\* which handle may run
Runnable(i) == i \in 1..Len(ready) /\ (Fifo => i = 1)
Drop(i) == SubSeq(ready, 1, i - 1) \o SubSeq(ready, i + 1, Len(ready))

RunWorker(u, flt) ==
  \E i \in 1..Len(ready) :
    /\ Runnable(i) /\ ready[i] = H("w", u)
    /\ \E o \in WorkerStep(U, Drop(i), ref, serverLog, u) :
         /\ o.fault = flt
         /\ U' = o.U /\ ready' = o.ready /\ ref' = o.ref /\ serverLog' = o.log
         /\ nfaults' = IF o.fault THEN nfaults + 1 ELSE nfaults
         /\ ncloses' = IF o.fault THEN ncloses + 1 ELSE ncloses
    /\ UNCHANGED ncalls

\* manager.py:696-710: the done-callback removes the entry, whatever is on its queue
RunDone(u) ==
  \E i \in 1..Len(ready) :
    /\ Runnable(i) /\ ready[i] = H("d", u)
    /\ U' = [U EXCEPT ![u] = [UInit EXCEPT !.rt = U[u].rt,
                                            !.lost = U[u].lost \/ (U[u].wpc = "returned" /\
                                                       \E j \in 1..Len(U[u].queue) : U[u].queue[j].op = "add")]]
    /\ ready' = Drop(i)
    /\ UNCHANGED <<ref, serverLog, ncalls, nfaults, ncloses>>

\* manager.py:610-613: the retry task wakes up (timer elapsed -> enqueue a retry request; cancelled -> ends)
RunRetry(u) ==
  \E i \in 1..Len(ready) :
    /\ Runnable(i) /\ ready[i] = H("r", u)
    /\ IF U[u].rt = "due"
         THEN /\ U' = [U EXCEPT ![u].rt = "fired",
                                ![u].queue = IF U[u].reg THEN Append(@, [op |-> "retry", f |-> {}]) ELSE @]
              /\ ready' = IF U[u].reg THEN PutReady(Drop(i), u) ELSE Drop(i)
         ELSE /\ U' = [U EXCEPT ![u].rt = IF @ = "cancelling" THEN None ELSE @]
              /\ ready' = IF U[u].wpc \in {"cancelretry", "cancelretry2"} /\ ~InSeq(Drop(i), H("w", u))
                            THEN Append(Drop(i), H("w", u)) ELSE Drop(i)
    /\ UNCHANGED <<ref, serverLog, ncalls, nfaults, ncloses>>

\* time passes: the retry timer elapses
RetryDue(u) ==
  /\ U[u].rt \in Armed
  /\ U' = [U EXCEPT ![u].rt = "due"]
  /\ ready' = Append(ready, H("r", u))
  /\ UNCHANGED <<ref, serverLog, ncalls, nfaults, ncloses>>

\* the server's behaviour for the AddUser the worker is waiting on
Waiting(u) == U[u].wpc = "waitreply" /\ U[u].res = None /\ ~U[u].mustCancel
ReplyExists(u) ==
  /\ Waiting(u) /\ ~ref.closed
  /\ U' = [U EXCEPT ![u].res = "exists"] /\ ready' = Append(ready, H("w", u))
  /\ ref' = RefReply(ref, u, TRUE)
  /\ UNCHANGED <<serverLog, ncalls, nfaults, ncloses>>
ReplyNotExists(u) ==
  /\ Waiting(u) /\ ~ref.closed /\ nfaults < MaxFaults /\ nfaults' = nfaults + 1
  /\ U' = [U EXCEPT ![u].res = "notexists"] /\ ready' = Append(ready, H("w", u))
  /\ ref' = RefReply(ref, u, FALSE)
  /\ UNCHANGED <<serverLog, ncalls, ncloses>>
\* silence: wait_for_server_message gives up after 10 s (after a close nothing can answer)
Timeout(u) ==
  /\ Waiting(u) /\ (ref.closed \/ nfaults < MaxFaults)
  /\ nfaults' = IF ref.closed THEN nfaults ELSE nfaults + 1
  /\ U' = [U EXCEPT ![u].res = "timeout"] /\ ready' = Append(ready, H("w", u))
  /\ ref' = IF ref.closed THEN ref ELSE RefSilence(ref, u)
  /\ UNCHANGED <<serverLog, ncalls, ncloses>>

\* the observables, as functions of the implementation layer
\* (a worker caught in the cyclic wait is, for the loop, as quiet as an idle one)
SettledExpr(X, rd) == rd = <<>> /\ \A u \in Users : X[u].wpc \in {None, "getq", "wedged"}
AliveExpr(X) == Cardinality({u \in Users : X[u].wpc # None}) + Cardinality({u \in Users : X[u].rt \in Pending \cup {"cancelling"}})
Derived ==
  /\ obsFlags' = [u \in Users |-> IF U'[u].reg THEN U'[u].flags ELSE {}]
  /\ obsState' = [u \in Users |-> IF U'[u].reg THEN U'[u].state ELSE "untracked"]
  /\ settled' = SettledExpr(U', ready')
  /\ alive' = AliveExpr(U')

\* Where in the loop's schedule an environment stimulus lands (only a label for the replay driver:
\* q = nothing ready, d = the user's worker has finished and its done-callback is pending,
\* r = the user's retry task is about to run, w = the user's worker is about to run, c = some worker
\* is waiting for the retry task it cancelled, o = other handles are ready)
Phases == {"q", "d", "r", "w", "c", "o"}
Phase(u) == IF ready = <<>> THEN "q"
            ELSE IF InSeq(ready, H("d", u)) THEN "d"
            ELSE IF InSeq(ready, H("r", u)) THEN "r"
            ELSE IF InSeq(ready, H("w", u)) THEN "w" ELSE "o"
ClosePhase == IF ready = <<>> THEN "q"
              ELSE IF \E u \in Users : U[u].wpc \in {"cancelretry", "cancelretry2"} THEN "c" ELSE "o"
TrackAt(u, f, ph) == ph = Phase(u) /\ Track(u, f) /\ Derived
UntrackAt(u, f, ph) == ph = Phase(u) /\ Untrack(u, f) /\ Derived
CloseAt(ph) == ph = ClosePhase /\ Close /\ Derived
ReplyExistsAt(u, ph) == ph = Phase(u) /\ ReplyExists(u) /\ Derived
ReplyNotExistsAt(u, ph) == ph = Phase(u) /\ ReplyNotExists(u) /\ Derived
TimeoutAt(u, ph) == ph = Phase(u) /\ Timeout(u) /\ Derived
RetryDueAt(u, ph) == ph = Phase(u) /\ RetryDue(u) /\ Derived
WorkerRuns(u) == RunWorker(u, FALSE) /\ Derived
\* the write of the worker's frame fails; n = frames written so far (a label for the replay driver)
WorkerSendFails(u, n) == n = Len(serverLog) /\ RunWorker(u, TRUE) /\ Derived
DoneCallback(u) == RunDone(u) /\ Derived
RetryRuns(u) == RunRetry(u) /\ Derived

Next ==
  \/ \E u \in Users, f \in FlagSets, ph \in Phases : TrackAt(u, f, ph)
  \/ \E u \in Users, f \in FlagSets, ph \in Phases : UntrackAt(u, f, ph)
  \/ \E ph \in Phases : CloseAt(ph)
  \/ \E u \in Users : WorkerRuns(u)
  \/ \E u \in Users, n \in 0..(MaxCalls + MaxFaults) : WorkerSendFails(u, n)
  \/ \E u \in Users : DoneCallback(u)
  \/ \E u \in Users : RetryRuns(u)
  \/ \E u \in Users, ph \in Phases : RetryDueAt(u, ph)
  \/ \E u \in Users, ph \in Phases : ReplyExistsAt(u, ph)
  \/ \E u \in Users, ph \in Phases : ReplyNotExistsAt(u, ph)
  \/ \E u \in Users, ph \in Phases : TimeoutAt(u, ph)

\* the library and the clock keep running; calls and closes are up to the environment
LibStep == \E u \in Users : WorkerRuns(u) \/ DoneCallback(u) \/ RetryRuns(u)
ServerStep(u) == (ReplyExists(u) \/ Timeout(u)) /\ Derived
Spec == Init /\ [][Next]_vars
FairSpec == Spec /\ WF_vars(LibStep) /\ \A u \in Users : WF_vars(ServerStep(u)) /\ WF_vars(RetryDue(u) /\ Derived)

-----------------------------------------------------------------------------
\* Properties (over the reference layer and the observables only)

TypeOK ==
  /\ FlagSets \subseteq (SUBSET Flags \ {{}})
  /\ \A u \in Users : U[u].wpc \in {None, "start", "getq", "cancelretry", "sendrem", "waitreply", "cancelretry2",
                                    "returned", "cancelled", "wedged"}
  /\ \A u \in Users : U[u].rt \in {None, "a10", "a600", "due", "fired", "cancelling"}
  /\ \A i \in 1..Len(ready) : ready[i].k \in {"w", "d", "r"} /\ ready[i].u \in Users

NewFrame == Len(serverLog') = Len(serverLog) + 1
\* an AddUser frame is written only for an empty -> non-empty edge of the reasons, or as the retry of
\* a failed attempt while the server is still supposed to track the user
AddOnlyOnRise ==
  [][NewFrame /\ serverLog'[Len(serverLog')].k = "add" => FrameLegal(ref, serverLog'[Len(serverLog')].u, "add")]_vars
\* a RemoveUser frame only for a non-empty -> empty edge
RemoveOnlyOnFall ==
  [][NewFrame /\ serverLog'[Len(serverLog')].k = "rem" => FrameLegal(ref, serverLog'[Len(serverLog')].u, "rem")]_vars

\* once activity settles no call has been lost: the flags reported are the fold of the calls ...
NoLostCall == settled => \A u \in Users : obsFlags[u] = ref.want[u]
\* ... and the wire has seen exactly the edges: the server tracks u iff there is a reason
ServerMirrorsWant == settled /\ ~ref.closed => \A u \in Users : ref.owed[u] = <<>> /\ ref.told[u] = (ref.want[u] # {})
\* the reported state is 'tracked' exactly when there is a reason and the server confirmed the user
SettledState == settled => \A u \in Users : (obsState[u] = "tracked") <=> (ref.want[u] # {} /\ ref.knows[u])
\* the event stream agrees with the reported state
EventsAgree == settled /\ ~ref.closed => \A u \in Users : ref.lastEvt[u] = obsState[u]
\* a retry is pending only while a reason remains
RetryOnlyWhileReason == \A u \in Users : U[u].rt \in Pending => U[u].reg /\ U[u].flags # {}
\* everything is dropped when the connection closes
DroppedOnClose == settled /\ ref.closed => alive = 0 /\ \A u \in Users : obsFlags[u] = {} /\ obsState[u] = "untracked"

\* liveness: activity always settles again, and every enqueued request is taken off its queue
AlwaysSettles == []<>settled
\* a failed attempt is followed by another AddUser (or the reason goes away / the connection closes)
RetryEventually ==
  \A u \in Users : (ref.told[u] /\ ref.attempt[u] \in {"f10", "f600"}) ~> (~ref.told[u] \/ ref.attempt[u] \notin {"f10", "f600"})
EveryRequestHandled == \A u \in Users : [](~U[u].lost) /\ ((U[u].queue # <<>>) ~> (U[u].queue = <<>>))
=============================================================================

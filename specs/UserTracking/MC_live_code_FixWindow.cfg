SPECIFICATION FairSpec
CONSTANTS
  Users = {"u1"}
  Flags = {"R", "F"}
  FlagSets = {{"R"}, {"R", "F"}}
  MaxCalls = 3
  MaxFaults = 1
  MaxCloses = 1
  Fifo = TRUE
  FixWindow = FALSE
  FixSendClose = TRUE
  FixStaleRetry = TRUE
  FixCancelSwallow = TRUE
PROPERTY AlwaysSettles
PROPERTY EveryRequestHandled
CHECK_DEADLOCK FALSE

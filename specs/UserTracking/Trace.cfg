SPECIFICATION TSpec
CONSTANTS
  Users = {"u1", "u2"}
  Flags = {"R", "F", "T"}
  FlagSets = {{"R"}, {"F"}, {"T"}, {"R", "F"}, {"R", "T"}, {"F", "T"}, {"R", "F", "T"}}
  MaxCalls = 0
  MaxFaults = 0
  MaxCloses = 0
  Fifo = TRUE
  FixWindow = TRUE
  FixSendClose = TRUE
  FixStaleRetry = TRUE
  FixCancelSwallow = TRUE
  NetErrorDelay = 10000
  NoUserDelay = 600000
  AnswerWaitMax = 60000
  Slack = 1000
CONSTRAINT NoLostCall
CONSTRAINT ServerMirrorsWant
CONSTRAINT SettledState
CONSTRAINT EventsAgree
CONSTRAINT DroppedOnClose
CONSTRAINT RetryAfterDocumentedDelay
CONSTRAINT CloseCompletes
CONSTRAINT RetryHappens
ACTION_CONSTRAINT AddOnlyOnRiseC
ACTION_CONSTRAINT RemoveOnlyOnFallC
CHECK_DEADLOCK FALSE

SPECIFICATION FairSpec
CONSTANTS
  Users = {"u1"}
  Flags = {"R", "F"}
  FlagSets = {{"R"}, {"R", "F"}}
  MaxCalls = 3
  MaxFaults = 2
  MaxCloses = 1
  Fifo = TRUE
  FixWindow = TRUE
  FixSendClose = TRUE
  FixStaleRetry = TRUE
  FixCancelSwallow = TRUE
PROPERTY AlwaysSettles
PROPERTY EveryRequestHandled
PROPERTY RetryEventually
CHECK_DEADLOCK FALSE

SPECIFICATION Spec
CONSTANTS
  Devices <- MC_D2
  InitCfgs <- MC_CfgsIso
  InitEntries <- MC_EntriesFew
  InitAvail <- MC_AvailAll2
  MaxTime = 2
  MaxFaults = 1
  MaxLoss = 0
  MaxFlips = 0
  MaxDials = 0
  StopCancelsJob = TRUE
INVARIANT TypeOK
INVARIANT MappedWhileConnected
INVARIANT KeepsChecking
INVARIANT NoJobWhenDisabledOrDisconnected
INVARIANT NextRunTime
INVARIANT ListeningExact
INVARIANT ErrorModeExact
PROPERTY NoWorkWhenDisabledOrDisconnected
PROPERTY FailureIsolated
PROPERTY IncomingExact
CHECK_DEADLOCK FALSE

SPECIFICATION TSpec
CONSTANTS
  Devices = {"d1", "d2"}
  InitCfgs = {}
  InitEntries = {}
  InitAvail = {}
  MaxTime = 2000000000
  MaxFaults = 1000000
  MaxLoss = 1000000
  MaxFlips = 1000000
  MaxDials = 1000000
  StopCancelsJob = TRUE
INVARIANT MappedWhileConnectedT
INVARIANT KeepsCheckingT
INVARIANT NoJobWhenDisabledOrDisconnected
INVARIANT NextRunTimeT
INVARIANT ListeningExact
INVARIANT ErrorModeExact
PROPERTY NoWorkWhenDisabledOrDisconnected
PROPERTY FailureIsolatedTP
PROPERTY IncomingExact
CHECK_DEADLOCK TRUE

SPECIFICATION Spec
CONSTANTS
  Devices <- MC_D1
  InitCfgs <- MC_CfgsOn
  InitEntries <- MC_EntriesAll
  InitAvail <- MC_AvailAny1
  MaxTime = 12
  MaxFaults = 2
  MaxLoss = 1
  MaxFlips = 0
  MaxDials = 0
  StopCancelsJob = TRUE
INVARIANT TypeOK
INVARIANT MappedWhileConnected
INVARIANT KeepsChecking
INVARIANT NoJobWhenDisabledOrDisconnected
INVARIANT NextRunTime
INVARIANT ListeningExact
INVARIANT ErrorModeExact
PROPERTY NoWorkWhenDisabledOrDisconnected
PROPERTY FailureIsolated
PROPERTY IncomingExact
CHECK_DEADLOCK FALSE

SPECIFICATION Spec
CONSTANTS
  Devices <- MC_D1
  InitCfgs <- MC_CfgsLife
  InitEntries <- MC_EntriesNone
  InitAvail <- MC_AvailAll1
  MaxTime = 5
  MaxFaults = 0
  MaxLoss = 1
  MaxFlips = 1
  MaxDials = 1
  StopCancelsJob = TRUE
INVARIANT TypeOK
INVARIANT MappedWhileConnected
INVARIANT KeepsChecking
INVARIANT NoJobWhenDisabledOrDisconnected
INVARIANT NextRunTime
INVARIANT ListeningExact
INVARIANT ErrorModeExact
PROPERTY NoWorkWhenDisabledOrDisconnected
PROPERTY FailureIsolated
PROPERTY IncomingExact
CHECK_DEADLOCK FALSE

SPECIFICATION SpecSearchKills
CONSTANTS
  Devices <- MC_D1
  InitCfgs <- MC_CfgsOne
  InitEntries <- MC_EntriesNone
  InitAvail <- MC_AvailAll1
  MaxTime = 6
  MaxFaults = 1
  MaxLoss = 0
  MaxFlips = 0
  MaxDials = 0
  StopCancelsJob = TRUE
INVARIANT TypeOK
INVARIANT MappedWhileConnected
INVARIANT KeepsChecking
INVARIANT NoJobWhenDisabledOrDisconnected
INVARIANT NextRunTime
INVARIANT ListeningExact
INVARIANT ErrorModeExact
PROPERTY NoWorkWhenDisabledOrDisconnected
PROPERTY FailureIsolated
PROPERTY IncomingExact
CHECK_DEADLOCK FALSE

-------------------------- MODULE PortMappingTrace --------------------------
(***************************************************************************)
(* Trace validation of the real aioslsk Network (UPnP job, listening       *)
(* ports) against PortMapping.  Traces are written by harness/lib_x06.py:  *)
(* a real SoulSeekClient, logged in on the simulated network, in virtual   *)
(* time; Network._upnp is a scripted gateway that logs every call.         *)
(*                                                                         *)
(* Records (t = virtual milliseconds since the beginning):                 *)
(*   init       cfg [enabled, ports, lease, ci (ms), mode, bad], ip, st    *)
(*              (search timeout, s), portno [reg, obf], gw (device ->      *)
(*              kind -> [own, exp]), avail, lobs, defaulted (network.upnp  *)
(*              was left to the library's defaults)                        *)
(*   srv_up / srv_down   ConnectionStateChangedEvent of the server         *)
(*              connection on the client's event bus: CONNECTED / CLOSED   *)
(*   start_failed   start() raised ListeningConnectionFailedError          *)
(*   stop       stop() returned                                            *)
(*   obs        lobs: what can be seen of the listening connections now    *)
(*   tick       the harness let the clock advance to t                     *)
(*   flip       d, avail: a device (dis)appeared                           *)
(*   dial       k, res, reg, obf, init: a scripted peer dialled a port     *)
(*   search / get / map          a call arrives at the gateway (arguments) *)
(*   search_ret / get_ret / map_ret   its answer: res ok | fail |          *)
(*              cancelled (the caller was cancelled inside the call)       *)
(*   exc        anything that reached the loop's exception handler or      *)
(*              escaped a public call (never accepted)                     *)
(*                                                                         *)
(* The job's sleep is private: the end of a run is a silent step whose     *)
(* wake-up instant is read off the rest of the trace (ObservedWake: the    *)
(* next search of this job if one is seen before the job is stopped; the   *)
(* documented instant if the trace cannot tell; Never if the clock was     *)
(* seen to pass the due instant without a search).  NextRunTime then       *)
(* judges that instant.                                                    *)
(*                                                                         *)
(* Tolerated deviations (marks; see PortMapping.tla).  Each is taken only  *)
(* when the documented action cannot explain the trace, is exactly the     *)
(* code's behaviour and nothing else, and the property it breaks is        *)
(* evaluated with that step's contribution excluded (the ...T formulas):   *)
(*   "new-lease-ignored"         EndRunIgnoringNew                         *)
(*   "search-failure-kills-job"  RetSearchFailDies                         *)
(*   "get-failure-kills-job"     RetGetFailDies                            *)
(*   "upnp-enabled-by-default"   the settings of TInit (see there)         *)
(***************************************************************************)
EXTENDS PortMapping, Json, IOUtils

Traces == JsonDeserialize(IOEnv.TRACE_FILE)
VARIABLES tid, l, marks
tvars == <<vars, tid, l, marks>>
T == Traces[tid]
Rec == T[l]
I == T[1]

ToSet(s) == {s[i] : i \in 1..Len(s)}
EntryOf(r) == [own |-> r.own, exp |-> r.exp]
LobsOf(r) == [k \in Kinds |-> [conn |-> r[k].conn, up |-> r[k].up, acc |-> r[k].acc, flag |-> r[k].flag]]
KindOfPort(p) == IF p = I.portno.reg THEN "reg" ELSE IF p = I.portno.obf THEN "obf" ELSE "none"
\* what a gateway shows of a slot at this instant
View(e) == IF Live(e) THEN e ELSE NoEntry

\* A history flagged "defaulted" leaves network.upnp.* to the library.  SETTINGS.rst documents the defaults
\* enabled false / lease_duration 0 / check_interval 600 / search_timeout 10; settings.py:44-48 with
\* constants.py:29-31 has enabled True / 6 * 60 * 60 / 600 / 10.  The documented reading is taken unless the
\* gateway is seen to be used; then exactly the code's values, marked "upnp-enabled-by-default".
DocDefaults == [enabled |-> FALSE, lease |-> 0, ci |-> 600000]
CodeDefaults == [enabled |-> TRUE, lease |-> 21600000, ci |-> 600000]
DefaultSearchTimeout == 10
UsesGateway(tr) == \E j \in 1..Len(tr) : tr[j].ev \in {"search", "get", "map"}
SearchTimeout == IF I.defaulted THEN DefaultSearchTimeout ELSE I.st

TInit ==
  /\ tid \in 1..Len(Traces)
  /\ l = 2
  /\ Traces[tid][1].ev = "init"
  /\ LET i == Traces[tid][1]
         u == IF ~i.defaulted THEN [enabled |-> i.cfg.enabled, lease |-> i.cfg.lease, ci |-> i.cfg.ci]
              ELSE IF UsesGateway(Traces[tid]) THEN CodeDefaults ELSE DocDefaults
     IN
       /\ marks = IF i.defaulted /\ UsesGateway(Traces[tid]) THEN {"upnp-enabled-by-default"} ELSE {}
       /\ now = 0 /\ phase = "new" /\ srv = "down"
       /\ cfg = [enabled |-> u.enabled, ports |-> ToSet(i.cfg.ports), lease |-> u.lease, ci |-> u.ci,
                 mode |-> i.cfg.mode, bad |-> ToSet(i.cfg.bad)]
       /\ lobs = LobsOf(i.lobs) /\ dialed = NoDial
       /\ gw = [d \in Devices |-> [k \in Kinds |-> EntryOf(i.gw[d][k])]]
       /\ avail = ToSet(i.avail)
       /\ job = Idle /\ reach = {} /\ refused = {} /\ calls = 0
       /\ budget = [faults |-> MaxFaults, loss |-> MaxLoss, flips |-> MaxFlips, dials |-> MaxDials]

IsEv(e) == l <= Len(T) /\ Rec.ev = e /\ Rec.t = now
Consume == l' = l + 1 /\ UNCHANGED tid
Plain == Consume /\ UNCHANGED marks
Mark(m) == Consume /\ marks' = marks \cup {m}

(***************************************************************************)
(* Reading the future of the job off the trace                             *)
(***************************************************************************)
JobEnders == {"srv_down", "stop"}
First(i, S) == LET X == {j \in i..Len(T) : T[j].ev \in S} IN IF X = {} THEN 0 ELSE Min(X)
\* i: first record after the end of the run; D / Dc: the documented / the code's due instant (D <= Dc)
ObservedWake(i, D, Dc) ==
  LET n == First(i, {"search"} \cup JobEnders)
      tc == IF n = 0 THEN T[Len(T)].t ELSE T[n].t       \* the job was watched until tc
  IN IF n # 0 /\ T[n].ev = "search" THEN T[n].t
     ELSE IF tc < D THEN D
     ELSE IF tc < Dc THEN Dc
     ELSE Never
JobCallAt(i) == i <= Len(T) /\ T[i].ev \in {"get", "map"} /\ T[i].t = now

(***************************************************************************)
(* Client, environment                                                     *)
(***************************************************************************)
\* (whether start() may return / has to raise is ErrorModeExact's business, not the action's)
TSrvUp == IsEv("srv_up") /\ (IF phase = "new" THEN StartAs(TRUE) ELSE SrvUp) /\ Plain
TStartFailed == IsEv("start_failed") /\ StartAs(FALSE) /\ Plain
TSrvDown == IsEv("srv_down") /\ SrvLoss /\ Plain
TStop == IsEv("stop") /\ Stop /\ Plain
TObserve ==
  /\ IsEv("obs") /\ lobs' = LobsOf(Rec.lobs)
  /\ UNCHANGED <<now, cfg, phase, srv, dialed, gw, avail, job, reach, refused, calls, budget>> /\ Plain
TTickEv == IsEv("tick") /\ UNCHANGED vars /\ Plain
\* silent: the clock advances to the instant of the next record
TTick == l <= Len(T) /\ Rec.t > now /\ TickTo(Rec.t) /\ UNCHANGED <<tid, l, marks>>
TFlip == IsEv("flip") /\ Flip(Rec.d) /\ avail' = ToSet(Rec.avail) /\ Plain
TDial ==
  /\ IsEv("dial")
  /\ DialAs(Rec.k, [k |-> Rec.k, res |-> Rec.res, reg |-> Rec.reg, obf |-> Rec.obf, init |-> Rec.init])
  /\ Plain

(***************************************************************************)
(* The job as seen by the gateway                                          *)
(***************************************************************************)
TBeginRun ==
  /\ IsEv("search") /\ Rec.ip = I.ip /\ Rec.timeout = SearchTimeout
  /\ BeginRun /\ Plain
\* the job should be at work now but the gateway sees nothing: it does not exist (KeepsChecking judges)
TJobMissing ==
  /\ job.pc = "ready" /\ ~(l <= Len(T) /\ T[l].ev = "search" /\ T[l].t = now)
  /\ job' = Idle
  /\ UNCHANGED <<now, cfg, phase, srv, lobs, dialed, gw, avail, reach, refused, calls, budget, tid, l, marks>>

TRetSearchOK == IsEv("search_ret") /\ Rec.res = "ok" /\ ToSet(Rec.devs) = avail /\ RetSearchOK /\ Plain
TRetSearchFail ==
  /\ IsEv("search_ret") /\ Rec.res = "fail"
  /\ IF ObservedWake(l + 1, now + cfg.ci, now + cfg.ci) = Never
       THEN RetSearchFailDies /\ Mark("search-failure-kills-job")
       ELSE RetSearchFail /\ Plain

TCallGet == IsEv("get") /\ CallGet(Rec.d) /\ Plain
TRetGetOK ==
  /\ IsEv("get_ret") /\ Rec.res = "ok"
  /\ \A k \in Kinds : EntryOf(Rec.view[k]) = View(gw[Rec.d][k])
  /\ RetGetOK(Rec.d) /\ Plain
TRetGetFail ==
  /\ IsEv("get_ret") /\ Rec.res = "fail"
  /\ IF ~JobCallAt(l + 1) /\ (Outstanding \/ ObservedWake(l + 1, DueDoc, DueCode) = Never)
       THEN RetGetFailDies(Rec.d) /\ Mark("get-failure-kills-job")
       ELSE RetGetFail(Rec.d) /\ Plain

TCallMap ==
  /\ IsEv("map") /\ KindOfPort(Rec.port) \in Kinds
  /\ Rec.ip = I.ip /\ Rec.proto = "TCP" /\ Rec.lease * 1000 = cfg.lease
  /\ CallMap(Rec.d, KindOfPort(Rec.port)) /\ Plain
TRetMapOK ==
  /\ IsEv("map_ret") /\ Rec.res = "ok" /\ KindOfPort(Rec.port) \in Kinds
  /\ RetMapOK(Rec.d, KindOfPort(Rec.port))
  /\ gw'[Rec.d][KindOfPort(Rec.port)].exp = Rec.exp
  /\ Plain
TRetMapFail ==
  /\ IsEv("map_ret") /\ Rec.res = "fail" /\ KindOfPort(Rec.port) \in Kinds
  /\ RetMapFail(Rec.d, KindOfPort(Rec.port)) /\ Plain

\* silent: no further call at this instant - the run is over; when the job wakes is read off the trace
TEndRun ==
  /\ job.pc = "pick" /\ ~JobCallAt(l)
  /\ LET w == ObservedWake(l, DueDoc, DueCode)
         dv == w # DueDoc /\ w = DueCode
     IN /\ EndRunAt(w, dv)
        /\ marks' = IF dv THEN marks \cup {"new-lease-ignored"} ELSE marks
  /\ UNCHANGED <<tid, l>>

\* the answer to a call whose caller was cancelled (stop() / server loss inside a gateway call): either the
\* job is already gone for the model, or what ends it is the next thing seen
TRetCancelled ==
  /\ l <= Len(T) /\ Rec.ev \in {"search_ret", "get_ret", "map_ret"} /\ Rec.t = now /\ Rec.res = "cancelled"
  /\ \/ job.pc = "off"
     \/ InCall /\ First(l + 1, JobEnders) # 0 /\ First(l + 1, JobEnders) = First(l + 1, JobEnders \cup {"search", "get", "map"})
  /\ UNCHANGED vars /\ Plain

\* a gateway call although no job should exist (NoWorkWhenDisabledOrDisconnected judges), and its answer
TStrayCall ==
  /\ l <= Len(T) /\ Rec.ev \in {"search", "get", "map"} /\ Rec.t = now
  /\ job.pc \in {"off", "dead"}
  /\ calls' = 1 - calls
  /\ UNCHANGED <<now, cfg, phase, srv, lobs, dialed, gw, avail, job, reach, refused, budget>> /\ Plain
TStrayRet ==
  /\ l <= Len(T) /\ Rec.ev \in {"search_ret", "get_ret", "map_ret"} /\ Rec.t = now /\ Rec.res # "cancelled"
  /\ job.pc \in {"off", "dead"}
  /\ UNCHANGED vars /\ Plain

Done == l = Len(T) + 1 /\ ~Urgent /\ PrintT(<<"ACCEPT", tid, marks>>) /\ l' = l + 1 /\ UNCHANGED <<vars, tid, marks>>
Finished == l = Len(T) + 2 /\ UNCHANGED tvars

TNext ==
  \/ TSrvUp \/ TStartFailed \/ TSrvDown \/ TStop \/ TObserve \/ TTickEv \/ TTick \/ TFlip \/ TDial
  \/ TBeginRun \/ TJobMissing \/ TRetSearchOK \/ TRetSearchFail
  \/ TCallGet \/ TRetGetOK \/ TRetGetFail \/ TCallMap \/ TRetMapOK \/ TRetMapFail
  \/ TEndRun \/ TRetCancelled \/ TStrayCall \/ TStrayRet
  \/ Done \/ Finished
TSpec == TInit /\ [][TNext]_tvars

(***************************************************************************)
(* The properties, with the marked deviations' contribution excluded and   *)
(* nothing else                                                            *)
(***************************************************************************)
\* a mapping created in a run whose sleep ignored it may lapse before the next check
MappedWhileConnectedT ==
  (Connected /\ cfg.enabled /\ Asleep) =>
     \A d \in reach, k \in Listening :
        <<d, k>> \in refused \/ Ours(gw[d][k]) \/ (job.dev /\ <<d, k>> \in job.newp)
\* ... and that sleep lasts exactly as long as the code's formula says: the leases READ, check_interval
NextRunTimeT ==
  job.pc = "sleep" =>
     /\ now <= job.wake
     /\ job.wake = job.slept + Min({cfg.ci} \cup Leases(job.slept, OursUntil(job.slept) \ (IF job.dev THEN job.newp ELSE {})))
\* a dead job is tolerated only where a marked deviation killed it
KeepsCheckingT ==
  \/ KeepsChecking
  \/ job.pc = "dead" /\ job.fail = "search" /\ "search-failure-kills-job" \in marks
  \/ job.pc = "dead" /\ job.fail = "get" /\ "get-failure-kills-job" \in marks
\* the run abandoned by the marked get failure is the one exception
FailureIsolatedT ==
  \/ FailureIsolatedA
  \/ job'.pc = "dead" /\ job'.fail = "get" /\ "get-failure-kills-job" \in marks'

FailureIsolatedTP == [][FailureIsolatedT]_tvars
=============================================================================

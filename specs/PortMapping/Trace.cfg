SPECIFICATION TSpec
CONSTANTS
  Devices = {"d1", "d2"}
  InitCfgs = {}
  InitEntries = {}
  InitAvail = {}
  MaxTime = 2000000000
  MaxFaults = 1000000
  MaxLoss = 1000000
  MaxFlips = 1000000
  MaxDials = 1000000
  StopCancelsJob = TRUE
CONSTRAINT MappedWhileConnectedT
CONSTRAINT KeepsCheckingT
CONSTRAINT NoJobWhenDisabledOrDisconnected
CONSTRAINT NextRunTimeT
CONSTRAINT ListeningExact
CONSTRAINT ErrorModeExact
ACTION_CONSTRAINT NoWorkA
ACTION_CONSTRAINT FailureIsolatedT
ACTION_CONSTRAINT IncomingExactA
CHECK_DEADLOCK FALSE

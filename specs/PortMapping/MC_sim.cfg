SPECIFICATION Spec
CONSTANTS
  Devices <- MC_D2
  InitCfgs <- MC_CfgsAll
  InitEntries <- MC_EntriesAll
  InitAvail <- MC_AvailAny2
  MaxTime = 14
  MaxFaults = 3
  MaxLoss = 2
  MaxFlips = 2
  MaxDials = 2
  StopCancelsJob = TRUE
INVARIANT TypeOK
INVARIANT MappedWhileConnected
INVARIANT KeepsChecking
INVARIANT NoJobWhenDisabledOrDisconnected
INVARIANT NextRunTime
INVARIANT ListeningExact
INVARIANT ErrorModeExact
PROPERTY NoWorkWhenDisabledOrDisconnected
PROPERTY FailureIsolated
PROPERTY IncomingExact
CHECK_DEADLOCK FALSE

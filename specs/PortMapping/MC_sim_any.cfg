SPECIFICATION SpecAny
CONSTANTS
  Devices <- MC_D2
  InitCfgs <- MC_CfgsAll
  InitEntries <- MC_EntriesAll
  InitAvail <- MC_AvailAny2
  MaxTime = 14
  MaxFaults = 3
  MaxLoss = 2
  MaxFlips = 2
  MaxDials = 2
  StopCancelsJob = TRUE
INVARIANT TypeOK
CHECK_DEADLOCK FALSE

SPECIFICATION FairSpec
CONSTANTS
  Devices <- MC_D1
  InitCfgs <- MC_CfgsShort
  InitEntries <- MC_EntriesFew
  InitAvail <- MC_AvailAll1
  MaxTime = 3
  MaxFaults = 1
  MaxLoss = 1
  MaxFlips = 0
  MaxDials = 0
  StopCancelsJob = TRUE
PROPERTY EventuallyMapped
CHECK_DEADLOCK FALSE

SPECIFICATION Spec
CONSTANTS
  Devices <- MC_D2
  InitCfgs <- MC_CfgsBoth
  InitEntries <- MC_EntriesFew
  InitAvail <- MC_AvailAll2
  MaxTime = 5
  MaxFaults = 2
  MaxLoss = 0
  MaxFlips = 1
  MaxDials = 0
  StopCancelsJob = TRUE
INVARIANT TypeOK
INVARIANT MappedWhileConnected
INVARIANT KeepsChecking
INVARIANT NoJobWhenDisabledOrDisconnected
INVARIANT NextRunTime
INVARIANT ListeningExact
INVARIANT ErrorModeExact
PROPERTY NoWorkWhenDisabledOrDisconnected
PROPERTY FailureIsolated
PROPERTY IncomingExact
CHECK_DEADLOCK FALSE

----------------------------- MODULE PortMapping -----------------------------
(***************************************************************************)
(* X06 - the UPnP port-mapping job and the listening ports of Network.     *)
(*                                                                         *)
(* Written from docs/source/SETTINGS.rst (network.listening.port: "Port to *)
(* listen for other peers (clear)", obfuscated_port: "... (obfuscated)",   *)
(* network.upnp.enabled: "Automatically configure UPnP for the listening   *)
(* ports", lease_duration: "Length of the UPnP port mapping lease duration *)
(* (in seconds)", check_interval: "Time between checking UPnP mappings",   *)
(* search_timeout: "Maximum time to search for UPnP devices"),             *)
(* docs/source/USAGE.rst ("Calling SoulSeekClient.start will connect the   *)
(* listening ports and the server"), and the docstrings of                 *)
(* Network._upnp_job ("This job ensures the UPnP port mappings are created *)
(* and maintained.  The interval that the mapping is checked is configured *)
(* through the network.upnp.check_interval setting.  This setting          *)
(* represents the max interval, the check interval could be shorter if the *)
(* job detects that the lease duration of a port is about to expire"),     *)
(* Network.connect_listening_ports ("will attempt to connect both          *)
(* listening ports (if configured) but will raise an exception depending   *)
(* on the network.listening.error_mode setting.  All other listening       *)
(* connections will be disconnected before raising the error"; its three   *)
(* messages: all - "failed to open any listening ports", any - "one or     *)
(* more listening ports failed to connect", clear - "failed to connect     *)
(* non-obfuscated listening port"), disconnect_listening_ports,            *)
(* get_listening_ports, ListeningConnection ("responsible for accepting    *)
(* incoming connections from peers") and the comment in                    *)
(* _on_server_connection_state_changed ("For registering with UPNP we need *)
(* to know our own IP first ... we first need to be fully connected").     *)
(*                                                                         *)
(* The state is what a user of the library, the gateway and a dialling     *)
(* peer can see:                                                           *)
(*   now     the clock                                                     *)
(*   cfg     the settings: [enabled, ports (the kinds of listening port    *)
(*           with a non-zero number: "reg" / "obf"), lease, ci, mode       *)
(*           (network.listening.error_mode)] and, with them, bad: the      *)
(*           configured ports that cannot be bound (in use)                *)
(*   phase   "new" (client created), "run" (start() returned), "failed"    *)
(*           (start() raised ListeningConnectionFailedError), "stopped"    *)
(*   srv     the server connection: "up" (CONNECTED) / "down"              *)
(*   lobs    per kind of port what can be seen of its listening            *)
(*           connection: [conn (an object exists), up (its state is        *)
(*           CONNECTED), acc (the port accepts connections), flag (its     *)
(*           obfuscated attribute and port number are those of the kind)]  *)
(*   dialed  the outcome of the last incoming connection attempt           *)
(*   gw      the gateways' port-mapping tables: device -> kind -> [own     *)
(*           ("none" | "us" | "other"), exp (expiry instant; Perm = never)]*)
(*           an entry whose expiry has passed is gone (Live)               *)
(*   avail   the devices that answer a search now                          *)
(*   job     the mapping job: pc and the bookkeeping of the run in flight  *)
(*   reach   devices the last completed run found and could read           *)
(*   refused (device, kind) pairs the gateway refused to map in that run   *)
(*   calls   flips with every call made to a gateway                       *)
(*                                                                         *)
(* One action per critical section: the job runs from the answer of one    *)
(* gateway call to the next call (network.py:414-488: search :440, per     *)
(* device get :447, per port map :459, return next_check :485; the sleep   *)
(* is tasks.py:74).  "pick" and "ready" are the instants in between: no    *)
(* time passes there and nothing else can happen (Urgent).  A gateway call *)
(* in flight (pc "search" / "get" / "map") can be overtaken by a server    *)
(* loss or stop() - the slow gateway.  Time passes inside a search (it     *)
(* lasts search_timeout in reality) but not inside get / map (assumption,  *)
(* see ./check X06: what the job read would be stale).                     *)
(*                                                                         *)
(* The order of devices and of ports within a run is free.                 *)
(*                                                                         *)
(* Where the code knowingly or unknowingly deviates from this reading, the *)
(* deviation is a NAMED ACTION that is not part of Next.  Next is the      *)
(* documented job; NextNewLease / NextSearchKills / NextGetKills replace   *)
(* one documented action by the code's (MC_teeth_*.cfg: TLC finds the      *)
(* property violation, so the properties have teeth); NextAny offers both  *)
(* (never checked, only used to draw histories that stay in step with the  *)
(* code).  The trace spec accepts exactly these deviations as marked       *)
(* observations:                                                           *)
(*   EndRunIgnoringNew   network.py:453-466 vs :481-486: the lease of a    *)
(*       mapping created in this run is not taken into account for the     *)
(*       next check, so with lease_duration < check_interval the mapping   *)
(*       lapses for check_interval - lease_duration every cycle            *)
(*   RetSearchFailDies   network.py:440: an exception from the device      *)
(*       search ends the job's task (tasks.py:70-76 has no handler); no    *)
(*       further check while connected                                     *)
(*   RetGetFailDies      network.py:447: an exception from reading one     *)
(*       device's mappings ends the job's task: the other devices are not  *)
(*       served and no further check is made (the handler at :475-480 is   *)
(*       attached to the local filter, which cannot fail that way)         *)
(* StopCancelsJob is a constant switch: TRUE = code and documentation;     *)
(* FALSE (MC_teeth_nocancel.cfg) shows that                                *)
(* NoWorkWhenDisabledOrDisconnected has teeth.                             *)
(*                                                                         *)
(* Configurations: MC_q_job / MC_q_iso / MC_q_life (quick, one facet each; *)
(* their state graphs give the edge covers that are replayed), MC_t_job /  *)
(* MC_t_iso (thorough), MC_live (FairSpec), MC_sim / MC_sim_any (constants *)
(* for -simulate), MC_teeth_* (meant to fail).  Model time is in ticks     *)
(* (check_interval = 4, leases 0 / 2 / 6); the harness scales a tick to    *)
(* 1 s .. 150 s of virtual time.                                           *)
(***************************************************************************)
EXTENDS Integers, FiniteSets, Sequences, TLC

CONSTANTS
  Devices,            \* gateway devices that may exist
  InitCfgs,           \* settings tried: records [enabled, ports, lease, ci]
  InitEntries,        \* what a (device, kind) slot of a gateway table may hold at the beginning
  InitAvail,          \* sets of devices that answer at the beginning
  MaxTime,            \* the clock stops here
  MaxFaults,          \* budget of injected gateway failures (search / get / map)
  MaxLoss,            \* budget of server losses
  MaxFlips,           \* budget of devices appearing / disappearing
  MaxDials,           \* budget of incoming connection attempts
  StopCancelsJob

Kinds == {"reg", "obf"}
Perm == -1                       \* expiry of a permanent mapping (lease 0)
Never == 1000000000              \* wake-up instant of a job that will not wake

VARIABLES now, cfg, phase, srv, lobs, dialed, gw, avail, job, reach, refused, calls, budget

vars == <<now, cfg, phase, srv, lobs, dialed, gw, avail, job, reach, refused, calls, budget>>

Min(S) == CHOOSE x \in S : \A y \in S : x <= y

NoEntry == [own |-> "none", exp |-> 0]
Live(e) == e.own # "none" /\ (e.exp = Perm \/ e.exp > now)
Ours(e) == e.own = "us" /\ Live(e)
Foreign(e) == e.own = "other" /\ Live(e)

\* the listening ports the job maps: those that are connected (get_listening_ports)
Listening == {k \in Kinds : lobs[k].up}

Idle == [pc |-> "off", toGet |-> {}, got |-> {}, toMap |-> {}, cur |-> <<>>, reads |-> {}, news |-> {},
         newp |-> {}, mfail |-> {}, fail |-> "none", wake |-> 0, slept |-> 0, dev |-> FALSE]
Ready == [Idle EXCEPT !.pc = "ready"]

InCall == job.pc \in {"search", "get", "map"}
\* instants of the job between two gateway calls, and the instant a sleep ends: the job's next step is
\* already in the loop's ready queue, nothing else happens first
Urgent == job.pc \in {"ready", "pick"} \/ (job.pc = "sleep" /\ now >= job.wake)
Connected == phase = "run" /\ srv = "up"

\* the configured ports that can be bound, and whether start() has to raise for the others (error_mode)
Good == cfg.ports \ cfg.bad
Raises == CASE cfg.mode = "all" -> Good = {}
            [] cfg.mode = "any" -> cfg.bad # {}
            [] cfg.mode = "clear" -> "reg" \notin Good
LUp(ports, good) == [k \in Kinds |-> [conn |-> k \in ports, up |-> k \in good, acc |-> k \in good, flag |-> TRUE]]
LDown(ports) == [k \in Kinds |-> [conn |-> k \in ports, up |-> FALSE, acc |-> FALSE, flag |-> TRUE]]
NoDial == [k |-> "none", res |-> "none", reg |-> FALSE, obf |-> FALSE, init |-> FALSE]

TypeOK ==
  /\ now \in 0..MaxTime /\ phase \in {"new", "run", "failed", "stopped"} /\ srv \in {"up", "down"}
  /\ cfg.bad \subseteq cfg.ports /\ cfg.mode \in {"all", "any", "clear"}
  /\ avail \subseteq Devices /\ reach \subseteq Devices /\ refused \subseteq Devices \X Kinds
  /\ job.pc \in {"off", "ready", "search", "pick", "get", "map", "sleep", "dead"}
  /\ calls \in {0, 1}

Init ==
  /\ now = 0 /\ cfg \in InitCfgs /\ phase = "new" /\ srv = "down"
  /\ lobs = LDown(cfg.ports) /\ dialed = NoDial
  /\ gw \in [Devices -> [Kinds -> InitEntries]]
  /\ avail \in InitAvail
  /\ job = Idle /\ reach = {} /\ refused = {} /\ calls = 0
  /\ budget = [faults |-> MaxFaults, loss |-> MaxLoss, flips |-> MaxFlips, dials |-> MaxDials]

(***************************************************************************)
(* The client: start(), loss of the server and reconnect, stop()           *)
(***************************************************************************)
\* client.py:109-132 + login: listening ports connected (network.py:247-279), then the server
\* (network.py:1079-1084); ok = start() returned
StartAs(ok) ==
  /\ phase = "new"
  /\ IF ok THEN /\ phase' = "run" /\ srv' = "up" /\ lobs' = LUp(cfg.ports, Good)
               /\ job' = IF cfg.enabled THEN Ready ELSE Idle
          ELSE /\ phase' = "failed" /\ srv' = srv /\ lobs' = LDown(cfg.ports) /\ job' = Idle
  /\ UNCHANGED <<now, cfg, dialed, gw, avail, reach, refused, calls, budget>>
Start == ~Raises /\ StartAs(TRUE)
StartFails == Raises /\ StartAs(FALSE)

\* network.py:1090-1092: the server connection goes CLOSING -> stop_upnp_job(); the listening ports stay
SrvLoss ==
  /\ Connected /\ ~Urgent /\ budget.loss > 0
  /\ srv' = "down" /\ budget' = [budget EXCEPT !.loss = @ - 1]
  /\ job' = IF StopCancelsJob THEN Idle ELSE job
  /\ reach' = {} /\ refused' = {}
  /\ UNCHANGED <<now, cfg, phase, lobs, dialed, gw, avail, calls>>

\* reconnect (watchdog network.py:379-405 or connect_server by hand): CONNECTED again -> start_upnp_job()
SrvUp ==
  /\ phase = "run" /\ srv = "down" /\ ~Urgent
  /\ srv' = "up"
  /\ job' = IF job.pc # "off" THEN job ELSE IF cfg.enabled THEN Ready ELSE Idle
  /\ UNCHANGED <<now, cfg, phase, lobs, dialed, gw, avail, reach, refused, calls, budget>>

\* client.py:140-165 -> network.py:298-313, :1233-1240: every task cancelled, every connection closed
Stop ==
  /\ phase \in {"run", "failed"} /\ ~Urgent
  /\ phase' = "stopped" /\ srv' = "down" /\ lobs' = LDown(cfg.ports)
  /\ job' = IF StopCancelsJob THEN Idle ELSE job
  /\ reach' = {} /\ refused' = {}
  /\ UNCHANGED <<now, cfg, dialed, gw, avail, calls, budget>>

(***************************************************************************)
(* The environment: the clock, devices coming and going, dialling peers    *)
(***************************************************************************)
\* the loop's clock never passes a due timer (the job's sleep); inside a call only a search lasts
TickTo(t) ==
  /\ t > now /\ t <= MaxTime /\ ~Urgent /\ job.pc \notin {"get", "map"}
  /\ job.pc = "sleep" => t <= job.wake
  /\ now' = t
  /\ UNCHANGED <<cfg, phase, srv, lobs, dialed, gw, avail, job, reach, refused, calls, budget>>
\* (the design models step to the next instant or straight to the end of the sleep)
TickTargets == {now + 1} \cup (IF job.pc = "sleep" THEN {job.wake} ELSE {})
Tick(t) == t \in TickTargets /\ TickTo(t)

Flip(d) ==
  /\ budget.flips > 0 /\ ~Urgent /\ ~InCall
  /\ avail' = IF d \in avail THEN avail \ {d} ELSE avail \cup {d}
  /\ budget' = [budget EXCEPT !.flips = @ - 1]
  /\ UNCHANGED <<now, cfg, phase, srv, lobs, dialed, gw, job, reach, refused, calls>>

\* a peer dials the (nominal) port of kind k and sends PeerInit in the port's encoding; r is what it sees:
\* [k, res ("accepted" | "refused"), reg (a connection appeared among Network.peer_connections),
\* obf (that connection's obfuscated attribute), init (the PeerInit was understood)]
\* connection.py:173-190, network.py:1123-1163
DialAs(k, r) ==
  /\ budget.dials > 0 /\ ~Urgent /\ ~InCall /\ r.k = k
  /\ budget' = [budget EXCEPT !.dials = @ - 1]
  /\ dialed' = r
  /\ UNCHANGED <<now, cfg, phase, srv, lobs, gw, avail, job, reach, refused, calls>>
Dial(k) ==
  k \in Kinds /\
  DialAs(k, IF lobs[k].acc THEN [k |-> k, res |-> "accepted", reg |-> TRUE, obf |-> (k = "obf"), init |-> TRUE]
            ELSE [k |-> k, res |-> "refused", reg |-> FALSE, obf |-> FALSE, init |-> FALSE])

(***************************************************************************)
(* The job                                                                 *)
(***************************************************************************)
Call == calls' = 1 - calls

\* a run begins (first step of the task, or the sleep is over): network.py:437-442
BeginRun ==
  /\ job.pc = "ready" \/ (job.pc = "sleep" /\ now = job.wake)
  /\ job' = [Idle EXCEPT !.pc = "search"] /\ Call
  /\ UNCHANGED <<now, cfg, phase, srv, lobs, dialed, gw, avail, reach, refused, budget>>

RetSearchOK ==
  /\ job.pc = "search"
  /\ job' = [job EXCEPT !.pc = "pick", !.toGet = avail]
  /\ UNCHANGED <<now, cfg, phase, srv, lobs, dialed, gw, avail, reach, refused, calls, budget>>

Fault == budget.faults > 0 /\ budget' = [budget EXCEPT !.faults = @ - 1]

\* documented: nothing can be checked now, check again after check_interval
RetSearchFail ==
  /\ job.pc = "search" /\ Fault
  /\ job' = [job EXCEPT !.pc = "pick", !.fail = "search"]
  /\ UNCHANGED <<now, cfg, phase, srv, lobs, dialed, gw, avail, reach, refused, calls>>

\* the code: the exception ends the task (deviation SearchFailureKills)
RetSearchFailDies ==
  /\ job.pc = "search" /\ Fault
  /\ job' = [Idle EXCEPT !.pc = "dead", !.fail = "search"]
  /\ UNCHANGED <<now, cfg, phase, srv, lobs, dialed, gw, avail, reach, refused, calls>>

\* network.py:447
CallGet(d) ==
  /\ job.pc = "pick" /\ d \in job.toGet
  /\ job' = [job EXCEPT !.pc = "get", !.cur = <<d>>, !.toGet = @ \ {d}, !.fail = "none"] /\ Call
  /\ UNCHANGED <<now, cfg, phase, srv, lobs, dialed, gw, avail, reach, refused, budget>>

\* network.py:448-483: which listening ports are ours on this device, and for how long
RetGetOK(d) ==
  /\ job.pc = "get" /\ job.cur = <<d>>
  /\ LET have == {k \in Listening : Ours(gw[d][k])}
         need == Listening \ have
     IN job' = [job EXCEPT !.pc = "pick", !.cur = <<>>, !.got = @ \cup {d},
                           !.toMap = @ \cup {<<d, k>> : k \in need},
                           !.reads = @ \cup {gw[d][k].exp - now : k \in {h \in have : gw[d][h].exp # Perm}}]
  /\ UNCHANGED <<now, cfg, phase, srv, lobs, dialed, gw, avail, reach, refused, calls, budget>>

\* documented: this device is skipped, the others are served
RetGetFail(d) ==
  /\ job.pc = "get" /\ job.cur = <<d>> /\ Fault
  /\ job' = [job EXCEPT !.pc = "pick", !.cur = <<>>, !.fail = "get"]
  /\ UNCHANGED <<now, cfg, phase, srv, lobs, dialed, gw, avail, reach, refused, calls>>

\* the code: the exception ends the task (deviation GetFailureKills); the code reads a device only after
\* the ports of the devices before it have been tried, so what it abandons are devices, never ports
RetGetFailDies(d) ==
  /\ job.pc = "get" /\ job.cur = <<d>> /\ job.toMap = {} /\ Fault
  /\ job' = [Idle EXCEPT !.pc = "dead", !.fail = "get"]
  /\ UNCHANGED <<now, cfg, phase, srv, lobs, dialed, gw, avail, reach, refused, calls>>

\* network.py:459-462
CallMap(d, k) ==
  /\ job.pc = "pick" /\ <<d, k>> \in job.toMap
  /\ job' = [job EXCEPT !.pc = "map", !.cur = <<d, k>>, !.toMap = @ \ {<<d, k>>}, !.fail = "none"] /\ Call
  /\ UNCHANGED <<now, cfg, phase, srv, lobs, dialed, gw, avail, reach, refused, budget>>

\* the gateway grants the mapping for lease_duration (0 = for ever); it refuses a port somebody else holds
RetMapOK(d, k) ==
  /\ job.pc = "map" /\ job.cur = <<d, k>> /\ ~Foreign(gw[d][k])
  /\ gw' = [gw EXCEPT ![d][k] = [own |-> "us", exp |-> IF cfg.lease = 0 THEN Perm ELSE now + cfg.lease]]
  /\ job' = [job EXCEPT !.pc = "pick", !.cur = <<>>, !.newp = @ \cup {<<d, k>>},
                        !.news = @ \cup (IF cfg.lease = 0 THEN {} ELSE {cfg.lease})]
  /\ UNCHANGED <<now, cfg, phase, srv, lobs, dialed, avail, reach, refused, calls, budget>>

\* network.py:468-473: a port that cannot be mapped does not stop the others
RetMapFail(d, k) ==
  /\ job.pc = "map" /\ job.cur = <<d, k>>
  /\ IF Foreign(gw[d][k]) THEN UNCHANGED budget ELSE Fault
  /\ job' = [job EXCEPT !.pc = "pick", !.cur = <<>>, !.mfail = @ \cup {<<d, k>>}]
  /\ UNCHANGED <<now, cfg, phase, srv, lobs, dialed, gw, avail, reach, refused, calls>>

\* the run is over: sleep until w (dv: w was computed the deviating way)
EndRunAt(w, dv) ==
  /\ job.pc = "pick"
  /\ job' = [Idle EXCEPT !.pc = "sleep", !.wake = w, !.slept = now, !.dev = dv,
                         !.newp = IF dv THEN job.newp ELSE {}]
  /\ reach' = job.got /\ refused' = job.mfail
  /\ UNCHANGED <<now, cfg, phase, srv, lobs, dialed, gw, avail, calls, budget>>

Outstanding == job.toGet # {} \/ job.toMap # {}
DueDoc == now + Min({cfg.ci} \cup job.reads \cup job.news)
DueCode == now + Min({cfg.ci} \cup job.reads)

\* documented: every device served, next check when the first lease of ours ends, at most check_interval away
EndRun == ~Outstanding /\ EndRunAt(DueDoc, FALSE)
\* the code (deviation NewLeaseIgnored): network.py:485-486 looks only at the leases it READ
EndRunIgnoringNew == ~Outstanding /\ EndRunAt(DueCode, DueCode # DueDoc)

\* what the client, the environment and the job do whatever the reading of the documentation
Common ==
  \/ Start \/ StartFails \/ SrvLoss \/ SrvUp \/ Stop
  \/ \E t \in 1..MaxTime : Tick(t)
  \/ \E d \in Devices : Flip(d)
  \/ \E k \in Kinds : Dial(k)
  \/ BeginRun \/ RetSearchOK
  \/ \E d \in Devices : CallGet(d) \/ RetGetOK(d)
  \/ \E d \in Devices, k \in Kinds : CallMap(d, k) \/ RetMapOK(d, k) \/ RetMapFail(d, k)

\* the documented job
Next == Common \/ RetSearchFail \/ (\E d \in Devices : RetGetFail(d)) \/ EndRun
\* the job with one of the code's deviations each (MC_teeth_*.cfg)
NextNewLease == Common \/ RetSearchFail \/ (\E d \in Devices : RetGetFail(d)) \/ EndRunIgnoringNew
NextSearchKills == Common \/ RetSearchFailDies \/ (\E d \in Devices : RetGetFail(d)) \/ EndRun
NextGetKills == Common \/ RetSearchFail \/ (\E d \in Devices : RetGetFailDies(d)) \/ EndRun

\* both readings side by side: not checked, only used to draw histories that stay in step with the code
NextAny == Common \/ RetSearchFail \/ RetSearchFailDies \/ EndRun \/ EndRunIgnoringNew
             \/ (\E d \in Devices : RetGetFail(d) \/ RetGetFailDies(d))

Spec == Init /\ [][Next]_vars
SpecAny == Init /\ [][NextAny]_vars
SpecNewLease == Init /\ [][NextNewLease]_vars
SpecSearchKills == Init /\ [][NextSearchKills]_vars
SpecGetKills == Init /\ [][NextGetKills]_vars
JobStep ==
  \/ BeginRun \/ RetSearchOK \/ EndRun
  \/ \E d \in Devices : CallGet(d) \/ RetGetOK(d)
  \/ \E d \in Devices, k \in Kinds : CallMap(d, k) \/ RetMapOK(d, k) \/ RetMapFail(d, k)
FairSpec == Spec /\ WF_vars(JobStep)

(***************************************************************************)
(* Properties (from the documentation; one line each in the cfg files)     *)
(***************************************************************************)
\* between two checks (the job asleep, its next check not yet due) every listening port is mapped to us on
\* every device the last check reached, unless the gateway refused it - and the mapping has not lapsed
Asleep == job.pc = "sleep" /\ now < job.wake
MappedWhileConnected ==
  (Connected /\ cfg.enabled /\ Asleep) =>
     \A d \in reach, k \in Listening : <<d, k>> \in refused \/ Ours(gw[d][k])

\* while connected (and enabled) the job exists: it is checking or waiting for its next check
KeepsChecking == (Connected /\ cfg.enabled) => job.pc \notin {"off", "dead"}

\* gateways are called only while connected and enabled - and only by the job
NoWorkA == calls' # calls => (Connected /\ cfg.enabled /\ job.pc \notin {"off", "dead"})
NoWorkWhenDisabledOrDisconnected == [][NoWorkA]_vars
\* (stop() / a server loss leave no job behind; nothing ever exists when disabled)
NoJobWhenDisabledOrDisconnected == (~Connected \/ ~cfg.enabled) => job.pc = "off"

\* a failure does not end the run: when the job goes to sleep every device found was asked and every
\* port that needed a mapping was tried
RunPcs == {"search", "pick", "get", "map"}
FailureIsolatedA == (job.pc \in RunPcs /\ job'.pc \in {"sleep", "dead"}) => ~Outstanding
FailureIsolated == [][FailureIsolatedA]_vars

\* the next check comes exactly when the first lease of ours ends, and never later than check_interval
OursUntil(t) == {p \in reach \X Listening : gw[p[1]][p[2]].own = "us" /\ gw[p[1]][p[2]].exp > t}   \* (not the permanent ones)
Leases(t, P) == {gw[p[1]][p[2]].exp - t : p \in P}
NextRunTime == job.pc = "sleep" => (job.wake = job.slept + Min({cfg.ci} \cup Leases(job.slept, OursUntil(job.slept))) /\ now <= job.wake)

\* one listening connection per configured port, right flag, listening exactly from start() to stop()
ListeningExact ==
  \A k \in Kinds :
     /\ lobs[k].conn <=> k \in cfg.ports
     /\ lobs[k].conn => lobs[k].flag
     /\ lobs[k].up <=> (phase = "run" /\ k \in Good)
     /\ lobs[k].acc <=> lobs[k].up
\* start() raises exactly when error_mode says so (and then nothing is left listening: ListeningExact)
ErrorModeExact == (phase = "failed" => Raises) /\ (phase = "run" => ~Raises)
\* incoming connections: accepted only while listening, registered, with the obfuscation of their port
IncomingExactA ==
  budget'.dials # budget.dials =>
     /\ dialed'.res = "accepted" <=> (phase = "run" /\ dialed'.k \in Good)
     /\ dialed'.res \in {"accepted", "refused"}
     /\ dialed'.res = "accepted" => (dialed'.reg /\ dialed'.init /\ (dialed'.obf <=> dialed'.k = "obf"))
IncomingExact == [][IncomingExactA]_vars

\* liveness (FairSpec, failures budgeted): once connected and left alone, the ports get mapped
EventuallyMapped ==
  [](Connected /\ cfg.enabled => <>(~Connected \/ (job.pc = "sleep")))

(***************************************************************************)
(* Constants of the configurations                                         *)
(***************************************************************************)
CI == 4
Cfg(e, p, l) == [enabled |-> e, ports |-> p, lease |-> l, ci |-> CI, mode |-> "any", bad |-> {}]
\* every error_mode x every set of ports x every subset of them that cannot be bound
MC_CfgsBind == {c \in [enabled : {TRUE}, ports : SUBSET Kinds, lease : {6}, ci : {CI}, mode : {"all", "any", "clear"},
                        bad : SUBSET Kinds] : c.bad \subseteq c.ports}
MC_CfgsAll == {Cfg(e, p, l) : e \in BOOLEAN, p \in SUBSET Kinds, l \in {0, 2, 6}}
MC_CfgsOn == {Cfg(TRUE, p, l) : p \in {{"reg"}, {"reg", "obf"}}, l \in {0, 2, 6}}
MC_CfgsLife == {Cfg(e, p, 2) : e \in BOOLEAN, p \in SUBSET Kinds}
MC_CfgsBoth == {Cfg(TRUE, {"reg", "obf"}, l) : l \in {2, 6}}
MC_CfgsShort == {Cfg(TRUE, {"reg", "obf"}, 2), Cfg(TRUE, {"reg"}, 2)}
MC_CfgsIso == {Cfg(TRUE, {"reg", "obf"}, 2)}
MC_CfgsOne == {Cfg(TRUE, {"reg"}, l) : l \in {0, 2, 6}}
E(o, x) == [own |-> o, exp |-> x]
MC_EntriesAll == {NoEntry, E("us", Perm), E("us", 1), E("us", 3), E("us", 5), E("other", Perm), E("other", 2)}
MC_EntriesMid == {NoEntry, E("us", Perm), E("us", 1), E("us", 5), E("other", 2)}
MC_EntriesFew == {NoEntry, E("us", 3), E("other", Perm)}
MC_EntriesNone == {NoEntry}
MC_D0 == {}
MC_D1 == {"d1"}
MC_D2 == {"d1", "d2"}
MC_AvailAll1 == {{"d1"}}
MC_AvailAny1 == {{}, {"d1"}}
MC_AvailAll2 == {{"d1", "d2"}}
MC_AvailAny2 == SUBSET {"d1", "d2"}
MC_Avail0 == {{}}
=============================================================================

SPECIFICATION Spec
CONSTANTS
  Devices <- MC_D1
  InitCfgs <- MC_CfgsBind
  InitEntries <- MC_EntriesNone
  InitAvail <- MC_AvailAll1
  MaxTime = 2
  MaxFaults = 0
  MaxLoss = 0
  MaxFlips = 0
  MaxDials = 2
  StopCancelsJob = TRUE
INVARIANT TypeOK
INVARIANT MappedWhileConnected
INVARIANT KeepsChecking
INVARIANT NoJobWhenDisabledOrDisconnected
INVARIANT NextRunTime
INVARIANT ListeningExact
INVARIANT ErrorModeExact
PROPERTY NoWorkWhenDisabledOrDisconnected
PROPERTY FailureIsolated
PROPERTY IncomingExact
CHECK_DEADLOCK FALSE

SPECIFICATION TSpec
CONSTANTS
  Conns = {"c1", "c2", "c3", "c4"}
  Uploads = {"u1", "u2", "u3"}
  Senders = {"p1", "p2", "x"}
  MsgIds = {1, 2, 3}
  Descs = {"none", "empty", "da", "db"}
  Pics = {"none", "empty", "pa", "pb"}
  MaxSlots = 2
  Vers = {1, 2, 3}
  Dirs = {"a", "b", "nx"}
  Tickets = {7, 8, 9}
  Kinds = {"info", "shares", "dir"}
  UpMoves = {"reject", "cut", "abort"}
  Directs = {"T", "F", "omit"}
  BlockChoices = {{}, {"pm"}, {"info"}, {"shares"}, {"other"}, {"shares", "info"}, {"pm", "other"}, {"pm", "shares", "info", "other"}}
  MaxWin = 3
  InfoGate = "info"
  SharesGate = "shares"
  DirGate = "shares"
  PMGate = "pm"
  AckBlocked = TRUE
  BusyStates = {"INITIALIZING", "UPLOADING"}
  QueuedStates = {"QUEUED"}
  EchoTicket = TRUE
CONSTRAINT NoUnsolicitedReply
CONSTRAINT ReplyEchoesRequest
CONSTRAINT BlockedGetNothing
CONSTRAINT UnblockedGetReply
CONSTRAINT InfoReflectsSettings
CONSTRAINT InfoReflectsTransfers
CONSTRAINT InfoIsOneSnapshot
CONSTRAINT SharesDelegated
CONSTRAINT DirDelegated
CONSTRAINT NoUnsolicitedAck
CONSTRAINT AckAtMostOnce
CONSTRAINT EveryMessageAcked
CONSTRAINT NoUnsolicitedPMEvent
CONSTRAINT EventAtMostOnce
CONSTRAINT EventCarriesFields
CONSTRAINT BlockedSenderSilent
CONSTRAINT UnblockedSenderHeard
CONSTRAINT NoUnsolicitedSpeed
CONSTRAINT SpeedOfThatTransfer
CONSTRAINT EveryRequestAnswered
CONSTRAINT EveryMessageClosed
CONSTRAINT EverySpeedReported
CHECK_DEADLOCK FALSE

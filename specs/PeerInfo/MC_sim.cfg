SPECIFICATION Spec
CONSTANTS
  Conns = {"c1", "c2", "c3", "c4"}
  Uploads = {"u1", "u2", "u3"}
  Senders = {"p1", "p2", "x"}
  MsgIds = {1, 2, 3}
  Descs = {"none", "empty", "da", "db"}
  Pics = {"none", "empty", "pa", "pb"}
  MaxSlots = 2
  Vers = {1, 2, 3}
  Dirs = {"a", "b", "nx"}
  Tickets = {7, 8, 9}
  Kinds = {"info", "shares", "dir"}
  UpMoves = {"reject", "cut", "abort"}
  Directs = {"T", "F", "omit"}
  BlockChoices = {{}, {"pm"}, {"info"}, {"shares"}, {"other"}, {"shares", "info"}, {"pm", "other"}, {"pm", "shares", "info", "other"}}
  MaxWin = 3
  InfoGate = "info"
  SharesGate = "shares"
  DirGate = "shares"
  PMGate = "pm"
  AckBlocked = TRUE
  BusyStates = {"INITIALIZING", "UPLOADING"}
  QueuedStates = {"QUEUED"}
  EchoTicket = TRUE
INVARIANT TypeOK
INVARIANT NoUnsolicitedReply
INVARIANT ReplyEchoesRequest
INVARIANT BlockedGetNothing
INVARIANT UnblockedGetReply
INVARIANT InfoReflectsSettings
INVARIANT InfoReflectsTransfers
INVARIANT InfoIsOneSnapshot
INVARIANT SharesDelegated
INVARIANT DirDelegated
INVARIANT NoUnsolicitedAck
INVARIANT AckAtMostOnce
INVARIANT EveryMessageAcked
INVARIANT NoUnsolicitedPMEvent
INVARIANT EventAtMostOnce
INVARIANT EventCarriesFields
INVARIANT BlockedSenderSilent
INVARIANT UnblockedSenderHeard
INVARIANT NoUnsolicitedSpeed
INVARIANT SpeedOfThatTransfer
INVARIANT EveryRequestAnswered
INVARIANT EveryMessageClosed
INVARIANT EverySpeedReported
CHECK_DEADLOCK FALSE

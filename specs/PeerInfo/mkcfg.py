#!/usr/bin/env python3
"""Writes the TLC configurations of PeerInfo (run once by hand; the .cfg files are what is checked in)."""
import os
HERE = os.path.dirname(os.path.abspath(__file__))
ORDER = ['Conns', 'Uploads', 'Senders', 'MsgIds', 'Descs', 'Pics', 'MaxSlots', 'Vers', 'Dirs', 'Tickets', 'Kinds', 'UpMoves', 'Directs',
         'BlockChoices', 'MaxWin', 'InfoGate', 'SharesGate', 'DirGate', 'PMGate', 'AckBlocked', 'BusyStates', 'QueuedStates',
         'EchoTicket']
PROPS = '''TypeOK NoUnsolicitedReply ReplyEchoesRequest BlockedGetNothing UnblockedGetReply InfoReflectsSettings
InfoReflectsTransfers InfoIsOneSnapshot SharesDelegated DirDelegated NoUnsolicitedAck AckAtMostOnce EveryMessageAcked
NoUnsolicitedPMEvent EventAtMostOnce EventCarriesFields BlockedSenderSilent UnblockedSenderHeard NoUnsolicitedSpeed
SpeedOfThatTransfer EveryRequestAnswered EveryMessageClosed EverySpeedReported'''.split()
CODE = dict(InfoGate='"info"', SharesGate='"shares"', DirGate='"shares"', PMGate='"pm"', AckBlocked='TRUE',
            BusyStates='{"INITIALIZING", "UPLOADING"}', QueuedStates='{"QUEUED"}', EchoTicket='TRUE')
ALL = '{"pm", "shares", "info", "other"}'
NONE = dict(Conns='{}', Uploads='{}', Senders='{}', MsgIds='{1}', Descs='{"none"}', Pics='{"none"}', MaxSlots=0, Vers='{1}',
            Dirs='{"a"}', Tickets='{7}', Kinds='{}', UpMoves='{"reject", "cut", "abort"}', Directs='{"T"}', BlockChoices='{{}}', MaxWin=1)


def cfg(name, kind='model', **kw):
    d = dict(NONE)
    d.update(CODE)
    d.update(kw)
    with open(os.path.join(HERE, name), 'w') as fh:
        if kind == 'model':
            fh.write('SPECIFICATION Spec\nCONSTANTS\n')
        else:
            fh.write('SPECIFICATION TSpec\nCONSTANTS\n')
        for k in ORDER:
            fh.write(f'  {k} = {d[k]}\n')
        for p in PROPS:
            if kind != 'model' and p == 'TypeOK':
                continue
            if kind == 'trace':
                fh.write(f'CONSTRAINT {p}\n')
            else:
                fh.write(f'INVARIANT {p}\n')
        fh.write('CHECK_DEADLOCK TRUE\n' if kind == 'diag' else 'CHECK_DEADLOCK FALSE\n')


INFO = dict(Conns='{"c1"}', Descs='{"none", "empty", "da", "db"}', Pics='{"none", "empty", "pa"}', Kinds='{"info"}',
            BlockChoices='{{}, {"info"}, {"shares"}, %s}' % ALL, MaxWin=2)
SLOTS = dict(Conns='{"c1"}', Uploads='{"u1", "u2"}', MaxSlots=2, Kinds='{"info"}', MaxWin=1)
SHARES = dict(Conns='{"c1", "c2"}', Vers='{1, 2, 3}', Dirs='{"a", "nx"}', Kinds='{"shares", "dir"}',
              BlockChoices='{{}, {"info"}, {"shares"}, %s}' % ALL, MaxWin=1)
PM = dict(Senders='{"p1", "x"}', MsgIds='{1, 2}', Directs='{"T", "F", "omit"}',
          BlockChoices='{{}, {"pm"}, {"info"}, {"pm", "other"}}', MaxWin=2)
cfg('MC_info.cfg', **INFO)
cfg('MC_slots.cfg', **SLOTS)
cfg('MC_shares.cfg', **SHARES)
cfg('MC_pm.cfg', **PM)
# everything at once, small domains: the parts do not disturb each other (thorough)
MIX = dict(Conns='{"c1"}', Uploads='{"u1"}', Senders='{"p1"}', MsgIds='{1}', Descs='{"none", "da"}', Pics='{"none"}',
           MaxSlots=1, Vers='{1, 3}', Dirs='{"a"}', Tickets='{7}', Kinds='{"info", "shares", "dir"}', Directs='{"T"}',
           BlockChoices='{{}, {"info"}, {"shares"}, {"pm"}}', MaxWin=1)
cfg('MC_mix.cfg', **MIX)
# thorough: one notch up
cfg('MC_info_big.cfg', **dict(INFO, Conns='{"c1", "c3"}', MaxWin=2))
cfg('MC_slots_big.cfg', **dict(SLOTS, Uploads='{"u1", "u2", "u3"}', MaxSlots=2, MaxWin=2))
cfg('MC_shares_big.cfg', **dict(SHARES, Conns='{"c1", "c2"}', Dirs='{"a", "b", "nx"}', Tickets='{7, 8}', MaxWin=2))
cfg('MC_pm_big.cfg', **dict(PM, Senders='{"p1", "p2", "x"}', MsgIds='{1, 2, 3}',
                            BlockChoices='{{}, {"pm"}, {"info"}, {"shares"}, {"other"}, {"pm", "other"}, %s}' % ALL, MaxWin=3))
# behaviours for the replay: everything on, the full vocabulary (simulation only, never enumerated)
SIM = dict(Conns='{"c1", "c2", "c3", "c4"}', Uploads='{"u1", "u2", "u3"}', Senders='{"p1", "p2", "x"}', MsgIds='{1, 2, 3}',
           Descs='{"none", "empty", "da", "db"}', Pics='{"none", "empty", "pa", "pb"}', MaxSlots=2, Vers='{1, 2, 3}',
           Dirs='{"a", "b", "nx"}', Tickets='{7, 8, 9}', Kinds='{"info", "shares", "dir"}', Directs='{"T", "F", "omit"}',
           BlockChoices='{{}, {"pm"}, {"info"}, {"shares"}, {"other"}, {"shares", "info"}, {"pm", "other"}, %s}' % ALL, MaxWin=3)
cfg('MC_sim.cfg', **SIM)
# behaviours with many uploads that complete, fail and are asked for again (simulation only)
cfg('MC_sim_up.cfg', **dict(SIM, Conns='{"c2"}', Senders='{}', Kinds='{"info"}', Descs='{"none"}', Pics='{"none"}', Vers='{1}',
                            UpMoves='{"cut"}', BlockChoices='{{}}', MaxWin=1))
# design-level mutants: the deviation switches out of the documented position; each must violate the named property
DEV = dict(Conns='{"c1"}', Uploads='{"u1"}', Senders='{"p1"}', MsgIds='{1}', Descs='{"none", "da"}', Pics='{"none"}', MaxSlots=1,
           Vers='{1}', Dirs='{"a"}', Tickets='{7}', Kinds='{"info", "shares", "dir"}', Directs='{"T"}',
           BlockChoices='{{}, {"info"}, {"shares"}, {"pm"}, {"other"}}', MaxWin=1)
cfg('MC_dev_infogate.cfg', **dict(DEV, InfoGate='"shares"'))
cfg('MC_dev_dirgate.cfg', **dict(DEV, DirGate='"info"'))
cfg('MC_dev_pmgate.cfg', **dict(DEV, PMGate='"other"'))
cfg('MC_dev_ack.cfg', **dict(DEV, AckBlocked='FALSE'))
cfg('MC_dev_busy.cfg', **dict(DEV, BusyStates='{"UPLOADING"}'))
cfg('MC_dev_queued.cfg', **dict(DEV, QueuedStates='{"QUEUED", "INITIALIZING"}'))
cfg('MC_dev_ticket.cfg', **dict(DEV, EchoTicket='FALSE'))
# the code's position of QueuedStates (observation queue-size-always-zero): nothing is ever counted
cfg('MC_code_queue.cfg', **dict(DEV, QueuedStates='{}'))
# trace validation: the full vocabulary
cfg('Trace.cfg', kind='trace', **SIM)
cfg('TraceDiag.cfg', kind='diag', **SIM)

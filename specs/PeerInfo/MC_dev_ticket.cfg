SPECIFICATION Spec
CONSTANTS
  Conns = {"c1"}
  Uploads = {"u1"}
  Senders = {"p1"}
  MsgIds = {1}
  Descs = {"none", "da"}
  Pics = {"none"}
  MaxSlots = 1
  Vers = {1}
  Dirs = {"a"}
  Tickets = {7}
  Kinds = {"info", "shares", "dir"}
  UpMoves = {"reject", "cut", "abort"}
  Directs = {"T"}
  BlockChoices = {{}, {"info"}, {"shares"}, {"pm"}, {"other"}}
  MaxWin = 1
  InfoGate = "info"
  SharesGate = "shares"
  DirGate = "shares"
  PMGate = "pm"
  AckBlocked = TRUE
  BusyStates = {"INITIALIZING", "UPLOADING"}
  QueuedStates = {"QUEUED"}
  EchoTicket = FALSE
INVARIANT TypeOK
INVARIANT NoUnsolicitedReply
INVARIANT ReplyEchoesRequest
INVARIANT BlockedGetNothing
INVARIANT UnblockedGetReply
INVARIANT InfoReflectsSettings
INVARIANT InfoReflectsTransfers
INVARIANT InfoIsOneSnapshot
INVARIANT SharesDelegated
INVARIANT DirDelegated
INVARIANT NoUnsolicitedAck
INVARIANT AckAtMostOnce
INVARIANT EveryMessageAcked
INVARIANT NoUnsolicitedPMEvent
INVARIANT EventAtMostOnce
INVARIANT EventCarriesFields
INVARIANT BlockedSenderSilent
INVARIANT UnblockedSenderHeard
INVARIANT NoUnsolicitedSpeed
INVARIANT SpeedOfThatTransfer
INVARIANT EveryRequestAnswered
INVARIANT EveryMessageClosed
INVARIANT EverySpeedReported
CHECK_DEADLOCK FALSE

------------------------------ MODULE PeerInfo ------------------------------
(***************************************************************************)
(* X03 (beyond the listed properties) - what the client tells other peers   *)
(* about itself, and the private message path.                              *)
(*                                                                         *)
(*   src/aioslsk/peer.py          PeerManager._on_peer_user_info_request,   *)
(*                                _on_peer_shares_request,                  *)
(*                                _on_peer_directory_contents_req           *)
(*   src/aioslsk/user/manager.py  UserManager._on_private_message           *)
(*   src/aioslsk/transfer/manager.py  get_upload_slots / get_queue_size /   *)
(*                                has_slots_free, SendUploadSpeed after a   *)
(*                                completed upload (_initialize_upload)     *)
(*                                                                         *)
(* Documentation the properties are written from:                           *)
(*   docs/source/SETTINGS.rst  credentials.info.description / picture       *)
(*       "will be returned when a peer request info on you"                 *)
(*   docs/source/USAGE.rst     "Blocking Users" (changes are picked up      *)
(*       automatically) + user/model.py BlockingFlag docstrings:            *)
(*       PRIVATE_MESSAGES "blocks private messages sent by the user",       *)
(*       SHARES "blocks shares, directory listing requests", INFO           *)
(*   USAGE.rst "Setting Transfer Limits" (upload_slots = maximum amount of  *)
(*       uploads at a time), "Possible States" (QUEUED = waiting to be      *)
(*       processed; INITIALIZING / UPLOADING = being started / uploaded)    *)
(*   protocol/messages.py docstrings: PeerUserInfoReply, PeerSharesReply,   *)
(*       PeerDirectoryContentsReply (ticket, directory of the request),     *)
(*       PrivateChatMessage / PrivateChatMessageAck ("if the acknowledge-   *)
(*       ment is not sent the server will repeat the message"),             *)
(*       SendUploadSpeed ("sent right after an upload completed ... the     *)
(*       upload speed for that particular transfer", bytes per second)      *)
(*   shares/manager.py create_directory_reply: a directory that is not      *)
(*       shared is answered with an empty list (still answered)             *)
(*                                                                         *)
(* Variables are the abstract state those statements talk about.  Every     *)
(* request remembers the set `acc` of outcomes the documentation allows     *)
(* for some moment between its arrival and now (a request is a read: it     *)
(* must be answered from ONE moment of its window); every private message   *)
(* remembers whether its sender was blocked at some moment of its window.   *)
(* What the implementation did is a parameter of the generic actions        *)
(* (Serve(c, out), Ack(i), PMEvent(..), Speed(u, v), SpuriousX): the design *)
(* model instantiates them with what the code computes (CodeX, with named   *)
(* deviation switches), the trace spec with what was observed.  The         *)
(* properties only look at `last` (what was just told) against the          *)
(* documentation-level definitions (DocX).                                   *)
(***************************************************************************)
EXTENDS Naturals, Sequences, FiniteSets, TLC

CONSTANTS
  Conns,        \* peer connections on which requests arrive (subset of c1..c4)
  Uploads,      \* uploads that may exist (subset of u1..u3)
  Senders,      \* users that send private messages
  MsgIds,       \* chat ids the server uses
  Descs, Pics,  \* values of credentials.info.description / picture: "none" (unset), "empty", others
  MaxSlots,     \* transfers.limits.upload_slots ranges over 0..MaxSlots
  Vers,         \* share configurations (abstract)
  Dirs,         \* directories asked for (abstract keys)
  Tickets,      \* tickets of directory requests
  Kinds,        \* kinds of requests the peers make: subset of {"info", "shares", "dir"}
  UpMoves,      \* what else happens to uploads in the design model: subset of {"reject", "cut", "abort"}
  Directs,      \* is_direct flag of a private message: "T", "F", "omit" (old servers leave it out)
  BlockChoices, \* sets of blocking flags a user can be given
  MaxWin,       \* a request / message in flight sees at most MaxWin changes of the state (bounds the model)
  \* --- the code's position of the deviation switches (documentation: "info", "shares", "pm", ...)
  InfoGate,     \* flag consulted before answering PeerUserInfoRequest
  SharesGate,   \* ... PeerSharesRequest
  DirGate,      \* ... PeerDirectoryContentsRequest
  PMGate,       \* ... before reporting a private message
  AckBlocked,   \* TRUE: messages of blocked senders are acknowledged too
  BusyStates,   \* upload states that occupy a slot
  QueuedStates, \* upload states counted in queue_size (the code is at {} - observation queue-size-always-zero,
                \* MC_code_queue.cfg; the models are checked with the documented {"QUEUED"})
  EchoTicket    \* TRUE: the directory reply carries the ticket of the request

Owner(c)   == CASE c = "c1" -> "p1" [] c = "c2" -> "p2" [] c = "c3" -> "p1" [] c = "c4" -> "p3"
UpOwner(u) == CASE u = "u1" -> "p1" [] u = "u2" -> "p2" [] u = "u3" -> "p3"
Peers == {Owner(c) : c \in Conns} \cup {UpOwner(u) : u \in Uploads}
Users == Peers \cup Senders
Flags == {"pm", "shares", "info", "other"}
UpStates == {"none", "QUEUED", "INITIALIZING", "UPLOADING", "COMPLETE", "FAILED", "ABORTED", "PAUSED"}

VARIABLES
  desc, pic, slots,   \* settings
  blk,                \* [Users -> SUBSET Flags]  settings.users.blocked
  up,                 \* [Uploads -> UpStates]
  shview, dview,      \* what the shares manager answers now: [Peers -> digest], [Peers -> [Dirs -> digest]] (0 = not constrained)
  pend,               \* [Conns -> NoReq | request]  the request being handled on each connection
  pms,                \* sequence of private messages received and not yet closed
  due,                \* [Uploads -> Nat]   completed uploads whose speed report is still owed
  spd,                \* [Uploads -> [bytes, lo, hi]] size and duration (ms, lower / upper) of the last completed run
  last                \* what was just told / decided (the properties look at this)

vars == <<desc, pic, slots, blk, up, shview, dview, pend, pms, due, spd, last>>
base == <<desc, pic, slots, blk, up, shview, dview>>

NoReq   == [kind |-> "none"]
Nothing == [kind |-> "nothing"]
Quiet0  == [t |-> "none"]

St == [desc |-> desc, pic |-> pic, slots |-> slots, blk |-> blk, up |-> up, shview |-> shview, dview |-> dview]

----------------------------------------------------------------------------
(* Documentation-level definitions                                          *)

\* an unset and an empty description / picture are both "nothing to show"
Text(d) == IF d \in {"none", "empty"} THEN "empty" ELSE d

DocInfo(s) ==
  [kind |-> "info", desc |-> Text(s.desc), pic |-> Text(s.pic), slots |-> s.slots,
   q    |-> Cardinality({u \in Uploads : s.up[u] = "QUEUED"}),
   free |-> Cardinality({u \in Uploads : s.up[u] \in {"INITIALIZING", "UPLOADING"}}) < s.slots]

DocOutcome(r, p, s) ==
  CASE r.kind = "info"   -> IF "info" \in s.blk[p] THEN Nothing ELSE DocInfo(s)
    [] r.kind = "shares" -> IF "shares" \in s.blk[p] THEN Nothing ELSE [kind |-> "shares", dg |-> s.shview[p]]
    [] r.kind = "dir"    -> IF "shares" \in s.blk[p] THEN Nothing
                            ELSE [kind |-> "dir", tk |-> r.tk, dir |-> r.dir, dg |-> s.dview[p][r.dir]]

\* bytes per second of one transfer, as an integer: floor(bytes / duration), the duration known to lie in
\* [lo, hi] milliseconds:  v * lo <= bytes * 1000 < (v + 1) * hi, written with divisions (no overflow for any v)
SpeedOK(v, m) ==
  \/ m.hi = 0
  \/ /\ v >= (m.bytes * 1000) \div m.hi
     /\ m.lo = 0 \/ v <= (m.bytes * 1000) \div m.lo

----------------------------------------------------------------------------
(* What the code computes (peer.py:64-80, 113-143, 160-186; transfer/manager.py:384-401) *)

CodeInfo(s) ==
  [kind |-> "info", desc |-> Text(s.desc), pic |-> Text(s.pic), slots |-> s.slots,
   q    |-> Cardinality({u \in Uploads : s.up[u] \in QueuedStates}),
   free |-> Cardinality({u \in Uploads : s.up[u] \in BusyStates}) < s.slots]

CodeOutcome(r, p, s) ==
  CASE r.kind = "info"   -> IF InfoGate \in s.blk[p] THEN Nothing ELSE CodeInfo(s)
    [] r.kind = "shares" -> IF SharesGate \in s.blk[p] THEN Nothing ELSE [kind |-> "shares", dg |-> s.shview[p]]
    [] r.kind = "dir"    -> IF DirGate \in s.blk[p] THEN Nothing
                            ELSE [kind |-> "dir", tk |-> IF EchoTicket THEN r.tk ELSE 0, dir |-> r.dir,
                                  dg |-> s.dview[p][r.dir]]

----------------------------------------------------------------------------
\* the design model's share configurations: version 3 has a directory only p1 may see
ViewOf(v) == [p \in Peers |-> IF v = 3 /\ p # "p1" THEN 30 ELSE v]
DViewOf(v) == [p \in Peers |-> [d \in Dirs |-> IF d = "nx" THEN 9 ELSE IF d = "b" /\ v = 3 /\ p # "p1" THEN 0 ELSE v]]

Init ==
  /\ desc \in Descs /\ pic \in Pics /\ slots \in 0..MaxSlots
  /\ blk = [u \in Users |-> {}]
  /\ up = [u \in Uploads |-> "none"]
  /\ \E v \in Vers : shview = ViewOf(v) /\ dview = DViewOf(v)
  /\ pend = [c \in Conns |-> NoReq]
  /\ pms = <<>>
  /\ due = [u \in Uploads |-> 0]
  /\ spd = [u \in Uploads |-> [bytes |-> 0, lo |-> 0, hi |-> 0]]
  /\ last = Quiet0

\* every change of the state widens the window of what is in flight (s = the state after the change)
Track(s) ==
  /\ pend' = [c \in Conns |-> IF pend[c] = NoReq THEN NoReq
                              ELSE [pend[c] EXCEPT !.acc = @ \cup {DocOutcome(pend[c], Owner(c), s)}, !.age = @ + 1]]
  /\ pms' = IF pms = <<>> THEN <<>>
             ELSE [k \in 1..Len(pms) |-> [pms[k] EXCEPT !.seen = @ \cup {"pm" \in s.blk[pms[k].from]}, !.age = @ + 1]]

\* --- the application changes its settings (settings objects are plain attributes: immediate) ---
SetDesc(d) ==
  /\ d # desc
  /\ desc' = d
  /\ Track([St EXCEPT !.desc = d])
  /\ UNCHANGED <<pic, slots, blk, up, shview, dview, due, spd>> /\ last' = Quiet0

SetPic(p) ==
  /\ p # pic
  /\ pic' = p
  /\ Track([St EXCEPT !.pic = p])
  /\ UNCHANGED <<desc, slots, blk, up, shview, dview, due, spd>> /\ last' = Quiet0

SetSlots(k) ==
  /\ k # slots
  /\ slots' = k
  /\ Track([St EXCEPT !.slots = k])
  /\ UNCHANGED <<desc, pic, blk, up, shview, dview, due, spd>> /\ last' = Quiet0

Block(u, fs) ==
  /\ fs # blk[u]
  /\ blk' = [blk EXCEPT ![u] = fs]
  /\ Track([St EXCEPT !.blk = blk'])
  /\ UNCHANGED <<desc, pic, slots, up, shview, dview, due, spd>> /\ last' = Quiet0

\* the shared directories change: the shares manager now answers sv / dv
ShareChange(sv, dv) ==
  /\ <<sv, dv>> # <<shview, dview>>
  /\ shview' = sv /\ dview' = dv
  /\ Track([St EXCEPT !.shview = sv, !.dview = dv])
  /\ UNCHANGED <<desc, pic, slots, blk, up, due, spd>> /\ last' = Quiet0

\* --- uploads: any change of an upload's state (which changes happen when is C03 / C05's subject) ---
UpChange(u, s, m) ==
  /\ up' = [up EXCEPT ![u] = s]
  /\ IF s = "COMPLETE"
       THEN due' = [due EXCEPT ![u] = @ + 1] /\ spd' = [spd EXCEPT ![u] = m]
       ELSE UNCHANGED <<due, spd>>
  /\ Track([St EXCEPT !.up = up'])
  /\ UNCHANGED <<desc, pic, slots, blk, shview, dview>> /\ last' = Quiet0

Busy == {u \in Uploads : up[u] \in {"INITIALIZING", "UPLOADING"}}
NoMeta == [bytes |-> 0, lo |-> 0, hi |-> 0]
Metas == {[bytes |-> 3000, lo |-> 1500, hi |-> 1500], [bytes |-> 1000, lo |-> 249, hi |-> 250]}

\* the design model's environment: a peer asks for a file, the library starts it when a slot is free,
\* the peer accepts / refuses / reads to the end / goes away, the application aborts
UpEnqueue(u) == up[u] \in {"none", "COMPLETE", "FAILED"} /\ UpChange(u, "QUEUED", NoMeta)
UpStart(u)   == up[u] = "QUEUED" /\ Cardinality(Busy) < slots /\ UpChange(u, "INITIALIZING", NoMeta)
UpAccept(u)  == up[u] = "INITIALIZING" /\ UpChange(u, "UPLOADING", NoMeta)
UpReject(u)  == up[u] = "INITIALIZING" /\ UpChange(u, "FAILED", NoMeta)
UpFinish(u)  == up[u] = "UPLOADING" /\ \E m \in Metas : UpChange(u, "COMPLETE", m)
UpCut(u)     == up[u] = "UPLOADING" /\ UpChange(u, "FAILED", NoMeta)
UpAbort(u)   == up[u] \in {"QUEUED", "INITIALIZING", "UPLOADING"} /\ UpChange(u, "ABORTED", NoMeta)

\* --- peer requests -----------------------------------------------------------------------------
\* a request frame has been read from connection c (connection.py:324-352: one at a time per connection)
\* h: the environment holds the request back before the library's handlers see it (a listener of the
\* application that is told first and takes its time)
Arrive(c, kind, tk, dir, h) ==
  /\ pend[c] = NoReq
  /\ pend' = [pend EXCEPT ![c] = [kind |-> kind, tk |-> tk, dir |-> dir, age |-> 0, held |-> h,
                                   acc |-> {DocOutcome([kind |-> kind, tk |-> tk, dir |-> dir], Owner(c), St)}]]
  /\ last' = Quiet0
  /\ UNCHANGED <<base, pms, due, spd>>

Release(c) ==
  /\ pend[c] # NoReq /\ pend[c].held
  /\ pend' = [pend EXCEPT ![c].held = FALSE]
  /\ last' = Quiet0
  /\ UNCHANGED <<base, pms, due, spd>>

\* the handler ran: `out` went out on connection c (or Nothing)
Serve(c, out) ==
  /\ pend[c] # NoReq
  /\ last' = [t |-> "served", c |-> c, req |-> pend[c], out |-> out]
  /\ pend' = [pend EXCEPT ![c] = NoReq]
  /\ UNCHANGED <<base, pms, due, spd>>

\* a reply frame on a connection without a request in progress
SpuriousReply(c, out) ==
  /\ pend[c] = NoReq
  /\ last' = [t |-> "spurious_reply", c |-> c, out |-> out]
  /\ UNCHANGED <<base, pend, pms, due, spd>>

\* --- private messages ----------------------------------------------------------------------------
\* h: the environment holds back the flush of what the client writes to the server (back-pressure)
PMRecv(i, s, d, ts, tx, h) ==
  /\ pms' = Append(pms, [id |-> i, from |-> s, direct |-> d, ts |-> ts, tx |-> tx, held |-> h,
                         acks |-> 0, evs |-> 0, age |-> 0, seen |-> {"pm" \in blk[s]}])
  /\ last' = Quiet0
  /\ UNCHANGED <<base, pend, due, spd>>

PMRelease ==
  /\ \E k \in DOMAIN pms : pms[k].held
  /\ pms' = [k \in 1..Len(pms) |-> [pms[k] EXCEPT !.held = FALSE]]
  /\ last' = Quiet0
  /\ UNCHANGED <<base, pend, due, spd>>

\* the message an acknowledgement / an event with chat id i is attributed to: the oldest open message with
\* that id that still lacks one (for an event: one that it describes, if there is one), else - one too many -
\* the oldest with that id
Lacking(i, f) == {k \in DOMAIN pms : pms[k].id = i /\ pms[k][f] = 0}
WithId(i) == {k \in DOMAIN pms : pms[k].id = i}
Min(S) == CHOOSE x \in S : \A y \in S : x <= y
Targets(i, f) == IF Lacking(i, f) # {} THEN Lacking(i, f) ELSE {Min(WithId(i))}

Ack(i) ==
  /\ WithId(i) # {}
  /\ LET k == Min(Targets(i, "acks")) IN
       /\ pms' = [pms EXCEPT ![k].acks = @ + 1]
       /\ last' = [t |-> "ack", msg |-> pms'[k]]
  /\ UNCHANGED <<base, pend, due, spd>>

SpuriousAck(i) ==
  /\ WithId(i) = {}
  /\ last' = [t |-> "spurious_ack", id |-> i]
  /\ UNCHANGED <<base, pend, pms, due, spd>>

\* PrivateMessageEvent seen on the bus with these fields
PMEvent(i, s, d, ts, tx) ==
  /\ WithId(i) # {}
  /\ LET match == {k \in Lacking(i, "evs") : /\ pms[k].from = s /\ pms[k].ts = ts /\ pms[k].tx = tx
                                              /\ (pms[k].direct = "T") = d}
         k == IF match # {} THEN Min(match) ELSE Min(Targets(i, "evs"))
     IN
       /\ pms' = [pms EXCEPT ![k].evs = @ + 1]
       /\ last' = [t |-> "pmev", msg |-> pms'[k], ev |-> [id |-> i, from |-> s, direct |-> d, ts |-> ts, tx |-> tx]]
  /\ UNCHANGED <<base, pend, due, spd>>

SpuriousPMEvent(i) ==
  /\ WithId(i) = {}
  /\ last' = [t |-> "spurious_pmev", id |-> i]
  /\ UNCHANGED <<base, pend, pms, due, spd>>

\* the handler of the oldest open message has returned
PMClose ==
  /\ pms # <<>>
  /\ last' = [t |-> "pmclosed", msg |-> Head(pms)]
  /\ pms' = Tail(pms)
  /\ UNCHANGED <<base, pend, due, spd>>

\* --- upload speed report -------------------------------------------------------------------------
Speed(u, v) ==
  /\ due[u] > 0
  /\ due' = [due EXCEPT ![u] = @ - 1]
  /\ last' = [t |-> "speed", u |-> u, v |-> v, m |-> spd[u]]
  /\ UNCHANGED <<base, pend, pms, spd>>

SpuriousSpeed(v) ==
  /\ \A u \in Uploads : due[u] = 0
  /\ last' = [t |-> "spurious_speed", v |-> v]
  /\ UNCHANGED <<base, pend, pms, due, spd>>

\* --- quiescence: nothing is running in the client (what the environment holds back is not owed yet)
Quiet ==
  /\ last' = [t |-> "quiet",
              unanswered |-> {c \in Conns : pend[c] # NoReq /\ ~pend[c].held},
              unclosed   |-> Cardinality({k \in DOMAIN pms : ~pms[k].held}),
              unreported |-> {u \in Uploads : due[u] > 0}]
  /\ UNCHANGED <<base, pend, pms, due, spd>>

----------------------------------------------------------------------------
(* The design model: the generic actions instantiated with what the code does *)

\* peer.py: the handler reads the settings / the transfer manager and writes the reply in one piece
CServe(c) == pend[c] # NoReq /\ ~pend[c].held /\ Serve(c, CodeOutcome(pend[c], Owner(c), St))

\* user/manager.py:300-327 - the acknowledgement is written first, the block list is looked at after the
\* write has been flushed; the reader loop handles one message at a time
CPMRecv(i, s, d, h) == pms = <<>> /\ PMRecv(i, s, d, 1, 1, h)
CAck ==
  /\ pms # <<>> /\ Head(pms).acks = 0
  /\ AckBlocked \/ PMGate \notin blk[Head(pms).from]
  /\ Ack(Head(pms).id)
Acked(m) == m.acks = 1 \/ (~AckBlocked /\ PMGate \in blk[m.from])
CPMEvent ==
  /\ pms # <<>> /\ Acked(Head(pms)) /\ ~Head(pms).held /\ Head(pms).evs = 0
  /\ PMGate \notin blk[Head(pms).from]
  /\ PMEvent(Head(pms).id, Head(pms).from, Head(pms).direct = "T", Head(pms).ts, Head(pms).tx)
CPMClose ==
  /\ pms # <<>> /\ Acked(Head(pms)) /\ ~Head(pms).held
  /\ Head(pms).evs = 1 \/ PMGate \in blk[Head(pms).from]
  /\ PMClose

\* transfer/manager.py:1003-1009
CSpeed(u) == Speed(u, IF spd[u].lo = 0 THEN 0 ELSE (spd[u].bytes * 1000) \div spd[u].lo)

\* The environment (application, peers, server) acts when the client has nothing left to do - that is how
\* the harness drives the real client - and what it holds back sees at most MaxWin changes.
Internal ==
  \/ \E u \in Uploads : due[u] > 0
  \/ \E c \in Conns : pend[c] # NoReq /\ ~pend[c].held
  \/ pms # <<>> /\ (~Acked(Head(pms)) \/ ~Head(pms).held)
WinOK ==
  /\ \A c \in Conns : pend[c] # NoReq => pend[c].age < MaxWin
  /\ \A k \in DOMAIN pms : pms[k].age < MaxWin
Env == ~Internal
Chg == ~Internal /\ WinOK

\* the design model looks at quiescence right after the client finished something
CQuiet == ~Internal /\ last.t \in {"served", "pmclosed", "speed"} /\ Quiet

\* named per stimulus, so that coverage and behaviour labels carry them
ESetDesc(d) == Chg /\ SetDesc(d)
ESetPic(p) == Chg /\ SetPic(p)
ESetSlots(k) == Chg /\ SetSlots(k)
EBlock(u, fs) == Chg /\ Block(u, fs)
EShares(v) == Chg /\ ShareChange(ViewOf(v), DViewOf(v))
EUpEnqueue(u) == Chg /\ UpEnqueue(u)
LUpStart(u) == Chg /\ UpStart(u)
EUpAccept(u) == Chg /\ UpAccept(u)
EUpReject(u) == Chg /\ "reject" \in UpMoves /\ UpReject(u)
EUpFinish(u) == Chg /\ UpFinish(u)
EUpCut(u) == Chg /\ "cut" \in UpMoves /\ UpCut(u)
EUpAbort(u) == Chg /\ "abort" \in UpMoves /\ UpAbort(u)
EArrive(c, k, tk, d, h) == Env /\ Arrive(c, k, tk, d, h)
ERelease(c) == Env /\ Release(c)
EPMRecv(i, s, d, h) == Env /\ CPMRecv(i, s, d, h)
EPMRelease == Env /\ PMRelease

Next ==
  \/ \E d \in Descs : ESetDesc(d)
  \/ \E p \in Pics : ESetPic(p)
  \/ \E k \in 0..MaxSlots : ESetSlots(k)
  \/ \E u \in Users, fs \in BlockChoices : EBlock(u, fs)
  \/ \E v \in Vers : EShares(v)
  \/ \E u \in Uploads : EUpEnqueue(u) \/ LUpStart(u) \/ EUpAccept(u) \/ EUpReject(u) \/ EUpFinish(u) \/ EUpCut(u) \/ EUpAbort(u)
  \/ \E c \in Conns, k \in Kinds \ {"dir"}, h \in BOOLEAN : EArrive(c, k, 0, "none", h)
  \/ \E c \in Conns, tk \in Tickets, d \in (IF "dir" \in Kinds THEN Dirs ELSE {}), h \in BOOLEAN : EArrive(c, "dir", tk, d, h)
  \/ \E c \in Conns : ERelease(c)
  \/ \E i \in MsgIds, s \in Senders, d \in Directs, h \in BOOLEAN : EPMRecv(i, s, d, h)
  \/ EPMRelease
  \/ \E c \in Conns : CServe(c)
  \/ CAck \/ CPMEvent \/ CPMClose
  \/ \E u \in Uploads : CSpeed(u)
  \/ CQuiet

Spec == Init /\ [][Next]_vars

----------------------------------------------------------------------------
(* Properties - one line each, from the documentation                       *)

Served == last.t = "served"
Replied == Served /\ last.out # Nothing

\* a reply frame answers a request in progress on that very connection (and there is one reply per
\* request: the request is no longer in progress after its reply)
NoUnsolicitedReply == last.t # "spurious_reply"

\* the reply is of the kind asked for; a directory reply carries the ticket and directory of the request
ReplyEchoesRequest ==
  Replied => /\ last.out.kind = last.req.kind
             /\ last.req.kind = "dir" => (last.out.tk = last.req.tk /\ last.out.dir = last.req.dir)

\* a user blocked (for info / shares) during the whole window gets nothing
BlockedGetNothing == Replied => \E a \in last.req.acc : a # Nothing
\* a user not blocked during the whole window gets a reply
UnblockedGetReply == (Served /\ last.out = Nothing) => Nothing \in last.req.acc

\* description and picture are the configured ones (at some moment of the window)
InfoReflectsSettings ==
  (Replied /\ last.out.kind = "info" /\ last.req.kind = "info") =>
     \E a \in last.req.acc \ {Nothing} : a.desc = last.out.desc /\ a.pic = last.out.pic
\* slots / queue size / free slot are the transfer manager's at some moment of the window
InfoReflectsTransfers ==
  (Replied /\ last.out.kind = "info" /\ last.req.kind = "info") =>
     \E a \in last.req.acc \ {Nothing} : a.slots = last.out.slots /\ a.q = last.out.q /\ a.free = last.out.free
\* ... and all of it at one and the same moment
InfoIsOneSnapshot ==
  (Replied /\ last.out.kind = "info" /\ last.req.kind = "info") => last.out \in last.req.acc

\* shares / directory replies are what the shares manager answers for that user (0 = not constrained here)
SharesDelegated ==
  (Replied /\ last.out.kind = "shares" /\ last.req.kind = "shares") =>
     \E a \in last.req.acc \ {Nothing} : a.dg = last.out.dg
DirDelegated ==
  (Replied /\ last.out.kind = "dir" /\ last.req.kind = "dir") =>
     \E a \in last.req.acc \ {Nothing} : a.dg = 0 \/ a.dg = last.out.dg

\* private messages
NoUnsolicitedAck == last.t # "spurious_ack"
AckAtMostOnce == last.t = "ack" => last.msg.acks <= 1
EveryMessageAcked == last.t = "pmclosed" => last.msg.acks = 1
NoUnsolicitedPMEvent == last.t # "spurious_pmev"
EventAtMostOnce == last.t = "pmev" => last.msg.evs <= 1
EventCarriesFields ==
  last.t = "pmev" => /\ last.ev.from = last.msg.from
                     /\ last.ev.direct = (last.msg.direct = "T")     \* an omitted flag means "not direct"
                     /\ last.ev.ts = last.msg.ts /\ last.ev.tx = last.msg.tx
BlockedSenderSilent == last.t = "pmev" => FALSE \in last.msg.seen
UnblockedSenderHeard == (last.t = "pmclosed" /\ last.msg.evs = 0) => TRUE \in last.msg.seen

\* upload speed
NoUnsolicitedSpeed == last.t # "spurious_speed"
SpeedOfThatTransfer == last.t = "speed" => SpeedOK(last.v, last.m)

\* at quiescence nothing is owed
EveryRequestAnswered == last.t = "quiet" => last.unanswered = {}
EveryMessageClosed == last.t = "quiet" => last.unclosed = 0
EverySpeedReported == last.t = "quiet" => last.unreported = {}

TypeOK ==
  /\ desc \in Descs /\ pic \in Pics /\ slots \in 0..MaxSlots
  /\ \A u \in Users : blk[u] \subseteq Flags
  /\ \A u \in Uploads : up[u] \in UpStates /\ due[u] \in 0..1
  /\ \A c \in Conns : pend[c] = NoReq \/ pend[c].kind \in {"info", "shares", "dir"}
  /\ Len(pms) <= 1
=============================================================================

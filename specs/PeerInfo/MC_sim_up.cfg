SPECIFICATION Spec
CONSTANTS
  Conns = {"c2"}
  Uploads = {"u1", "u2", "u3"}
  Senders = {}
  MsgIds = {1, 2, 3}
  Descs = {"none"}
  Pics = {"none"}
  MaxSlots = 2
  Vers = {1}
  Dirs = {"a", "b", "nx"}
  Tickets = {7, 8, 9}
  Kinds = {"info"}
  UpMoves = {"cut"}
  Directs = {"T", "F", "omit"}
  BlockChoices = {{}}
  MaxWin = 1
  InfoGate = "info"
  SharesGate = "shares"
  DirGate = "shares"
  PMGate = "pm"
  AckBlocked = TRUE
  BusyStates = {"INITIALIZING", "UPLOADING"}
  QueuedStates = {"QUEUED"}
  EchoTicket = TRUE
INVARIANT TypeOK
INVARIANT NoUnsolicitedReply
INVARIANT ReplyEchoesRequest
INVARIANT BlockedGetNothing
INVARIANT UnblockedGetReply
INVARIANT InfoReflectsSettings
INVARIANT InfoReflectsTransfers
INVARIANT InfoIsOneSnapshot
INVARIANT SharesDelegated
INVARIANT DirDelegated
INVARIANT NoUnsolicitedAck
INVARIANT AckAtMostOnce
INVARIANT EveryMessageAcked
INVARIANT NoUnsolicitedPMEvent
INVARIANT EventAtMostOnce
INVARIANT EventCarriesFields
INVARIANT BlockedSenderSilent
INVARIANT UnblockedSenderHeard
INVARIANT NoUnsolicitedSpeed
INVARIANT SpeedOfThatTransfer
INVARIANT EveryRequestAnswered
INVARIANT EveryMessageClosed
INVARIANT EverySpeedReported
CHECK_DEADLOCK FALSE

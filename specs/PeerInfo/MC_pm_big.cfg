SPECIFICATION Spec
CONSTANTS
  Conns = {}
  Uploads = {}
  Senders = {"p1", "p2", "x"}
  MsgIds = {1, 2, 3}
  Descs = {"none"}
  Pics = {"none"}
  MaxSlots = 0
  Vers = {1}
  Dirs = {"a"}
  Tickets = {7}
  Kinds = {}
  UpMoves = {"reject", "cut", "abort"}
  Directs = {"T", "F", "omit"}
  BlockChoices = {{}, {"pm"}, {"info"}, {"shares"}, {"other"}, {"pm", "other"}, {"pm", "shares", "info", "other"}}
  MaxWin = 3
  InfoGate = "info"
  SharesGate = "shares"
  DirGate = "shares"
  PMGate = "pm"
  AckBlocked = TRUE
  BusyStates = {"INITIALIZING", "UPLOADING"}
  QueuedStates = {"QUEUED"}
  EchoTicket = TRUE
INVARIANT TypeOK
INVARIANT NoUnsolicitedReply
INVARIANT ReplyEchoesRequest
INVARIANT BlockedGetNothing
INVARIANT UnblockedGetReply
INVARIANT InfoReflectsSettings
INVARIANT InfoReflectsTransfers
INVARIANT InfoIsOneSnapshot
INVARIANT SharesDelegated
INVARIANT DirDelegated
INVARIANT NoUnsolicitedAck
INVARIANT AckAtMostOnce
INVARIANT EveryMessageAcked
INVARIANT NoUnsolicitedPMEvent
INVARIANT EventAtMostOnce
INVARIANT EventCarriesFields
INVARIANT BlockedSenderSilent
INVARIANT UnblockedSenderHeard
INVARIANT NoUnsolicitedSpeed
INVARIANT SpeedOfThatTransfer
INVARIANT EveryRequestAnswered
INVARIANT EveryMessageClosed
INVARIANT EverySpeedReported
CHECK_DEADLOCK FALSE

--------------------------- MODULE PeerInfoTrace ---------------------------
(***************************************************************************)
(* Trace validation for X03: executions of a real, logged-in SoulSeekClient *)
(* (scripted server and peers, virtual time), recorded by                   *)
(* harness/props/x03.py, judged against PeerInfo.                           *)
(*                                                                         *)
(* Records (JSON), in the order things happened in the one event loop:      *)
(*   init      desc pic slots blk{user:[flags]} up{u:state} shview dview    *)
(*   set       what ("desc"|"pic"|"slots") val      the application assigns *)
(*   blk       u flags                              settings.users.blocked  *)
(*   shares    shview{p:dg} dview{p:{dir:dg}}       the shared directories  *)
(*             changed; digests of what the SharesManager's public methods  *)
(*             answer now                                                   *)
(*   up        u new bytes lo hi                    a state listener of an  *)
(*             upload was told (first listener: no await in between)        *)
(*   req       c kind tk dir held                   a peer wrote a request  *)
(*   release   c                                    the harness opened its  *)
(*             gate for the request on c                                    *)
(*   reply     c kind ...                           a reply frame was read  *)
(*             by the peer on connection c                                  *)
(*   pm        id from direct ts tx held            the server wrote a      *)
(*             PrivateChatMessage                                           *)
(*   pmrelease                                      back-pressure released  *)
(*   ack       id                                   server read an ack      *)
(*   pmev      id from direct ts tx                 PrivateMessageEvent     *)
(*   speed     v                                    server read             *)
(*             SendUploadSpeed                                              *)
(*   quiet                                          ready queue empty       *)
(*   exc       ...                                  an exception escaped    *)
(*             (no action: the trace is rejected)                           *)
(* Silent steps: at a quiet record, a request that is not held and was not  *)
(* answered has been served with Nothing; open messages are closed.         *)
(* One tolerated, marked deviation: TReplyQueueZero (observation             *)
(* "queue-size-always-zero"); the harness prints it, it never fails a run.  *)
(***************************************************************************)
EXTENDS PeerInfo, Json, IOUtils

Traces == JsonDeserialize(IOEnv.TRACE_FILE)

VARIABLES tid, l, marks
tvars == <<vars, tid, l, marks>>

T == Traces[tid]
Rec == T[l]
ToSet(s) == {s[i] : i \in DOMAIN s}

TInit ==
  /\ tid \in 1..Len(Traces)
  /\ l = 2
  /\ marks = {}
  /\ Len(Traces[tid]) >= 1 /\ Traces[tid][1].ev = "init"
  /\ LET R == Traces[tid][1] IN
       /\ desc = R.desc /\ pic = R.pic /\ slots = R.slots
       /\ blk = [u \in Users |-> ToSet(R.blk[u])]
       /\ up = [u \in Uploads |-> R.up[u]]
       /\ shview = [p \in Peers |-> R.shview[p]]
       /\ dview = [p \in Peers |-> [d \in Dirs |-> R.dview[p][d]]]
  /\ pend = [c \in Conns |-> NoReq]
  /\ pms = <<>>
  /\ due = [u \in Uploads |-> 0]
  /\ spd = [u \in Uploads |-> NoMeta]
  /\ last = Quiet0

IsEv(e) == l <= Len(T) /\ Rec.ev = e
Consume == l' = l + 1 /\ UNCHANGED <<tid, marks>>
Same == UNCHANGED vars

TSet ==
  /\ IsEv("set")
  /\ \/ Rec.what = "desc"  /\ (IF Rec.val = desc THEN Same ELSE SetDesc(Rec.val))
     \/ Rec.what = "pic"   /\ (IF Rec.val = pic THEN Same ELSE SetPic(Rec.val))
     \/ Rec.what = "slots" /\ (IF Rec.val = slots THEN Same ELSE SetSlots(Rec.val))
  /\ Consume

TBlk ==
  /\ IsEv("blk") /\ Rec.u \in Users
  /\ IF ToSet(Rec.flags) = blk[Rec.u] THEN Same ELSE Block(Rec.u, ToSet(Rec.flags))
  /\ Consume

TShares ==
  /\ IsEv("shares")
  /\ LET sv == [p \in Peers |-> Rec.shview[p]]
         dv == [p \in Peers |-> [d \in Dirs |-> Rec.dview[p][d]]]
     IN IF <<sv, dv>> = <<shview, dview>> THEN Same ELSE ShareChange(sv, dv)
  /\ Consume

TUp ==
  /\ IsEv("up") /\ Rec.u \in Uploads /\ Rec.new \in UpStates
  /\ UpChange(Rec.u, Rec.new, [bytes |-> Rec.bytes, lo |-> Rec.lo, hi |-> Rec.hi])
  /\ Consume

TReq ==
  /\ IsEv("req") /\ Rec.c \in Conns
  /\ Arrive(Rec.c, Rec.kind, Rec.tk, Rec.dir, Rec.held)
  /\ Consume

TRelease ==
  /\ IsEv("release") /\ Rec.c \in Conns
  /\ IF pend[Rec.c] # NoReq /\ pend[Rec.c].held THEN Release(Rec.c) ELSE Same
  /\ Consume

OutOf(R) ==
  CASE R.kind = "info"   -> [kind |-> "info", desc |-> R.desc, pic |-> R.pic, slots |-> R.slots, q |-> R.q, free |-> R.free]
    [] R.kind = "shares" -> [kind |-> "shares", dg |-> R.dg]
    [] R.kind = "dir"    -> [kind |-> "dir", tk |-> R.tk, dir |-> R.dir, dg |-> R.dg]

\* OBSERVATION "queue-size-always-zero" (tolerated, marked): TransferManager.get_queue_size compares the state
\* object of a transfer with the enum member (transfer.state == TransferState.QUEUED instead of
\* transfer.state.VALUE), which is never equal: queue_size is 0 whatever is queued, although its docstring says
\* "Returns the amount of queued uploads".  Exactly this is let through: an info reply that is wrong only in
\* q = 0 where every admissible moment had q > 0 is judged as if it carried the documented number.
QueueZeroFix(c, out) ==
  {a \in pend[c].acc \ {Nothing} : a.q > 0 /\ [out EXCEPT !.q = a.q] = a}
QueueZeroCase ==
  /\ Rec.kind = "info" /\ pend[Rec.c] # NoReq /\ pend[Rec.c].kind = "info"
  /\ Rec.q = 0 /\ OutOf(Rec) \notin pend[Rec.c].acc
  /\ QueueZeroFix(Rec.c, OutOf(Rec)) # {}

TReply ==
  /\ IsEv("reply") /\ Rec.c \in Conns
  /\ ~QueueZeroCase
  /\ IF pend[Rec.c] # NoReq THEN Serve(Rec.c, OutOf(Rec)) ELSE SpuriousReply(Rec.c, OutOf(Rec))
  /\ Consume

TReplyQueueZero ==
  /\ IsEv("reply") /\ Rec.c \in Conns
  /\ QueueZeroCase
  /\ \E a \in QueueZeroFix(Rec.c, OutOf(Rec)) : Serve(Rec.c, a)
  /\ marks' = marks \cup {"queue-size-always-zero"}
  /\ l' = l + 1 /\ UNCHANGED tid

\* nothing came and nothing will: the handler has decided not to answer
TSilentNothing ==
  /\ IsEv("quiet")
  /\ \E c \in Conns : pend[c] # NoReq /\ ~pend[c].held /\ Serve(c, Nothing)
  /\ UNCHANGED <<tid, l, marks>>

TPM ==
  /\ IsEv("pm")
  /\ PMRecv(Rec.id, Rec.from, Rec.direct, Rec.ts, Rec.tx, Rec.held)
  /\ Consume

TPMRelease ==
  /\ IsEv("pmrelease")
  /\ IF \E k \in DOMAIN pms : pms[k].held THEN PMRelease ELSE Same
  /\ Consume

TAck ==
  /\ IsEv("ack")
  /\ IF WithId(Rec.id) # {} THEN Ack(Rec.id) ELSE SpuriousAck(Rec.id)
  /\ Consume

TPMEv ==
  /\ IsEv("pmev")
  /\ IF WithId(Rec.id) # {} THEN PMEvent(Rec.id, Rec.from, Rec.direct, Rec.ts, Rec.tx) ELSE SpuriousPMEvent(Rec.id)
  /\ Consume

TSilentClose ==
  /\ IsEv("quiet")
  /\ pms # <<>> /\ ~Head(pms).held
  /\ PMClose
  /\ UNCHANGED <<tid, l, marks>>

TSpeed ==
  /\ IsEv("speed")
  /\ IF \E u \in Uploads : due[u] > 0
       THEN \E u \in Uploads : Speed(u, Rec.v)
       ELSE SpuriousSpeed(Rec.v)
  /\ Consume

\* the silent steps come first: what is owed at a quiet record is then judged where it was decided
\* (Serve(c, Nothing), PMClose), and Quiet itself only finds the speed reports that are still owed
TQuiet ==
  /\ IsEv("quiet")
  /\ \A c \in Conns : IF pend[c] = NoReq THEN TRUE ELSE pend[c].held
  /\ IF pms = <<>> THEN TRUE ELSE Head(pms).held
  /\ Quiet
  /\ Consume

Done == l = Len(T) + 1 /\ PrintT(<<"ACCEPT", tid, marks>>) /\ l' = l + 1 /\ UNCHANGED <<vars, tid, marks>>
Finished == l = Len(T) + 2 /\ UNCHANGED tvars

TNext ==
  \/ TSet \/ TBlk \/ TShares \/ TUp
  \/ TReq \/ TRelease \/ TReply \/ TReplyQueueZero \/ TSilentNothing
  \/ TPM \/ TPMRelease \/ TAck \/ TPMEv \/ TSilentClose
  \/ TSpeed \/ TQuiet
  \/ Done \/ Finished

TSpec == TInit /\ [][TNext]_tvars
=============================================================================

SPECIFICATION Spec
CONSTANTS
  Rooms = {"r1", "r2"}
  Users = {"me", "a", "b"}
  Me = "me"
  Texts = {"t1", "t2"}
  Vals = {0, 1}
  UserSets <- C_UserSetsSmall
  Owners <- C_OwnersSmall
  OpSets <- C_OpSetsSmall
  TrackChoices <- C_Track
  BlockChoices <- C_Block
  MaxLen = 3
  OwnOpGrantDiscards = FALSE
  JoinAppends = FALSE
  RoomListDropsJoined = FALSE
INVARIANT TypeOK
INVARIANT ReplicaEqualsFold
INVARIANT EventsCarryAnnounced
INVARIANT BlockedSilent
CHECK_DEADLOCK FALSE

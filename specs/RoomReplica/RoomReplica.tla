---------------------------- MODULE RoomReplica ----------------------------
(***************************************************************************)
(* C19 - room and user views equal the fold of what the server announced.  *)
(*                                                                         *)
(* Two copies of the replica are kept side by side:                        *)
(*                                                                         *)
(*   F  the REFERENCE FOLD.  It is written from the property statement and *)
(*      the protocol documentation (docs/source/SOULSEEK.rst "Functions",  *)
(*      the message docstrings rendered into MESSAGES.rst): join adds,     *)
(*      leave removes, grant adds, revoke removes, lists replace, own      *)
(*      join/leave sets/clears the joined flag and the user list, a room   *)
(*      list replaces the set of known rooms and the self-related          *)
(*      memberships but does not leave rooms.  F is the specification.     *)
(*                                                                         *)
(*   M  the IMPLEMENTATION MODEL: one case per handler of                  *)
(*      src/aioslsk/room/manager.py and of the status/stats/privilege      *)
(*      handlers of src/aioslsk/user/manager.py, transcribed as the code   *)
(*      is: which handlers create the Room object, and User objects that   *)
(*      are held weakly (alive only while a room's user list, the session  *)
(*      or the tracker references them; user/manager.py:119,174-195).      *)
(*      Where the pinned code deviates from F the deviation is a CONSTANT  *)
(*      switch (TRUE = the code's position, FALSE = repaired).             *)
(*                                                                         *)
(* An action is one server notification.  A notification is a record       *)
(* [kind, room, user, v, p, set, own, ops, cat, tk, text, id]; the trace   *)
(* spec builds the same record from the logged frame.                      *)
(*                                                                         *)
(* What the statement does not determine is left open in F by a third      *)
(* value "any" (never compared):                                           *)
(*  - whether a room first seen through a chat/join/ticker notification is *)
(*    private;                                                             *)
(*  - what is remembered about a user while nothing references the user    *)
(*    object (status, stats; the privilege flag falls back to the last     *)
(*    PrivilegedUsers list or is remembered - both are accepted).          *)
(*                                                                         *)
(* Revoking a membership ends operatorship, whatever the member set said:  *)
(* an operator is a member with extra rights (SOULSEEK.rst "Granting       *)
(* Operator Privileges": the grantee "must first be a member"), and when   *)
(* the owner revokes an operator's membership the server announces only    *)
(* the membership revocation ("Function: Revoke Membership") - it is the   *)
(* one notification from which the end of the role can be learnt.  The     *)
(* operator set is announced independently of the member set (JoinRoom,    *)
(* operator list / grants, RoomList), so the fold removes from both sets   *)
(* unconditionally.                                                        *)
(*                                                                         *)
(* Values: a notification carries v; the status code on the wire is v      *)
(* (0 offline, 1 away, 2 online), the stats are an abstract value the      *)
(* binding maps to four numbers.  Vals contains 0 so that the falsy status *)
(* follows a truthy one; the binding does the same for every stats field.  *)
(***************************************************************************)
EXTENDS Integers, Sequences, FiniteSets, TLC

CONSTANTS
  Rooms,          \* room ids
  Users,          \* user ids, Me among them
  Me,             \* the logged-in user
  Texts,          \* ticker texts
  Vals,           \* values carried for status (0 offline, 1 away, 2 online) and, abstractly, stats
  UserSets,       \* family of user sets carried by list-valued notifications
  Owners,         \* owners a JoinRoom response may name
  OpSets,         \* operator sets a JoinRoom response of a private room may carry
  TrackChoices,   \* family of sets of users held alive by the tracker
  BlockChoices,   \* family of [room |-> set, priv |-> set]: users blocked for room / private messages
  MaxLen,         \* bound on the history length explored by the design model
  OwnOpGrantDiscards,    \* F19-1  room/manager.py:416  own operator grant does discard()
  JoinAppends,           \* F19-2  room/manager.py:224-231  JoinRoom list appended to the stale list
  RoomListDropsJoined    \* F19-3  room/manager.py:492-496  RoomList deletes a joined room it omits

None == "none"
NoTickers == [u \in Users |-> None]
Cats == {"abs", "pub", "own", "mem", "memop"}

\* ------------------------------------------------------------------------
\* notifications
\* ------------------------------------------------------------------------
N0 == [kind |-> None, room |-> None, user |-> None, v |-> -1, p |-> FALSE, set |-> {}, own |-> None,
       ops |-> {}, cat |-> [r \in Rooms |-> "abs"], tk |-> NoTickers, text |-> None, id |-> 0]

NRoom(k, r) == [N0 EXCEPT !.kind = k, !.room = r]
NRoomUser(k, r, u) == [N0 EXCEPT !.kind = k, !.room = r, !.user = u]
NRoomSet(k, r, S) == [N0 EXCEPT !.kind = k, !.room = r, !.set = S]
NUser(k, u) == [N0 EXCEPT !.kind = k, !.user = u]

RoomKinds == {"RoomChatMessage", "PublicChatMessage", "UserJoinedRoom", "UserLeftRoom", "JoinRoom", "LeaveRoom",
              "RoomTickers", "RoomTickerAdded", "RoomTickerRemoved"}
PrivateRoomKinds == {"PrivateRoomGrantMembership", "PrivateRoomMembershipGranted", "PrivateRoomRevokeMembership",
                     "PrivateRoomMembershipRevoked", "PrivateRoomMembers", "PrivateRoomOperators",
                     "PrivateRoomOperatorGranted", "PrivateRoomOperatorRevoked", "PrivateRoomGrantOperator",
                     "PrivateRoomRevokeOperator"}
UserKinds == {"GetUserStatus", "GetUserStats", "PrivilegedUsers", "AddPrivilegedUser", "PrivateChatMessage"}
Kinds == RoomKinds \cup PrivateRoomKinds \cup UserKinds \cup {"RoomList"}

\* ------------------------------------------------------------------------
\* state
\* ------------------------------------------------------------------------
VARIABLES
  F,        \* reference fold  [rooms, users, plist]
  M,        \* implementation model / (in the trace spec) the recorded projection  [rooms, users, plist]
  tracked,  \* users the tracker keeps alive (fixed per behaviour)
  blk,      \* [room, priv]: users blocked for room messages / private messages (fixed per behaviour)
  n         \* history length

vars == <<F, M, tracked, blk, n>>

FRoom0 == [known |-> FALSE, joined |-> FALSE, users |-> {}, owner |-> None, members |-> {}, ops |-> {},
           tickers |-> NoTickers, private |-> "any"]
FUser0 == [status |-> -1, stats |-> -1, priv |-> "no"]
MRoom0 == [exists |-> FALSE, joined |-> FALSE, users |-> {}, owner |-> None, members |-> {}, ops |-> {},
           tickers |-> NoTickers, private |-> FALSE]
MUser0 == [alive |-> FALSE, status |-> -1, stats |-> -1, priv |-> FALSE]

B3(b) == IF b THEN "yes" ELSE "no"

\* after login: the own user is ONLINE (user/manager.py:473-475), tracked users got an AddUser reply
\* (stats value 9: different from every value a notification carries)
InitStats == 9
FUserInit == [status |-> 2, stats |-> InitStats, priv |-> "no"]
MUserInit == [alive |-> TRUE, status |-> 2, stats |-> InitStats, priv |-> FALSE]

Init ==
  /\ tracked \in TrackChoices
  /\ blk \in BlockChoices
  /\ n = 0
  /\ F = [rooms |-> [r \in Rooms |-> FRoom0],
          users |-> [u \in Users |-> IF u = Me \/ u \in tracked THEN FUserInit ELSE FUser0],
          plist |-> {}]
  /\ M = [rooms |-> [r \in Rooms |-> MRoom0],
          users |-> [u \in Users |-> IF u = Me \/ u \in tracked THEN MUserInit ELSE MUser0],
          plist |-> {}]

\* ------------------------------------------------------------------------
\* the reference fold
\* ------------------------------------------------------------------------
\* a user is referenced while it is the session user, tracked, or listed in a room
FRef(f, u) == u = Me \/ u \in tracked \/ \E r \in Rooms : u \in f.rooms[r].users

PL(f, u) == B3(u \in f.plist)

\* What is known about a user nobody references is not part of the replica: status and stats are
\* announced again when the user joins a room; the privilege flag is either remembered or taken
\* from the last PrivilegedUsers list - if the two differ the flag is left open.
FNormalize(f) ==
  [f EXCEPT !.users = [u \in Users |->
      IF FRef(f, u) THEN f.users[u]
      ELSE [status |-> -1, stats |-> -1,
            priv |-> IF f.users[u].priv = PL(f, u) THEN f.users[u].priv ELSE "any"]]]

\* a notification names room r: r is known from now on.  A private-room notification about an unknown
\* room says the room is private; any other first sighting says nothing about privacy.
FTouch(fr, isPriv) ==
  IF fr.known
    THEN [fr EXCEPT !.private = IF isPriv /\ @ = "no" THEN "any" ELSE @]
    ELSE [fr EXCEPT !.known = TRUE, !.private = IF isPriv THEN "yes" ELSE "any"]

FListRoom(fr, c) ==
  \* RoomList (SOULSEEK.rst "Room List"): rooms = public rooms, rooms_private_owned = we are owner,
  \* rooms_private = we are in members, rooms_private_operated = we are in operators.
  IF c = "abs"
    THEN IF fr.joined
           \* "does not leave rooms": after login only public rooms with 5 or more users are listed
           THEN [fr EXCEPT !.owner = IF @ = Me THEN None ELSE @, !.members = @ \ {Me}, !.ops = @ \ {Me}]
           ELSE FRoom0
    ELSE [fr EXCEPT !.known = TRUE,
                    !.private = IF c = "pub" THEN "no" ELSE "yes",
                    !.owner = IF c = "own" THEN Me ELSE IF @ = Me THEN None ELSE @,
                    !.members = IF c \in {"mem", "memop"} THEN @ \cup {Me} ELSE @ \ {Me},
                    !.ops = IF c = "memop" THEN @ \cup {Me} ELSE @ \ {Me}]

FoldRaw(f, nt) ==
  LET k == nt.kind
      r == nt.room
      u == nt.user
      fr == FTouch(f.rooms[r], k \in PrivateRoomKinds)
      SetRoom(x) == [f EXCEPT !.rooms[r] = x]
  IN
  CASE k \in {"RoomChatMessage", "PublicChatMessage"} -> SetRoom(fr)
    [] k = "PrivateChatMessage" -> f
    [] k = "UserJoinedRoom" ->
         [f EXCEPT !.rooms[r] = [fr EXCEPT !.users = @ \cup {u}],
                   !.users[u] = [@ EXCEPT !.status = nt.v, !.stats = nt.v]]
    [] k = "UserLeftRoom" -> SetRoom([fr EXCEPT !.users = @ \ {u}])
    [] k = "JoinRoom" ->
         [f EXCEPT !.rooms[r] = [fr EXCEPT !.joined = TRUE, !.users = nt.set, !.owner = nt.own,
                                           !.ops = IF nt.own = None THEN {} ELSE nt.ops,
                                           !.private = B3(nt.own # None)],
                   !.users = [x \in Users |-> IF x \in nt.set
                                                THEN [f.users[x] EXCEPT !.status = nt.v, !.stats = nt.v]
                                                ELSE f.users[x]]]
    [] k = "LeaveRoom" -> SetRoom([fr EXCEPT !.joined = FALSE, !.users = {}])
    [] k = "RoomTickers" -> SetRoom([fr EXCEPT !.tickers = nt.tk])
    [] k = "RoomTickerAdded" -> SetRoom([fr EXCEPT !.tickers[u] = nt.text])
    [] k = "RoomTickerRemoved" -> SetRoom([fr EXCEPT !.tickers[u] = None])
    [] k = "PrivateRoomGrantMembership" -> SetRoom([fr EXCEPT !.members = @ \cup {u}])
    [] k = "PrivateRoomMembershipGranted" -> SetRoom([fr EXCEPT !.members = @ \cup {Me}])
    [] k = "PrivateRoomRevokeMembership" ->
         SetRoom([fr EXCEPT !.members = @ \ {u}, !.ops = @ \ {u}])
    [] k = "PrivateRoomMembershipRevoked" ->
         SetRoom([fr EXCEPT !.members = @ \ {Me}, !.ops = @ \ {Me}])
    [] k = "PrivateRoomMembers" -> SetRoom([fr EXCEPT !.members = nt.set])
    [] k = "PrivateRoomOperators" -> SetRoom([fr EXCEPT !.ops = nt.set])
    [] k = "PrivateRoomOperatorGranted" -> SetRoom([fr EXCEPT !.ops = @ \cup {Me}])
    [] k = "PrivateRoomOperatorRevoked" -> SetRoom([fr EXCEPT !.ops = @ \ {Me}])
    [] k = "PrivateRoomGrantOperator" -> SetRoom([fr EXCEPT !.ops = @ \cup {u}])
    [] k = "PrivateRoomRevokeOperator" -> SetRoom([fr EXCEPT !.ops = @ \ {u}])
    [] k = "RoomList" -> [f EXCEPT !.rooms = [x \in Rooms |-> FListRoom(f.rooms[x], nt.cat[x])]]
    [] k = "GetUserStatus" -> [f EXCEPT !.users[u] = [@ EXCEPT !.status = nt.v, !.priv = B3(nt.p)]]
    [] k = "GetUserStats" -> [f EXCEPT !.users[u] = [@ EXCEPT !.stats = nt.v]]
    [] k = "PrivilegedUsers" ->
         [f EXCEPT !.plist = nt.set,
                   !.users = [x \in Users |-> [f.users[x] EXCEPT !.priv = B3(x \in nt.set)]]]
    [] k = "AddPrivilegedUser" -> [f EXCEPT !.users[u] = [@ EXCEPT !.priv = "yes"]]

Fold(f, nt) == FNormalize(FoldRaw(f, nt))

\* ------------------------------------------------------------------------
\* the implementation model
\* ------------------------------------------------------------------------
MRef(m, u) == u = Me \/ u \in tracked \/ \E r \in Rooms : m.rooms[r].exists /\ u \in m.rooms[r].users

\* WeakValueDictionary: an object nobody references is gone
MCollect(m) == [m EXCEPT !.users = [u \in Users |-> IF MRef(m, u) THEN m.users[u] ELSE MUser0]]

\* RoomManager.get_or_create_room (room/manager.py:114-120)
MRoom(m, r, pr) == IF m.rooms[r].exists THEN m.rooms[r] ELSE [MRoom0 EXCEPT !.exists = TRUE, !.private = pr]
\* UserManager.get_user_object (user/manager.py:174-195)
MUser(m, u) == IF m.users[u].alive THEN m.users[u]
               ELSE [alive |-> TRUE, status |-> -1, stats |-> -1, priv |-> u \in m.plist]

MListRoom(mr0, c) ==
  \* room/manager.py:471-517
  LET created == IF c = "abs" THEN mr0
                 ELSE IF mr0.exists THEN mr0 ELSE [MRoom0 EXCEPT !.exists = TRUE, !.private = (c # "pub")]
      filled == [created EXCEPT !.owner = IF c = "own" THEN Me ELSE @,
                                !.members = IF c \in {"mem", "memop"} THEN @ \cup {Me} ELSE @,
                                !.ops = IF c = "memop" THEN @ \cup {Me} ELSE @]
      dropped == c = "abs" /\ (RoomListDropsJoined \/ ~filled.joined)
  IN IF ~filled.exists \/ dropped THEN MRoom0
     ELSE [filled EXCEPT !.owner = IF c # "own" /\ @ = Me THEN None ELSE @,
                         !.ops = IF c # "memop" THEN @ \ {Me} ELSE @,
                         !.members = IF c \notin {"mem", "memop"} THEN @ \ {Me} ELSE @,
                         !.private = IF c = "abs" THEN @ ELSE (c # "pub")]

ImplRaw(m, nt) ==
  LET k == nt.kind
      r == nt.room
      u == nt.user
      pub == MRoom(m, r, FALSE)
      prv == MRoom(m, r, TRUE)
      SetRoom(x) == [m EXCEPT !.rooms[r] = x]
  IN
  CASE k \in {"RoomChatMessage", "PublicChatMessage"} ->           \* :142-181
         IF u \in blk.room THEN m ELSE SetRoom(pub)
    [] k = "PrivateChatMessage" -> m
    [] k = "UserJoinedRoom" ->                                      \* :183-200
         [m EXCEPT !.rooms[r] = [pub EXCEPT !.users = @ \cup {u}],
                   !.users[u] = [MUser(m, u) EXCEPT !.status = nt.v, !.stats = nt.v]]
    [] k = "UserLeftRoom" -> SetRoom([pub EXCEPT !.users = @ \ {u}])   \* :202-214
    [] k = "JoinRoom" ->                                            \* :216-242
         [m EXCEPT !.rooms[r] = [pub EXCEPT !.joined = TRUE, !.private = (nt.own # None),
                                            !.users = IF JoinAppends THEN @ \cup nt.set ELSE nt.set,
                                            !.owner = nt.own,
                                            !.ops = IF nt.own = None THEN {} ELSE nt.ops],
                   !.users = [x \in Users |-> IF x \in nt.set
                                                THEN [MUser(m, x) EXCEPT !.status = nt.v, !.stats = nt.v]
                                                ELSE m.users[x]]]
    [] k = "LeaveRoom" -> SetRoom([pub EXCEPT !.joined = FALSE, !.users = {}])   \* :244-255
    [] k = "RoomTickers" -> SetRoom([pub EXCEPT !.tickers = nt.tk])              \* :257-273
    [] k = "RoomTickerAdded" -> SetRoom([pub EXCEPT !.tickers[u] = nt.text])     \* :275-289
    [] k = "RoomTickerRemoved" -> SetRoom([pub EXCEPT !.tickers[u] = None])      \* :291-310
    [] k = "PrivateRoomGrantMembership" -> SetRoom([prv EXCEPT !.members = @ \cup {u}])     \* :318-332
    [] k = "PrivateRoomMembershipGranted" -> SetRoom([prv EXCEPT !.members = @ \cup {Me}])  \* :334-347
    [] k = "PrivateRoomRevokeMembership" ->                                                 \* :349-365
         SetRoom([prv EXCEPT !.members = @ \ {u}, !.ops = @ \ {u}])
    [] k = "PrivateRoomMembershipRevoked" ->                                                \* :367-381
         SetRoom([prv EXCEPT !.members = @ \ {Me}, !.ops = @ \ {Me}])
    [] k = "PrivateRoomMembers" -> SetRoom([prv EXCEPT !.members = nt.set])                 \* :383-394
    [] k = "PrivateRoomOperators" -> SetRoom([prv EXCEPT !.ops = nt.set])                   \* :396-409
    [] k = "PrivateRoomOperatorGranted" ->                                                  \* :411-423
         SetRoom([prv EXCEPT !.ops = IF OwnOpGrantDiscards THEN @ \ {Me} ELSE @ \cup {Me}])
    [] k = "PrivateRoomOperatorRevoked" -> SetRoom([prv EXCEPT !.ops = @ \ {Me}])           \* :425-437
    [] k = "PrivateRoomGrantOperator" -> SetRoom([prv EXCEPT !.ops = @ \cup {u}])           \* :439-453
    [] k = "PrivateRoomRevokeOperator" -> SetRoom([prv EXCEPT !.ops = @ \ {u}])             \* :455-469
    [] k = "RoomList" -> [m EXCEPT !.rooms = [x \in Rooms |-> MListRoom(m.rooms[x], nt.cat[x])]]
    \* user/manager.py:353-415
    [] k = "GetUserStatus" -> [m EXCEPT !.users[u] = [MUser(m, u) EXCEPT !.status = nt.v, !.priv = nt.p]]
    [] k = "GetUserStats" -> [m EXCEPT !.users[u] = [MUser(m, u) EXCEPT !.stats = nt.v]]
    [] k = "PrivilegedUsers" ->
         [m EXCEPT !.plist = nt.set,
                   !.users = [x \in Users |-> IF m.users[x].alive
                                                THEN [m.users[x] EXCEPT !.priv = (x \in nt.set)]
                                                ELSE m.users[x]]]
    [] k = "AddPrivilegedUser" -> [m EXCEPT !.users[u] = [MUser(m, u) EXCEPT !.priv = TRUE]]

Impl(m, nt) == MCollect(ImplRaw(m, nt))

\* ------------------------------------------------------------------------
\* events
\* ------------------------------------------------------------------------
\* The event the documentation promises for a notification (events.py docstrings: the user / member
\* field is None when the notification is about the logged-in user; list events carry the list).
Ev(c, r, u, S) == [cls |-> c, room |-> r, user |-> u, names |-> S]
Domain(tk) == {u \in Users : tk[u] # None}

Expected(nt) ==
  LET k == nt.kind  r == nt.room  u == nt.user IN
  CASE k = "RoomChatMessage" -> Ev("RoomMessageEvent", r, u, {})
    [] k = "PublicChatMessage" -> Ev("PublicMessageEvent", r, u, {})
    [] k = "PrivateChatMessage" -> Ev("PrivateMessageEvent", None, u, {})
    [] k = "UserJoinedRoom" -> Ev("RoomJoinedEvent", r, u, {})
    [] k = "UserLeftRoom" -> Ev("RoomLeftEvent", r, u, {})
    [] k = "JoinRoom" -> Ev("RoomJoinedEvent", r, None, {})
    [] k = "LeaveRoom" -> Ev("RoomLeftEvent", r, None, {})
    [] k = "RoomTickers" -> Ev("RoomTickersEvent", r, None, Domain(nt.tk))
    [] k = "RoomTickerAdded" -> Ev("RoomTickerAddedEvent", r, u, {})
    [] k = "RoomTickerRemoved" -> Ev("RoomTickerRemovedEvent", r, u, {})
    [] k = "PrivateRoomGrantMembership" -> Ev("RoomMembershipGrantedEvent", r, u, {})
    [] k = "PrivateRoomMembershipGranted" -> Ev("RoomMembershipGrantedEvent", r, None, {})
    [] k = "PrivateRoomRevokeMembership" -> Ev("RoomMembershipRevokedEvent", r, u, {})
    [] k = "PrivateRoomMembershipRevoked" -> Ev("RoomMembershipRevokedEvent", r, None, {})
    [] k = "PrivateRoomMembers" -> Ev("RoomMembersEvent", r, None, nt.set)
    [] k = "PrivateRoomOperators" -> Ev("RoomOperatorsEvent", r, None, nt.set)
    [] k = "PrivateRoomOperatorGranted" -> Ev("RoomOperatorGrantedEvent", r, None, {})
    [] k = "PrivateRoomOperatorRevoked" -> Ev("RoomOperatorRevokedEvent", r, None, {})
    [] k = "PrivateRoomGrantOperator" -> Ev("RoomOperatorGrantedEvent", r, u, {})
    [] k = "PrivateRoomRevokeOperator" -> Ev("RoomOperatorRevokedEvent", r, u, {})
    [] k = "RoomList" -> Ev("RoomListEvent", None, None, {})
    [] k = "GetUserStatus" -> Ev("UserStatusUpdateEvent", None, u, {})
    [] k = "GetUserStats" -> Ev("UserStatsUpdateEvent", None, u, {})
    [] k = "PrivilegedUsers" -> Ev("PrivilegedUsersEvent", None, None, nt.set)
    [] k = "AddPrivilegedUser" -> Ev("PrivilegedUserAddedEvent", None, u, {})

MessageEvents == {"RoomMessageEvent", "PublicMessageEvent", "PrivateMessageEvent"}

\* is the sender of this chat notification blocked for its kind (settings.users.blocked)?
Blocked(nt) ==
  \/ nt.kind \in {"RoomChatMessage", "PublicChatMessage"} /\ nt.user \in blk.room
  \/ nt.kind = "PrivateChatMessage" /\ nt.user \in blk.priv

\* events / acknowledgements the implementation model produces for a notification
ImplEvents(nt) == IF Blocked(nt) THEN {} ELSE {Expected(nt)}
ImplAcks(nt) == IF nt.kind = "PrivateChatMessage" THEN {nt.id} ELSE {}

\* EventsCarryAnnounced: every Room*/User* event emitted for a notification names the room and the user
\* of that notification; an event of the class documented for the notification is exactly the
\* documented one, and - unless the sender is blocked - it is emitted.
SelfKinds == {"JoinRoom", "LeaveRoom", "PrivateRoomMembershipGranted", "PrivateRoomMembershipRevoked",
              "PrivateRoomOperatorGranted", "PrivateRoomOperatorRevoked"}
AnnouncedUsers(nt) == {None, nt.user, nt.own} \cup nt.set \cup nt.ops \cup Domain(nt.tk)
                      \cup (IF nt.kind \in SelfKinds THEN {Me} ELSE {})
AnnouncedRooms(nt) == IF nt.kind = "RoomList" THEN Rooms \cup {None} ELSE {None, nt.room}

Carry(nt, evs) ==
  /\ \A e \in evs :
       /\ e.room \in AnnouncedRooms(nt)
       /\ e.user \in AnnouncedUsers(nt)
       /\ e.cls = Expected(nt).cls => e = Expected(nt)
  /\ ~Blocked(nt) => Expected(nt) \in evs

\* BlockedSilent: no message event for a blocked sender; a private message is acknowledged anyway.
Silent(nt, evs, acks) ==
  /\ Blocked(nt) => \A e \in evs : e.cls \notin MessageEvents
  /\ nt.kind = "PrivateChatMessage" => nt.id \in acks

\* ------------------------------------------------------------------------
\* actions: one per notification kind
\* ------------------------------------------------------------------------
FStep(nt) == F' = Fold(F, nt) /\ n' = n + 1 /\ UNCHANGED <<tracked, blk>>
Step(nt) == n < MaxLen /\ FStep(nt) /\ M' = Impl(M, nt)

TickerMaps == {[u \in Users |-> IF u \in S THEN t ELSE None] : S \in UserSets, t \in Texts}
OwnerOps == {<<None, {}>>} \cup (Owners \X OpSets)

RoomChatMessage(r, u) == Step(NRoomUser("RoomChatMessage", r, u))
PublicChatMessage(r, u) == Step(NRoomUser("PublicChatMessage", r, u))
PrivateChatMessage(u) == Step([NUser("PrivateChatMessage", u) EXCEPT !.id = 7])
UserJoinedRoom(r, u, v) == Step([NRoomUser("UserJoinedRoom", r, u) EXCEPT !.v = v])
UserLeftRoom(r, u) == Step(NRoomUser("UserLeftRoom", r, u))
JoinRoom(r, S, oo, v) == Step([NRoomSet("JoinRoom", r, S) EXCEPT !.own = oo[1], !.ops = oo[2], !.v = v])
LeaveRoom(r) == Step(NRoom("LeaveRoom", r))
RoomTickers(r, tk) == Step([NRoom("RoomTickers", r) EXCEPT !.tk = tk])
RoomTickerAdded(r, u, t) == Step([NRoomUser("RoomTickerAdded", r, u) EXCEPT !.text = t])
RoomTickerRemoved(r, u) == Step(NRoomUser("RoomTickerRemoved", r, u))
PrivateRoomGrantMembership(r, u) == Step(NRoomUser("PrivateRoomGrantMembership", r, u))
PrivateRoomMembershipGranted(r) == Step(NRoom("PrivateRoomMembershipGranted", r))
PrivateRoomRevokeMembership(r, u) == Step(NRoomUser("PrivateRoomRevokeMembership", r, u))
PrivateRoomMembershipRevoked(r) == Step(NRoom("PrivateRoomMembershipRevoked", r))
PrivateRoomMembers(r, S) == Step(NRoomSet("PrivateRoomMembers", r, S))
PrivateRoomOperators(r, S) == Step(NRoomSet("PrivateRoomOperators", r, S))
PrivateRoomOperatorGranted(r) == Step(NRoom("PrivateRoomOperatorGranted", r))
PrivateRoomOperatorRevoked(r) == Step(NRoom("PrivateRoomOperatorRevoked", r))
PrivateRoomGrantOperator(r, u) == Step(NRoomUser("PrivateRoomGrantOperator", r, u))
PrivateRoomRevokeOperator(r, u) == Step(NRoomUser("PrivateRoomRevokeOperator", r, u))
RoomList(c) == Step([N0 EXCEPT !.kind = "RoomList", !.cat = c])
GetUserStatus(u, v, p) == Step([NUser("GetUserStatus", u) EXCEPT !.v = v, !.p = p])
GetUserStats(u, v) == Step([NUser("GetUserStats", u) EXCEPT !.v = v])
PrivilegedUsers(S) == Step([N0 EXCEPT !.kind = "PrivilegedUsers", !.set = S])
AddPrivilegedUser(u) == Step(NUser("AddPrivilegedUser", u))

Next ==
  \/ \E r \in Rooms, u \in Users : RoomChatMessage(r, u) \/ PublicChatMessage(r, u)
  \/ \E u \in Users : PrivateChatMessage(u)
  \/ \E r \in Rooms, u \in Users, v \in Vals : UserJoinedRoom(r, u, v)
  \/ \E r \in Rooms, u \in Users : UserLeftRoom(r, u)
  \/ \E r \in Rooms, S \in UserSets, oo \in OwnerOps, v \in Vals : JoinRoom(r, S, oo, v)
  \/ \E r \in Rooms : LeaveRoom(r)
  \/ \E r \in Rooms, tk \in TickerMaps : RoomTickers(r, tk)
  \/ \E r \in Rooms, u \in Users, t \in Texts : RoomTickerAdded(r, u, t)
  \/ \E r \in Rooms, u \in Users : RoomTickerRemoved(r, u)
  \/ \E r \in Rooms, u \in Users : PrivateRoomGrantMembership(r, u) \/ PrivateRoomRevokeMembership(r, u)
  \/ \E r \in Rooms : PrivateRoomMembershipGranted(r) \/ PrivateRoomMembershipRevoked(r)
  \/ \E r \in Rooms, S \in UserSets : PrivateRoomMembers(r, S) \/ PrivateRoomOperators(r, S)
  \/ \E r \in Rooms : PrivateRoomOperatorGranted(r) \/ PrivateRoomOperatorRevoked(r)
  \/ \E r \in Rooms, u \in Users : PrivateRoomGrantOperator(r, u) \/ PrivateRoomRevokeOperator(r, u)
  \/ \E c \in [Rooms -> Cats] : RoomList(c)
  \/ \E u \in Users, v \in Vals, p \in BOOLEAN : GetUserStatus(u, v, p)
  \/ \E u \in Users, v \in Vals : GetUserStats(u, v)
  \/ \E S \in UserSets : PrivilegedUsers(S)
  \/ \E u \in Users : AddPrivilegedUser(u)

Spec == Init /\ [][Next]_vars

\* ------------------------------------------------------------------------
\* properties
\* ------------------------------------------------------------------------
\* Fields of the replica that differ from the fold.  An absent Room object stands for a room in its
\* default state; its privacy flag is then not observable.
RoomDiff(m, f) ==
  IF m.exists
    THEN (IF m.joined # f.joined THEN {"joined"} ELSE {})
         \cup (IF m.users # f.users THEN {"users"} ELSE {})
         \cup (IF m.owner # f.owner THEN {"owner"} ELSE {})
         \cup (IF m.members # f.members THEN {"members"} ELSE {})
         \cup (IF m.ops # f.ops THEN {"operators"} ELSE {})
         \cup (IF m.tickers # f.tickers THEN {"tickers"} ELSE {})
         \cup (IF f.private # "any" /\ B3(m.private) # f.private THEN {"private"} ELSE {})
    ELSE IF f.joined \/ f.users # {} \/ f.owner # None \/ f.members # {} \/ f.ops # {} \/ f.tickers # NoTickers
           THEN {"room-dropped"} ELSE {}

UserDiff(m, f) ==
  IF ~m.alive THEN {"user-dropped"}
  ELSE (IF m.status # f.status THEN {"status"} ELSE {})
       \cup (IF m.stats # f.stats THEN {"stats"} ELSE {})
       \cup (IF f.priv # "any" /\ B3(m.priv) # f.priv THEN {"privileged"} ELSE {})

\* a user is compared while the fold says somebody references it (through a room only if the replica
\* still has that room: a dropped room is reported as such, once)
Compared(m, f, u) == u = Me \/ u \in tracked \/ \E r \in Rooms : u \in f.rooms[r].users /\ m.rooms[r].exists

Diff(m, f) ==
  UNION {RoomDiff(m.rooms[r], f.rooms[r]) : r \in Rooms}
  \cup UNION {IF Compared(m, f, u) THEN UserDiff(m.users[u], f.users[u]) ELSE {} : u \in Users}

ReplicaEqualsFold == Diff(M, F) = {}

\* every notification of the model, for the two event properties (they do not depend on F and M)
AllNotes ==
  {NRoomUser(k, r, u) : k \in {"RoomChatMessage", "PublicChatMessage", "UserLeftRoom", "RoomTickerRemoved",
                                "PrivateRoomGrantMembership", "PrivateRoomRevokeMembership",
                                "PrivateRoomGrantOperator", "PrivateRoomRevokeOperator"}, r \in Rooms, u \in Users}
  \cup {[NUser("PrivateChatMessage", u) EXCEPT !.id = 7] : u \in Users}
  \cup {[NRoomUser("UserJoinedRoom", r, u) EXCEPT !.v = v] : r \in Rooms, u \in Users, v \in Vals}
  \cup {[NRoomSet("JoinRoom", r, S) EXCEPT !.own = oo[1], !.ops = oo[2]] : r \in Rooms, S \in UserSets, oo \in OwnerOps}
  \cup {NRoom(k, r) : k \in {"LeaveRoom", "PrivateRoomMembershipGranted", "PrivateRoomMembershipRevoked",
                             "PrivateRoomOperatorGranted", "PrivateRoomOperatorRevoked"}, r \in Rooms}
  \cup {[NRoom("RoomTickers", r) EXCEPT !.tk = tk] : r \in Rooms, tk \in TickerMaps}
  \cup {[NRoomUser("RoomTickerAdded", r, u) EXCEPT !.text = t] : r \in Rooms, u \in Users, t \in Texts}
  \cup {NRoomSet(k, r, S) : k \in {"PrivateRoomMembers", "PrivateRoomOperators"}, r \in Rooms, S \in UserSets}
  \cup {[N0 EXCEPT !.kind = "RoomList", !.cat = c] : c \in [Rooms -> Cats]}
  \cup {[NUser("GetUserStatus", u) EXCEPT !.v = v, !.p = p] : u \in Users, v \in Vals, p \in BOOLEAN}
  \cup {[NUser("GetUserStats", u) EXCEPT !.v = v] : u \in Users, v \in Vals}
  \cup {[N0 EXCEPT !.kind = "PrivilegedUsers", !.set = S] : S \in UserSets}
  \cup {NUser("AddPrivilegedUser", u) : u \in Users}

EventsCarryAnnounced == n = 0 => \A nt \in AllNotes : Carry(nt, ImplEvents(nt))
BlockedSilent == n = 0 => \A nt \in AllNotes : Silent(nt, ImplEvents(nt), ImplAcks(nt))

TypeOK ==
  /\ n \in 0..MaxLen
  /\ tracked \subseteq Users
  /\ \A r \in Rooms :
       /\ F.rooms[r].users \subseteq Users /\ F.rooms[r].owner \in Users \cup {None}
       /\ F.rooms[r].private \in {"yes", "no", "any"}
       /\ F.rooms[r].ops \subseteq Users /\ F.rooms[r].members \subseteq Users
       /\ M.rooms[r].users \subseteq Users /\ M.rooms[r].private \in BOOLEAN
       /\ ~M.rooms[r].exists => M.rooms[r] = MRoom0
       /\ ~F.rooms[r].known => F.rooms[r] = FRoom0
  /\ \A u \in Users :
       /\ F.users[u].priv \in {"yes", "no", "any"}
       /\ ~M.users[u].alive => M.users[u] = MUser0
=============================================================================

SPECIFICATION TSpec
CONSTANTS
  Rooms = {"r1", "r2"}
  Users = {"me", "a", "b"}
  Me = "me"
  Texts = {"t1", "t2"}
  Vals = {0, 1, 2}
  UserSets <- T_Sets
  Owners = {"me", "a", "b"}
  OpSets <- T_Sets
  TrackChoices <- T_Track
  BlockChoices <- T_Block
  MaxLen = 100000
  OwnOpGrantDiscards = FALSE
  JoinAppends = FALSE
  RoomListDropsJoined = FALSE
INVARIANT ReplicaEqualsFold
INVARIANT WellFormedSnapshot
INVARIANT EventsCarryAnnouncedT
INVARIANT BlockedSilentT
CHECK_DEADLOCK TRUE

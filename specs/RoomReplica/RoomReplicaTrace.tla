------------------------- MODULE RoomReplicaTrace -------------------------
(***************************************************************************)
(* Trace validation for C19.  A batch of executions of a real, logged-in   *)
(* SoulSeekClient (recorded by harness/props/c19.py) is checked against    *)
(* RoomReplica: the fold F is computed by TLC from the logged frames with  *)
(* the design spec's own FStep action; M is NOT computed by the            *)
(* implementation model here but bound from the log (the projection of     *)
(* RoomManager.rooms and of the referenced User objects taken after the    *)
(* frame was handled).  ReplicaEqualsFold then compares the two.           *)
(*                                                                         *)
(* Event records (JSON):                                                   *)
(*   init : tracked, blkRoom, blkPriv, snap                 (first record) *)
(*   note : kind, room, user, v, p, set, own, ops, cat, tk, text, id       *)
(*          (the notification that was put on the wire), snap (projection  *)
(*          after it), evs (Room/User events emitted while it was handled) *)
(*          acks (chat ids acknowledged to the server meanwhile)           *)
(* snap = [rooms |-> <<[name, joined, users, owner, members, ops, tickers, *)
(*                      private]>>, users |-> <<[name, status, stats, priv,*)
(*                      conflict]>>]; lists are JSON arrays, tickers and   *)
(* tk are arrays of <<user, text>>, names are the model's ids (the harness *)
(* maps its concrete names back; a name it does not know starts with "?"). *)
(***************************************************************************)
EXTENDS RoomReplica, Json, IOUtils

Traces == JsonDeserialize(IOEnv.TRACE_FILE)

VARIABLES tid, l, last

tvars == <<vars, tid, l, last>>

T == Traces[tid]
Rec == T[l]

\* constants of the trace configuration (lists carried by real frames are arbitrary subsets)
T_Sets == SUBSET Users
T_Track == SUBSET Users
T_Block == [room : SUBSET Users, priv : SUBSET Users]

SeqToSet(s) == {s[i] : i \in 1..Len(s)}
PairFun(ps) == [u \in Users |-> IF \E i \in 1..Len(ps) : ps[i][1] = u
                                  THEN ps[CHOOSE i \in 1..Len(ps) : ps[i][1] = u][2]
                                  ELSE None]

\* ---- the recorded projection ------------------------------------------------
SnapRoom(snap, r) ==
  LET idx == {i \in 1..Len(snap.rooms) : snap.rooms[i].name = r} IN
  IF idx = {} THEN MRoom0
  ELSE LET x == snap.rooms[CHOOSE i \in idx : TRUE] IN
       [exists |-> TRUE, joined |-> x.joined, users |-> SeqToSet(x.users), owner |-> x.owner,
        members |-> SeqToSet(x.members), ops |-> SeqToSet(x.ops), tickers |-> PairFun(x.tickers),
        private |-> x.private]

SnapUser(snap, u) ==
  LET idx == {i \in 1..Len(snap.users) : snap.users[i].name = u} IN
  IF idx = {} THEN MUser0
  ELSE LET x == snap.users[CHOOSE i \in idx : TRUE] IN
       [alive |-> TRUE, status |-> x.status, stats |-> x.stats, priv |-> x.priv]

SnapToM(snap) == [rooms |-> [r \in Rooms |-> SnapRoom(snap, r)],
                  users |-> [u \in Users |-> SnapUser(snap, u)],
                  plist |-> {}]

\* what the projection cannot express in M: unknown names, a user listed twice, two different
\* User objects for one name
Malformed(snap) ==
  (IF \E i \in 1..Len(snap.rooms) : snap.rooms[i].name \notin Rooms THEN {"unknown-room"} ELSE {})
  \cup (IF \E i, j \in 1..Len(snap.rooms) : i # j /\ snap.rooms[i].name = snap.rooms[j].name
          THEN {"duplicate-room"} ELSE {})
  \cup (IF \E i \in 1..Len(snap.rooms) :
             LET x == snap.rooms[i] IN
               \/ ~(SeqToSet(x.users) \cup SeqToSet(x.members) \cup SeqToSet(x.ops) \subseteq Users)
               \/ x.owner \notin Users \cup {None}
               \/ \E k \in 1..Len(x.tickers) : x.tickers[k][1] \notin Users
          THEN {"unknown-user"} ELSE {})
  \cup (IF \E i \in 1..Len(snap.rooms) : Len(snap.rooms[i].users) # Cardinality(SeqToSet(snap.rooms[i].users))
          THEN {"duplicate-user"} ELSE {})
  \cup (IF \E i \in 1..Len(snap.users) : snap.users[i].conflict THEN {"user-object-conflict"} ELSE {})

\* ---- the logged notification --------------------------------------------------
NoteOf(e) ==
  [kind |-> e.kind, room |-> e.room, user |-> e.user, v |-> e.v, p |-> e.p, set |-> SeqToSet(e.set),
   own |-> e.own, ops |-> SeqToSet(e.ops), cat |-> [r \in Rooms |-> e.cat[r]], tk |-> PairFun(e.tk),
   text |-> e.text, id |-> e.id]

EvOf(x) == [cls |-> x.cls, room |-> x.room, user |-> x.user, names |-> SeqToSet(x.names)]
EvsOf(e) == {EvOf(e.evs[i]) : i \in 1..Len(e.evs)}

WellFormedNote(nt) ==
  /\ nt.kind \in Kinds
  /\ nt.kind \in RoomKinds \cup PrivateRoomKinds => nt.room \in Rooms
  /\ nt.user \in Users \cup {None} /\ nt.own \in Users \cup {None}
  /\ nt.set \subseteq Users /\ nt.ops \subseteq Users
  /\ \A r \in Rooms : nt.cat[r] \in Cats

NoLast == [note |-> N0, evs |-> {}, acks |-> {}]

TInit ==
  /\ tid \in 1..Len(Traces)
  /\ l = 2
  /\ Len(Traces[tid]) >= 1 /\ Traces[tid][1].ev = "init"
  /\ LET e == Traces[tid][1]  m0 == SnapToM(e.snap) IN
       /\ tracked = SeqToSet(e.tracked)
       /\ blk = [room |-> SeqToSet(e.blkRoom), priv |-> SeqToSet(e.blkPriv)]
       /\ Len(e.snap.rooms) = 0 /\ Malformed(e.snap) = {}
       /\ M = m0
       \* the users referenced at the start (session user, tracked users) are bound from the log
       /\ F = [rooms |-> [r \in Rooms |-> FRoom0],
               users |-> [u \in Users |-> IF (u = Me \/ u \in SeqToSet(e.tracked)) /\ m0.users[u].alive
                                            THEN [status |-> m0.users[u].status, stats |-> m0.users[u].stats,
                                                  priv |-> B3(m0.users[u].priv)]
                                            ELSE FUser0],
               plist |-> {}]
  /\ n = 0
  /\ last = NoLast

IsEv(e) == l <= Len(T) /\ Rec.ev = e

EventDiff(nt, evs, acks) ==
  (IF Carry(nt, evs) THEN {} ELSE {"events"}) \cup (IF Silent(nt, evs, acks) THEN {} ELSE {"blocked"})

\* one frame was delivered and handled: the design spec's action computes the fold, the log gives M
TNote ==
  /\ IsEv("note")
  /\ LET nt == NoteOf(Rec)
         m2 == SnapToM(Rec.snap)
         evs == EvsOf(Rec)
         acks == SeqToSet(Rec.acks)
         d == Diff(m2, Fold(F, nt)) \cup Malformed(Rec.snap) \cup EventDiff(nt, evs, acks)
     IN /\ WellFormedNote(nt)
        /\ FStep(nt)
        /\ M' = m2
        /\ last' = [note |-> nt, evs |-> evs, acks |-> acks]
        /\ IF d = {} THEN TRUE ELSE PrintT(<<"REJECT", tid, l, nt.kind, d>>)
  /\ l' = l + 1 /\ UNCHANGED tid

Done ==
  /\ l = Len(T) + 1
  /\ PrintT(<<"ACCEPT", tid, {}>>)
  /\ l' = l + 1
  /\ UNCHANGED <<vars, tid, last>>

Finished == l = Len(T) + 2 /\ UNCHANGED tvars

TNext == TNote \/ Done \/ Finished

TSpec == TInit /\ [][TNext]_tvars

\* the properties, on the recorded execution
WellFormedSnapshot == l = 1 \/ l > Len(T) + 1 \/ Malformed(T[l - 1].snap) = {}
EventsCarryAnnouncedT == last.note.kind = None \/ Carry(last.note, last.evs)
BlockedSilentT == last.note.kind = None \/ Silent(last.note, last.evs, last.acks)
=============================================================================

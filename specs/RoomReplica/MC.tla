-------------------------------- MODULE MC --------------------------------
(* Constant definitions for the exhaustive / simulation configurations of RoomReplica. *)
EXTENDS RoomReplica

C_UserSetsSmall == {{}, {"a"}, {"me", "b"}, {"me", "a", "b"}}
C_UserSetsAll == SUBSET Users
C_OpSetsSmall == {{}, {"me", "b"}}
C_OpSetsAll == SUBSET Users
C_OwnersSmall == {"a"}
C_OwnersAll == {"a", "me"}
\* b is kept alive by the tracker, a is only ever referenced through rooms
C_Track == {{"b"}}
\* b is blocked for room messages only, a for private messages only
C_Block == {[room |-> {"b"}, priv |-> {"a"}]}
=============================================================================

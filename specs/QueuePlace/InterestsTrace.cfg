SPECIFICATION TSpec
CONSTANTS
  Items = {"a", "b", "c", "other"}
  Kinds = {"rec", "global", "item", "userint", "similar", "itemsimilar"}
  Payloads = {"p"}
  Budget = 0
  Persist = TRUE
  Tolerate = TRUE
CONSTRAINT AdvertisedOnLogin
CONSTRAINT CommandTold
CONSTRAINT Agreement
CONSTRAINT OfflineRefused
CONSTRAINT Delivered
CONSTRAINT QueryAnswered
CONSTRAINT PushSilent
ACTION_CONSTRAINT OfflineNoEffectA
ACTION_CONSTRAINT SettingsStableA
CHECK_DEADLOCK FALSE

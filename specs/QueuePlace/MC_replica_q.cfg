SPECIFICATION Spec
CONSTANTS
  Downloads = {1, 2, 3}
  PerPeer = 2
  Places = {1, 4}
  Budget = 3
  ResetOnRequeue = TRUE
  RaiseDocumented = TRUE
INVARIANT TypeOK
INVARIANT ReplicaExact
INVARIANT OutcomeDocumented
CHECK_DEADLOCK FALSE

----------------------------- MODULE QueuePlace -----------------------------
(***************************************************************************)
(* X02 (beyond the listed properties), part a1 - the place in queue an     *)
(* uploader reports to a peer.                                             *)
(*                                                                         *)
(* Code: src/aioslsk/transfer/manager.py                                   *)
(*   get_place_in_queue (457-467), _on_peer_place_in_queue_request         *)
(*   (1486-1508), _get_queued_transfers (633-690), _prioritize_uploads     *)
(*   (692-718), manage_transfers (563-597).                                *)
(* Documentation the properties are written from:                          *)
(*   get_place_in_queue docstring: "The place in the queue, 0 if not in    *)
(*   the queue a value equal or greater than 1 indicating the position     *)
(*   otherwise"; PeerPlaceInQueueReply "Response to PeerPlaceInQueue-      *)
(*   Request" (no reply when there is no place to report);                 *)
(*   _prioritize_uploads: privileged users absolute priority, friends      *)
(*   (USAGE.rst "Friends: prioritize uploads"), ONLINE/AWAY above UNKNOWN, *)
(*   OFFLINE blocked; one upload per user at a time.                       *)
(*                                                                         *)
(* Abstract state: the uploads a client knows (state, insertion order),    *)
(* what it knows about their users, the slot limit, the answer to the      *)
(* last place request and the places told so far, kept up to date while    *)
(* the queue only shrinks (ToldAfter) so that they can be compared with    *)
(* the order in which uploads really get their slots.                      *)
(* One action per notification: a peer's queue request, the application's  *)
(* abort / pause / queue / remove, the peer's answer to a transfer request,*)
(* server messages about a user, the scheduler handing out a slot, and a   *)
(* peer (or the application, through get_place_in_queue) asking for the    *)
(* place of an upload.  The request handler does not suspend between the   *)
(* look-up and the reply, so Ask is one step.                              *)
(*                                                                         *)
(* The model does what the code does; the two places where that is not     *)
(* implied by the documentation are CONSTANT switches:                     *)
(*   ZeroBased = TRUE   the code: `uploads.index(transfer)` - the first    *)
(*                      upload of the queue is told 0, i.e. nothing, and   *)
(*                      everybody else one place too few.  AnswerTruthful  *)
(*                      fails (MC_zero.cfg).  FALSE = the documented place.*)
(*   TieLifo   = TRUE   the code: equal ranks are served newest first      *)
(*                      (stable ascending sort, then reversed).  No        *)
(*                      property depends on it: ties are unconstrained.    *)
(***************************************************************************)
EXTENDS Naturals, Sequences, FiniteSets, TLC

CONSTANTS
  Uploads,        \* upload ids (positive integers); upload u belongs to user ((u - 1) \div PerUser) + 1
  PerUser,        \* and is file (u - 1) % PerUser of the share: users ask for the same files
  Statuses,       \* subset of {"unknown", "offline", "away", "online"} containing "unknown"
  MaxSlots,
  InitSlots,      \* set of initial slot limits
  Budget,         \* how many environment events besides first queue requests and place requests
  ZeroBased,
  TieLifo

Owner(u) == ((u - 1) \div PerUser) + 1
Users == {Owner(u) : u \in Uploads}
States == {"NONE", "QUEUED", "INITIALIZING", "UPLOADING", "COMPLETE", "FAILED", "ABORTED", "PAUSED"}
Active == {"INITIALIZING", "UPLOADING"}

VARIABLES
  st,        \* upload -> state ("NONE": the client has no such transfer)
  order,     \* the uploads the client has, in the order they were added (TransferManager.transfers)
  status,    \* user -> status as the client knows it
  friend,    \* user -> in settings.users.friends
  priv,      \* user -> privileged
  slots,     \* settings.transfers.limits.upload_slots
  ans,       \* answer to the place request of this step: [u, place]; place 0 = "not in the queue" = no reply.  NoAns otherwise
  told,      \* upload -> the place it was told, kept up to date while the queue only shrinks (0 = none / history)
  left       \* what is left of Budget

queue == <<st, order, status, friend, priv, slots>>
budgets == <<left>>
vars == <<st, order, status, friend, priv, slots, ans, told, left>>

NoAns == [u |-> 0, place |-> 0]
NoneTold == [u \in Uploads |-> 0]

Pos(s, x) == CHOOSE i \in DOMAIN s : s[i] = x
InSeq(s, x) == \E i \in DOMAIN s : s[i] = x

----------------------------------------------------------------------------
\* The queue as the documentation describes it

\* a user with an upload in progress is not given a second one
Busy(o) == \E w \in Uploads : Owner(w) = o /\ st[w] \in Active
\* a user's queued uploads are served in the order they were requested
FirstQueued(u) ==
  /\ st[u] = "QUEUED"
  /\ \A w \in Uploads : (Owner(w) = Owner(u) /\ st[w] = "QUEUED") => Pos(order, u) <= Pos(order, w)
\* in the queue: the upload its user would be given next, the user can be served at all
InQueue(u) == FirstQueued(u) /\ status[Owner(u)] # "offline" /\ ~Busy(Owner(u))
Heads == {u \in Uploads : InQueue(u)}

\* privileged > friend > online/away > unknown; ties are unconstrained
Rank(o) == IF priv[o] THEN 3 ELSE IF friend[o] THEN 2 ELSE IF status[o] \in {"online", "away"} THEN 1 ELSE 0
\* the places an upload of the queue can truthfully be told
Lo(u) == 1 + Cardinality({v \in Heads : Rank(Owner(v)) > Rank(Owner(u))})
Hi(u) == Cardinality({v \in Heads : Rank(Owner(v)) >= Rank(Owner(u))})

----------------------------------------------------------------------------
\* The scheduler as the code has it (_get_queued_transfers + _prioritize_uploads)
Picked == SelectSeq(order, LAMBDA u : InQueue(u))
CodeRank(o) == (IF status[o] \in {"online", "away"} THEN 1 ELSE 0) + (IF friend[o] THEN 5 ELSE 0) + (IF priv[o] THEN 100 ELSE 0)
CodeBefore(a, b) ==
  \/ CodeRank(Owner(a)) > CodeRank(Owner(b))
  \/ /\ CodeRank(Owner(a)) = CodeRank(Owner(b))
     /\ IF TieLifo THEN Pos(Picked, a) > Pos(Picked, b) ELSE Pos(Picked, a) < Pos(Picked, b)
ServeOrder == SortSeq(Picked, CodeBefore)
CodePlace(u) ==
  IF InSeq(ServeOrder, u) THEN (IF ZeroBased THEN Pos(ServeOrder, u) - 1 ELSE Pos(ServeOrder, u)) ELSE 0

FreeSlots == LET used == Cardinality({u \in Uploads : st[u] \in Active}) IN IF slots > used THEN slots - used ELSE 0
ServeEnabled == FreeSlots > 0 /\ ServeOrder # <<>>

----------------------------------------------------------------------------
Init ==
  /\ st = [u \in Uploads |-> "NONE"] /\ order = <<>>
  /\ status = [o \in Users |-> "unknown"] /\ friend = [o \in Users |-> FALSE] /\ priv = [o \in Users |-> FALSE]
  /\ slots \in InitSlots
  /\ ans = NoAns /\ told = NoneTold
  /\ left = Budget

\* What a change of the queue means for the places told so far.  (Evaluated on a step: primed operators
\* are the same definitions read in the new state; actions put this conjunct last.)
\*  - the queue proper (who is in it, what is known about those users) is as before: nothing changes
\*    (a new limit, an upload finishing whose user waits for nothing else, ...);
\*  - exactly one upload left the queue (it got a slot, it was aborted ...) and its place is known:
\*    everybody behind it moves up one place;
\*  - anything else: the places told so far are history.
SameUsers(H) == \A u \in H : /\ status'[Owner(u)] = status[Owner(u)]
                              /\ friend'[Owner(u)] = friend[Owner(u)]
                              /\ priv'[Owner(u)] = priv[Owner(u)]
ToldAfter ==
  IF Heads' = Heads /\ SameUsers(Heads) THEN told
  ELSE IF /\ Heads' \subseteq Heads /\ Cardinality(Heads \ Heads') = 1 /\ SameUsers(Heads')
          /\ told[CHOOSE v \in Heads \ Heads' : TRUE] > 0
         THEN LET v == CHOOSE x \in Heads \ Heads' : TRUE IN
              [u \in Uploads |-> IF u = v THEN 0 ELSE IF told[u] > told[v] THEN told[u] - 1 ELSE told[u]]
         ELSE NoneTold
Changed == ans' = NoAns /\ told' = ToldAfter

SetState(u, s) ==
  /\ st' = [st EXCEPT ![u] = s]
  /\ order' = IF st[u] = "NONE" THEN Append(order, u)
              ELSE IF s = "NONE" THEN SelectSeq(order, LAMBDA x : x # u) ELSE order
  /\ UNCHANGED <<status, friend, priv, slots>>
  /\ Changed

Spend == left > 0 /\ left' = left - 1

\* The environment acts between two quiescent moments of the client: everything the scheduler can
\* start has been started (the request handler and the scheduler run on one event loop).
Quiet == ~ServeEnabled

\* PeerTransferQueue: _on_peer_transfer_queue (1204-1283)
Enqueue(u)   == Quiet /\ st[u] = "NONE" /\ SetState(u, "QUEUED") /\ UNCHANGED budgets
Reenqueue(u) == Quiet /\ st[u] \in {"COMPLETE", "FAILED"} /\ SetState(u, "QUEUED") /\ Spend
\* the application: TransferManager.abort / pause / queue / remove
Abort(u)  == Quiet /\ st[u] \in {"QUEUED", "INITIALIZING", "PAUSED"} /\ SetState(u, "ABORTED") /\ Spend
Pause(u)  == Quiet /\ st[u] \in {"QUEUED", "INITIALIZING"} /\ SetState(u, "PAUSED") /\ Spend
Resume(u) == Quiet /\ st[u] \in {"PAUSED", "ABORTED"} /\ SetState(u, "QUEUED") /\ Spend
Remove(u) == Quiet /\ st[u] # "NONE" /\ SetState(u, "NONE") /\ Spend
\* the peer answers the PeerTransferRequest: not allowed -> FAILED; allowed, file sent -> COMPLETE
Deny(u)   == Quiet /\ st[u] = "INITIALIZING" /\ SetState(u, "FAILED") /\ Spend
Finish(u) == Quiet /\ st[u] = "INITIALIZING" /\ SetState(u, "COMPLETE") /\ Spend

SetSlots(n) ==
  /\ Quiet /\ n \in 0..MaxSlots /\ n # slots
  /\ slots' = n /\ Spend
  /\ UNCHANGED <<st, order, status, friend, priv>>
  /\ Changed
Status(o, s) ==
  /\ Quiet /\ s \in Statuses \ {"unknown"} /\ s # status[o]
  /\ status' = [status EXCEPT ![o] = s] /\ Spend
  /\ UNCHANGED <<st, order, friend, priv, slots>>
  /\ Changed
Friend(o) ==
  /\ Quiet /\ friend' = [friend EXCEPT ![o] = ~friend[o]] /\ Spend
  /\ UNCHANGED <<st, order, status, priv, slots>>
  /\ Changed
Priv(o) ==
  /\ Quiet /\ priv' = [priv EXCEPT ![o] = ~priv[o]] /\ Spend
  /\ UNCHANGED <<st, order, status, friend, slots>>
  /\ Changed

\* manage_transfers: the first upload of the serving order gets the free slot (its task's first step
\* makes it INITIALIZING).
Serve ==
  /\ ServeEnabled
  /\ st' = [st EXCEPT ![ServeOrder[1]] = "INITIALIZING"]
  /\ UNCHANGED <<order, status, friend, priv, slots, budgets>>
  /\ Changed

\* A place request for upload u is answered with place p (0 = no answer).  The trace spec re-uses this
\* with the recorded answer.
AskWith(u, p) ==
  /\ ans' = [u |-> u, place |-> p]
  /\ told' = IF InQueue(u) /\ p > 0 THEN [told EXCEPT ![u] = p] ELSE told
  /\ UNCHANGED <<queue, budgets>>

\* only new questions: the answer to a repeated one is the same (keeps the model finite without a budget)
Ask(u) == Quiet /\ ~(InQueue(u) /\ told[u] > 0) /\ ans # [u |-> u, place |-> CodePlace(u)] /\ AskWith(u, CodePlace(u))

Next ==
  \/ Serve
  \/ \E u \in Uploads : \/ Enqueue(u) \/ Reenqueue(u) \/ Abort(u) \/ Pause(u) \/ Resume(u) \/ Remove(u)
                         \/ Deny(u) \/ Finish(u) \/ Ask(u)
  \/ \E n \in 0..MaxSlots : SetSlots(n)
  \/ \E o \in Users : \/ Friend(o) \/ Priv(o) \/ \E s \in Statuses : Status(o, s)

Spec == Init /\ [][Next]_vars

----------------------------------------------------------------------------
\* Properties (from the documentation, not from the code)

TypeOK ==
  /\ st \in [Uploads -> States]
  /\ \A u \in Uploads : (st[u] # "NONE") <=> InSeq(order, u)
  /\ Len(order) = Cardinality({u \in Uploads : st[u] # "NONE"})
  /\ slots \in 0..MaxSlots
  /\ told \in [Uploads -> 0..Cardinality(Uploads)]

\* The answer: an upload of the queue is told a place >= 1 that counts the uploads served before it -
\* everybody of a higher class, nobody of a lower one; an upload that is not queued at all is told
\* 0 / nothing.  (Queued uploads behind their user's first one, of a user being served or of an offline
\* user: the documentation does not say; unconstrained.)
AnswerTruthful ==
  ans # NoAns =>
    IF InQueue(ans.u) THEN ans.place >= Lo(ans.u) /\ ans.place <= Hi(ans.u)
    ELSE (st[ans.u] # "QUEUED" => ans.place = 0)

\* Two uploads of the same queue are never told the same place
PlacesDistinct == \A u, v \in Uploads : (u # v /\ told[u] > 0 /\ told[v] > 0) => told[u] # told[v]

\* The places are the order of service: the upload that gets a slot comes from the best class of the
\* queue; if it was told a place, that place was 1; and nobody who stays behind was told a smaller one.
ServeAgreesA ==
  \A v \in Uploads : (st[v] = "QUEUED" /\ st'[v] \in Active) =>
     /\ InQueue(v) /\ Lo(v) = 1
     /\ told[v] > 0 => told[v] = 1
     /\ \A u \in Heads \ {v} : (told[u] > 0 /\ told[v] > 0) => told[v] < told[u]
ServeAgrees == [][ServeAgreesA]_vars

\* no upload starts without a free slot (sanity of the model, C05's business otherwise)
ServeOnlyFree == [][\A v \in Uploads : (st[v] = "QUEUED" /\ st'[v] \in Active) => FreeSlots > 0]_vars
=============================================================================

------------------------------ MODULE Interests ------------------------------
(***************************************************************************)
(* X02 part b - interests and recommendations: what the settings say, what *)
(* the server was told, what the application is shown.                     *)
(*                                                                         *)
(* Code: src/aioslsk/interest/manager.py (advertise_interests 55-74, the   *)
(*   six reply handlers 77-148), src/aioslsk/commands.py (AddInterest /    *)
(*   AddHatedInterest / RemoveInterest / RemoveHatedInterest commands      *)
(*   717-758, the Get* commands 331-433, 761-781), client.execute.         *)
(* Documentation: USAGE.rst "Interests and Recommendations" (interests of  *)
(*   the settings are advertised after logging on; commands add or remove  *)
(*   them while logged in; recommendations are requested with commands and *)
(*   listened for with events); SOULSEEK.rst "Add an Interest" ... "Remove *)
(*   a Hated Interest" (the server's sets: add if absent, remove if        *)
(*   present; they live as long as the session); client.execute docstring  *)
(*   (InvalidSessionError when not logged on).                             *)
(*                                                                         *)
(* Abstract state: the two sets of the settings, the two sets the server   *)
(* holds for this session, and - per step - the interest-protocol messages *)
(* the server received (a bag), the events shown, the value returned.      *)
(*                                                                         *)
(* Switch: Persist = FALSE is the code - the add / remove commands only    *)
(* send the message, settings.interests is left alone, so the server and   *)
(* the settings disagree until the next logon and the change is lost       *)
(* there.  Agreement fails (MC_nopersist.cfg).  TRUE = the documented      *)
(* reading ("add or remove them", them = the interests of the settings).   *)
(***************************************************************************)
EXTENDS Naturals, Sequences, FiniteSets, TLC

CONSTANTS
  Items,          \* interest strings
  Kinds,          \* reply kinds: subset of {"rec", "global", "item", "userint", "similar", "itemsimilar"}
  Payloads,       \* reply contents (abstract)
  Budget,
  Persist

AddL == "AddInterest"   RemL == "RemoveInterest"   AddH == "AddHatedInterest"   RemH == "RemoveHatedInterest"
Cmds == {AddL, RemL, AddH, RemH}

\* the request message of a query and its argument (item kinds ask about item "a", userint about user "u")
ReqOf(k) == CASE k = "rec" -> "GetRecommendations" [] k = "global" -> "GetGlobalRecommendations"
              [] k = "item" -> "GetItemRecommendations" [] k = "userint" -> "GetUserInterests"
              [] k = "similar" -> "GetSimilarUsers" [] k = "itemsimilar" -> "GetItemSimilarUsers"
QArg(k) == IF k \in {"item", "itemsimilar"} THEN "a" ELSE IF k = "userint" THEN "u" ELSE ""

VARIABLES
  sess,               \* "off" | "on"
  liked, hated,       \* settings.interests.liked / hated
  srvLiked, srvHated, \* the server's sets for this session (SOULSEEK.rst)
  driftL, driftH,     \* items knowingly out of step (only the trace spec's marked deviation adds any)
  last,               \* the step just taken: [op, a, b, noop]; noop: a command that asks for what the server already has
  got,                \* interest-protocol messages the server received in this step: sequence of <<type, arg>>
  evs,                \* events shown to the application in this step: sequence of <<kind, content>>
  ret,                \* what the command of this step returned ("none"), or the exception it raised
  left

vars == <<sess, liked, hated, srvLiked, srvHated, driftL, driftH, last, got, evs, ret, left>>

Step(op, a, b) == [op |-> op, a |-> a, b |-> b, noop |-> FALSE]
Count(seq, m) == Cardinality({i \in DOMAIN seq : seq[i] = m})
SetToSeq(S) == CHOOSE s \in [1..Cardinality(S) -> S] : \A x \in S : \E i \in DOMAIN s : s[i] = x

\* the server's rule for one message
SrvL(L, m) == IF m[1] = AddL THEN L \cup {m[2]} ELSE IF m[1] = RemL THEN L \ {m[2]} ELSE L
SrvH(H, m) == IF m[1] = AddH THEN H \cup {m[2]} ELSE IF m[1] = RemH THEN H \ {m[2]} ELSE H
RECURSIVE FoldL(_, _), FoldH(_, _)
FoldL(L, seq) == IF seq = <<>> THEN L ELSE FoldL(SrvL(L, Head(seq)), Tail(seq))
FoldH(H, seq) == IF seq = <<>> THEN H ELSE FoldH(SrvH(H, Head(seq)), Tail(seq))

\* the command would not change the server's sets
Noop(c, i) == SrvL(srvLiked, <<c, i>>) = srvLiked /\ SrvH(srvHated, <<c, i>>) = srvHated

Init ==
  /\ sess = "off"
  /\ liked \in SUBSET Items /\ hated \in SUBSET Items
  /\ srvLiked = {} /\ srvHated = {} /\ driftL = {} /\ driftH = {}
  /\ last = Step("init", "", "") /\ got = <<>> /\ evs = <<>> /\ ret = "none"
  /\ left = Budget

Spend == left > 0 /\ left' = left - 1

\* client.login(): SessionInitializedEvent -> advertise_interests
Login ==
  /\ sess = "off" /\ sess' = "on"
  /\ got' = SetToSeq({<<AddL, i>> : i \in liked} \cup {<<AddH, i>> : i \in hated})
  /\ srvLiked' = FoldL({}, got') /\ srvHated' = FoldH({}, got')
  /\ driftL' = {} /\ driftH' = {}
  /\ last' = Step("login", "", "") /\ evs' = <<>> /\ ret' = "none"
  /\ Spend /\ UNCHANGED <<liked, hated>>

\* the connection to the server is lost: the server forgets the session
Drop ==
  /\ sess = "on" /\ sess' = "off"
  /\ srvLiked' = {} /\ srvHated' = {}
  /\ last' = Step("drop", "", "") /\ got' = <<>> /\ evs' = <<>> /\ ret' = "none"
  /\ Spend /\ UNCHANGED <<liked, hated, driftL, driftH>>

\* await client(AddInterestCommand(i)) and its three siblings
Cmd(c, i) ==
  /\ sess = "on" /\ c \in Cmds
  /\ got' = << <<c, i>> >>
  /\ srvLiked' = FoldL(srvLiked, got') /\ srvHated' = FoldH(srvHated, got')
  /\ IF Persist THEN liked' = SrvL(liked, <<c, i>>) /\ hated' = SrvH(hated, <<c, i>>)
                ELSE UNCHANGED <<liked, hated>>
  /\ last' = [Step("cmd", c, i) EXCEPT !.noop = Noop(c, i)] /\ evs' = <<>> /\ ret' = "none"
  /\ Spend /\ UNCHANGED <<sess, driftL, driftH>>

\* the same without a session
CmdOff(c, i) ==
  /\ sess = "off" /\ c \in Cmds
  /\ last' = Step("cmdoff", c, i) /\ got' = <<>> /\ evs' = <<>> /\ ret' = "InvalidSessionError"
  /\ Spend /\ UNCHANGED <<sess, liked, hated, srvLiked, srvHated, driftL, driftH>>

\* the server sends a reply of kind k with content p on its own
Push(k, p) ==
  /\ sess = "on"
  /\ last' = Step("push", k, p) /\ got' = <<>> /\ evs' = << <<k, p>> >> /\ ret' = "none"
  /\ Spend /\ UNCHANGED <<sess, liked, hated, srvLiked, srvHated, driftL, driftH>>

\* await client(Get...Command(...), response=True); the server answers with content p
Query(k, p) ==
  /\ sess = "on"
  /\ last' = Step("query", k, p) /\ got' = << <<ReqOf(k), QArg(k)>> >> /\ evs' = << <<k, p>> >> /\ ret' = p
  /\ Spend /\ UNCHANGED <<sess, liked, hated, srvLiked, srvHated, driftL, driftH>>

Next ==
  \/ Login \/ Drop
  \/ \E c \in Cmds, i \in Items : Cmd(c, i) \/ CmdOff(c, i)
  \/ \E k \in Kinds, p \in Payloads : Push(k, p) \/ Query(k, p)

Spec == Init /\ [][Next]_vars

----------------------------------------------------------------------------
\* Properties (from the documentation)

\* after logging on the server has been told every interest of the settings, once, and nothing else
AdvertisedOnLogin ==
  last.op = "login" =>
    /\ \A i \in liked : Count(got, <<AddL, i>>) = 1
    /\ \A i \in hated : Count(got, <<AddH, i>>) = 1
    /\ Len(got) = Cardinality(liked) + Cardinality(hated)

\* a command is exactly one message, the one it names ("add/remove messages exactly on change": a
\* command that asks for what the server already has may also send nothing)
CommandTold ==
  last.op = "cmd" => /\ ret = "none" /\ evs = <<>>
                     /\ got = << <<last.a, last.b>> >> \/ (last.noop /\ got = <<>>)

\* while logged on, the settings and the server hold the same interests
Agreement ==
  sess = "on" => /\ srvLiked \ driftL = liked \ driftL
                 /\ srvHated \ driftH = hated \ driftH

\* without a session a command is refused and does nothing
OfflineRefused == last.op = "cmdoff" => got = <<>> /\ evs = <<>> /\ ret = "InvalidSessionError"
OfflineNoEffect == [][last'.op = "cmdoff" => liked' = liked /\ hated' = hated]_vars

\* a reply is shown as exactly one event of its kind carrying what the server sent
Delivered == last.op \in {"push", "query"} => evs = << <<last.a, last.b>> >>
\* and a query asks exactly its question and returns what the server sent
QueryAnswered == last.op = "query" => got = << <<ReqOf(last.a), QArg(last.a)>> >> /\ ret = last.b
PushSilent == last.op = "push" => got = <<>>
=============================================================================

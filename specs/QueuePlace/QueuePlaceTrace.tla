-------------------------- MODULE QueuePlaceTrace --------------------------
(***************************************************************************)
(* Trace validation for X02 part a1: executions of a real SoulSeekClient   *)
(* (uploader) against scripted peers, recorded by harness/lib_x02.py, are  *)
(* checked against QueuePlace.                                             *)
(*                                                                         *)
(* Every record carries the projection of the client right after the event *)
(* (public surfaces: TransferManager.transfers, Transfer.state, User.status*)
(* / privileged, settings.users.friends, settings...upload_slots):         *)
(*   st (upload -> state), order, status, friend, priv (per user), slots.  *)
(* Records:                                                                *)
(*   chg                  the projection changed (a TransferStateListener  *)
(*                        was told, a server message arrived, the          *)
(*                        application changed a setting)                   *)
(*   ask : u, place, n    a place request for upload u was answered:       *)
(*                        n PeerPlaceInQueueReply frames came back, place  *)
(*                        is the reported place (0 when n = 0); or         *)
(*                        get_place_in_queue returned place (via = "api")  *)
(*   stray / exc          a reply nobody asked for / an exception: match   *)
(*                        no action                                        *)
(*                                                                         *)
(* How the queue changes is not X02's business (C03/C05): the queue is     *)
(* bound from the log.  What is judged is the answer given the queue       *)
(* (AnswerTruthful), the answers among each other (PlacesDistinct) and     *)
(* the answers against the order in which uploads really start             *)
(* (ServeAgreesA) - the properties of QueuePlace, as constraints.          *)
(*                                                                         *)
(* Tolerate = TRUE adds the marked deviation "place-zero-based": the       *)
(* recorded answer is the 0-based index into the queue (observation        *)
(* X02:place-zero-based, the code contradicts its docstring).              *)
(***************************************************************************)
EXTENDS QueuePlace, Json, IOUtils

CONSTANT Tolerate

Traces == JsonDeserialize(IOEnv.TRACE_FILE)

VARIABLES tid, l, marks
tvars == <<vars, tid, l, marks>>

T == Traces[tid]
Rec == T[l]

TInit == Init /\ tid \in 1..Len(Traces) /\ l = 1 /\ marks = {}

IsEv(e) == l <= Len(T) /\ Rec.ev = e
Consume == l' = l + 1 /\ UNCHANGED tid

StOf(rec, u) == IF u <= Len(rec.st) THEN rec.st[u] ELSE "NONE"
AttrOf(a, o, dflt) == IF o <= Len(a) THEN a[o] ELSE dflt

Bind(rec) ==
  /\ st' = [u \in Uploads |-> StOf(rec, u)]
  /\ order' = rec.order
  /\ status' = [o \in Users |-> AttrOf(rec.status, o, "unknown")]
  /\ friend' = [o \in Users |-> AttrOf(rec.friend, o, FALSE)]
  /\ priv' = [o \in Users |-> AttrOf(rec.priv, o, FALSE)]
  /\ slots' = rec.slots

Current(rec) ==
  /\ st = [u \in Uploads |-> StOf(rec, u)]
  /\ order = rec.order
  /\ status = [o \in Users |-> AttrOf(rec.status, o, "unknown")]
  /\ friend = [o \in Users |-> AttrOf(rec.friend, o, FALSE)]
  /\ priv = [o \in Users |-> AttrOf(rec.priv, o, FALSE)]
  /\ slots = rec.slots

TChg ==
  /\ IsEv("chg")
  /\ Bind(Rec)
  /\ Changed
  /\ UNCHANGED <<left, marks>>
  /\ Consume

TAsk ==
  /\ IsEv("ask")
  /\ Rec.n = IF Rec.place > 0 THEN 1 ELSE 0        \* one reply frame, and only for a place to report
  /\ Current(Rec)
  /\ \/ AskWith(Rec.u, Rec.place) /\ UNCHANGED marks
     \/ /\ Tolerate /\ InQueue(Rec.u)
        /\ AskWith(Rec.u, Rec.place + 1)
        /\ marks' = marks \cup {"place-zero-based"}
  /\ Consume

Done == l = Len(T) + 1 /\ PrintT(<<"ACCEPT", tid, marks>>) /\ l' = l + 1 /\ UNCHANGED <<vars, tid, marks>>
Finished == l = Len(T) + 2 /\ UNCHANGED tvars

TNext == TChg \/ TAsk \/ Done \/ Finished
TSpec == TInit /\ [][TNext]_tvars
ServeAgreesT == [][ServeAgreesA]_tvars
=============================================================================

SPECIFICATION TSpec
CONSTANTS
  Downloads = {1, 2, 3, 4}
  PerPeer = 2
  Places = {0, 1, 2, 3, 4, 5, 6, 7, 8, 9}
  Budget = 0
  ResetOnRequeue = TRUE
  RaiseDocumented = TRUE
  Tolerate = TRUE
CONSTRAINT ReplicaExactQ
CONSTRAINT OutcomeDocumented
CHECK_DEADLOCK FALSE

SPECIFICATION Spec
CONSTANTS
  Items = {"a"}
  Kinds = {"rec"}
  Payloads = {"p"}
  Budget = 3
  Persist = FALSE
INVARIANT AdvertisedOnLogin
INVARIANT CommandTold
INVARIANT Agreement
INVARIANT OfflineRefused
PROPERTY OfflineNoEffect
INVARIANT Delivered
INVARIANT QueryAnswered
INVARIANT PushSilent
CHECK_DEADLOCK FALSE

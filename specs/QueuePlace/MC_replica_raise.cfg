SPECIFICATION Spec
CONSTANTS
  Downloads = {1}
  PerPeer = 2
  Places = {1}
  Budget = 3
  ResetOnRequeue = TRUE
  RaiseDocumented = FALSE
INVARIANT TypeOK
INVARIANT ReplicaExact
INVARIANT OutcomeDocumented
CHECK_DEADLOCK FALSE

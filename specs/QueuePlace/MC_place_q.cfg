SPECIFICATION Spec
CONSTANTS
  Uploads = {1, 2, 3}
  PerUser = 2
  Statuses = {"unknown", "online", "offline"}
  MaxSlots = 1
  InitSlots = {0, 1}
  Budget = 2
  ZeroBased = FALSE
  TieLifo = TRUE
INVARIANT TypeOK
INVARIANT AnswerTruthful
INVARIANT PlacesDistinct
PROPERTY ServeAgrees
PROPERTY ServeOnlyFree
CHECK_DEADLOCK FALSE

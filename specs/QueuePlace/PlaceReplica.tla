---------------------------- MODULE PlaceReplica ----------------------------
(***************************************************************************)
(* X02 part a2 - the downloader's copy of its place in the uploader's      *)
(* queue: Transfer.place_in_queue.                                         *)
(*                                                                         *)
(* Code: src/aioslsk/transfer/manager.py request_place_in_queue (774-807), *)
(*   _on_peer_place_in_queue_reply (1510-1530); transfer/model.py          *)
(*   reset_queue_vars (180-186); transfer/state.py start_transferring      *)
(*   (235-242) and the queue() transitions.                                *)
(* Documentation: request_place_in_queue docstring ("return the value in   *)
(*   case of success", ":raise RequestPlaceFailedError: when the request   *)
(*   failed to send to the peer or waiting for a response timed out");     *)
(*   PeerPlaceInQueueReply (filename, place); TransferManager.queue        *)
(*   docstring / USAGE.rst "Aborted transfers can be requeued as well but  *)
(*   ... the transfer will be restarted from the beginning" - a re-queued  *)
(*   download is queued anew at the uploader, the place it was told before *)
(*   describes a queue entry that no longer exists.                        *)
(*                                                                         *)
(* `place` is what the code holds, `want` what the documentation implies:  *)
(* the place of the last reply for that user and file since the download   *)
(* was last (re-)queued or started, None otherwise.                        *)
(*                                                                         *)
(* Switches (the model does what the code does):                           *)
(*   ResetOnRequeue = FALSE  the code: queue() from PAUSED / ABORTED /     *)
(*       FAILED / COMPLETE keeps the stale place (only start_transferring  *)
(*       calls reset_queue_vars).  ReplicaExact fails (MC_stale.cfg).      *)
(*   RaiseDocumented = FALSE the code: an unreachable peer makes           *)
(*       request_place_in_queue raise PeerConnectionError, which is not a  *)
(*       RequestPlaceFailedError.  OutcomeDocumented fails (MC_raise.cfg). *)
(***************************************************************************)
EXTENDS Integers, FiniteSets, TLC

CONSTANTS
  Downloads,        \* download ids; download d is file (d - 1) % PerPeer of peer ((d - 1) \div PerPeer) + 1
  PerPeer,
  Places,           \* places a peer may report
  Budget,           \* environment events besides the first download() of each
  ResetOnRequeue,
  RaiseDocumented

PeerOf(d) == ((d - 1) \div PerPeer) + 1
Peers == {PeerOf(d) : d \in Downloads}
None == -1
DStates == {"NONE", "QUEUED", "DOWNLOADING", "COMPLETE", "INCOMPLETE", "FAILED", "PAUSED", "ABORTED"}
Waiting == {"QUEUED", "INCOMPLETE"}       \* the download sits in the uploader's queue

VARIABLES
  dst,      \* download -> state
  place,    \* download -> Transfer.place_in_queue (None = -1)
  want,     \* download -> the documented value
  req,      \* download -> the request_place_in_queue call in flight: [s, p]; s in idle / waiting / answered / timedout / unreachable
  out,      \* download -> how the last finished call ended: [why, p (the reply it got), k, val, exc]
  reach,    \* peer -> can be reached
  left

vars == <<dst, place, want, req, out, reach, left>>

Idle == [s |-> "idle", p |-> None]
NoOut == [why |-> "none", p |-> None, k |-> "none", val |-> None, exc |-> "none"]

Init ==
  /\ dst = [d \in Downloads |-> "NONE"]
  /\ place = [d \in Downloads |-> None] /\ want = [d \in Downloads |-> None]
  /\ req = [d \in Downloads |-> Idle] /\ out = [d \in Downloads |-> NoOut]
  /\ reach = [o \in Peers |-> TRUE]
  /\ left = Budget

Spend == left > 0 /\ left' = left - 1

\* What a state change means for the documented place: a download that starts, or that is queued
\* anew (first queued, or back from PAUSED / ABORTED / FAILED / COMPLETE), has no place yet.
Fresh == {"NONE", "VIRGIN", "PAUSED", "ABORTED", "FAILED", "COMPLETE"}
Resets(old, new) == new = "DOWNLOADING" \/ (new = "QUEUED" /\ old \in Fresh)
WantAfter(d, old, new) == IF Resets(old, new) THEN None ELSE want[d]
\* a finished call returns before anything else happens (it runs on the same event loop)
Quiet == \A d \in Downloads : req[d].s \in {"idle", "waiting"}

\* TransferManager.download
Download(d) ==
  /\ Quiet /\ dst[d] = "NONE"
  /\ dst' = [dst EXCEPT ![d] = "QUEUED"]
  /\ place' = [place EXCEPT ![d] = None] /\ want' = [want EXCEPT ![d] = WantAfter(d, "NONE", "QUEUED")]
  /\ UNCHANGED <<req, out, reach, left>>

\* PeerPlaceInQueueReply(file of d, p) from the peer of d: _on_peer_place_in_queue_reply, and the
\* response future of a pending request
Reply(d, p) ==
  /\ Quiet /\ dst[d] \in Waiting /\ reach[PeerOf(d)]
  /\ place' = [place EXCEPT ![d] = p] /\ want' = [want EXCEPT ![d] = p]
  /\ req' = IF req[d].s = "waiting" THEN [req EXCEPT ![d] = [s |-> "answered", p |-> p]] ELSE req
  /\ Spend
  /\ UNCHANGED <<dst, out, reach>>

\* a reply about a file the client does not download from that peer changes nothing
ReplyUnknown(d, p) ==
  /\ Quiet /\ dst[d] = "NONE" /\ reach[PeerOf(d)]
  /\ Spend
  /\ UNCHANGED <<dst, place, want, req, out, reach>>

\* TransferManager.request_place_in_queue(transfer)
Request(d) ==
  /\ Quiet /\ dst[d] \in Waiting /\ req[d].s = "idle"
  /\ req' = [req EXCEPT ![d] = [s |-> IF reach[PeerOf(d)] THEN "waiting" ELSE "unreachable", p |-> None]]
  /\ out' = [out EXCEPT ![d] = NoOut]
  /\ Spend
  /\ UNCHANGED <<dst, place, want, reach>>

\* 15 s pass without a reply
Timeout ==
  /\ Quiet /\ \E d \in Downloads : req[d].s = "waiting"
  /\ req' = [d \in Downloads |-> IF req[d].s = "waiting" THEN [s |-> "timedout", p |-> None] ELSE req[d]]
  /\ UNCHANGED <<dst, place, want, out, reach, left>>

\* the call returns / raises
Return(d) ==
  /\ req[d].s \in {"answered", "timedout", "unreachable"}
  /\ out' = [out EXCEPT ![d] =
       IF req[d].s = "answered" THEN [why |-> "answered", p |-> req[d].p, k |-> "ret", val |-> req[d].p, exc |-> "none"]
       ELSE [why |-> req[d].s, p |-> None, k |-> "raise", val |-> None,
             exc |-> IF req[d].s = "unreachable" /\ ~RaiseDocumented THEN "PeerConnectionError"
                     ELSE "RequestPlaceFailedError"]]
  /\ req' = [req EXCEPT ![d] = Idle]
  /\ UNCHANGED <<dst, place, want, reach, left>>

\* the uploader's turn has come: PeerTransferRequest, file connection, data flows (start_transferring)
Start(d) ==
  /\ Quiet /\ dst[d] \in Waiting /\ reach[PeerOf(d)]
  /\ dst' = [dst EXCEPT ![d] = "DOWNLOADING"]
  /\ place' = [place EXCEPT ![d] = None] /\ want' = [want EXCEPT ![d] = WantAfter(d, dst[d], "DOWNLOADING")]
  /\ Spend
  /\ UNCHANGED <<req, out, reach>>

Move(d, from, to) ==
  /\ Quiet /\ dst[d] \in from
  /\ dst' = [dst EXCEPT ![d] = to]
  /\ want' = [want EXCEPT ![d] = WantAfter(d, dst[d], to)]
  /\ Spend
  /\ UNCHANGED <<place, req, out, reach>>

\* (each a conjunction of its own, so that TLC labels the transitions with these names)
Finish(d) == dst[d] = "DOWNLOADING" /\ Move(d, {"DOWNLOADING"}, "COMPLETE")            \* all bytes received
Break(d)  == dst[d] = "DOWNLOADING" /\ Move(d, {"DOWNLOADING"}, "INCOMPLETE")          \* the file connection breaks
Pause(d)  == dst[d] # "NONE" /\ Move(d, {"QUEUED", "INCOMPLETE", "DOWNLOADING"}, "PAUSED")
Abort(d)  == dst[d] # "NONE" /\ Move(d, {"QUEUED", "INCOMPLETE", "DOWNLOADING", "PAUSED"}, "ABORTED")
Reject(d) == reach[PeerOf(d)] /\ Move(d, {"QUEUED"}, "FAILED")   \* PeerTransferQueueFailed

\* TransferManager.queue on a paused / aborted / failed / complete download: queued anew
Requeue(d) ==
  /\ Quiet /\ dst[d] \in {"PAUSED", "ABORTED", "FAILED", "COMPLETE"}
  /\ dst' = [dst EXCEPT ![d] = "QUEUED"]
  /\ want' = [want EXCEPT ![d] = WantAfter(d, dst[d], "QUEUED")]
  /\ place' = IF ResetOnRequeue THEN [place EXCEPT ![d] = None] ELSE place
  /\ Spend
  /\ UNCHANGED <<req, out, reach>>

\* the peer goes away (connections closed, nobody listens) / comes back
Unreach(o) == Quiet /\ reach[o] /\ (\A d \in Downloads : PeerOf(d) = o => dst[d] # "DOWNLOADING") /\ reach' = [reach EXCEPT ![o] = FALSE] /\ Spend /\ UNCHANGED <<dst, place, want, req, out>>
Reach(o) == Quiet /\ ~reach[o] /\ reach' = [reach EXCEPT ![o] = TRUE] /\ Spend /\ UNCHANGED <<dst, place, want, req, out>>

Next ==
  \/ Timeout
  \/ \E d \in Downloads : \/ Download(d) \/ Request(d) \/ Return(d) \/ Start(d) \/ Finish(d) \/ Break(d)
                           \/ Pause(d) \/ Abort(d) \/ Reject(d) \/ Requeue(d)
                           \/ \E p \in Places : Reply(d, p) \/ ReplyUnknown(d, p)
  \/ \E o \in Peers : Unreach(o) \/ Reach(o)

Spec == Init /\ [][Next]_vars

----------------------------------------------------------------------------
TypeOK ==
  /\ dst \in [Downloads -> DStates]
  /\ place \in [Downloads -> Places \cup {None}] /\ want \in [Downloads -> Places \cup {None}]
  /\ \A d \in Downloads : req[d].s \in {"idle", "waiting", "answered", "timedout", "unreachable"}

\* the client's copy is the place of the last reply for that download since it was queued, None after
\* it started or was queued again; a reply for one download never shows on another
ReplicaExact == \A d \in Downloads : dst[d] # "NONE" => place[d] = want[d]

\* request_place_in_queue returns the place of the reply it waited for; every failure is a
\* RequestPlaceFailedError
OutcomeDocumented ==
  \A d \in Downloads :
     /\ out[d].why = "answered" => (out[d].k = "ret" /\ out[d].val = out[d].p)
     /\ out[d].why \in {"timedout", "unreachable"} => (out[d].k = "raise" /\ out[d].exc = "RequestPlaceFailedError")
     /\ out[d].k = "ret" => out[d].why = "answered"
=============================================================================

SPECIFICATION Spec
CONSTANTS
  Downloads = {1, 2, 3, 4}
  PerPeer = 2
  Places = {0, 1, 4}
  Budget = 5
  ResetOnRequeue = TRUE
  RaiseDocumented = TRUE
INVARIANT TypeOK
INVARIANT ReplicaExact
INVARIANT OutcomeDocumented
CHECK_DEADLOCK FALSE

SPECIFICATION Spec
CONSTANTS
  Items = {"a", "b"}
  Kinds = {"rec", "global", "item", "userint", "similar", "itemsimilar"}
  Payloads = {"p"}
  Budget = 4
  Persist = TRUE
INVARIANT AdvertisedOnLogin
INVARIANT CommandTold
INVARIANT Agreement
INVARIANT OfflineRefused
PROPERTY OfflineNoEffect
INVARIANT Delivered
INVARIANT QueryAnswered
INVARIANT PushSilent
CHECK_DEADLOCK FALSE

--------------------------- MODULE InterestsTrace ---------------------------
(***************************************************************************)
(* Trace validation for X02 part b: a real SoulSeekClient against a        *)
(* scripted server (harness/lib_x02.py InterestWorld) against Interests.   *)
(*                                                                         *)
(* Every record carries liked / hated: settings.interests after the step   *)
(* (item strings are renamed back to the abstract items by the recorder,   *)
(* anything else is "other").  got = the interest-protocol messages the    *)
(* server received during the step, in order, as <<type, argument>>;       *)
(* evs = the events the application was shown, as <<kind, content>> with   *)
(* content a canonical rendering of the event's fields; ret = "none", a    *)
(* canonical rendering of the returned value, or the exception's name.     *)
(*   init                                                                  *)
(*   login  : got                                                          *)
(*   drop                                                                  *)
(*   cmd    : c, i, got, evs, ret                                          *)
(*   cmdoff : c, i, got, evs, ret                                          *)
(*   push   : k, content, got, evs            content = canonical rendering *)
(*   query  : k, content, got, evs, ret       of what the server sent      *)
(* The server's sets are folded from `got` by the rule of SOULSEEK.rst.    *)
(*                                                                         *)
(* Tolerate = TRUE adds the marked deviation "interest-command-not-        *)
(* persisted": a command left settings.interests alone; the item is out of *)
(* step until the next logon (observation).                                *)
(***************************************************************************)
EXTENDS Interests, Json, IOUtils

CONSTANT Tolerate

Traces == JsonDeserialize(IOEnv.TRACE_FILE)

VARIABLES tid, l, marks
tvars == <<vars, tid, l, marks>>

T == Traces[tid]
Rec == T[l]

ToSet(s) == {s[i] : i \in DOMAIN s}

TInit ==
  /\ tid \in 1..Len(Traces) /\ l = 2 /\ marks = {}
  /\ Len(Traces[tid]) >= 1 /\ Traces[tid][1].ev = "init"
  /\ sess = "off"
  /\ liked = ToSet(Traces[tid][1].liked) /\ hated = ToSet(Traces[tid][1].hated)
  /\ srvLiked = {} /\ srvHated = {} /\ driftL = {} /\ driftH = {}
  /\ last = Step("init", "", "") /\ got = <<>> /\ evs = <<>> /\ ret = "none"
  /\ left = 0

IsEv(e) == l <= Len(T) /\ Rec.ev = e
Consume == l' = l + 1 /\ UNCHANGED tid

Observed ==
  /\ liked' = ToSet(Rec.liked) /\ hated' = ToSet(Rec.hated)
  /\ got' = Rec.got /\ evs' = Rec.evs /\ ret' = Rec.ret
  /\ UNCHANGED left

TLogin ==
  /\ IsEv("login") /\ sess = "off" /\ sess' = "on"
  /\ Observed
  /\ srvLiked' = FoldL({}, Rec.got) /\ srvHated' = FoldH({}, Rec.got)
  /\ driftL' = {} /\ driftH' = {}
  /\ last' = Step("login", "", "")
  /\ UNCHANGED marks /\ Consume

TDrop ==
  /\ IsEv("drop") /\ sess' = "off"
  /\ Observed
  /\ srvLiked' = {} /\ srvHated' = {}
  /\ last' = Step("drop", "", "")
  /\ UNCHANGED <<driftL, driftH, marks>> /\ Consume

TCmd ==
  /\ IsEv("cmd") /\ sess = "on"
  /\ Observed
  /\ srvLiked' = FoldL(srvLiked, Rec.got) /\ srvHated' = FoldH(srvHated, Rec.got)
  /\ last' = [Step("cmd", Rec.c, Rec.i) EXCEPT !.noop = Noop(Rec.c, Rec.i)]
  /\ \/ UNCHANGED <<driftL, driftH, marks>>
     \/ /\ Tolerate /\ liked' = liked /\ hated' = hated
        /\ driftL' = IF Rec.c \in {AddL, RemL} THEN driftL \cup {Rec.i} ELSE driftL
        /\ driftH' = IF Rec.c \in {AddH, RemH} THEN driftH \cup {Rec.i} ELSE driftH
        /\ marks' = marks \cup {"interest-command-not-persisted"}
  /\ UNCHANGED sess /\ Consume

TCmdOff ==
  /\ IsEv("cmdoff") /\ sess = "off"
  /\ Observed
  /\ last' = Step("cmdoff", Rec.c, Rec.i)
  /\ UNCHANGED <<sess, srvLiked, srvHated, driftL, driftH, marks>> /\ Consume

TReply(op) ==
  /\ IsEv(op) /\ sess = "on"
  /\ Observed
  /\ srvLiked' = FoldL(srvLiked, Rec.got) /\ srvHated' = FoldH(srvHated, Rec.got)
  /\ last' = Step(op, Rec.k, Rec.content)
  /\ UNCHANGED <<sess, driftL, driftH, marks>> /\ Consume

Done == l = Len(T) + 1 /\ PrintT(<<"ACCEPT", tid, marks>>) /\ l' = l + 1 /\ UNCHANGED <<vars, tid, marks>>
Finished == l = Len(T) + 2 /\ UNCHANGED tvars

TNext == TLogin \/ TDrop \/ TCmd \/ TCmdOff \/ TReply("push") \/ TReply("query") \/ Done \/ Finished
TSpec == TInit /\ [][TNext]_tvars

\* OfflineNoEffect as an action constraint
OfflineNoEffectA == last'.op = "cmdoff" => liked' = liked /\ hated' = hated
\* settings.interests only changes through a command (the recorder changes nothing itself)
SettingsStableA == last'.op \notin {"cmd", "cmdoff"} => liked' = liked /\ hated' = hated
OfflineNoEffectT == [][OfflineNoEffectA]_tvars
SettingsStableT == [][SettingsStableA]_tvars
=============================================================================

------------------------- MODULE PlaceReplicaTrace -------------------------
(***************************************************************************)
(* Trace validation for X02 part a2: a real SoulSeekClient downloading     *)
(* from scripted uploaders (harness/lib_x02.py DownloaderWorld) against    *)
(* PlaceReplica.                                                           *)
(*                                                                         *)
(* Records:                                                                *)
(*   st      : d, old, new    a TransferStateListener of download d was    *)
(*                            told                                         *)
(*   reply   : d, p           the peer of d sent PeerPlaceInQueueReply     *)
(*                            (file of d, p)                               *)
(*   request : d              request_place_in_queue(transfer d) was called*)
(*   timeout                  more than 15 s of virtual time passed        *)
(*   done    : d, k, val, exc the call returned val (k = "ret") / raised   *)
(*                            exc (k = "raise")                            *)
(*   reach   : o, up          peer o went away / came back                 *)
(*   quiet   : place          the client is quiescent; place = what        *)
(*                            Transfer.place_in_queue says per download    *)
(*                            (-1 = None)                                  *)
(*   pending : d              at the end: the call for d never finished    *)
(*   exc                      an exception reached the event loop          *)
(* The last two match no action.  The transfer states are bound from the   *)
(* log (C03's business); `want` follows the documentation; ReplicaExact is *)
(* judged at the quiescent records.                                        *)
(*                                                                         *)
(* Tolerate = TRUE adds two marked deviations (observations, the code      *)
(* contradicts its documentation):                                         *)
(*   "stale-place-after-requeue"    a download queued anew keeps the place *)
(*                                  it was told before                     *)
(*   "request-raises-peer-connection-error"                                *)
(***************************************************************************)
EXTENDS PlaceReplica, Sequences, Json, IOUtils

CONSTANT Tolerate

Traces == JsonDeserialize(IOEnv.TRACE_FILE)

VARIABLES tid, l, marks, q
tvars == <<vars, tid, l, marks, q>>

T == Traces[tid]
Rec == T[l]

TInit == Init /\ tid \in 1..Len(Traces) /\ l = 1 /\ marks = {} /\ q = FALSE

IsEv(e) == l <= Len(T) /\ Rec.ev = e
Consume == l' = l + 1 /\ UNCHANGED tid

TSt ==
  /\ IsEv("st") /\ Rec.d \in Downloads
  /\ dst' = [dst EXCEPT ![Rec.d] = Rec.new]
  /\ \/ want' = [want EXCEPT ![Rec.d] = WantAfter(Rec.d, Rec.old, Rec.new)] /\ UNCHANGED marks
     \/ /\ Tolerate /\ Rec.new = "QUEUED" /\ Rec.old \in Fresh \ {"NONE", "VIRGIN"} /\ want[Rec.d] # None
        /\ UNCHANGED want
        /\ marks' = marks \cup {"stale-place-after-requeue"}
  /\ q' = FALSE
  /\ UNCHANGED <<place, req, out, reach, left>>
  /\ Consume

\* outside the states in which the download sits in the uploader's queue the documentation does not
\* say what a reply means: either reading is accepted
TReply ==
  /\ IsEv("reply") /\ Rec.d \in Downloads
  /\ LET d == Rec.d  p == Rec.p IN
       /\ IF dst[d] \in Waiting THEN want' = [want EXCEPT ![d] = p]
          ELSE IF dst[d] = "NONE" THEN UNCHANGED want
          ELSE \E w \in {want[d], p} : want' = [want EXCEPT ![d] = w]
       /\ req' = IF req[d].s = "waiting" THEN [req EXCEPT ![d] = [s |-> "answered", p |-> p]] ELSE req
  /\ q' = FALSE
  /\ UNCHANGED <<dst, place, out, reach, left, marks>>
  /\ Consume

TRequest ==
  /\ IsEv("request") /\ Rec.d \in Downloads /\ req[Rec.d].s = "idle"
  /\ req' = [req EXCEPT ![Rec.d] = [s |-> IF reach[PeerOf(Rec.d)] THEN "waiting" ELSE "unreachable", p |-> None]]
  /\ out' = [out EXCEPT ![Rec.d] = NoOut]
  /\ q' = FALSE
  /\ UNCHANGED <<dst, place, want, reach, left, marks>>
  /\ Consume

TTimeout ==
  /\ IsEv("timeout")
  /\ req' = [d \in Downloads |-> IF req[d].s = "waiting" THEN [s |-> "timedout", p |-> None] ELSE req[d]]
  /\ q' = FALSE
  /\ UNCHANGED <<dst, place, want, out, reach, left, marks>>
  /\ Consume

TDone ==
  /\ IsEv("done") /\ Rec.d \in Downloads
  /\ req[Rec.d].s \in {"answered", "timedout", "unreachable"}
  /\ LET d == Rec.d
         o == [why |-> req[d].s, p |-> req[d].p, k |-> Rec.k, val |-> Rec.val, exc |-> Rec.exc] IN
       \/ out' = [out EXCEPT ![d] = o] /\ UNCHANGED marks
       \/ /\ Tolerate /\ req[d].s = "unreachable" /\ Rec.k = "raise" /\ Rec.exc = "PeerConnectionError"
          /\ out' = [out EXCEPT ![d] = [o EXCEPT !.exc = "RequestPlaceFailedError"]]
          /\ marks' = marks \cup {"request-raises-peer-connection-error"}
  /\ req' = [req EXCEPT ![Rec.d] = Idle]
  /\ q' = FALSE
  /\ UNCHANGED <<dst, place, want, reach, left>>
  /\ Consume

TReach ==
  /\ IsEv("reach") /\ Rec.o \in Peers
  /\ reach' = [reach EXCEPT ![Rec.o] = Rec.up]
  /\ q' = FALSE
  /\ UNCHANGED <<dst, place, want, req, out, left, marks>>
  /\ Consume

PlaceOf(rec, d) == IF d <= Len(rec.place) THEN rec.place[d] ELSE None

TQuiet ==
  /\ IsEv("quiet")
  /\ place' = [d \in Downloads |-> PlaceOf(Rec, d)]
  /\ q' = TRUE
  /\ UNCHANGED <<dst, want, req, out, reach, left, marks>>
  /\ Consume

Done == l = Len(T) + 1 /\ PrintT(<<"ACCEPT", tid, marks>>) /\ l' = l + 1 /\ UNCHANGED <<vars, tid, marks, q>>
Finished == l = Len(T) + 2 /\ UNCHANGED tvars

TNext == TSt \/ TReply \/ TRequest \/ TTimeout \/ TDone \/ TReach \/ TQuiet \/ Done \/ Finished
TSpec == TInit /\ [][TNext]_tvars

\* ReplicaExact at the quiescent records
ReplicaExactQ == q => ReplicaExact
=============================================================================

SPECIFICATION TSpec
CONSTANTS
  Uploads = {1, 2, 3, 4, 5, 6}
  PerUser = 2
  Statuses = {"unknown", "offline", "away", "online"}
  MaxSlots = 6
  InitSlots = {0}
  Budget = 0
  ZeroBased = FALSE
  TieLifo = TRUE
  Tolerate = TRUE
CONSTRAINT AnswerTruthful
CONSTRAINT PlacesDistinct
ACTION_CONSTRAINT ServeAgreesA
CHECK_DEADLOCK FALSE

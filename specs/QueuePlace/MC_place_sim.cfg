SPECIFICATION Spec
CONSTANTS
  Uploads = {1, 2, 3, 4, 5, 6}
  PerUser = 2
  Statuses = {"unknown", "online", "away", "offline"}
  MaxSlots = 2
  InitSlots = {0, 1}
  Budget = 9
  ZeroBased = FALSE
  TieLifo = TRUE
INVARIANT TypeOK
INVARIANT AnswerTruthful
INVARIANT PlacesDistinct
PROPERTY ServeAgrees
PROPERTY ServeOnlyFree
CHECK_DEADLOCK FALSE

SPECIFICATION Spec
CONSTANTS
  Uploads = {1, 3}
  PerUser = 2
  Statuses = {"unknown", "online", "offline"}
  MaxSlots = 1
  InitSlots = {0}
  Budget = 1
  ZeroBased = TRUE
  TieLifo = TRUE
INVARIANT TypeOK
INVARIANT AnswerTruthful
INVARIANT PlacesDistinct
PROPERTY ServeAgrees
PROPERTY ServeOnlyFree
CHECK_DEADLOCK FALSE

SPECIFICATION Spec
CONSTANTS
  Items = {"a", "b", "c"}
  Kinds = {"rec", "global", "item", "userint", "similar", "itemsimilar"}
  Payloads = {"p"}
  Budget = 16
  Persist = TRUE
INVARIANT AdvertisedOnLogin
INVARIANT CommandTold
INVARIANT Agreement
INVARIANT OfflineRefused
PROPERTY OfflineNoEffect
INVARIANT Delivered
INVARIANT QueryAnswered
INVARIANT PushSilent
CHECK_DEADLOCK FALSE

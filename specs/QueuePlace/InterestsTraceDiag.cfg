SPECIFICATION TSpec
CONSTANTS
  Items = {"a", "b", "c", "other"}
  Kinds = {"rec", "global", "item", "userint", "similar", "itemsimilar"}
  Payloads = {"p"}
  Budget = 0
  Persist = TRUE
  Tolerate = TRUE
INVARIANT AdvertisedOnLogin
INVARIANT CommandTold
INVARIANT Agreement
INVARIANT OfflineRefused
INVARIANT Delivered
INVARIANT QueryAnswered
INVARIANT PushSilent
PROPERTY OfflineNoEffectT
PROPERTY SettingsStableT
CHECK_DEADLOCK TRUE

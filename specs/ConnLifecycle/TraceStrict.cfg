SPECIFICATION TSpec
CONSTANTS
  Conns = {1, 2, 3, 4, 5, 6, 7, 8, 9, 10}
  Kinds = {"server", "out", "in", "none"}
  Obfs = {FALSE, TRUE}
  SlowListener = TRUE
  GuardAcceptFinish = TRUE
  CloseOnCancel = TRUE
  AbortConnectOnClose = TRUE
  ConnectingReportGuarded = TRUE
  ClosingReportGuarded = TRUE
  MaxLives = 20
  MaxCalls = 50
  MaxMsgs = 100000
  Modes = {"strict"}
CONSTRAINT Monotone
CONSTRAINT ClosedOnce
CONSTRAINT NothingAfterClosed
CONSTRAINT NoDeliveryAfterClosed
CONSTRAINT NoSendAfterClosed
CONSTRAINT RegistryExactT
CONSTRAINT ClosedWhenEndedT
CHECK_DEADLOCK FALSE

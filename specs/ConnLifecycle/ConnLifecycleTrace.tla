------------------------ MODULE ConnLifecycleTrace ------------------------
(***************************************************************************)
(* Trace validation for C10: executions of the real Network /              *)
(* PeerConnection / ListeningConnection / ServerConnection over the        *)
(* simulated network, recorded by harness/props/c10.py, are checked        *)
(* against ConnLifecycle.                                                  *)
(*                                                                         *)
(* Records (JSON):                                                         *)
(*   init    : n, kind[1..n], obf[1..n]      (first record; ids 1..n)      *)
(*   state   : c, st, reason, reg   a ConnectionStateChangedEvent          *)
(*   deliver : c, reg               a MessageReceivedEvent                 *)
(*   wire    : c, n, reg            n bytes of c were handed to the link   *)
(*   sent    : c, res (ok|raised|cancelled), wrote, reg   a send_message   *)
(*             started by the driver returned; wrote = it had handed bytes *)
(*             to the transport                                            *)
(*   q       : reg, att[1..n], sock[1..n], held[1..n]   a quiescent point: *)
(*             registry, per connection the attempt (none|running|gone|    *)
(*             unknown), the transport (none|open|closing|closed|unknown)  *)
(*             and whether the driver's slow listener is holding one of    *)
(*             its reports (a task is suspended inside the report)         *)
(*   stim    : what ...             what the driver did (not constrained)  *)
(* reg = ids in Network.peer_connections right after the event.            *)
(*                                                                         *)
(* Two readings of a trace, chosen in TInit:                               *)
(*  generic - only the observable variables of the design spec are         *)
(*            maintained (rep, inReg, att, wr, dlvAC, sndAC).  The verdict *)
(*            comes from this reading: the trace is accepted iff the       *)
(*            properties of C10, as constraints, hold all along.  It       *)
(*            constrains nothing but what the property statement says.     *)
(*  strict  - every record must in addition be an instance of an action of *)
(*            the design spec (with silent internal steps in between).     *)
(*            An accepting strict path shows that the code-shaped model    *)
(*            explains the execution (model fidelity; reported, but a      *)
(*            trace only the generic reading accepts is not a violation).  *)
(***************************************************************************)
EXTENDS ConnLifecycle, Json, IOUtils

CONSTANT Modes      \* readings to try: subset of {"strict", "generic"} (the diagnosis run uses the generic one only)

Traces == JsonDeserialize(IOEnv.TRACE_FILE)

VARIABLES tid, l, mode, q

tvars == <<vars, tid, l, mode, q>>

T == Traces[tid]
Rec == T[l]
N == T[1].n

TInit ==
  /\ tid \in 1..Len(Traces)
  /\ Len(Traces[tid]) >= 1 /\ Traces[tid][1].ev = "init"
  /\ mode \in Modes
  /\ l = 2
  /\ q = FALSE
  /\ conn = [c \in 1..Traces[tid][1].n |-> Blank(Traces[tid][1].kind[c], Traces[tid][1].obf[c])]

IsEv(e) == l <= Len(T) /\ Rec.ev = e
Consume == l' = l + 1 /\ UNCHANGED <<tid, mode>>
RegSet == {Rec.reg[i] : i \in DOMAIN Rec.reg}

\* the two "at every quiescent moment" properties, evaluated on the records flagged quiescent by the recorder
RegistryExactT == q => RegistryOK
ClosedWhenEndedT == q => EndedOK

\* The generic reading stops at the first state that breaks a property (with Trace.cfg such a state is cut by the
\* constraints anyway; with TraceDiag.cfg this makes TLC report exactly one violation per rejected trace).
PropsOK == /\ Monotone /\ ClosedOnce /\ NothingAfterClosed /\ NoDeliveryAfterClosed /\ NoSendAfterClosed
           /\ RegistryExactT /\ ClosedWhenEndedT

----------------------------------------------------------------------------
\* generic reading

WithReg(f) == [d \in DOMAIN conn |-> [f[d] EXCEPT !.inReg = (d \in RegSet)]]

GState ==
  /\ mode = "generic" /\ PropsOK /\ IsEv("state") /\ Rec.c \in DOMAIN conn
  /\ conn' = WithReg([conn EXCEPT ![Rec.c] = Rep(@, Rec.st)])
  /\ q' = FALSE /\ Consume

GDeliver ==
  /\ mode = "generic" /\ PropsOK /\ IsEv("deliver") /\ Rec.c \in DOMAIN conn
  /\ conn' = WithReg([conn EXCEPT ![Rec.c] = [@ EXCEPT !.dlv = Sat(@), !.dlvAC = @ \/ AfterClosed(conn[Rec.c])]])
  /\ q' = FALSE /\ Consume

GWire ==
  /\ mode = "generic" /\ PropsOK /\ IsEv("wire") /\ Rec.c \in DOMAIN conn
  /\ conn' = WithReg([conn EXCEPT ![Rec.c] = [@ EXCEPT !.snd = Sat(@), !.sndAC = @ \/ AfterClosed(conn[Rec.c])]])
  /\ q' = FALSE /\ Consume

GSent ==
  /\ mode = "generic" /\ PropsOK /\ IsEv("sent") /\ Rec.c \in DOMAIN conn
  /\ conn' = WithReg([conn EXCEPT ![Rec.c] = [@ EXCEPT !.sokAC = @ \/ (Rec.res = "ok" /\ Rec.wrote /\ AfterClosed(conn[Rec.c]))]])
  /\ q' = FALSE /\ Consume

AttOfObs(a) == IF a = "gone" THEN "finished" ELSE a

GQuiescent ==
  /\ mode = "generic" /\ PropsOK /\ IsEv("q")
  /\ conn' = WithReg([d \in DOMAIN conn |-> [conn[d] EXCEPT !.att = AttOfObs(Rec.att[d]), !.wr = Rec.sock[d],
                                                                !.apc = IF Rec.held[d] THEN "repHELD" ELSE "-"]])
  /\ q' = TRUE /\ Consume

----------------------------------------------------------------------------
\* strict reading: the design spec's actions

RegAgrees == \A d \in DOMAIN conn : conn'[d].inReg = (d \in RegSet)

SState ==
  /\ mode = "strict" /\ IsEv("state") /\ Rec.c \in DOMAIN conn
  /\ LET c == Rec.c IN
       /\ Step(c)
       /\ conn'[c].rep = Append(conn[c].rep, Rec.st)
       /\ conn'[c].dlv = conn[c].dlv /\ conn'[c].snd = conn[c].snd
       /\ Rec.st \in {"CLOSING", "CLOSED"} => conn'[c].drsn = Rec.reason
  /\ RegAgrees
  /\ q' = FALSE /\ Consume

SDeliver ==
  /\ mode = "strict" /\ IsEv("deliver") /\ Rec.c \in DOMAIN conn
  /\ Deliver(Rec.c)
  /\ RegAgrees
  /\ q' = FALSE /\ Consume

SWire ==
  /\ mode = "strict" /\ IsEv("wire") /\ Rec.c \in DOMAIN conn
  /\ \/ Send(Rec.c) \/ SendBlocked(Rec.c, "direct") \/ SendBlocked(Rec.c, "queued") \/ InitWrite(Rec.c, "ok") \/ InitWrite(Rec.c, "blocked")
  /\ RegAgrees
  /\ q' = FALSE /\ Consume

\* what a send returned is not an action of its own in the design spec (SendResume / SendWakeError / WriteTimeout are
\* silent or report CLOSING); the history flag is maintained as in the generic reading
SSent ==
  /\ mode = "strict" /\ IsEv("sent") /\ Rec.c \in DOMAIN conn
  /\ conn' = [conn EXCEPT ![Rec.c] = [@ EXCEPT !.sokAC = @ \/ (Rec.res = "ok" /\ Rec.wrote /\ AfterClosed(conn[Rec.c]))]]
  /\ RegAgrees
  /\ q' = FALSE /\ Consume

ObsOfAtt(a) == IF a \in {"cancelled", "finished"} THEN "gone" ELSE a

SQuiescent ==
  /\ mode = "strict" /\ IsEv("q")
  /\ Quiescent
  /\ \A d \in DOMAIN conn : conn[d].inReg = (d \in RegSet)
  /\ \A d \in 1..N :
       \* the attempt matters while it is opening the connection; what the creating task does afterwards
       \* (e.g. the fallback to an indirect connection) is not this connection's business
       /\ \/ Rec.att[d] = "unknown" \/ LastRep(conn[d]) \notin {"none", "CONNECTING"}
          \/ Rec.att[d] = ObsOfAtt(conn[d].att)
       /\ Rec.sock[d] = "unknown" \/ Rec.sock[d] = conn[d].wr
       /\ Rec.held[d] = InReport(conn[d])
  /\ UNCHANGED vars
  /\ q' = TRUE /\ Consume

\* internal steps without an observable effect (finitely many: each moves a connection forward)
Silent ==
  /\ mode = "strict" /\ l <= Len(T)
  /\ \E c \in 1..N :
       /\ Step(c)
       /\ conn'[c].rep = conn[c].rep /\ conn'[c].dlv = conn[c].dlv /\ conn'[c].snd = conn[c].snd
       /\ conn'[c].ncall = conn[c].ncall
  /\ q' = FALSE
  /\ UNCHANGED <<tid, l, mode>>

----------------------------------------------------------------------------

TStim ==
  /\ PropsOK /\ IsEv("stim")
  /\ UNCHANGED vars
  /\ q' = FALSE /\ Consume

Done ==
  /\ PropsOK /\ l = Len(T) + 1
  /\ PrintT(<<"ACCEPT", tid, {mode}>>)
  /\ l' = l + 1
  /\ UNCHANGED <<vars, tid, mode, q>>

Finished == l = Len(T) + 2 /\ UNCHANGED tvars

TNext == GState \/ GDeliver \/ GWire \/ GSent \/ GQuiescent \/ SState \/ SDeliver \/ SWire \/ SSent \/ SQuiescent \/ Silent
         \/ TStim \/ Done \/ Finished

TSpec == TInit /\ [][TNext]_tvars
=============================================================================

--------------------------- MODULE ConnLifecycle ---------------------------
(***************************************************************************)
(* C10 - the life cycle of a connection is monotone and the registry of    *)
(* peer connections is exact.                                              *)
(*                                                                         *)
(* Mirrors src/aioslsk/network/connection.py (Connection.set_state,        *)
(* ListeningConnection.accept, DataConnection.connect / disconnect /       *)
(* _read / _send / _message_reader_loop, PeerConnection) and the registry  *)
(* handling in src/aioslsk/network/network.py (_make_direct_connection,    *)
(* _handle_connect_to_peer, on_peer_accepted, on_state_changed,            *)
(* remove_peer_connection, disconnect, connect_server).                    *)
(*                                                                         *)
(* One record per connection.  Three tasks can run code of a connection:   *)
(* the *attempt* (the task that creates and opens it: create_peer_         *)
(* connection / connect-to-peer-N / the accept callback / connect_server), *)
(* the *reader* task and API callers (disconnect, send).  An action runs   *)
(* one of them from one suspending await to the next and reports at most   *)
(* one state.  A stretch of code that reports two states without           *)
(* suspending in between (disconnect of a connection that has no writer)   *)
(* is two actions, the second of which has priority over everything else   *)
(* on that connection (Busy).                                              *)
(*                                                                         *)
(* The three CONSTANT switches are the places where the code as found      *)
(* deviates from the property (DESIGN.md 2.2 rule 4); TRUE = repaired.     *)
(***************************************************************************)
EXTENDS Naturals, Sequences, FiniteSets, TLC

CONSTANTS
  Conns,               \* connection ids
  Kinds,               \* kinds Init may pick: subset of {"server", "out", "in", "none"}
  Obfs,                \* subset of BOOLEAN: obfuscated or plain (peer connections)
  GuardAcceptFinish,   \* TRUE: accept() reports CONNECTED only for a connection that is still UNINIT
                       \* FALSE (connection.py:186-187 as found): unconditionally
  CloseOnCancel,       \* TRUE: CancelledError at open_connection closes the connection
                       \* FALSE (connection.py:234-241 as found): only Exception/TimeoutError do
  AbortConnectOnClose, \* TRUE: a connect that completes after disconnect() gives the socket up
                       \* FALSE (connection.py:243-245 as found): reports CONNECTED on the closed connection
  MaxLives,            \* connects of the server connection per behaviour
  MaxCalls,            \* API disconnect calls per connection
  MaxMsgs              \* counted deliveries / sends per connection (saturating)

VARIABLE conn          \* [Conns -> connection record]  (the trace spec uses 1..n, hence DOMAIN conn below)
vars == <<conn>>

StateNames == {"UNINIT", "CONNECTING", "CONNECTED", "CLOSING", "CLOSED"}
Rank(s) == CASE s = "UNINIT" -> 0 [] s = "CONNECTING" -> 1 [] s = "CONNECTED" -> 2
             [] s = "CLOSING" -> 3 [] s = "CLOSED" -> 4

Blank(k, o) ==
  [kind  |-> k,        \* "server" | "out" | "in" | "none" (unused id)
   obf   |-> o,
   cs    |-> "UNINIT", \* Connection.state (the code's variable)
   rep   |-> <<>>,     \* states reported through ConnectionStateChangedEvent, in order
   inReg |-> FALSE,    \* member of Network.peer_connections
   att   |-> "none",   \* the attempt task: none | running | cancelled | finished   ("unknown": observation only)
   apc   |-> "-",      \* where the attempt is: - | begin | opening | sendinit | drain | finalize | initread | indisc | finish
   rd    |-> FALSE,    \* reader task alive
   wr    |-> "none",   \* transport: none | open | closing | closed                  ("unknown": observation only)
   dpc   |-> "-",      \* disconnect() in flight: - | now (no writer: CLOSED follows without suspension) | wait (wait_closed)
   dby   |-> "-",      \* who runs it: api | reader | attempt | sender | -
   drsn  |-> "-",      \* its CloseReason
   sblk  |-> FALSE,    \* a send_message is blocked in drain()
   lives |-> 0, ncall |-> 0, dlv |-> 0, snd |-> 0,
   dlvAC |-> FALSE,    \* history: a message of this connection was delivered after CLOSED
   sndAC |-> FALSE]    \* history: bytes of this connection left after CLOSED

Init ==
  /\ conn \in [Conns -> {Blank(k, o) : k \in Kinds, o \in Obfs}]
  /\ \A c \in DOMAIN conn : conn[c].kind \in {"server", "none"} => ~conn[c].obf

Last(s) == s[Len(s)]
LastRep(r) == IF r.rep = <<>> THEN "none" ELSE Last(r.rep)
Closing(r) == r.cs \in {"CLOSING", "CLOSED"}                  \* Connection._is_closing
\* CLOSED was reported in the current life (only the server begins a new life, with CONNECTING)
AfterClosed(r) == \E i \in 1..Len(r.rep) :
                    r.rep[i] = "CLOSED" /\ \A j \in (i+1)..Len(r.rep) : r.rep[j] # "CONNECTING"
Sat(n) == IF n < MaxMsgs THEN n + 1 ELSE n

\* Connection.set_state (connection.py:105-108) + Network.on_state_changed
Rep(r, s) == [r EXCEPT !.cs = s, !.rep = Append(@, s)]
Upd(c, r) == conn' = [conn EXCEPT ![c] = r]

\* the attempt or a writer-less disconnect continues without suspending: nothing else of this connection interleaves
Busy(r) == r.apc \in {"begin", "sendinit", "finalize", "finish"} \/ r.dpc = "now"

\* connection.py:247-269  disconnect(), first stretch: idempotency guard, CLOSING, cancel queued sends, close the
\* writer and suspend in wait_closed - or, without a writer, go on to CLOSED without suspending.
DiscBegin(r, who, reason) ==
  IF Closing(r) THEN r
  ELSE IF r.dpc # "-" THEN Rep(r, "CLOSING")      \* only reachable after a revival (switches FALSE)
  ELSE [Rep(r, "CLOSING") EXCEPT !.dpc = IF r.wr = "open" THEN "wait" ELSE "now",
                                 !.wr = IF r.wr = "open" THEN "closing" ELSE r.wr,
                                 !.dby = who, !.drsn = reason]

\* connection.py:275-281 + network.py:1071-1076  CLOSED, registry remove, reader/writer dropped; then the caller goes on
DiscEnd(r) ==
  LET r1 == [Rep(r, "CLOSED") EXCEPT !.inReg = FALSE, !.wr = IF r.wr = "none" THEN "none" ELSE "closed",
                                     !.rd = FALSE, !.dpc = "-", !.dby = "-"]
  IN CASE r.dby = "attempt" /\ r.kind = "in" -> [r1 EXCEPT !.apc = "finish"]      \* on_peer_accepted returns
       [] r.dby = "attempt" /\ r.kind # "in" -> [r1 EXCEPT !.apc = "-", !.att = "finished"]  \* connect()/send raises
       [] OTHER -> r1

----------------------------------------------------------------------------
\* Outgoing connections and the server connection

\* network.py:826-832 / 919-925  PeerConnection(...); peer_connections.append(connection)
OutCreate(c) ==
  LET r == conn[c] IN
  /\ r.kind = "out" /\ r.att = "none"
  /\ Upd(c, [r EXCEPT !.inReg = TRUE, !.att = "running", !.apc = "begin"])

\* network.py:296-297, 366-394  connect_server() / the watchdog reconnect (only from UNINIT or CLOSED)
ServerConnect(c) ==
  LET r == conn[c] IN
  /\ r.kind = "server" /\ r.att # "running" /\ r.cs \in {"UNINIT", "CLOSED"} /\ ~Busy(r)
  /\ r.lives < MaxLives
  /\ Upd(c, [r EXCEPT !.att = "running", !.apc = "begin", !.lives = @ + 1])

\* connection.py:231-237  CONNECTING, then suspend in open_connection
ConnectBegin(c) ==
  LET r == conn[c] IN
  /\ r.apc = "begin"
  /\ Upd(c, [Rep(r, "CONNECTING") EXCEPT !.apc = "opening"])

\* connection.py:243-245  open_connection returned
ConnectOk(c) ==
  LET r == conn[c] IN
  /\ r.apc = "opening" /\ ~Busy(r)
  /\ IF Closing(r) /\ AbortConnectOnClose
       THEN Upd(c, [r EXCEPT !.wr = "closed", !.apc = "-", !.att = "finished"])    \* gives up: ConnectionFailedError
       ELSE Upd(c, [Rep(r, "CONNECTED") EXCEPT !.wr = "open",
                       !.apc = IF r.kind = "server" THEN "-" ELSE "sendinit",
                       !.att = IF r.kind = "server" THEN "finished" ELSE "running",
                       !.rd = (r.kind = "server")])      \* client.py:212 start_reader_task()

\* connection.py:239-241  refused / PEER_CONNECT_TIMEOUT: disconnect(CONNECT_FAILED), raise ConnectionFailedError
ConnectFail(c) ==
  LET r == conn[c] IN
  /\ r.apc = "opening" /\ ~Busy(r)
  /\ IF Closing(r) THEN Upd(c, [r EXCEPT !.apc = "-", !.att = "finished"])
     ELSE Upd(c, [DiscBegin(r, "attempt", "CONNECT_FAILED") EXCEPT !.apc = "indisc"])

\* CancelledError delivered at `await asyncio.open_connection` (race loser, aborted request, Network.disconnect)
ConnectCancelledOpen(c) ==
  LET r == conn[c] IN
  /\ r.apc = "opening" /\ ~Busy(r)
  /\ IF CloseOnCancel /\ ~Closing(r)
       THEN Upd(c, [DiscBegin(r, "-", "REQUESTED") EXCEPT !.apc = "-", !.att = "cancelled"])
       ELSE Upd(c, [r EXCEPT !.apc = "-", !.att = "cancelled"])

\* network.py:834-841 / 929-932 -> connection.py:471-503, 450-469  send_message(PeerInit | PeerPierceFirewall)
InitWrite(c, how) ==
  LET r == conn[c] IN
  /\ r.apc = "sendinit"
  /\ how \in {"ok", "blocked", "fail"}
  /\ IF how = "fail"
       THEN Upd(c, [DiscBegin(r, "attempt", "WRITE_ERROR") EXCEPT !.apc = "indisc"])
       ELSE Upd(c, [r EXCEPT !.snd = Sat(@), !.sndAC = @ \/ AfterClosed(r),
                             !.apc = IF how = "ok" THEN "finalize" ELSE "drain"])

DrainResume(c) ==
  LET r == conn[c] IN
  /\ r.apc = "drain" /\ ~Busy(r)
  /\ Upd(c, [r EXCEPT !.apc = "finalize"])

\* connection.py:457-465  drain() did not return within 10 s
DrainTimeout(c) ==
  LET r == conn[c] IN
  /\ r.apc = "drain" /\ ~Busy(r)
  /\ IF Closing(r) THEN Upd(c, [r EXCEPT !.apc = "-", !.att = "finished"])
     ELSE Upd(c, [DiscBegin(r, "attempt", "TIMEOUT") EXCEPT !.apc = "indisc"])

\* CancelledError delivered at the init-message drain: passes `except Exception`, the connection stays as it is
ConnectCancelledDrain(c) ==
  LET r == conn[c] IN
  /\ r.apc = "drain" /\ ~Busy(r)
  /\ Upd(c, [r EXCEPT !.apc = "-", !.att = "cancelled"])

\* network.py:843-848 / 942-945  _finalize_peer_connection: start the reader (its loop ends at once when closing)
InitSent(c) ==
  LET r == conn[c] IN
  /\ r.apc = "finalize"
  /\ Upd(c, [r EXCEPT !.rd = ~Closing(r), !.apc = "-", !.att = "finished"])

----------------------------------------------------------------------------
\* Incoming connections

\* connection.py:173-186 + network.py:1090  accept(): PeerConnection(incoming), registry add, wait for the init message
InAccept(c) ==
  LET r == conn[c] IN
  /\ r.kind = "in" /\ r.att = "none"
  /\ Upd(c, [r EXCEPT !.wr = "open", !.inReg = TRUE, !.att = "running", !.apc = "initread"])

\* network.py:1107-1133  PeerInit, or PeerPierceFirewall with a ticket somebody waits for
InitOk(c, how) ==
  LET r == conn[c] IN
  /\ how \in {"peerinit", "pierce"}
  /\ r.apc = "initread" /\ r.cs = "UNINIT" /\ ~Busy(r)
  /\ Upd(c, [r EXCEPT !.rd = TRUE, !.apc = "finish"])

\* The wait for the init message ends badly.  path names the code path, InitReason(path) the CloseReason it uses.
InitPaths == {"eof", "readerror", "timeout", "undecodable", "unexpected", "unknownticket"}
InitReason(path) == CASE path = "eof" -> "EOF" [] path \in {"readerror", "undecodable"} -> "READ_ERROR"
                      [] path = "timeout" -> "TIMEOUT" [] OTHER -> "REQUESTED"
InitFails(c, path) ==
  LET r == conn[c] IN
  /\ r.apc = "initread" /\ ~Closing(r) /\ ~Busy(r)
  /\ Upd(c, [DiscBegin(r, "attempt", InitReason(path)) EXCEPT !.apc = "indisc"])

InitEof(c) == InitFails(c, "eof")                        \* connection.py:344-352, network.py:1094-1097
InitReadError(c) == InitFails(c, "readerror")            \* connection.py:346-349 / 358-360 (reset, partial frame)
InitTimeout(c) == InitFails(c, "timeout")                \* connection.py:354-356 (silence for read_timeout)
InitUndecodable(c) == InitFails(c, "undecodable")        \* network.py:1101-1105
InitUnexpected(c) == InitFails(c, "unexpected")          \* network.py:1135-1140
PierceUnknownTicket(c) == InitFails(c, "unknownticket")  \* network.py:1119-1124

\* connection.py:187  after on_peer_accepted returned
AcceptFinish(c) ==
  LET r == conn[c]
      r0 == [r EXCEPT !.apc = "-", !.att = "finished"] IN
  /\ r.apc = "finish"
  /\ IF GuardAcceptFinish /\ r.cs # "UNINIT" THEN Upd(c, r0) ELSE Upd(c, Rep(r0, "CONNECTED"))

----------------------------------------------------------------------------
\* Established connections, disconnect

\* connection.py:295-323 + network.py:1142-1160  the reader hands a message to on_message_received
Deliver(c) ==
  LET r == conn[c] IN
  /\ r.rd /\ r.cs = "CONNECTED" /\ ~Busy(r)
  /\ Upd(c, [r EXCEPT !.dlv = Sat(@), !.dlvAC = @ \/ AfterClosed(r)])

\* connection.py:471-504  send_message on an open connection (dropped silently when closing)
Send(c) ==
  LET r == conn[c] IN
  /\ r.cs = "CONNECTED" /\ r.wr = "open" /\ ~Busy(r)
  /\ Upd(c, [r EXCEPT !.snd = Sat(@), !.sndAC = @ \/ AfterClosed(r)])

SendBlocked(c) ==
  LET r == conn[c] IN
  /\ r.cs = "CONNECTED" /\ r.wr = "open" /\ ~r.sblk /\ ~Busy(r)
  /\ Upd(c, [r EXCEPT !.snd = Sat(@), !.sndAC = @ \/ AfterClosed(r), !.sblk = TRUE])

SendResume(c) ==
  LET r == conn[c] IN
  /\ r.sblk /\ ~Busy(r)
  /\ Upd(c, [r EXCEPT !.sblk = FALSE])

\* connection.py:463-465
WriteTimeout(c) ==
  LET r == conn[c] IN
  /\ r.sblk /\ ~Busy(r)
  /\ Upd(c, [DiscBegin(r, "sender", "TIMEOUT") EXCEPT !.sblk = FALSE])

\* connection.py:467-469
WriteError(c) ==
  LET r == conn[c] IN
  /\ r.cs = "CONNECTED" /\ r.wr = "open" /\ ~r.sblk /\ ~Busy(r)
  /\ Upd(c, DiscBegin(r, "sender", "WRITE_ERROR"))

\* connection.py:325-367  the reader's read ends; when the connection is closing already the reader just ends
ReadPaths == {"eof", "readerror", "timeout"}
ReadReason(path) == CASE path = "eof" -> "EOF" [] path = "readerror" -> "READ_ERROR" [] OTHER -> "TIMEOUT"
ReadEnds(c, path) ==
  LET r == conn[c] IN
  /\ r.rd /\ ~Busy(r)
  /\ IF Closing(r) THEN Upd(c, [r EXCEPT !.rd = FALSE]) ELSE Upd(c, DiscBegin(r, "reader", ReadReason(path)))

ReadEof(c) == ReadEnds(c, "eof")
ReadError(c) == ReadEnds(c, "readerror")
ReadTimeout(c) == ReadEnds(c, "timeout")

\* An API caller: connection.disconnect(REQUESTED), Network.disconnect(), Network.disconnect_server().  A caller that
\* finds the connection CLOSING or CLOSED returns at once (concurrent callers).  Closing the writer of a connection
\* that waits for its init message ends that read with EOF: on_peer_accepted returns.
Disconnect(c) ==
  LET r == conn[c]
      r1 == [DiscBegin(r, "api", "REQUESTED") EXCEPT !.ncall = @ + 1] IN
  /\ r.att # "none" /\ ~Busy(r) /\ r.ncall < MaxCalls
  /\ Upd(c, IF ~Closing(r) /\ r.apc = "initread" THEN [r1 EXCEPT !.apc = "finish"] ELSE r1)

\* wait_closed() returned or DISCONNECT_TIMEOUT passed, or (dpc = "now") there was nothing to wait for
DisconnectEnd(c) ==
  LET r == conn[c] IN
  /\ r.dpc # "-"
  /\ Upd(c, DiscEnd(r))

Step(c) ==
  \/ OutCreate(c) \/ ServerConnect(c) \/ ConnectBegin(c) \/ ConnectOk(c) \/ ConnectFail(c)
  \/ ConnectCancelledOpen(c) \/ (\E how \in {"ok", "blocked", "fail"} : InitWrite(c, how))
  \/ DrainResume(c) \/ DrainTimeout(c) \/ ConnectCancelledDrain(c) \/ InitSent(c)
  \/ InAccept(c) \/ (\E how \in {"peerinit", "pierce"} : InitOk(c, how)) \/ (\E path \in InitPaths : InitFails(c, path)) \/ AcceptFinish(c)
  \/ Deliver(c) \/ Send(c) \/ SendBlocked(c) \/ SendResume(c) \/ WriteTimeout(c) \/ WriteError(c)
  \/ (\E path \in ReadPaths : ReadEnds(c, path)) \/ Disconnect(c) \/ DisconnectEnd(c)

Next == \E c \in Conns : Step(c)

Spec == Init /\ [][Next]_vars

----------------------------------------------------------------------------
\* Properties (from the statement of C10)

TypeOK ==
  \A c \in DOMAIN conn : LET r == conn[c] IN
    /\ r.kind \in {"server", "out", "in", "none"}
    /\ r.cs \in StateNames
    /\ \A i \in 1..Len(r.rep) : r.rep[i] \in StateNames
    /\ r.att \in {"none", "running", "cancelled", "finished", "unknown"}
    /\ r.wr \in {"none", "open", "closing", "closed", "unknown"}
    /\ r.dpc \in {"-", "now", "wait"}
    /\ r.kind = "server" => ~r.inReg

\* Reported states only move forward; only the server connection may go from CLOSED back to CONNECTING.
Monotone ==
  \A c \in DOMAIN conn : LET r == conn[c] IN
    \A i \in 1..(Len(r.rep) - 1) :
       \/ Rank(r.rep[i]) < Rank(r.rep[i + 1])
       \/ r.kind = "server" /\ r.rep[i] = "CLOSED" /\ r.rep[i + 1] = "CONNECTING"

\* CLOSED is reported at most once per life ...
ClosedOnce ==
  \A c \in DOMAIN conn : LET r == conn[c] IN
    \A i, j \in 1..Len(r.rep) :
       (i < j /\ r.rep[i] = "CLOSED" /\ r.rep[j] = "CLOSED") =>
          (r.kind = "server" /\ \E k \in (i + 1)..(j - 1) : r.rep[k] = "CONNECTING")

\* ... and nothing is reported after it
NothingAfterClosed ==
  \A c \in DOMAIN conn : LET r == conn[c] IN
    \A i \in 1..(Len(r.rep) - 1) :
       r.rep[i] = "CLOSED" => (r.kind = "server" /\ r.rep[i + 1] = "CONNECTING")

NoDeliveryAfterClosed == \A c \in DOMAIN conn : ~conn[c].dlvAC
NoSendAfterClosed == \A c \in DOMAIN conn : ~conn[c].sndAC

\* "open or being opened by a still-running attempt", in terms of what was reported
ShouldBeIn(r) ==
  \/ LastRep(r) \in {"CONNECTED", "CLOSING"}
  \/ LastRep(r) \in {"none", "CONNECTING"} /\ r.att = "running"

RegistryOK ==
  \A c \in DOMAIN conn : LET r == conn[c] IN
    r.kind \in {"out", "in"} =>
       /\ \/ r.att = "unknown" /\ LastRep(r) \in {"none", "CONNECTING"}   \* observation without attempt status
          \/ r.inReg <=> ShouldBeIn(r)
       /\ r.wr = "open" => r.inReg            \* whatever was reported: no open transport outside the registry

\* a connection that reported anything and whose life has ended (no running attempt, no transport) reported CLOSED last
EndedOK ==
  \A c \in DOMAIN conn : LET r == conn[c] IN
    (r.rep # <<>> /\ r.att \in {"none", "cancelled", "finished"} /\ r.wr \in {"none", "closed"}) =>
       LastRep(r) = "CLOSED"

Quiescent == \A c \in DOMAIN conn : ~Busy(conn[c])

RegistryExact == Quiescent => RegistryOK
ClosedWhenEnded == Quiescent => EndedOK
=============================================================================

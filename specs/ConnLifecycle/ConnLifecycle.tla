--------------------------- MODULE ConnLifecycle ---------------------------
(***************************************************************************)
(* C10 - the life cycle of a connection is monotone and the registry of    *)
(* peer connections is exact.                                              *)
(*                                                                         *)
(* Mirrors src/aioslsk/network/connection.py (Connection.set_state,        *)
(* ListeningConnection.accept, DataConnection.connect / disconnect /       *)
(* _read / _send / _message_reader_loop, PeerConnection) and the registry  *)
(* handling in src/aioslsk/network/network.py (_make_direct_connection,    *)
(* _handle_connect_to_peer, on_peer_accepted, on_state_changed,            *)
(* remove_peer_connection, disconnect, connect_server).                    *)
(*                                                                         *)
(* One record per connection.  Three tasks can run code of a connection:   *)
(* the *attempt* (the task that creates and opens it: create_peer_         *)
(* connection / connect-to-peer-N / the accept callback / connect_server), *)
(* the *reader* task and API callers (disconnect, send).  An action runs   *)
(* one of them from one suspending await to the next and reports at most   *)
(* one state.  A stretch of code that reports two states without           *)
(* suspending in between (disconnect of a connection that has no writer)   *)
(* is two actions, the second of which has priority over everything else   *)
(* on that connection (Busy).                                              *)
(*                                                                         *)
(* A state report (Connection.set_state -> Network.on_state_changed ->     *)
(* EventBus.emit) awaits the application's coroutine listeners: every      *)
(* report is an await point of the reporting task.  The state assignment,  *)
(* the network's own bookkeeping and the notification are one step; the    *)
(* return from the listeners is a separate one (ReportDone / DiscGo /      *)
(* DiscDone).  With SlowListener = FALSE that return follows immediately.  *)
(*                                                                         *)
(* The CONSTANT switches GuardAcceptFinish .. ClosingReportGuarded are the *)
(* places where the code as found deviates from the property (DESIGN.md    *)
(* 2.2 rule 4); TRUE = repaired.                                           *)
(***************************************************************************)
EXTENDS Naturals, Sequences, FiniteSets, TLC

CONSTANTS
  Conns,               \* connection ids
  Kinds,               \* kinds Init may pick: subset of {"server", "out", "in", "none"}
  Obfs,                \* subset of BOOLEAN: obfuscated or plain (peer connections)
  SlowListener,        \* TRUE: listeners of a state report may suspend (other tasks run inside the report)
  GuardAcceptFinish,   \* TRUE: accept() reports CONNECTED only for a connection that is still UNINIT
                       \* FALSE (pinned connection.py:186-187): unconditionally
  CloseOnCancel,       \* TRUE: CancelledError at open_connection closes the connection
                       \* FALSE (pinned connection.py:234-241): only Exception/TimeoutError do
  AbortConnectOnClose, \* TRUE: a connect that completes after disconnect() gives the socket up
                       \* FALSE (pinned connection.py:243-245): reports CONNECTED on the closed connection
  ConnectingReportGuarded, \* TRUE: cancellation during the CONNECTING report is handled like cancellation at
                       \* open_connection;  FALSE (connect(): the report is awaited before the try): nothing happens
  ClosingReportGuarded,\* TRUE: disconnect() reaches CLOSED also when it is cancelled during the CLOSING report
                       \* FALSE (disconnect(): the report is awaited before the try/finally): stays CLOSING for ever
  MaxLives,            \* connects of the server connection per behaviour
  MaxCalls,            \* API disconnect calls per connection
  MaxMsgs              \* counted deliveries / sends per connection (saturating)

VARIABLE conn          \* [Conns -> connection record]  (the trace spec uses 1..n, hence DOMAIN conn below)
vars == <<conn>>

StateNames == {"UNINIT", "CONNECTING", "CONNECTED", "CLOSING", "CLOSED"}
Rank(s) == CASE s = "UNINIT" -> 0 [] s = "CONNECTING" -> 1 [] s = "CONNECTED" -> 2
             [] s = "CLOSING" -> 3 [] s = "CLOSED" -> 4

Blank(k, o) ==
  [kind  |-> k,        \* "server" | "out" | "in" | "none" (unused id)
   obf   |-> o,
   hnd   |-> FALSE,    \* out: created by _make_direct_connection, whose `except BaseException` disconnects (network.py:874-878)
   cs    |-> "UNINIT", \* Connection.state (the code's variable)
   rep   |-> <<>>,     \* states reported through ConnectionStateChangedEvent, in order
   inReg |-> FALSE,    \* member of Network.peer_connections
   att   |-> "none",   \* the attempt task: none | running | cancelled | finished   ("unknown": observation only)
   cnc   |-> FALSE,    \* the attempt task has been cancelled (it may still be running its clean-up)
   apc   |-> "-",      \* where the attempt is: - | begin | repCONNECTING | opening | repCONNECTED | sendinit | drain |
                       \* finalize | initread | indisc | finish | repACCEPT            ("repHELD": observation only)
   rd    |-> FALSE,    \* reader task alive
   wr    |-> "none",   \* transport: none | open | closing | closed                  ("unknown": observation only)
   dpc   |-> "-",      \* disconnect() in flight: - | repCLOSING | now (no writer: CLOSED follows without suspension) |
                       \* wait (wait_closed) | repCLOSED
   dby   |-> "-",      \* who runs it: api | reader | attempt | sender | canc (clean-up of the cancelled attempt) | -
   drsn  |-> "-",      \* its CloseReason
   adr   |-> "-",      \* out: the peer's address was "given" by the caller / the ConnectToPeer message, or "resolved"
                       \* through GetPeerAddress (both of the peer's ports advertised: the other port may be reachable)
   sblk  |-> "-",      \* a written, unsent message is blocked in drain(): "direct" (a caller awaits send_message) |
                       \* "queued" (queue_message: the task is in _queued_messages, cancelled by disconnect) | "-"
   lives |-> 0, ncall |-> 0, dlv |-> 0, snd |-> 0,
   dlvAC |-> FALSE,    \* history: a message of this connection was delivered after CLOSED
   sndAC |-> FALSE,    \* history: bytes of this connection left after CLOSED
   sokAC |-> FALSE]    \* history: a send that had handed its bytes to the transport returned success after CLOSED

Init ==
  /\ conn \in [Conns -> {Blank(k, o) : k \in Kinds, o \in Obfs}]
  /\ \A c \in DOMAIN conn : conn[c].kind \in {"server", "none"} => ~conn[c].obf

Last(s) == s[Len(s)]
LastRep(r) == IF r.rep = <<>> THEN "none" ELSE Last(r.rep)
Closing(r) == r.cs \in {"CLOSING", "CLOSED"}                  \* Connection._is_closing
\* CLOSED was reported in the current life (only the server begins a new life, with CONNECTING)
AfterClosed(r) == \E i \in 1..Len(r.rep) :
                    r.rep[i] = "CLOSED" /\ \A j \in (i+1)..Len(r.rep) : r.rep[j] # "CONNECTING"
Sat(n) == IF n < MaxMsgs THEN n + 1 ELSE n

\* Connection.set_state (connection.py:105-108) + Network.on_state_changed: assignment, bookkeeping, notification
Rep(r, s) == [r EXCEPT !.cs = s, !.rep = Append(@, s)]
Upd(c, r) == conn' = [conn EXCEPT ![c] = r]

\* a task of this connection is suspended inside a state report (in a listener)
InReport(r) == r.apc \in {"repCONNECTING", "repCONNECTED", "repACCEPT", "repHELD"} \/ r.dpc \in {"repCLOSING", "repCLOSED"}

\* the attempt or a writer-less disconnect continues without suspending: nothing else of this connection interleaves
Busy(r) == \/ r.apc \in {"begin", "sendinit", "finalize", "finish"} \/ r.dpc = "now"
           \/ ~SlowListener /\ InReport(r)

\* the attempt can be cancelled through the public API: the caller of create_peer_connection / connect_server
ApiCancellable(r) == r.att = "running" /\ ~r.cnc /\ (r.kind = "server" \/ (r.kind = "out" /\ r.hnd))

\* connection.py disconnect(), first stretch: idempotency guard, state CLOSING and its report
DiscBegin(r, who, reason) ==
  IF Closing(r) THEN r
  ELSE IF r.dpc # "-" THEN Rep(r, "CLOSING")      \* only reachable after a revival (switches FALSE)
  ELSE [Rep(r, "CLOSING") EXCEPT !.dpc = "repCLOSING", !.dby = who, !.drsn = reason]

\* the task whose (possibly no-op) disconnect was its last act ends
EndAttempt(r, how) == [r EXCEPT !.apc = "-", !.att = how]

\* the cancelled attempt runs disconnect(REQUESTED) as its clean-up and ends when that is done
CleanUp(r) ==
  IF Closing(r) THEN EndAttempt([r EXCEPT !.cnc = TRUE], "cancelled")
  ELSE [DiscBegin(r, "canc", "REQUESTED") EXCEPT !.cnc = TRUE, !.apc = "indisc"]

----------------------------------------------------------------------------
\* Outgoing connections and the server connection

\* network.py _make_direct_connection ("api") / _handle_connect_to_peer ("ctp"):  PeerConnection(...); registry add
OutCreate(c, via) ==
  LET r == conn[c] IN
  /\ via \in {"api", "resolve", "ctp"}      \* create_peer_connection with / without an address, ConnectToPeer
  /\ r.kind = "out" /\ r.att = "none"
  /\ Upd(c, [r EXCEPT !.inReg = TRUE, !.att = "running", !.apc = "begin", !.hnd = (via # "ctp"),
                      !.adr = IF via = "resolve" THEN "resolved" ELSE "given"])

\* connect_server() / the watchdog reconnect (only from UNINIT or CLOSED)
ServerConnect(c) ==
  LET r == conn[c] IN
  /\ r.kind = "server" /\ r.att # "running" /\ r.cs \in {"UNINIT", "CLOSED"} /\ ~Busy(r) /\ r.dpc = "-"
  /\ r.lives < MaxLives
  /\ Upd(c, [r EXCEPT !.att = "running", !.cnc = FALSE, !.apc = "begin", !.lives = @ + 1])

\* connect(): state CONNECTING and its report
ConnectBegin(c) ==
  LET r == conn[c] IN
  /\ r.apc = "begin"
  /\ Upd(c, [Rep(r, "CONNECTING") EXCEPT !.apc = "repCONNECTING"])

\* the listeners of a CONNECTING / CONNECTED report returned: the attempt goes on
ReportDone(c) ==
  LET r == conn[c] IN
  /\ r.apc \in {"repCONNECTING", "repCONNECTED", "repACCEPT"}
  /\ CASE r.apc = "repCONNECTING" -> Upd(c, [r EXCEPT !.apc = "opening"])          \* suspends in open_connection
       [] r.apc = "repCONNECTED" /\ r.kind = "server" ->                            \* connect_server returns;
            Upd(c, [EndAttempt(r, "finished") EXCEPT !.rd = ~Closing(r)])           \* client.py start_reader_task()
       [] r.apc = "repCONNECTED" /\ r.kind # "server" -> Upd(c, [r EXCEPT !.apc = "sendinit"])
       [] OTHER -> Upd(c, EndAttempt(r, "finished"))                                \* accept() returns

\* connect(): open_connection returned
ConnectOk(c) ==
  LET r == conn[c] IN
  /\ r.apc = "opening" /\ ~Busy(r)
  /\ IF Closing(r) /\ AbortConnectOnClose
       THEN Upd(c, EndAttempt([r EXCEPT !.wr = "closed"], "finished"))     \* gives up: ConnectionFailedError
       ELSE Upd(c, [Rep(r, "CONNECTED") EXCEPT !.wr = "open", !.apc = "repCONNECTED"])

\* connect(): refused / PEER_CONNECT_TIMEOUT: disconnect(CONNECT_FAILED), raise ConnectionFailedError
ConnectFail(c) ==
  LET r == conn[c] IN
  /\ r.apc = "opening" /\ ~Busy(r)
  /\ IF Closing(r) THEN Upd(c, EndAttempt(r, "finished"))
     ELSE Upd(c, [DiscBegin(r, "attempt", "CONNECT_FAILED") EXCEPT !.apc = "indisc"])

\* CancelledError delivered at `await asyncio.open_connection` (race loser, aborted request, Network.disconnect)
ConnectCancelledOpen(c) ==
  LET r == conn[c] IN
  /\ r.apc = "opening" /\ ~Busy(r) /\ ~r.cnc
  /\ IF CloseOnCancel \/ r.hnd THEN Upd(c, CleanUp(r))
     ELSE Upd(c, EndAttempt([r EXCEPT !.cnc = TRUE], "cancelled"))

\* CancelledError delivered while a listener of the CONNECTING / CONNECTED report of connect() is suspended
ConnectCancelledReport(c) ==
  LET r == conn[c] IN
  /\ r.apc \in {"repCONNECTING", "repCONNECTED"} /\ ~Busy(r) /\ ApiCancellable(r)
  /\ IF r.hnd \/ (r.apc = "repCONNECTING" /\ ConnectingReportGuarded) THEN Upd(c, CleanUp(r))
     ELSE Upd(c, EndAttempt([r EXCEPT !.cnc = TRUE], "cancelled"))     \* stays CONNECTING / CONNECTED as it is

\* CancelledError delivered while the attempt itself is inside disconnect() (after a failed connect / write)
ConnectCancelledInDisconnect(c) ==
  LET r == conn[c]
      r0 == EndAttempt([r EXCEPT !.cnc = TRUE], "cancelled")
      closed == [Rep(r0, "CLOSED") EXCEPT !.inReg = FALSE, !.wr = IF r.wr = "none" THEN "none" ELSE "closed",
                                          !.dpc = "repCLOSED", !.dby = "canc", !.att = "running", !.apc = "indisc"] IN
  /\ r.apc = "indisc" /\ r.dby = "attempt" /\ r.dpc \in {"repCLOSING", "wait", "repCLOSED"} /\ ApiCancellable(r)
  /\ CASE r.dpc = "repCLOSING" /\ ~ClosingReportGuarded ->                 \* leaves disconnect(): CLOSING for ever
            Upd(c, [r0 EXCEPT !.dpc = "-", !.dby = "-"])
       [] r.dpc \in {"repCLOSING", "wait"} -> Upd(c, closed)                \* the finally clause: CLOSED and its report
       [] OTHER -> Upd(c, [r0 EXCEPT !.dpc = "-", !.dby = "-", !.rd = FALSE])   \* in the CLOSED report: nothing left to do

\* send_message(PeerInit | PeerPierceFirewall): dropped when the connection is closing meanwhile
InitWrite(c, how) ==
  LET r == conn[c] IN
  /\ r.apc = "sendinit"
  /\ how \in {"ok", "blocked", "fail"}
  /\ IF Closing(r) THEN how = "ok" /\ Upd(c, [r EXCEPT !.apc = "finalize"])
     ELSE IF how = "fail"
       THEN Upd(c, [DiscBegin(r, "attempt", "WRITE_ERROR") EXCEPT !.apc = "indisc"])
       ELSE Upd(c, [r EXCEPT !.snd = Sat(@), !.sndAC = @ \/ AfterClosed(r),
                             !.apc = IF how = "ok" THEN "finalize" ELSE "drain"])

\* the blocked drain() of the init message ends: normally while the transport is open, with an error once it is gone
DrainResume(c) ==
  LET r == conn[c] IN
  /\ r.apc = "drain" /\ ~Busy(r)
  /\ IF r.wr = "open" THEN Upd(c, [r EXCEPT !.apc = "finalize"])
     ELSE Upd(c, EndAttempt(r, "finished"))                     \* ConnectionWriteError (disconnect is a no-op)

\* drain() did not return within 10 s
DrainTimeout(c) ==
  LET r == conn[c] IN
  /\ r.apc = "drain" /\ ~Busy(r)
  /\ IF Closing(r) THEN Upd(c, EndAttempt(r, "finished"))
     ELSE Upd(c, [DiscBegin(r, "attempt", "TIMEOUT") EXCEPT !.apc = "indisc"])

\* CancelledError delivered at the init-message drain: passes `except Exception` in _send
ConnectCancelledDrain(c) ==
  LET r == conn[c] IN
  /\ r.apc = "drain" /\ ~Busy(r) /\ ~r.cnc
  /\ IF r.hnd THEN Upd(c, CleanUp(r))
     ELSE Upd(c, EndAttempt([r EXCEPT !.cnc = TRUE], "cancelled"))     \* the connection stays as it is

\* _finalize_peer_connection: start the reader (its loop ends at once when closing)
InitSent(c) ==
  LET r == conn[c] IN
  /\ r.apc = "finalize"
  /\ Upd(c, [EndAttempt(r, "finished") EXCEPT !.rd = ~Closing(r)])

----------------------------------------------------------------------------
\* Incoming connections

\* accept(): PeerConnection(incoming), registry add, wait for the init message
InAccept(c) ==
  LET r == conn[c] IN
  /\ r.kind = "in" /\ r.att = "none"
  /\ Upd(c, [r EXCEPT !.wr = "open", !.inReg = TRUE, !.att = "running", !.apc = "initread"])

\* PeerInit, or PeerPierceFirewall with a ticket somebody waits for (also while a disconnect is still in its
\* CLOSING report: the transport is open, the message is read, the reader's loop ends at once)
InitOk(c, how) ==
  LET r == conn[c] IN
  /\ how \in {"peerinit", "pierce"}
  /\ r.apc = "initread" /\ ~Busy(r) /\ (r.cs = "UNINIT" \/ (Closing(r) /\ r.wr = "open"))
  /\ Upd(c, [r EXCEPT !.rd = ~Closing(r), !.apc = "finish"])

\* The wait for the init message ends badly.  path names the code path, InitReason(path) the CloseReason it uses.
InitPaths == {"eof", "readerror", "timeout", "undecodable", "unexpected", "unknownticket"}
InitReason(path) == CASE path = "eof" -> "EOF" [] path \in {"readerror", "undecodable"} -> "READ_ERROR"
                      [] path = "timeout" -> "TIMEOUT" [] OTHER -> "REQUESTED"
InitFails(c, path) ==
  LET r == conn[c] IN
  /\ r.apc = "initread" /\ ~Busy(r)
  /\ IF Closing(r) THEN Upd(c, [r EXCEPT !.apc = "finish"])          \* the disconnect is a no-op
     ELSE Upd(c, [DiscBegin(r, "attempt", InitReason(path)) EXCEPT !.apc = "indisc"])

InitEof(c) == InitFails(c, "eof")
InitReadError(c) == InitFails(c, "readerror")            \* reset, partial frame
InitTimeout(c) == InitFails(c, "timeout")                \* silence for read_timeout
InitUndecodable(c) == InitFails(c, "undecodable")
InitUnexpected(c) == InitFails(c, "unexpected")
PierceUnknownTicket(c) == InitFails(c, "unknownticket")

\* accept(), after on_peer_accepted returned
AcceptFinish(c) ==
  LET r == conn[c] IN
  /\ r.apc = "finish"
  /\ IF GuardAcceptFinish /\ r.cs # "UNINIT" THEN Upd(c, EndAttempt(r, "finished"))
     ELSE Upd(c, [Rep(r, "CONNECTED") EXCEPT !.apc = "repACCEPT"])

----------------------------------------------------------------------------
\* Established connections, disconnect

\* the reader hands a message to on_message_received
Deliver(c) ==
  LET r == conn[c] IN
  /\ r.rd /\ r.cs = "CONNECTED" /\ ~Busy(r)
  /\ Upd(c, [r EXCEPT !.dlv = Sat(@), !.dlvAC = @ \/ AfterClosed(r)])

\* send_message on an open connection (dropped silently when closing): written, drained, returns
Send(c) ==
  LET r == conn[c] IN
  /\ r.cs = "CONNECTED" /\ r.wr = "open" /\ ~Busy(r)
  /\ Upd(c, [r EXCEPT !.snd = Sat(@), !.sndAC = @ \/ AfterClosed(r), !.sokAC = @ \/ AfterClosed(r)])

\* written, then blocked in drain() (back-pressure): by send_message ("direct") or by a queue_message task ("queued")
SendBlocked(c, how) ==
  LET r == conn[c] IN
  /\ how \in {"direct", "queued"}
  /\ r.cs = "CONNECTED" /\ r.wr = "open" /\ r.sblk = "-" /\ ~Busy(r)
  /\ Upd(c, [r EXCEPT !.snd = Sat(@), !.sndAC = @ \/ AfterClosed(r), !.sblk = how])

\* the transport drained: send_message returns (success) - only an open transport drains
SendResume(c) ==
  LET r == conn[c] IN
  /\ r.sblk # "-" /\ r.wr = "open" /\ ~Busy(r)
  /\ Upd(c, [r EXCEPT !.sblk = "-", !.sokAC = @ \/ AfterClosed(r)])

\* the blocked drain() ends with an error (connection lost): _send disconnects (a no-op when the connection is
\* closing already) and raises ConnectionWriteError
SendWakeError(c) ==
  LET r == conn[c] IN
  /\ r.sblk # "-" /\ ~Busy(r)
  /\ Upd(c, [DiscBegin(r, "sender", "WRITE_ERROR") EXCEPT !.sblk = "-"])

\* drain() did not return within 10 s
WriteTimeout(c) ==
  LET r == conn[c] IN
  /\ r.sblk # "-" /\ ~Busy(r)
  /\ Upd(c, [DiscBegin(r, "sender", "TIMEOUT") EXCEPT !.sblk = "-"])

\* write() raises
WriteError(c) ==
  LET r == conn[c] IN
  /\ r.cs = "CONNECTED" /\ r.wr = "open" /\ r.sblk = "-" /\ ~Busy(r)
  /\ Upd(c, DiscBegin(r, "sender", "WRITE_ERROR"))

\* the reader's read ends; when the connection is closing already the reader just ends
ReadPaths == {"eof", "readerror", "timeout"}
ReadReason(path) == CASE path = "eof" -> "EOF" [] path = "readerror" -> "READ_ERROR" [] OTHER -> "TIMEOUT"
ReadEnds(c, path) ==
  LET r == conn[c] IN
  /\ r.rd /\ ~Busy(r)
  /\ IF Closing(r) THEN Upd(c, [r EXCEPT !.rd = FALSE]) ELSE Upd(c, DiscBegin(r, "reader", ReadReason(path)))

ReadEof(c) == ReadEnds(c, "eof")
ReadError(c) == ReadEnds(c, "readerror")
ReadTimeout(c) == ReadEnds(c, "timeout")

\* An API caller: connection.disconnect(REQUESTED), Network.disconnect(), Network.disconnect_server().  A caller that
\* finds the connection CLOSING or CLOSED returns at once (concurrent callers).
Disconnect(c) ==
  LET r == conn[c] IN
  /\ r.att # "none" /\ ~Busy(r) /\ r.ncall < MaxCalls
  /\ Upd(c, [DiscBegin(r, "api", "REQUESTED") EXCEPT !.ncall = @ + 1])

\* disconnect(), after the CLOSING report: cancel queued sends, close the writer and suspend in wait_closed - or,
\* without a writer, go on to CLOSED without suspending.  Closing the writer of a connection that waits for its init
\* message ends that read with EOF: on_peer_accepted returns.
DiscGo(c) ==
  LET r == conn[c] IN
  /\ r.dpc = "repCLOSING"
  /\ Upd(c, [r EXCEPT !.dpc = IF r.wr = "open" THEN "wait" ELSE "now",
                      !.wr = IF r.wr = "open" THEN "closing" ELSE r.wr,
                      !.apc = IF r.apc = "initread" THEN "finish" ELSE r.apc,
                      !.sblk = IF r.sblk = "queued" /\ r.dby # "sender" THEN "-" ELSE r.sblk])   \* _cancel_queued_messages

\* wait_closed() returned or DISCONNECT_TIMEOUT passed, or (dpc = "now") there was nothing to wait for:
\* state CLOSED, registry remove, report
DisconnectEnd(c) ==
  LET r == conn[c] IN
  /\ r.dpc \in {"now", "wait"}
  /\ Upd(c, [Rep(r, "CLOSED") EXCEPT !.inReg = FALSE, !.wr = IF r.wr = "none" THEN "none" ELSE "closed",
                                     !.dpc = "repCLOSED"])

\* disconnect(), after the CLOSED report: reader/writer dropped; then the caller goes on
DiscDone(c) ==
  LET r == conn[c]
      r1 == [r EXCEPT !.rd = FALSE, !.dpc = "-", !.dby = "-"] IN
  /\ r.dpc = "repCLOSED"
  /\ CASE r.dby = "attempt" /\ r.kind = "in" -> Upd(c, [r1 EXCEPT !.apc = "finish"])   \* on_peer_accepted returns
       [] r.dby = "attempt" /\ r.kind # "in" -> Upd(c, EndAttempt(r1, "finished"))     \* connect() / send raises
       [] r.dby = "canc" -> Upd(c, EndAttempt(r1, "cancelled"))                        \* CancelledError re-raised
       [] OTHER -> Upd(c, r1)

Step(c) ==
  \/ (\E via \in {"api", "resolve", "ctp"} : OutCreate(c, via)) \/ ServerConnect(c) \/ ConnectBegin(c) \/ ReportDone(c)
  \/ ConnectOk(c) \/ ConnectFail(c) \/ ConnectCancelledOpen(c) \/ ConnectCancelledReport(c)
  \/ ConnectCancelledInDisconnect(c) \/ (\E how \in {"ok", "blocked", "fail"} : InitWrite(c, how))
  \/ DrainResume(c) \/ DrainTimeout(c) \/ ConnectCancelledDrain(c) \/ InitSent(c)
  \/ InAccept(c) \/ (\E how \in {"peerinit", "pierce"} : InitOk(c, how)) \/ (\E path \in InitPaths : InitFails(c, path))
  \/ AcceptFinish(c)
  \/ Deliver(c) \/ Send(c) \/ (\E how \in {"direct", "queued"} : SendBlocked(c, how)) \/ SendResume(c) \/ SendWakeError(c) \/ WriteTimeout(c) \/ WriteError(c)
  \/ (\E path \in ReadPaths : ReadEnds(c, path)) \/ Disconnect(c) \/ DiscGo(c) \/ DisconnectEnd(c) \/ DiscDone(c)

Next == \E c \in Conns : Step(c)

Spec == Init /\ [][Next]_vars

----------------------------------------------------------------------------
\* Properties (from the statement of C10)

TypeOK ==
  \A c \in DOMAIN conn : LET r == conn[c] IN
    /\ r.kind \in {"server", "out", "in", "none"}
    /\ r.cs \in StateNames
    /\ \A i \in 1..Len(r.rep) : r.rep[i] \in StateNames
    /\ r.att \in {"none", "running", "cancelled", "finished", "unknown"}
    /\ r.wr \in {"none", "open", "closing", "closed", "unknown"}
    /\ r.dpc \in {"-", "repCLOSING", "now", "wait", "repCLOSED"}
    /\ r.kind = "server" => ~r.inReg

\* Reported states only move forward; only the server connection may go from CLOSED back to CONNECTING.
Monotone ==
  \A c \in DOMAIN conn : LET r == conn[c] IN
    \A i \in 1..(Len(r.rep) - 1) :
       \/ Rank(r.rep[i]) < Rank(r.rep[i + 1])
       \/ r.kind = "server" /\ r.rep[i] = "CLOSED" /\ r.rep[i + 1] = "CONNECTING"

\* CLOSED is reported at most once per life ...
ClosedOnce ==
  \A c \in DOMAIN conn : LET r == conn[c] IN
    \A i, j \in 1..Len(r.rep) :
       (i < j /\ r.rep[i] = "CLOSED" /\ r.rep[j] = "CLOSED") =>
          (r.kind = "server" /\ \E k \in (i + 1)..(j - 1) : r.rep[k] = "CONNECTING")

\* ... and nothing is reported after it
NothingAfterClosed ==
  \A c \in DOMAIN conn : LET r == conn[c] IN
    \A i \in 1..(Len(r.rep) - 1) :
       r.rep[i] = "CLOSED" => (r.kind = "server" /\ r.rep[i + 1] = "CONNECTING")

NoDeliveryAfterClosed == \A c \in DOMAIN conn : ~conn[c].dlvAC
\* no byte leaves after CLOSED, and no send that had handed its bytes to the transport reports success after CLOSED
NoSendAfterClosed == \A c \in DOMAIN conn : ~conn[c].sndAC /\ ~conn[c].sokAC

\* "open or being opened by a still-running attempt", in terms of what was reported
ShouldBeIn(r) ==
  \/ LastRep(r) \in {"CONNECTED", "CLOSING"}
  \/ LastRep(r) \in {"none", "CONNECTING"} /\ r.att = "running"

RegistryOK ==
  \A c \in DOMAIN conn : LET r == conn[c] IN
    r.kind \in {"out", "in"} =>
       /\ \/ r.att = "unknown" /\ LastRep(r) \in {"none", "CONNECTING"}   \* observation without attempt status
          \/ r.inReg <=> ShouldBeIn(r)
       /\ r.wr = "open" => r.inReg            \* whatever was reported: no open transport outside the registry

\* a connection that reported anything and whose life has ended (no running attempt, no transport, no task suspended
\* in one of its reports) reported CLOSED last
EndedOK ==
  \A c \in DOMAIN conn : LET r == conn[c] IN
    (r.rep # <<>> /\ r.att \in {"none", "cancelled", "finished"} /\ r.wr \in {"none", "closed"} /\ ~InReport(r)) =>
       LastRep(r) = "CLOSED"

Quiescent == \A c \in DOMAIN conn : ~Busy(conn[c])

RegistryExact == Quiescent => RegistryOK
ClosedWhenEnded == Quiescent => EndedOK
=============================================================================

SPECIFICATION Spec
CONSTANTS
  Conns = {1, 2}
  Kinds = {"out", "in"}
  Obfs = {FALSE}
  SlowListener = TRUE
  GuardAcceptFinish = TRUE
  CloseOnCancel = TRUE
  AbortConnectOnClose = TRUE
  ConnectingReportGuarded = TRUE
  ClosingReportGuarded = TRUE
  MaxLives = 1
  MaxCalls = 1
  MaxMsgs = 0
INVARIANT TypeOK
INVARIANT Monotone
INVARIANT ClosedOnce
INVARIANT NothingAfterClosed
INVARIANT NoDeliveryAfterClosed
INVARIANT NoSendAfterClosed
INVARIANT RegistryExact
INVARIANT ClosedWhenEnded
CHECK_DEADLOCK FALSE

SPECIFICATION Spec
CONSTANTS
  Conns = {1}
  Kinds = {"in"}
  Obfs = {FALSE}
  GuardAcceptFinish = FALSE
  CloseOnCancel = TRUE
  AbortConnectOnClose = TRUE
  MaxLives = 2
  MaxCalls = 2
  MaxMsgs = 1
INVARIANT TypeOK
INVARIANT Monotone
INVARIANT ClosedOnce
INVARIANT NothingAfterClosed
INVARIANT NoDeliveryAfterClosed
INVARIANT NoSendAfterClosed
INVARIANT RegistryExact
INVARIANT ClosedWhenEnded
CHECK_DEADLOCK FALSE

SPECIFICATION Spec
CONSTANTS
  Conns = {1}
  Kinds = {"in"}
  Obfs = {FALSE}
  SlowListener = TRUE
  GuardAcceptFinish = FALSE
  CloseOnCancel = TRUE
  AbortConnectOnClose = TRUE
  ConnectingReportGuarded = TRUE
  ClosingReportGuarded = TRUE
  MaxLives = 2
  MaxCalls = 2
  MaxMsgs = 1
INVARIANT TypeOK
INVARIANT Monotone
INVARIANT ClosedOnce
INVARIANT NothingAfterClosed
INVARIANT NoDeliveryAfterClosed
INVARIANT NoSendAfterClosed
INVARIANT RegistryExact
INVARIANT ClosedWhenEnded
CHECK_DEADLOCK FALSE

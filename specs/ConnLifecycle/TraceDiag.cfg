SPECIFICATION TSpec
CONSTANTS
  Conns = {1, 2, 3, 4, 5, 6, 7, 8, 9, 10}
  Kinds = {"server", "out", "in", "none"}
  Obfs = {FALSE, TRUE}
  GuardAcceptFinish = TRUE
  CloseOnCancel = TRUE
  AbortConnectOnClose = TRUE
  MaxLives = 20
  MaxCalls = 50
  MaxMsgs = 100000
  Modes = {"generic"}
INVARIANT Monotone
INVARIANT ClosedOnce
INVARIANT NothingAfterClosed
INVARIANT NoDeliveryAfterClosed
INVARIANT NoSendAfterClosed
INVARIANT RegistryExactT
INVARIANT ClosedWhenEndedT
CHECK_DEADLOCK TRUE

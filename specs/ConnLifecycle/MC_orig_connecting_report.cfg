SPECIFICATION Spec
CONSTANTS
  Conns = {1}
  Kinds = {"out", "server"}
  Obfs = {FALSE}
  SlowListener = TRUE
  GuardAcceptFinish = TRUE
  CloseOnCancel = TRUE
  AbortConnectOnClose = TRUE
  ConnectingReportGuarded = FALSE
  ClosingReportGuarded = TRUE
  MaxLives = 2
  MaxCalls = 2
  MaxMsgs = 1
INVARIANT TypeOK
INVARIANT Monotone
INVARIANT ClosedOnce
INVARIANT NothingAfterClosed
INVARIANT NoDeliveryAfterClosed
INVARIANT NoSendAfterClosed
INVARIANT RegistryExact
INVARIANT ClosedWhenEnded
CHECK_DEADLOCK FALSE

------------------------ MODULE SearchRequestsTrace ------------------------
(***************************************************************************)
(* Trace validation for C18: a batch of executions of the real             *)
(* SearchManager / search commands / tasks.Timer, recorded by              *)
(* harness/props/c18.py in virtual time, is judged against SearchRequests. *)
(*                                                                         *)
(* Only the abstract layer of SearchRequests is followed (status, ticket,  *)
(* pending deadline per entity) - updated with the A_* effects of the      *)
(* design spec from the logged calls and observed events - plus            *)
(* `requests`, which is bound from the logged SearchManager.requests.  The *)
(* asyncio micro-state (ready queue, tasks, Timer._task) is not observable *)
(* and not constrained: an implementation with another slot structure but  *)
(* the same observable contract is accepted.                               *)
(*                                                                         *)
(* Records (JSON; times are integer milliseconds of virtual time):         *)
(*   init     rt, wt                       settings (ms; wt = -1: server)   *)
(*   create   e, kind, tk, timed, via      a new request object appeared in *)
(*                                         SearchManager.requests           *)
(*   remove   e, exc                       remove_request was called        *)
(*   reply    tk, res                      a PeerSearchReply with ticket tk *)
(*                                         was handled; res = entities for  *)
(*                                         which SearchResultEvent came     *)
(*   result   e                            SearchResultEvent outside a reply*)
(*   rin      h, tk                        a PeerSearchReply with ticket tk *)
(*                                         is delivered on a connection     *)
(*                                         whose close is being held        *)
(*   rdone    h                            the handling of that reply ended *)
(*   removed  e                            SearchRequestRemovedEvent        *)
(*   ltold    e, i                         the application's i-th listener  *)
(*                                         of SearchRequestRemovedEvent has *)
(*                                         handled that event (init.nl =    *)
(*                                         number of such listeners)        *)
(*   wlmsg    ival                         WishlistInterval from the server *)
(*   looperr  exc, tk                      the loop exception handler ran   *)
(*   tnew / tstart / tresched  e, d        calls on a bare Timer (d = the   *)
(*   tcancel  e                            timeout in force, ms)            *)
(*   fire     e                            the bare Timer's callback ran    *)
(*   opexc    what                         an API call raised               *)
(*   quiet                                 the loop is quiescent            *)
(* every record carries now and reqs = SearchManager.requests as            *)
(* [[ticket, e], ...].                                                      *)
(*                                                                         *)
(* The trace spec is deterministic: each record is applied (Apply), then   *)
(* the properties of SearchRequests are evaluated on that step; the first  *)
(* one that fails is printed (REJECT) and the trace is not accepted.  The  *)
(* same formulas are CONSTRAINT / ACTION_CONSTRAINT lines of Trace.cfg and *)
(* INVARIANT / PROPERTY lines of TraceDiag.cfg.                            *)
(***************************************************************************)
EXTENDS SearchRequests, Json, IOUtils

Traces == JsonDeserialize(IOEnv.TRACE_FILE)

VARIABLES tid, l

tvars == <<vars, tid, l>>
frozen == <<gen, tmo, handle, task, ready, wl, hc, sc, nops, rt, wt>>

T == Traces[tid]
Rec == T[l]

ToSet(sq) == {sq[i] : i \in 1..Len(sq)}

TInit ==
  /\ tid \in 1..Len(Traces)
  /\ l = 2
  /\ Len(Traces[tid]) >= 1 /\ Traces[tid][1].ev = "init"
  /\ now = 0
  /\ rt = Traces[tid][1].rt /\ wt = Traces[tid][1].wt /\ srvIval = 0
  /\ kind = [e \in Ents |-> "none"]
  /\ status = [e \in Ents |-> "unused"]
  /\ ticket = [e \in Ents |-> 0]
  /\ armed = [e \in Ents |-> FALSE]
  /\ adl = [e \in Ents |-> 0]
  /\ hs = <<>> /\ hc = <<>> /\ sc = <<>> /\ owed = {}
  /\ requests = {}
  /\ gen = [mgr |-> 1, cli |-> 1]
  /\ tmo = [e \in Ents |-> 0]
  /\ handle = [e \in Ents |-> 0]
  /\ task = <<>>
  /\ ready = <<ENV>>
  /\ wl = [st |-> "none", due |-> 0]
  /\ nops = 0
  /\ op = Op("init", 0, 0) /\ out = <<>> /\ ran = 0 /\ errs = 0 /\ q = TRUE

\* Which of several replies in flight with the same ticket a result event answered is not
\* observable (A_Credit picks one): when the handling of reply h, which is entitled to a
\* result, ends without a credit while
\* another reply with its ticket that is still in flight holds one, the credit is h's.
Regroup(K, h) ==
  LET donors == {x \in 1..Len(K.hs) : x # h /\ K.hs[x].open /\ K.hs[x].tk = K.hs[h].tk /\ K.hs[x].n = 1} IN
  IF K.hs[h].n = 0 /\ K.hs[h].cont # 0 /\ donors # {}
    THEN LET x == CHOOSE y \in donors : \A z \in donors : y <= z IN
         [K EXCEPT !.hs[h].n = 1, !.hs[x].n = 0]
    ELSE K

NL == Traces[tid][1].nl

Events == {"create", "remove", "reply", "result", "rin", "rdone", "removed", "ltold", "wlmsg", "looperr",
           "tnew", "tstart", "tresched", "tcancel", "fire", "opexc", "quiet"}

\* what every record does
Common(r) ==
  /\ now' = r.now
  /\ requests' = ToSet(r.reqs)
  /\ q' = (r.ev = "quiet")
  /\ UNCHANGED frozen

NoEffect == UNCHANGED <<abst, srvIval>>

Apply(r) ==
  /\ Common(r)
  /\ \/ /\ r.ev = "create"
        /\ LET TT == IF r.kind = "cmd" THEN (IF r.timed THEN rt ELSE 0) ELSE ExpTimeout(r.kind) IN
             SetAbs(A_Create(Abs, r.now, r.e, r.kind, r.tk, TT))
        /\ op' = Op(r.via, r.e, r.tk) /\ out' = <<>> /\ ran' = 0 /\ errs' = errs
        /\ UNCHANGED srvIval
     \/ /\ r.ev = "remove"
        /\ SetAbs(A_Remove(Abs, r.e))
        /\ op' = Op("remove", r.e, 0)
        /\ out' = IF r.exc = "none" THEN <<>> ELSE <<Ev("raise", r.e)>>
        /\ ran' = 0 /\ errs' = errs /\ UNCHANGED srvIval
     \/ /\ r.ev = "reply"
        /\ op' = Op("reply", 0, r.tk)
        /\ out' = [i \in 1..Len(r.res) |-> Ev("result", r.res[i])]
        /\ ran' = 0 /\ errs' = errs /\ NoEffect
     \/ /\ r.ev = "result"
        /\ SetAbs(A_Credit(Abs, r.e))
        /\ op' = Op("none", 0, 0) /\ out' = <<Ev("result", r.e)>>
        /\ ran' = 0 /\ errs' = errs /\ UNCHANGED srvIval
     \/ /\ r.ev = "rin"
        /\ SetAbs(A_ReplyIn(Abs, r.tk))
        /\ op' = Op("rheld", r.h, r.tk) /\ out' = <<>>
        /\ ran' = 0 /\ errs' = errs /\ UNCHANGED srvIval
     \/ /\ r.ev = "rdone"
        /\ SetAbs(A_ReplyDone(Regroup(Abs, r.h), r.h))
        /\ op' = Op("none", 0, 0) /\ out' = <<>>
        /\ ran' = 0 /\ errs' = errs /\ UNCHANGED srvIval
     \/ /\ r.ev = "removed"
        /\ SetAbs(A_Owe(A_Expire(Abs, r.e), r.e, NL))
        /\ op' = Op("none", 0, 0) /\ out' = <<Ev("removed", r.e)>>
        /\ ran' = r.e /\ errs' = errs /\ UNCHANGED srvIval
     \/ /\ r.ev = "ltold"
        /\ SetAbs(A_Told(Abs, r.e, r.i))
        /\ op' = Op("none", 0, 0) /\ out' = <<Ev(ToldEv(r.i), r.e)>>
        /\ ran' = 0 /\ errs' = errs /\ UNCHANGED srvIval
     \/ /\ r.ev = "wlmsg"
        /\ srvIval' = r.ival
        /\ op' = Op("wlmsg", 0, r.ival) /\ out' = <<>> /\ ran' = 0 /\ errs' = errs
        /\ UNCHANGED abst
     \/ /\ r.ev = "looperr"
        /\ errs' = errs + 1
        /\ op' = Op("none", 0, 0) /\ out' = <<>> /\ ran' = 0 /\ NoEffect
     \/ /\ r.ev = "tnew"
        /\ SetAbs(A_NewTimer(Abs, r.now, r.e, r.d))
        /\ op' = Op("tnew", r.e, r.d) /\ out' = <<>> /\ ran' = 0 /\ errs' = errs /\ UNCHANGED srvIval
     \/ /\ r.ev \in {"tstart", "tresched"}
        /\ SetAbs(A_Arm(Abs, r.now, r.e, r.d))
        /\ op' = Op(r.ev, r.e, r.d) /\ out' = <<>> /\ ran' = 0 /\ errs' = errs /\ UNCHANGED srvIval
     \/ /\ r.ev = "tcancel"
        /\ SetAbs(A_Disarm(Abs, r.e))
        /\ op' = Op("tcancel", r.e, 0) /\ out' = <<>> /\ ran' = 0 /\ errs' = errs /\ UNCHANGED srvIval
     \/ /\ r.ev = "fire"
        /\ SetAbs(A_Fire(Abs, r.e))
        /\ op' = Op("none", 0, 0) /\ out' = <<Ev("fire", r.e)>>
        /\ ran' = r.e /\ errs' = errs /\ UNCHANGED srvIval
     \/ /\ r.ev \in {"quiet", "opexc"}
        /\ op' = Op("none", 0, 0) /\ out' = <<>> /\ ran' = 0 /\ errs' = errs /\ NoEffect

\* the record is something the recorder can produce at this point (otherwise: harness error)
WellFormed(r) ==
  /\ r.ev \in Events
  /\ r.now >= now
  /\ r.now > now => q                              \* the driver only advances the clock when quiet
  /\ r.ev \in {"create", "tnew"} => r.e \in Ents /\ kind[r.e] = "none"
  /\ r.ev \in {"remove", "removed", "result", "ltold"} => r.e \in Ents
  /\ r.ev = "ltold" => r.i \in 1..NL /\ NL <= 2
  /\ r.ev = "remove" => status[r.e] = "live" /\ IsReq(r.e)
  /\ r.ev \in {"tstart", "tresched", "tcancel", "fire"} => r.e \in Ents /\ kind[r.e] = "bare"
  /\ r.ev = "tstart" => ~armed[r.e]
  /\ r.ev = "reply" => \A i \in 1..Len(r.res) : r.res[i] \in Ents
  /\ r.ev = "rin" => r.h = Len(hs) + 1
  /\ r.ev = "rdone" => r.h \in 1..Len(hs) /\ hs[r.h].open

\* the first property the step breaks, "ok" if none
Judge(r) ==
  IF r.ev = "opexc" THEN "ApiCallRaised"
  ELSE IF ~ResultIffLiveA THEN "ResultIffLive"
  ELSE IF ~DistinctTickets' THEN "DistinctTickets"
  ELSE IF ~QuietAfterManualRemovalA THEN "QuietAfterManualRemoval"
  ELSE IF ~RemovedOnceAtTimeoutA THEN "RemovedOnceAtTimeout"
  ELSE IF ~ToldA THEN "ReportedToEveryListener"
  ELSE IF ~RemoveSucceedsA THEN "RemoveSucceeds"
  ELSE IF ~NoLoopErrorA THEN "NoLoopError"
  ELSE IF ~SupersededNeverFiresA THEN "SupersededNeverFires"
  ELSE IF ~RegistryExact' THEN "RegistryExact"
  ELSE IF ~NoOverdue' THEN "NoOverdue"
  ELSE IF ~AllTold' THEN "AllTold"
  ELSE "ok"

TStep ==
  /\ l <= Len(T)
  /\ WellFormed(Rec)
  /\ Apply(Rec)
  /\ LET verdict == Judge(Rec) IN
       IF verdict = "ok" THEN l' = l + 1
       ELSE PrintT(<<"REJECT", tid, l, verdict>>) /\ l' = Len(T) + 2
  /\ UNCHANGED tid

TMalformed ==
  /\ l <= Len(T)
  /\ ~WellFormed(Rec)
  /\ PrintT(<<"REJECT", tid, l, "MalformedRecord">>)
  /\ l' = Len(T) + 2
  /\ UNCHANGED <<vars, tid>>

Done ==
  /\ l = Len(T) + 1
  /\ PrintT(<<"ACCEPT", tid, {}>>)
  /\ l' = l + 1
  /\ op' = Op("none", 0, 0) /\ out' = <<>> /\ ran' = 0
  /\ UNCHANGED <<now, srvIval, abst, requests, frozen, errs, q, tid>>

Finished == l = Len(T) + 2 /\ UNCHANGED tvars

TNext == TStep \/ TMalformed \/ Done \/ Finished

TSpec == TInit /\ [][TNext]_tvars

\* TraceDiag.cfg: the action properties over the trace variables
TResultIffLive == [][ResultIffLiveA]_tvars
TRemovedOnceAtTimeout == [][RemovedOnceAtTimeoutA]_tvars
TQuietAfterManualRemoval == [][QuietAfterManualRemovalA]_tvars
TReportedToEveryListener == [][ToldA]_tvars
TRemoveSucceeds == [][RemoveSucceedsA]_tvars
TNoLoopError == [][NoLoopErrorA]_tvars
TSupersededNeverFires == [][SupersededNeverFiresA]_tvars
TNoApiCallRaised == [][l <= Len(T) => Rec.ev # "opexc"]_tvars
=============================================================================

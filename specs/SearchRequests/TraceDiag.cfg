SPECIFICATION TSpec
CONSTANTS
  Ents = {1, 2, 3, 4, 5, 6, 7, 8, 9, 10, 11, 12, 13, 14, 15, 16, 17, 18, 19, 20}
  ReqTimeouts = {0}
  WishFixed = {0}
  WishServer = FALSE
  Intervals = {3}
  Delays = {1}
  WishItems = 0
  DefaultIval = 600000
  EnvOps = {}
  MaxOps = 0
  MaxTime = 0
  MaxTasks = 0
  MaxTicket = 0
  UnsetGuard = TRUE
  RemoveCancels = TRUE
  SharedGen = TRUE
  EmitBeforeClose = TRUE
  MaxHeld = 0
  MaxSHeld = 0
  StartBeforeEmit = TRUE
  CmdFreshTicket = TRUE
  TimeoutUsesRemove = FALSE
  LossCancelsTimers = FALSE
  LstCode = "-"
INVARIANT DistinctTickets
INVARIANT RegistryExact
INVARIANT NoOverdue
INVARIANT AllTold
PROPERTY TReportedToEveryListener
PROPERTY TResultIffLive
PROPERTY TRemovedOnceAtTimeout
PROPERTY TQuietAfterManualRemoval
PROPERTY TRemoveSucceeds
PROPERTY TNoLoopError
PROPERTY TSupersededNeverFires
PROPERTY TNoApiCallRaised
CHECK_DEADLOCK TRUE

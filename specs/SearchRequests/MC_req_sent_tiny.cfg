SPECIFICATION Spec
CONSTANTS
  Ents = {1, 2, 3}
  ReqTimeouts = {0, 2}
  WishFixed = {0}
  WishServer = FALSE
  Intervals = {3}
  Delays = {1}
  WishItems = 1
  DefaultIval = 9
  EnvOps = {"searchrm", "sheld", "remove", "cmd", "recmd"}
  MaxOps = 3
  MaxTime = 3
  MaxTasks = 4
  MaxTicket = 1
  UnsetGuard = TRUE
  RemoveCancels = TRUE
  SharedGen = TRUE
  EmitBeforeClose = TRUE
  MaxHeld = 0
  MaxSHeld = 1
  StartBeforeEmit = TRUE
  CmdFreshTicket = TRUE
  TimeoutUsesRemove = FALSE
  LossCancelsTimers = FALSE
  LstCode = "-"
INVARIANT TypeOK
INVARIANT DistinctTickets
INVARIANT RegistryExact
INVARIANT NoOverdue
INVARIANT AllTold
PROPERTY ReportedToEveryListener
PROPERTY ResultIffLive
PROPERTY RemovedOnceAtTimeout
PROPERTY QuietAfterManualRemoval
PROPERTY RemoveSucceeds
PROPERTY NoLoopError
PROPERTY SupersededNeverFires
VIEW view
CHECK_DEADLOCK FALSE

--------------------------- MODULE SearchRequests ---------------------------
(***************************************************************************)
(* C18 - search results reach only live requests; removal and timeouts are *)
(* exact.                                                                  *)
(*                                                                         *)
(* Mirrors src/aioslsk/search/manager.py (requests dict, search /          *)
(* search_room / search_user, _wishlist_job, _attach_request_timer_and_emit,*)
(* _timeout_search_request, remove_request, _on_peer_search_reply,         *)
(* _on_wish_list_interval), the search commands of src/aioslsk/commands.py *)
(* (GlobalSearchCommand, UserSearchCommand, RoomSearchCommand),            *)
(* utils.ticket_generator and tasks.Timer.                                 *)
(*                                                                         *)
(* An *entity* e is either a search request together with its Timer, or a  *)
(* bare Timer driven directly (kind "bare").                               *)
(*                                                                         *)
(* Two layers of state:                                                    *)
(*  - abstract: what the property statement talks about (status, ticket,   *)
(*    whether a deadline is pending according to the API calls made, and   *)
(*    which one).  It is updated from the calls and the observable events  *)
(*    only;                                                                *)
(*  - code level: the requests dict, the ticket counters, and the Timer as *)
(*    the real asyncio object: Timer._task (handle), the runner tasks, and *)
(*    the loop's FIFO ready queue (DESIGN.md appendix A).  The environment *)
(*    (a driver coroutine) is itself a handle of that queue.               *)
(* The properties relate what the code level emits to the abstract state.  *)
(*                                                                         *)
(* Switches (FALSE = the code as found, TRUE = repaired):                  *)
(*   UnsetGuard    Timer._unset_task only clears _task if it still points  *)
(*                 at the finished task                                    *)
(*   RemoveCancels remove_request cancels the request's timer              *)
(*   SharedGen     the search commands draw tickets from the search        *)
(*                 manager's generator                                     *)
(*   StartBeforeEmit  the request's Timer is started before                *)
(*                 SearchRequestSentEvent is delivered (TRUE = the code as *)
(*                 found; FALSE = started after the awaited emit, so a     *)
(*                 removal during the delivery cancels a timer that is not *)
(*                 running yet and the timer is armed for a gone request)  *)
(*   CmdFreshTicket  a search command draws a new ticket every time it is  *)
(*                 executed (TRUE = the code as found; FALSE = an instance *)
(*                 executed again re-uses its ticket)                      *)
(*   TimeoutUsesRemove  _timeout_search_request unregisters the request     *)
(*                 with remove_request (TRUE; FALSE = the code as found:   *)
(*                 `del self.requests[ticket]`): remove_request cancels    *)
(*                 the request's timer, whose task is the one running the  *)
(*                 handler, so the report is cut short at the first        *)
(*                 listener that really suspends                           *)
(*   LossCancelsTimers  the server connection going to CLOSING cancels the  *)
(*                 timers of the pending requests (TRUE; FALSE = the code  *)
(*                 as found: only the wishlist task is cancelled, only     *)
(*                 stop() cancels request timers)                          *)
(*   EmitBeforeClose  _on_peer_search_reply looks the request up and       *)
(*                 reports the result in one stretch, before it awaits     *)
(*                 connection.disconnect (TRUE = the code as found; FALSE  *)
(*                 = look up, await the disconnect, then report: a         *)
(*                 check-then-act race kept as a named deviation)          *)
(***************************************************************************)
EXTENDS Integers, Sequences, FiniteSets, TLC

CONSTANTS
  Ents,          \* entity ids, 1..N
  ReqTimeouts,   \* possible values of searches.send.request_timeout (0 = off)
  WishFixed,     \* possible non-negative values of searches.send.wishlist_request_timeout (0 = off)
  WishServer,    \* TRUE: the value -1 (= use the interval advertised by the server) is possible too
  Intervals,     \* intervals the server may announce (WishlistInterval)
  Delays,        \* timeouts used for bare timers
  WishItems,     \* number of enabled wishlist items
  DefaultIval,   \* DEFAULT_WISHLIST_INTERVAL
  EnvOps,        \* which stimuli the environment uses in this configuration
  MaxOps, MaxTime, MaxTasks, MaxTicket,
  MaxHeld,       \* replies that arrive on a connection whose close takes a while (in flight at most)
  MaxSHeld,      \* searches whose SearchRequestSentEvent is delivered to a listener that suspends
  LstCode,       \* the application's listeners of SearchRequestRemovedEvent, in registration order:
                 \* a string over s (plain function), a (coroutine that does not suspend),
                 \* u (coroutine that really suspends once); "-" = none
  UnsetGuard, RemoveCancels, SharedGen, EmitBeforeClose, StartBeforeEmit, CmdFreshTicket, TimeoutUsesRemove,
  LossCancelsTimers

VARIABLES
  now,
  \* ---- settings / server state
  rt,        \* searches.send.request_timeout
  wt,        \* searches.send.wishlist_request_timeout
  srvIval,   \* last interval announced by the server, 0 = none yet
  \* ---- abstract
  kind,      \* e -> "none" | "mgr" | "cmd" | "wish" | "bare"
  status,    \* e -> "unused" | "live" | "manual" | "expired"
  ticket,    \* e -> ticket of the request (0: none)
  armed,     \* e -> a deadline is pending for e according to the calls made so far
  adl,       \* e -> that deadline
  owed,      \* reports of a removal not yet made: set of <<e, i>>, i = listener
  hs,        \* replies whose handler does not finish at once: sequence of [tk, n, cont, open] -
             \* ticket, results reported for it, the request that was live under tk when the reply
             \* arrived and has stayed live since (0: none), handler still running
  \* ---- code level
  requests,  \* SearchManager.requests as a set of <<ticket, e>> (a dict: one pair per ticket)
  gen,       \* the two ticket counters [mgr |-> n, cli |-> n]
  tmo,       \* e -> Timer.timeout
  handle,    \* e -> Timer._task: index into task, 0 = None
  task,      \* sequence of runner tasks [e, st, mc, dl]
  ready,     \* the loop's ready queue: sequence of [k, t]
  wl,        \* the wishlist BackgroundTask [st, due]
  hc,        \* per held reply: the handler coroutine [pc, q] (q: the request object it looked up)
  sc,        \* per search whose sent event meets a suspending listener: the coroutine [pc, e]
  nops,      \* stimuli used
  \* ---- history (what the last step did)
  op,        \* the stimulus of the last step [k, e, a]; k = "none" for an internal step
  out,       \* events emitted by the last step: sequence of [ev, e]
  ran,       \* entity whose timer callback ran in the last step, 0 = none
  errs,      \* exceptions that reached the loop exception handler so far
  q          \* the loop is quiescent (nothing but the driver is ready, nothing is due)

abst    == <<kind, status, ticket, armed, adl, hs, owed>>
conf    == <<rt, wt>>
micro   == <<requests, gen, tmo, handle, task, ready, wl, hc, sc, nops>>
hist    == <<op, out, ran, errs, q>>
vars    == <<now, rt, wt, srvIval, kind, status, ticket, armed, adl, hs, owed,
             requests, gen, tmo, handle, task, ready, wl, hc, sc, nops, op, out, ran, errs, q>>
\* history variables carry nothing the next step depends on
view    == <<now, rt, wt, srvIval, kind, status, ticket, armed, adl, hs, owed,
             requests, gen, tmo, handle, task, ready, wl, hc, sc, nops, errs>>

WishTimeouts == IF WishServer THEN WishFixed \cup {-1} ELSE WishFixed

Lst == CASE LstCode = "-" -> <<>>
       [] LstCode = "s" -> <<"sync">> [] LstCode = "a" -> <<"async">> [] LstCode = "u" -> <<"susp">>
       [] LstCode = "us" -> <<"susp", "sync">> [] LstCode = "su" -> <<"sync", "susp">>
       [] LstCode = "ua" -> <<"susp", "async">> [] LstCode = "au" -> <<"async", "susp">>
       [] LstCode = "uu" -> <<"susp", "susp">> [] LstCode = "sa" -> <<"sync", "async">>
ToldEv(i) == IF i = 1 THEN "told1" ELSE "told2"

ENV == [k |-> "env", t |-> 0]
H(k, t) == [k |-> k, t |-> t]
Ev(ev, e) == [ev |-> ev, e |-> e]
Op(k, e, a) == [k |-> k, e |-> e, a |-> a]

IsReqKind(k) == k \in {"mgr", "cmd", "wish"}
IsReq(e) == IsReqKind(kind[e])
LiveReqs == {e \in Ents : IsReq(e) /\ status[e] = "live"}
Unused == {e \in Ents : kind[e] = "none"}

\* the timeout a request of kind k is entitled to (docs/source/SETTINGS.rst):
\* request_timeout for searches made through the manager; for wishlist searches
\* wishlist_request_timeout, where 0 = keep and a negative value = the interval
\* advertised by the server (the default interval while none was advertised).
ExpTimeout(k) ==
  IF k = "mgr" THEN rt
  ELSE IF k = "wish" THEN (IF wt >= 0 THEN wt ELSE IF srvIval > 0 THEN srvIval ELSE DefaultIval)
  ELSE 0

Has(sq, x) == \E i \in 1..Len(sq) : sq[i] = x
CountOf(sq, x) == Cardinality({i \in 1..Len(sq) : sq[i] = x})

----------------------------------------------------------------------------
\* Abstract effects (re-used by SearchRequestsTrace)

A_Create(K, S, e, k, tk, T) ==
  [kind   |-> [K.kind EXCEPT ![e] = k],
   status |-> [K.status EXCEPT ![e] = "live"],
   ticket |-> [K.ticket EXCEPT ![e] = tk],
   armed  |-> [K.armed EXCEPT ![e] = (T > 0)],
   adl    |-> [K.adl EXCEPT ![e] = IF T > 0 THEN S + T ELSE 0],
   hs     |-> K.hs,
   owed   |-> K.owed]

Abs == [kind |-> kind, status |-> status, ticket |-> ticket, armed |-> armed, adl |-> adl, hs |-> hs,
        owed |-> owed]

SetAbs(K) ==
  /\ kind' = K.kind /\ status' = K.status /\ ticket' = K.ticket /\ armed' = K.armed /\ adl' = K.adl
  /\ hs' = K.hs /\ owed' = K.owed

\* a reply in flight stops being entitled to a result once the request it was for is gone
ClearCont(HS, e) == [h \in 1..Len(HS) |-> IF HS[h].cont = e THEN [HS[h] EXCEPT !.cont = 0] ELSE HS[h]]

A_Remove(K, e) == [K EXCEPT !.status[e] = "manual", !.armed[e] = FALSE, !.hs = ClearCont(K.hs, e)]
A_Expire(K, e) == [K EXCEPT !.status[e] = "expired", !.armed[e] = FALSE, !.hs = ClearCont(K.hs, e)]

\* replies whose handling takes a while (the connection they came on is slow to close)
LiveUnder(K, tk) == {e \in Ents : IsReqKind(K.kind[e]) /\ K.status[e] = "live" /\ K.ticket[e] = tk}
A_ReplyIn(K, tk) ==
  [K EXCEPT !.hs = Append(K.hs, [tk |-> tk, n |-> 0, open |-> TRUE,
                                 cont |-> IF LiveUnder(K, tk) = {} THEN 0 ELSE CHOOSE e \in LiveUnder(K, tk) : TRUE])]
A_CreditH(K, h) == [K EXCEPT !.hs[h].n = @ + 1]
\* a result event for e seen from outside: it answers one of the replies in flight with e's ticket
Creditable(K, e) == {h \in 1..Len(K.hs) : K.hs[h].open /\ K.hs[h].tk = K.ticket[e] /\ K.hs[h].n = 0}
A_Credit(K, e) ==
  LET c == Creditable(K, e)
      pref == {h \in c : K.hs[h].cont = e}
      pick == IF pref # {} THEN CHOOSE h \in pref : \A x \in pref : h <= x
                           ELSE CHOOSE h \in c : \A x \in c : h <= x IN
  IF c = {} THEN K ELSE A_CreditH(K, pick)
A_ReplyDone(K, h) == [K EXCEPT !.hs[h].open = FALSE]
\* the removal of e has to be reported to each of the n listeners; listener i has been told
A_Owe(K, e, n) == [K EXCEPT !.owed = @ \cup {<<e, i>> : i \in 1..n}]
A_Told(K, e, i) == [K EXCEPT !.owed = @ \ {<<e, i>>}]
A_Fire(K, e)   == [K EXCEPT !.armed[e] = FALSE]
A_Arm(K, S, e, T) == [K EXCEPT !.armed[e] = TRUE, !.adl[e] = S + T]
A_Disarm(K, e) == [K EXCEPT !.armed[e] = FALSE]
A_NewTimer(K, S, e, T) ==
  [K EXCEPT !.kind[e] = "bare", !.status[e] = "live", !.armed[e] = TRUE, !.adl[e] = S + T]

----------------------------------------------------------------------------
\* tasks.Timer on the asyncio loop.  M = [h (handle), t (task), r (ready)]

Micro == [h |-> handle, t |-> task, r |-> ready]
SetMicro(M) == handle' = M.h /\ task' = M.t /\ ready' = M.r

\* Timer.start (tasks.py:85-87): create_task schedules the first step; the done-callback
\* _unset_task is attached.
StartIn(M, e) ==
  LET t == Len(M.t) + 1 IN
  [h |-> [M.h EXCEPT ![e] = t],
   t |-> Append(M.t, [e |-> e, st |-> "new", mc |-> FALSE, dl |-> 0, li |-> 0]),
   r |-> Append(M.r, H("step", t))]

\* Timer.cancel (tasks.py:89-96) -> Task.cancel(): a task waiting for its sleep future gets
\* the future cancelled and its wake-up scheduled; a task that has not run yet, or whose
\* future is already done, is flagged and gets CancelledError at its next step.
CancelIn(M, e) ==
  IF M.h[e] = 0 THEN M
  ELSE LET t == M.h[e]
           tr == M.t[t] IN
       [h |-> [M.h EXCEPT ![e] = 0],
        t |-> IF tr.st = "done" THEN M.t
              ELSE [M.t EXCEPT ![t].mc = TRUE,
                               ![t].st = IF tr.st = "sleep" THEN "woken" ELSE tr.st],
        r |-> IF tr.st = "sleep" THEN Append(M.r, H("step", t)) ELSE M.r]

----------------------------------------------------------------------------
\* Creating a request at code level.  C carries everything a creation touches.

Cur == [abs |-> Abs, requests |-> requests, gen |-> gen, tmo |-> tmo, m |-> Micro, out |-> <<>>]

Put(R, tk, e) == {p \in R : p[1] # tk} \cup {<<tk, e>>}
Del(R, tk) == {p \in R : p[1] # tk}
HasKey(R, tk) == \E p \in R : p[1] = tk
Get(R, tk) == (CHOOSE p \in R : p[1] = tk)[2]

FreeIn(C) == {e \in Ents : C.abs.kind[e] = "none"}
FreshIn(C) == CHOOSE e \in FreeIn(C) : \A x \in FreeIn(C) : e <= x

\* manager.py:122-134 / 283-303 / commands.py:554-614: register a request under ticket tk
\* (overwriting whatever the dict holds under that ticket); when T > 0 a Timer is attached, and
\* started here if `start`
CreateTk(C, k, tk, T, sent, start) ==
  LET e == FreshIn(C) IN
  [abs |-> A_Create(C.abs, now, e, k, tk, IF k = "cmd" THEN T ELSE ExpTimeout(k)),
   requests |-> Put(C.requests, tk, e),
   gen |-> C.gen,
   tmo |-> [C.tmo EXCEPT ![e] = T],
   m |-> IF T > 0 /\ start THEN StartIn(C.m, e) ELSE C.m,
   out |-> IF sent THEN Append(C.out, Ev("sent", e)) ELSE C.out]

\* ... under the next ticket of generator g
CreateIn(C, k, g, T, sent) ==
  [CreateTk(C, k, C.gen[g] + 1, T, sent, TRUE) EXCEPT !.gen = [C.gen EXCEPT ![g] = C.gen[g] + 1]]

CanCreate(C, T) == FreeIn(C) # {} /\ (T > 0 => Len(C.m.t) < MaxTasks)

SetCreated(C) ==
  /\ SetAbs(C.abs) /\ requests' = C.requests /\ gen' = C.gen /\ tmo' = C.tmo /\ SetMicro(C.m)
  /\ out' = C.out

RECURSIVE WishRound(_, _, _)
WishRound(C, n, T) ==
  IF n = 0 \/ ~CanCreate(C, T) THEN C
  ELSE WishRound(CreateIn(C, "wish", "mgr", T, TRUE), n - 1, T)

----------------------------------------------------------------------------
Init ==
  /\ now = 0
  /\ rt \in ReqTimeouts /\ wt \in WishTimeouts /\ srvIval = 0
  /\ kind = [e \in Ents |-> "none"]
  /\ status = [e \in Ents |-> "unused"]
  /\ ticket = [e \in Ents |-> 0]
  /\ armed = [e \in Ents |-> FALSE]
  /\ adl = [e \in Ents |-> 0]
  /\ hs = <<>> /\ hc = <<>> /\ sc = <<>> /\ owed = {}
  /\ requests = {}
  /\ gen = [mgr |-> 1, cli |-> 1]        \* utils.ticket_generator(initial=1): both start at 1
  /\ tmo = [e \in Ents |-> 0]
  /\ handle = [e \in Ents |-> 0]
  /\ task = <<>>
  /\ ready = <<ENV>>
  /\ wl = [st |-> "none", due |-> 0]
  /\ nops = 0
  /\ op = Op("init", 0, 0) /\ out = <<>> /\ ran = 0 /\ errs = 0 /\ q = TRUE

----------------------------------------------------------------------------
\* Environment stimuli.  The driver is a task of the same loop: it acts when its handle is at
\* the head of the ready queue and keeps the head until it yields.

EnvTurn(o) == ready # <<>> /\ Head(ready) = ENV /\ nops < MaxOps /\ o \in EnvOps
Stim(o) == /\ op' = o /\ ran' = 0 /\ errs' = errs /\ nops' = nops + 1 /\ q' = (ready' = <<ENV>>)
           /\ UNCHANGED <<now, rt, wt, hc, sc>>

\* SearchManager.search / search_room / search_user
Search ==
  /\ EnvTurn("search") /\ CanCreate(Cur, rt)
  /\ LET C == CreateIn(Cur, "mgr", "mgr", rt, TRUE) IN
       /\ SetCreated(C)
       /\ Stim(Op("search", FreshIn(Cur), C.gen.mgr))
  /\ UNCHANGED <<srvIval, wl>>

\* client.execute(GlobalSearchCommand / UserSearchCommand / RoomSearchCommand): no timer, no
\* SearchRequestSentEvent; the ticket comes from client.ticket_generator
CmdSearch ==
  /\ EnvTurn("cmd") /\ CanCreate(Cur, 0)
  /\ LET g == IF SharedGen THEN "mgr" ELSE "cli"
         C == CreateIn(Cur, "cmd", g, 0, FALSE) IN
       /\ SetCreated(C)
       /\ Stim(Op("cmd", FreshIn(Cur), C.gen[g]))
  /\ UNCHANGED <<srvIval, wl>>

\* WishlistInterval.Response (manager.py:405-413): (re)starts the wishlist task.  Only the first
\* announcement of a session is modelled (a second one hits F02-1, which is C02's business).
WlMsg(i) ==
  /\ EnvTurn("wlmsg") /\ wl.st = "none"
  /\ srvIval' = i
  /\ wl' = [st |-> "new", due |-> 0]
  /\ ready' = Append(ready, H("wl", 0))
  /\ out' = <<>>
  /\ Stim(Op("wlmsg", 0, i))
  /\ UNCHANGED <<abst, requests, gen, tmo, handle, task>>

\* SearchManager.remove_request (manager.py:104-112) of a request the user holds and has not
\* seen removed
Remove(e) ==
  /\ EnvTurn("remove") /\ e \in LiveReqs
  /\ LET tk == ticket[e]
         present == HasKey(requests, tk) IN
       /\ requests' = Del(requests, tk)
       /\ SetMicro(IF RemoveCancels /\ present THEN CancelIn(Micro, Get(requests, tk)) ELSE Micro)
       /\ out' = IF present THEN <<>> ELSE <<Ev("raise", e)>>       \* KeyError to the caller
  /\ SetAbs(A_Remove(Abs, e))
  /\ Stim(Op("remove", e, ticket[e]))
  /\ UNCHANGED <<srvIval, gen, tmo, wl>>

\* PeerSearchReply (manager.py:380-403) with ticket tk: live, stale, unknown, duplicate
Reply(tk) ==
  /\ ready # <<>> /\ Head(ready) = ENV /\ "reply" \in EnvOps
  /\ out' = IF HasKey(requests, tk) THEN <<Ev("result", Get(requests, tk))>> ELSE <<>>
  /\ op' = Op("reply", 0, tk) /\ ran' = 0 /\ q' = q
  /\ UNCHANGED <<now, rt, wt, srvIval, abst, requests, gen, tmo, handle, task, ready, wl, hc, sc, nops, errs>>

\* A PeerSearchReply arrives on a connection whose close takes a while: the handler task
\* (the connection's reader dispatching the message) is created now, runs up to
\* `await connection.disconnect()` when it gets its slot, and stays there until the close completes.
ReplyHeld(tk) ==
  /\ EnvTurn("rheld") /\ Len(hs) < MaxHeld
  /\ SetAbs(A_ReplyIn(Abs, tk))
  /\ hc' = Append(hc, [pc |-> "new", q |-> 0])
  /\ ready' = Append(ready, H("rin", Len(hs) + 1))
  /\ out' = <<>>
  /\ op' = Op("rheld", Len(hs) + 1, tk) /\ ran' = 0 /\ errs' = errs /\ nops' = nops + 1 /\ q' = FALSE
  /\ UNCHANGED <<now, rt, wt, srvIval, requests, gen, tmo, handle, task, wl, sc>>

\* the close of that connection completes: the handler is woken up
ReplyRelease(h) ==
  /\ ready # <<>> /\ Head(ready) = ENV /\ "rheld" \in EnvOps
  /\ h <= Len(hc) /\ hc[h].pc = "closing"
  /\ hc' = [hc EXCEPT ![h].pc = "released"]
  /\ ready' = Append(ready, H("rres", h))
  /\ out' = <<>>
  /\ op' = Op("rrelease", h, 0) /\ ran' = 0 /\ errs' = errs /\ q' = FALSE
  /\ UNCHANGED <<now, rt, wt, srvIval, abst, requests, gen, tmo, handle, task, wl, sc, nops>>

\* The server connection is lost or closed (ConnectionStateChangedEvent CLOSING for the
\* ServerConnection, manager.py _on_state_changed): the wishlist task is cancelled.  The requests
\* stay registered - replies come over peer connections - and so do their timeouts.
RECURSIVE CancelAll(_, _)
CancelAll(M, S) == IF S = {} THEN M ELSE LET e == CHOOSE x \in S : TRUE IN CancelAll(CancelIn(M, e), S \ {e})
SrvLoss ==
  /\ EnvTurn("srvloss")
  /\ wl' = [wl EXCEPT !.st = IF wl.st = "none" THEN "none" ELSE "dead"]
  /\ SetMicro(IF LossCancelsTimers THEN CancelAll(Micro, {requests_e[2] : requests_e \in requests}) ELSE Micro)
  /\ out' = <<>>
  /\ Stim(Op("srvloss", 0, 0))
  /\ UNCHANGED <<srvIval, abst, requests, gen, tmo>>

\* ---- listeners of SearchRequestSentEvent that interfere, and commands executed again

\* search() while a listener of SearchRequestSentEvent removes the request it is told about:
\* register, (start the timer,) emit -> remove_request pops it and cancels its timer(, start the timer)
SearchRm ==
  /\ EnvTurn("searchrm") /\ CanCreate(Cur, rt)
  /\ LET e == FreshIn(Cur)
         C == CreateIn(Cur, "mgr", "mgr", rt, TRUE) IN
       /\ SetAbs(A_Remove(C.abs, e))
       /\ requests' = Del(C.requests, C.gen.mgr)
       /\ gen' = C.gen /\ tmo' = C.tmo /\ out' = C.out
       /\ SetMicro(IF StartBeforeEmit /\ RemoveCancels THEN CancelIn(C.m, e) ELSE C.m)
       /\ Stim(Op("searchrm", e, C.gen.mgr))
  /\ UNCHANGED <<srvIval, wl>>

\* search() in a task of its own while a coroutine listener of the sent event suspends
SearchHeld ==
  /\ EnvTurn("sheld") /\ Len(sc) < MaxSHeld
  /\ sc' = Append(sc, [pc |-> "new", e |-> 0])
  /\ ready' = Append(ready, H("sin", Len(sc) + 1))
  /\ out' = <<>>
  /\ op' = Op("sheld", Len(sc) + 1, 0) /\ ran' = 0 /\ errs' = errs /\ nops' = nops + 1 /\ q' = FALSE
  /\ UNCHANGED <<now, rt, wt, srvIval, abst, requests, gen, tmo, handle, task, wl, hc>>

\* the listener returns: the emit, hence search(), goes on
SentRelease(k) ==
  /\ ready # <<>> /\ Head(ready) = ENV /\ "sheld" \in EnvOps
  /\ k <= Len(sc) /\ sc[k].pc = "emitting"
  /\ sc' = [sc EXCEPT ![k].pc = "released"]
  /\ ready' = Append(ready, H("sres", k))
  /\ out' = <<>>
  /\ op' = Op("srelease", k, 0) /\ ran' = 0 /\ errs' = errs /\ q' = FALSE
  /\ UNCHANGED <<now, rt, wt, srvIval, abst, requests, gen, tmo, handle, task, wl, hc, nops>>

\* client.execute(cmd) with the command object that created request e, once more
CmdAgain(e) ==
  /\ EnvTurn("recmd") /\ kind[e] = "cmd" /\ CanCreate(Cur, 0)
  /\ LET g == IF SharedGen THEN "mgr" ELSE "cli"
         C == IF CmdFreshTicket THEN CreateIn(Cur, "cmd", g, 0, FALSE)
                                ELSE CreateTk(Cur, "cmd", ticket[e], 0, FALSE, FALSE) IN
       /\ SetCreated(C)
       /\ Stim(Op("recmd", e, C.abs.ticket[FreshIn(Cur)]))
  /\ UNCHANGED <<srvIval, wl>>

\* ---- a Timer driven directly
TNew(d) ==
  /\ EnvTurn("tnew") /\ Unused # {} /\ Len(task) < MaxTasks
  /\ LET e == FreshIn(Cur) IN
       /\ tmo' = [tmo EXCEPT ![e] = d]
       /\ SetMicro(StartIn(Micro, e))
       /\ SetAbs(A_NewTimer(Abs, now, e, d))
       /\ Stim(Op("tnew", e, d))
  /\ out' = <<>>
  /\ UNCHANGED <<srvIval, requests, gen, wl>>

TStart(e) ==
  /\ EnvTurn("tstart") /\ kind[e] = "bare" /\ ~armed[e] /\ Len(task) < MaxTasks
  /\ SetMicro(StartIn(Micro, e))
  /\ SetAbs(A_Arm(Abs, now, e, tmo[e]))
  /\ out' = <<>>
  /\ Stim(Op("tstart", e, 0))
  /\ UNCHANGED <<srvIval, requests, gen, tmo, wl>>

TCancel(e) ==
  /\ EnvTurn("tcancel") /\ kind[e] = "bare"
  /\ SetMicro(CancelIn(Micro, e))
  /\ SetAbs(A_Disarm(Abs, e))
  /\ out' = <<>>
  /\ Stim(Op("tcancel", e, 0))
  /\ UNCHANGED <<srvIval, requests, gen, tmo, wl>>

\* Timer.reschedule (tasks.py:102-106); d = 0 keeps the timeout
TResched(e, d) ==
  /\ EnvTurn("tresched") /\ kind[e] = "bare" /\ Len(task) < MaxTasks
  /\ LET T == IF d = 0 THEN tmo[e] ELSE d IN
       /\ tmo' = [tmo EXCEPT ![e] = T]
       /\ SetMicro(StartIn(CancelIn(Micro, e), e))
       /\ SetAbs(A_Arm(Abs, now, e, T))
  /\ out' = <<>>
  /\ Stim(Op("tresched", e, d))
  /\ UNCHANGED <<srvIval, requests, gen, wl>>

\* the driver yields (await asyncio.sleep(0)): its handle moves to the tail
Yield ==
  /\ ready # <<>> /\ Head(ready) = ENV /\ Len(ready) > 1
  /\ ready' = Append(Tail(ready), ENV)
  /\ op' = Op("yield", 0, 0) /\ out' = <<>> /\ ran' = 0 /\ q' = FALSE
  /\ UNCHANGED <<now, rt, wt, srvIval, abst, requests, gen, tmo, handle, task, wl, hc, sc, nops, errs>>

\* Nothing else is ready: the clock moves one tick; every timer that is now due is appended to
\* the ready queue behind the driver (BaseEventLoop._run_once), in heap order (any order here).
DueSet(n) == {H("due", t) : t \in {x \in 1..Len(task) : task[x].st = "sleep" /\ ~task[x].mc /\ task[x].dl <= n}}
               \cup (IF wl.st = "sleep" /\ wl.due <= n THEN {H("wldue", 0)} ELSE {})
Orderings(S) == {s \in [1..Cardinality(S) -> S] : \A i, j \in 1..Cardinality(S) : i # j => s[i] # s[j]}

Advance ==
  /\ ready = <<ENV>> /\ now < MaxTime
  /\ \A k \in 1..Len(sc) : sc[k].pc # "emitting"     \* (which instant the timeout counts from is
                                                     \* not pinned down for such a delivery)
  /\ \E order \in Orderings(DueSet(now + 1)) :
       /\ ready' = <<ENV>> \o order
       /\ q' = (order = <<>>)
  /\ now' = now + 1
  /\ op' = Op("advance", 0, 0) /\ out' = <<>> /\ ran' = 0
  /\ UNCHANGED <<rt, wt, srvIval, abst, requests, gen, tmo, handle, task, wl, hc, sc, nops, errs>>

----------------------------------------------------------------------------
\* Internal steps: the loop runs the handle at the head of the ready queue.

InternalH == op' = Op("none", 0, 0) /\ q' = (ready' = <<ENV>>) /\ UNCHANGED <<now, rt, wt, srvIval, nops, gen, tmo>>
Internal == InternalH /\ UNCHANGED <<hc, sc>>

\* first step of Timer.runner: asyncio.sleep(self.timeout) registers the deadline
RunFirst(t) ==
  /\ t <= Len(task) /\ ready # <<>> /\ Head(ready) = H("step", t) /\ task[t].st = "new" /\ ~task[t].mc
  /\ task' = [task EXCEPT ![t].st = "sleep", ![t].dl = now + tmo[task[t].e]]
  /\ ready' = Tail(ready)
  /\ out' = <<>> /\ ran' = 0 /\ errs' = errs
  /\ Internal /\ UNCHANGED <<abst, requests, handle, wl>>

\* a cancelled task gets CancelledError at its step and ends; done-callbacks run one slot later
RunCancelled(t) ==
  /\ t <= Len(task) /\ ready # <<>> /\ Head(ready) = H("step", t) /\ task[t].st # "done" /\ task[t].mc
  /\ task' = [task EXCEPT ![t].st = "done"]
  /\ ready' = Append(Tail(ready), H("cb", t))
  /\ out' = <<>> /\ ran' = 0 /\ errs' = errs
  /\ Internal /\ UNCHANGED <<abst, requests, handle, wl>>

\* the call_later handle of the sleep: sets the future's result, which schedules the wake-up
RunDue(t) ==
  /\ t <= Len(task) /\ ready # <<>> /\ Head(ready) = H("due", t)
  /\ IF task[t].st = "sleep" /\ ~task[t].mc
       THEN task' = [task EXCEPT ![t].st = "woken"] /\ ready' = Append(Tail(ready), H("step", t))
       ELSE task' = task /\ ready' = Tail(ready)
  /\ out' = <<>> /\ ran' = 0 /\ errs' = errs
  /\ Internal /\ UNCHANGED <<abst, requests, handle, wl>>

\* EventBus.emit(SearchRequestRemovedEvent) tells the listeners one after the other inside the
\* emitting task: from listener i0 on, those before the first one that really suspends are done in
\* this stretch
FirstSusp(i0) == IF \E i \in i0..Len(Lst) : Lst[i] = "susp"
                   THEN CHOOSE i \in i0..Len(Lst) : Lst[i] = "susp" /\ \A j \in i0..(i - 1) : Lst[j] # "susp"
                   ELSE 0
DoneNow(i0) == {i \in i0..Len(Lst) : FirstSusp(i0) = 0 \/ i < FirstSusp(i0)}
ToldSeq(S, e) == (IF 1 \in S THEN <<Ev(ToldEv(1), e)>> ELSE <<>>) \o (IF 2 \in S THEN <<Ev(ToldEv(2), e)>> ELSE <<>>)
ToldAll(K, e, S) == [K EXCEPT !.owed = @ \ {<<e, i>> : i \in S}]

\* the sleep is over: the callback runs.  For a request this is _timeout_search_request
\* (manager.py:327-329): `del self.requests[ticket]` - KeyError if the ticket is gone, which
\* ends the task with an exception nobody retrieves (loop exception handler) - then the removal
\* is reported.
RunCallback(t) ==
  /\ t <= Len(task) /\ ready # <<>> /\ Head(ready) = H("step", t) /\ task[t].st = "woken" /\ ~task[t].mc
  /\ LET e == task[t].e
         present == kind[e] # "bare" /\ HasKey(requests, ticket[e])
         fs == IF present THEN FirstSusp(1) ELSE 0 IN
       /\ ran' = e
       /\ IF kind[e] = "bare"
            THEN /\ out' = <<Ev("fire", e)>> /\ SetAbs(A_Fire(Abs, e))
                 /\ requests' = requests /\ errs' = errs
            ELSE IF present
              THEN /\ requests' = Del(requests, ticket[e])
                   /\ out' = <<Ev("removed", e)>> \o ToldSeq(DoneNow(1), e)
                   /\ SetAbs(ToldAll(A_Owe(A_Expire(Abs, e), e, Len(Lst)), e, DoneNow(1)))
                   /\ errs' = errs
              ELSE /\ errs' = errs + 1 /\ out' = <<>>
                   /\ UNCHANGED <<abst, requests>>
       \* remove_request(request) instead of `del`: Timer.cancel() on the running task only flags it
       /\ handle' = IF present /\ TimeoutUsesRemove /\ handle[e] = t THEN [handle EXCEPT ![e] = 0] ELSE handle
       /\ IF fs = 0
            THEN /\ task' = [task EXCEPT ![t].st = "done"]
                 /\ ready' = Append(Tail(ready), H("cb", t))
            ELSE /\ task' = [task EXCEPT ![t].st = "emit", ![t].li = fs,
                                         ![t].mc = (present /\ TimeoutUsesRemove /\ handle[e] = t)]
                 /\ ready' = Append(Tail(ready), H("step", t))
  /\ Internal /\ UNCHANGED wl

\* the listener that suspended goes on; then the remaining listeners
RunEmitResume(t) ==
  /\ t <= Len(task) /\ ready # <<>> /\ Head(ready) = H("step", t) /\ task[t].st = "emit" /\ ~task[t].mc
  /\ LET e == task[t].e
         i == task[t].li
         S == {i} \cup DoneNow(i + 1)
         fs == FirstSusp(i + 1) IN
       /\ out' = ToldSeq(S, e)
       /\ SetAbs(ToldAll(Abs, e, S))
       /\ IF fs = 0
            THEN /\ task' = [task EXCEPT ![t].st = "done"]
                 /\ ready' = Append(Tail(ready), H("cb", t))
            ELSE /\ task' = [task EXCEPT ![t].li = fs]
                 /\ ready' = Append(Tail(ready), H("step", t))
  /\ ran' = 0 /\ errs' = errs
  /\ Internal /\ UNCHANGED <<requests, handle, wl>>

\* Timer._unset_task (tasks.py:108-110), the done-callback of task t
RunUnset(t) ==
  /\ t <= Len(task) /\ ready # <<>> /\ Head(ready) = H("cb", t)
  /\ LET e == task[t].e IN
       handle' = IF ~UnsetGuard \/ handle[e] = t THEN [handle EXCEPT ![e] = 0] ELSE handle
  /\ ready' = Tail(ready)
  /\ out' = <<>> /\ ran' = 0 /\ errs' = errs
  /\ Internal /\ UNCHANGED <<abst, requests, task, wl>>

\* _on_peer_search_reply (manager.py:380-403) up to `await connection.disconnect(...)`
RunReplyArrive(h) ==
  /\ h <= Len(hc) /\ ready # <<>> /\ Head(ready) = H("rin", h) /\ hc[h].pc = "new"
  /\ LET tk == hs[h].tk
         present == HasKey(requests, tk) IN
       IF EmitBeforeClose
         THEN /\ out' = IF present THEN <<Ev("result", Get(requests, tk))>> ELSE <<>>
              /\ SetAbs(IF present THEN A_CreditH(Abs, h) ELSE Abs)
              /\ hc' = [hc EXCEPT ![h].pc = "closing"]
         ELSE /\ out' = <<>> /\ UNCHANGED abst
              /\ hc' = [hc EXCEPT ![h] = [pc |-> "closing", q |-> IF present THEN Get(requests, tk) ELSE 0]]
  /\ ready' = Tail(ready)
  /\ ran' = 0 /\ errs' = errs
  /\ InternalH /\ UNCHANGED <<requests, handle, task, wl, sc>>

\* ... and from there to its end
RunReplyResume(h) ==
  /\ h <= Len(hc) /\ ready # <<>> /\ Head(ready) = H("rres", h) /\ hc[h].pc = "released"
  /\ IF EmitBeforeClose \/ hc[h].q = 0
       THEN out' = <<>> /\ SetAbs(A_ReplyDone(Abs, h))
       ELSE out' = <<Ev("result", hc[h].q)>> /\ SetAbs(A_ReplyDone(A_CreditH(Abs, h), h))
  /\ hc' = [hc EXCEPT ![h].pc = "done"]
  /\ ready' = Tail(ready)
  /\ ran' = 0 /\ errs' = errs
  /\ InternalH /\ UNCHANGED <<requests, handle, task, wl, sc>>

\* search() up to the suspension of the listener inside `await emit(SearchRequestSentEvent)`
RunSearchArrive(k) ==
  /\ k <= Len(sc) /\ ready # <<>> /\ Head(ready) = H("sin", k) /\ sc[k].pc = "new"
  /\ LET C0 == [Cur EXCEPT !.m.r = Tail(ready)] IN
       IF CanCreate(C0, rt)
         THEN LET tk == gen.mgr + 1
                  C == [CreateTk(C0, "mgr", tk, rt, TRUE, StartBeforeEmit) EXCEPT !.gen = [gen EXCEPT !.mgr = tk]] IN
              /\ SetCreated(C)
              /\ sc' = [sc EXCEPT ![k] = [pc |-> "emitting", e |-> FreshIn(C0)]]
         ELSE /\ UNCHANGED <<abst, requests, gen, tmo, handle, task>> /\ out' = <<>>
              /\ ready' = Tail(ready)
              /\ sc' = [sc EXCEPT ![k].pc = "done"]
  /\ ran' = 0 /\ errs' = errs
  /\ op' = Op("none", 0, 0) /\ q' = (ready' = <<ENV>>) /\ UNCHANGED <<now, rt, wt, srvIval, nops, wl, hc>>

\* ... and from there to its end
RunSearchResume(k) ==
  /\ k <= Len(sc) /\ ready # <<>> /\ Head(ready) = H("sres", k) /\ sc[k].pc = "released"
  /\ IF StartBeforeEmit \/ tmo[sc[k].e] = 0 \/ Len(task) >= MaxTasks
       THEN handle' = handle /\ task' = task /\ ready' = Tail(ready)
       ELSE SetMicro(StartIn([Micro EXCEPT !.r = Tail(ready)], sc[k].e))
  /\ sc' = [sc EXCEPT ![k].pc = "done"]
  /\ out' = <<>> /\ ran' = 0 /\ errs' = errs
  /\ InternalH /\ UNCHANGED <<abst, requests, wl, hc>>

\* the wishlist BackgroundTask runs _wishlist_job (manager.py:270-303), then sleeps the interval
RunWishlist ==
  /\ ready # <<>> /\ Head(ready) = H("wl", 0) /\ wl.st \in {"new", "woken"}
  /\ LET T == ExpTimeout("wish")
         C == WishRound([Cur EXCEPT !.m.r = Tail(ready)], WishItems, T) IN
       /\ SetAbs(C.abs) /\ requests' = C.requests /\ handle' = C.m.h /\ task' = C.m.t
       /\ ready' = C.m.r /\ out' = C.out
       /\ gen' = C.gen /\ tmo' = C.tmo
  /\ wl' = [st |-> "sleep", due |-> now + srvIval]
  /\ ran' = 0 /\ errs' = errs
  /\ op' = Op("none", 0, 0) /\ q' = (ready' = <<ENV>>) /\ UNCHANGED <<now, rt, wt, srvIval, nops, hc, sc>>

\* a step or wake-up of the cancelled wishlist task: it just ends
RunWlDead ==
  /\ ready # <<>> /\ Head(ready).k \in {"wl", "wldue"} /\ wl.st = "dead"
  /\ ready' = Tail(ready)
  /\ out' = <<>> /\ ran' = 0 /\ errs' = errs
  /\ Internal /\ UNCHANGED <<abst, requests, handle, task, wl>>

RunWlDue ==
  /\ ready # <<>> /\ Head(ready) = H("wldue", 0) /\ wl.st = "sleep"
  /\ wl' = [wl EXCEPT !.st = "woken"]
  /\ ready' = Append(Tail(ready), H("wl", 0))
  /\ out' = <<>> /\ ran' = 0 /\ errs' = errs
  /\ Internal /\ UNCHANGED <<abst, requests, handle, task>>

Next ==
  \/ Search \/ CmdSearch
  \/ \E i \in Intervals : WlMsg(i)
  \/ \E e \in Ents : Remove(e)
  \/ \E tk \in 1..MaxTicket : Reply(tk)
  \/ \E tk \in 1..MaxTicket : ReplyHeld(tk)
  \/ \E h \in 1..MaxHeld : ReplyRelease(h)
  \/ \E h \in 1..MaxHeld : RunReplyArrive(h)
  \/ \E h \in 1..MaxHeld : RunReplyResume(h)
  \/ SearchRm \/ SearchHeld
  \/ \E k \in 1..MaxSHeld : SentRelease(k)
  \/ \E k \in 1..MaxSHeld : RunSearchArrive(k)
  \/ \E k \in 1..MaxSHeld : RunSearchResume(k)
  \/ \E e \in Ents : CmdAgain(e)
  \/ \E d \in Delays : TNew(d)
  \/ \E e \in Ents : TStart(e)
  \/ \E e \in Ents : TCancel(e)
  \/ \E e \in Ents, d \in Delays \cup {0} : TResched(e, d)
  \/ Yield
  \/ Advance
  \/ \E t \in 1..MaxTasks : RunFirst(t)
  \/ \E t \in 1..MaxTasks : RunCancelled(t)
  \/ \E t \in 1..MaxTasks : RunDue(t)
  \/ \E t \in 1..MaxTasks : RunCallback(t)
  \/ \E t \in 1..MaxTasks : RunEmitResume(t)
  \/ \E t \in 1..MaxTasks : RunUnset(t)
  \/ RunWishlist \/ RunWlDue \/ RunWlDead \/ SrvLoss

Spec == Init /\ [][Next]_vars

----------------------------------------------------------------------------
\* Properties.  The *A formulas are action-level (they look at the step's stimulus op', its
\* output out', and the abstract state before the step); SearchRequestsTrace uses the same
\* formulas on recorded executions.

TypeOK ==
  /\ \A e \in Ents : kind[e] \in {"none", "mgr", "cmd", "wish", "bare"}
                     /\ status[e] \in {"unused", "live", "manual", "expired"}
  /\ \A i \in 1..Len(ready) : ready[i].k \in {"env", "step", "due", "cb", "wl", "wldue", "rin", "rres", "sin", "sres"}
  /\ Len(hs) = Len(hc)
  /\ \A t \in 1..Len(task) : task[t].st \in {"new", "sleep", "woken", "emit", "done"}

\* A search result is reported for a request iff the request is still registered and the
\* result carries its ticket.  For a reply handled at once: exactly one event for the live
\* request with that ticket, none otherwise.  For a reply whose handling takes a while (hs):
\* every result event is for a request that is live at that moment and answers one reply in
\* flight with its ticket, which gets at most one; and a reply whose request was live from its
\* arrival to the end of its handling has got its event by then.
ResultsFor(tk) == Cardinality({i \in 1..Len(out') : out'[i].ev = "result" /\ ticket[out'[i].e] = tk})
Before(h) == IF h <= Len(hs) THEN hs[h].n ELSE 0
Credits(tk) == Cardinality({h \in 1..Len(hs') : hs'[h].tk = tk /\ hs'[h].n > Before(h)})
               - Cardinality({h \in 1..Len(hs') : hs'[h].tk = tk /\ hs'[h].n < Before(h)})
ResultIffLiveA ==
  IF op'.k = "reply"
    THEN /\ hs' = hs
         /\ \A e \in Ents : CountOf(out', Ev("result", e)) =
              IF IsReq(e) /\ status[e] = "live" /\ ticket[e] = op'.a THEN 1 ELSE 0
    ELSE /\ \A e \in Ents : Has(out', Ev("result", e)) =>
              CountOf(out', Ev("result", e)) = 1 /\ IsReq(e) /\ status[e] = "live"
         /\ \A tk \in {ticket[out'[i].e] : i \in {j \in 1..Len(out') : out'[j].ev = "result"}}
                    \cup {hs'[h].tk : h \in 1..Len(hs')} : ResultsFor(tk) = Credits(tk)
         /\ \A h \in 1..Len(hs') : hs'[h].n <= 1
         /\ \A h \in 1..Len(hs) : (hs[h].open /\ ~hs'[h].open /\ hs[h].cont # 0) => hs'[h].n = 1
ResultIffLive == [][ResultIffLiveA]_vars

\* Live requests always have distinct tickets.
DistinctTickets ==
  \A e1, e2 \in LiveReqs : e1 # e2 => ticket[e1] # ticket[e2]

\* SearchManager.requests is exactly the live requests, by ticket.
RegistryExact == requests = {<<ticket[e], e>> : e \in LiveReqs}

\* A removal is reported only for a live request with a timeout, at the timeout ...
RemovedOnceAtTimeoutA ==
  \A e \in Ents : Has(out', Ev("removed", e)) =>
      /\ CountOf(out', Ev("removed", e)) = 1
      /\ IsReq(e) /\ status[e] = "live" /\ armed[e] /\ adl[e] = now'
RemovedOnceAtTimeout == [][RemovedOnceAtTimeoutA]_vars
\* ... and it is not missed: when the loop is quiescent no pending deadline has passed.
\* ... to every listener of SearchRequestRemovedEvent, each exactly once, at the timeout
ToldA ==
  \A e \in Ents, i \in 1..2 : Has(out', Ev(ToldEv(i), e)) =>
      /\ CountOf(out', Ev(ToldEv(i), e)) = 1
      /\ <<e, i>> \notin owed'
      /\ <<e, i>> \in owed \/ Has(out', Ev("removed", e))
      /\ adl[e] = now'
ReportedToEveryListener == [][ToldA]_vars
AllTold == q => owed = {}
NoOverdue == q => \A e \in Ents : armed[e] => adl[e] > now

\* A request removed by the user produces no further event ...
QuietAfterManualRemovalA ==
  \A e \in Ents : status[e] = "manual" => \A i \in 1..Len(out') : out'[i].e # e
QuietAfterManualRemoval == [][QuietAfterManualRemovalA]_vars
\* ... and removing a live request works; nothing ever reaches the loop exception handler.
RemoveSucceedsA == \A i \in 1..Len(out') : out'[i].ev # "raise"
RemoveSucceeds == [][RemoveSucceedsA]_vars
NoLoopErrorA == errs' = errs
NoLoopError == [][NoLoopErrorA]_vars

\* A timer callback runs only for the deadline that is currently pending: a cancelled timer
\* does not fire, a re-armed one does not fire for the superseded deadline.
SupersededNeverFiresA == ran' # 0 => armed[ran'] /\ adl[ran'] = now'
SupersededNeverFires == [][SupersededNeverFiresA]_vars
=============================================================================

SPECIFICATION Spec
CONSTANTS
  Ents = {1, 2}
  ReqTimeouts = {0, 2}
  WishFixed = {0}
  WishServer = FALSE
  Intervals = {3}
  Delays = {1}
  WishItems = 1
  DefaultIval = 9
  EnvOps = {"search", "remove", "rheld"}
  MaxOps = 3
  MaxTime = 3
  MaxTasks = 4
  MaxTicket = 3
  UnsetGuard = TRUE
  RemoveCancels = TRUE
  SharedGen = TRUE
  EmitBeforeClose = FALSE
  MaxHeld = 1
  MaxSHeld = 0
  StartBeforeEmit = TRUE
  CmdFreshTicket = TRUE
  TimeoutUsesRemove = FALSE
  LossCancelsTimers = FALSE
  LstCode = "-"
INVARIANT TypeOK
INVARIANT DistinctTickets
INVARIANT RegistryExact
INVARIANT NoOverdue
INVARIANT AllTold
PROPERTY ReportedToEveryListener
PROPERTY ResultIffLive
PROPERTY RemovedOnceAtTimeout
PROPERTY QuietAfterManualRemoval
PROPERTY RemoveSucceeds
PROPERTY NoLoopError
PROPERTY SupersededNeverFires
VIEW view
CHECK_DEADLOCK FALSE

SPECIFICATION Spec
CONSTANTS
  Ents = {1, 2}
  ReqTimeouts = {0}
  WishFixed = {0}
  WishServer = FALSE
  Intervals = {3}
  Delays = {1, 2}
  WishItems = 0
  DefaultIval = 9
  EnvOps = {"tnew", "tstart", "tcancel", "tresched"}
  MaxOps = 4
  MaxTime = 4
  MaxTasks = 5
  MaxTicket = 1
  UnsetGuard = TRUE
  RemoveCancels = TRUE
  SharedGen = TRUE
  EmitBeforeClose = TRUE
  MaxHeld = 0
  MaxSHeld = 0
  StartBeforeEmit = TRUE
  CmdFreshTicket = TRUE
  TimeoutUsesRemove = FALSE
  LossCancelsTimers = FALSE
  LstCode = "-"
INVARIANT TypeOK
INVARIANT DistinctTickets
INVARIANT RegistryExact
INVARIANT NoOverdue
INVARIANT AllTold
PROPERTY ReportedToEveryListener
PROPERTY ResultIffLive
PROPERTY RemovedOnceAtTimeout
PROPERTY QuietAfterManualRemoval
PROPERTY RemoveSucceeds
PROPERTY NoLoopError
PROPERTY SupersededNeverFires
VIEW view
CHECK_DEADLOCK FALSE

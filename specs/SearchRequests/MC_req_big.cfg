SPECIFICATION Spec
CONSTANTS
  Ents = {1, 2, 3, 4, 5}
  ReqTimeouts = {0, 1, 2}
  WishFixed = {0, 2}
  WishServer = TRUE
  Intervals = {3}
  Delays = {1}
  WishItems = 2
  DefaultIval = 9
  EnvOps = {"search", "cmd", "wlmsg", "remove", "reply", "rheld", "searchrm", "sheld", "recmd", "srvloss"}
  MaxOps = 7
  MaxTime = 6
  MaxTasks = 6
  MaxTicket = 6
  UnsetGuard = TRUE
  RemoveCancels = TRUE
  SharedGen = TRUE
  EmitBeforeClose = TRUE
  MaxHeld = 2
  MaxSHeld = 2
  StartBeforeEmit = TRUE
  CmdFreshTicket = TRUE
  TimeoutUsesRemove = FALSE
  LossCancelsTimers = FALSE
  LstCode = "-"
INVARIANT TypeOK
INVARIANT DistinctTickets
INVARIANT RegistryExact
INVARIANT NoOverdue
INVARIANT AllTold
PROPERTY ReportedToEveryListener
PROPERTY ResultIffLive
PROPERTY RemovedOnceAtTimeout
PROPERTY QuietAfterManualRemoval
PROPERTY RemoveSucceeds
PROPERTY NoLoopError
PROPERTY SupersededNeverFires
VIEW view
CHECK_DEADLOCK FALSE

SPECIFICATION Spec
CONSTANTS
  Conns = {1, 2, 3}
  Limits = {0, 1, 2, 3}
  TPS = 1024
  Min = 128
  UMin = 8192
  Interval = 11
  Deltas = {1, 11, 200, 3000}
  MaxChanges = 3
  MaxCancels = 3
  SkipCancelled = TRUE
  FastPath = FALSE
  Timely = TRUE
  StaleFullBucket = TRUE
  StaleRateOnChange = FALSE
  Fifo = TRUE
  StallBound = 512
  BypassBound = 2
  Slack = 128
INVARIANT TypeOK
INVARIANT BucketCapped
INVARIANT WindowBound
INVARIANT NoStall
INVARIANT BoundedBypass
PROPERTY UnlimitedNotThrottled
PROPERTY GrantsPositive
CHECK_DEADLOCK TRUE

------------------------- MODULE RateLimiterTrace -------------------------
(***************************************************************************)
(* Trace validation for C20.  A batch of executions of the real            *)
(* LimitedRateLimiter / UnlimitedRateLimiter objects behind                *)
(* Network.set_upload_speed_limit / set_download_speed_limit, recorded by  *)
(* harness/props/c20.py on a clock that reads whole ticks (1/TPS s), is    *)
(* checked against RateLimiter.                                            *)
(*                                                                         *)
(* Records (JSON; times in ticks since the start of the run):              *)
(*   init  : k b a n jit timely  first record: limit KiB/s (0 = unlimited), *)
(*                            bucket, age = min(now - last_refill, TPS),    *)
(*                            number of connections, clock uncertainty,     *)
(*                            1 if the loop ran every due timer on time     *)
(*   req   : c t              connection c calls take_tokens()   (Exact)    *)
(*   sleep : c t g b a        it found the bucket empty and sleeps (Exact)  *)
(*   grant : c t n cnt g rcur reqt gt b a                                   *)
(*                            take_tokens() returned; n bytes in cnt        *)
(*                            back-to-back calls of c at the same reading;  *)
(*                            g = limiter object (1 = first, +1 per change) *)
(*                            rcur = that object was the configured one     *)
(*                            when the call was made; reqt = time of the    *)
(*                            (first) call; gt = time it returned (t is the *)
(*                            time the bytes moved: later than gt when      *)
(*                            receive_file had to wait for data);           *)
(*                            b, a = bucket / age afterwards                *)
(*   reinit: t                Network.initialize() was called (again)           *)
(*   cancel: c t              the task inside take_tokens() of c was cancelled  *)
(*   set   : t k b a          set_*_speed_limit(k); b, a of the new object  *)
(*   end   : t w k            end of the run; w = longest time a still      *)
(*                            pending call has waited, k its limit          *)
(*                                                                         *)
(* Exact = FALSE (the verdict): only what the statement constrains is      *)
(* checked - the window bound over the grant log, the bucket cap, grants   *)
(* positive, no throttling without a limit, bounded wait.  bucket and age  *)
(* are bound from the log.                                                 *)
(* Exact = TRUE (conformance of the design model, informational): every    *)
(* record must be the outcome of the design spec's own action (Request /   *)
(* Poll / SetLimit / Tick) and bucket / age must equal the model's.        *)
(***************************************************************************)
EXTENDS RateLimiter, Json, IOUtils

CONSTANT Exact

Traces == JsonDeserialize(IOEnv.TRACE_FILE)

VARIABLES tid, l, now, expect, used

tvars == <<vars, tid, l, now, expect, used>>

T == Traces[tid]
Rec == T[l]
NConns == T[1].n
Jit == T[1].jit
\* B(L, n): each request returns within, per connection sharing the limiter (itself and at most
\* n - 1 requests in front of it), twice the time its chunk takes at the configured rate plus an
\* eighth of a second for the granularity of polling and scheduling.  (Design spec, NoStall /
\* BoundedBypass: (BypassBound + 1) * StallBound; with the real constants one grant takes at most
\* 176 ticks at 1 KiB/s and 22 ticks from 12 KiB/s on; the bound below is 384 resp. <= 149.)
WaitBoundOf(k) == NConns * ((2 * Min) \div k + TPS \div 8) + Jit

NoExpect == [ev |-> "none"]

TInit ==
  /\ tid \in 1..Len(Traces)
  /\ l = 2
  /\ Len(Traces[tid]) >= 1 /\ Traces[tid][1].ev = "init"
  /\ gens = <<[k |-> Traces[tid][1].k, b |-> Traces[tid][1].b, a |-> Traces[tid][1].a]>>
  /\ pc = [c \in Conns |-> "idle"]
  /\ on = [c \in Conns |-> 0]
  /\ rem = [c \in Conns |-> 0]
  /\ queue = <<>>
  /\ since = [c \in Conns |-> 0]
  /\ bypass = [c \in Conns |-> 0]
  /\ acct = NoAcct
  /\ changes = 0
  /\ cancels = 0
  /\ stuck = {}
  /\ last = [ev |-> "init", c |-> 0, n |-> 0, g |-> 1, waited |-> 0, k |-> 0]
  /\ now = 0
  /\ expect = NoExpect
  /\ used = {}

IsEv(e) == l <= Len(T) /\ Rec.ev = e
Consume == l' = l + 1 /\ UNCHANGED tid
KeepUsed == UNCHANGED used

\* ---- the clock: silent, deterministic, in bounded chunks (32-bit products) ----
Chunk == 100000
TTick ==
  /\ l <= Len(T) /\ Rec.ev # "init" /\ Rec.t > now
  /\ LET d == MinOf(Rec.t - now, Chunk) IN
       /\ now' = now + d
       /\ IF Exact THEN Tick(d)
          ELSE /\ acct' = AcctDrain(acct, Cur.k, Cur.k * d)
               /\ UNCHANGED <<gens, pc, on, rem, queue, since, bypass, changes, cancels, stuck, last>>
  /\ UNCHANGED <<tid, l, expect, used>>

AtTime == Rec.t = now

Lim(g, b, a) == [k |-> gens[g].k, b |-> b, a |-> a]

\* ---------------------------- Exact = FALSE --------------------------------
PGrant ==
  /\ ~Exact /\ IsEv("grant") /\ AtTime
  /\ Rec.c \in Conns /\ Rec.g \in 1..Len(gens) /\ Rec.cnt >= 1
  /\ gens' = [gens EXCEPT ![Rec.g] = Lim(Rec.g, Rec.b, Rec.a)]
  \* a call made under a limit that has been replaced since is accounted to the replaced limiter:
  \* one call of one chunk per connection and replaced limiter object, nothing more
  /\ LET inflight == /\ Rec.g < CurIdx /\ Rec.rcur /\ Rec.cnt = 1
                      /\ Rec.n <= (IF gens[Rec.g].k = 0 THEN UMin ELSE Min)
                      /\ <<Rec.c, Rec.g>> \notin used
     IN /\ acct' = IF inflight THEN acct ELSE AcctGrant(acct, Cur.k, Rec.n)
        /\ used' = IF inflight THEN used \cup {<<Rec.c, Rec.g>>} ELSE used
  /\ last' = [ev |-> "grant", c |-> Rec.c, n |-> Rec.n, g |-> Rec.g,
              waited |-> Rec.gt - Rec.reqt, k |-> gens[Rec.g].k]
  /\ UNCHANGED <<pc, on, rem, queue, since, bypass, changes, cancels, stuck, now, expect>>
  /\ Consume

PSet ==
  /\ ~Exact /\ IsEv("set") /\ AtTime
  /\ Rec.k >= 0
  /\ gens' = Append(gens, [k |-> Rec.k, b |-> Rec.b, a |-> Rec.a])
  /\ acct' = AcctSet(acct, Cur.k, Rec.k)
  /\ changes' = changes + 1
  /\ last' = [ev |-> "set", c |-> 0, n |-> Rec.k, g |-> CurIdx + 1, waited |-> 0, k |-> Rec.k]
  /\ UNCHANGED <<pc, on, rem, queue, since, bypass, cancels, stuck, now, expect>>
  /\ Consume
  /\ KeepUsed

PSkip ==
  /\ ~Exact /\ (IsEv("req") \/ IsEv("sleep") \/ IsEv("cancel") \/ IsEv("reinit")) /\ AtTime
  /\ UNCHANGED <<vars, now, expect>>
  /\ Consume
  /\ KeepUsed

TEnd ==
  /\ IsEv("end") /\ AtTime
  /\ last' = [ev |-> "pending", c |-> 0, n |-> 0, g |-> CurIdx, waited |-> Rec.w, k |-> Rec.k]
  /\ UNCHANGED <<gens, pc, on, rem, queue, since, bypass, acct, changes, cancels, stuck, now, expect>>
  /\ Consume
  /\ KeepUsed

\* ----------------------------- Exact = TRUE --------------------------------
\* the logged bucket / age of limiter g equal the model's (a replaced limiter nobody waits on
\* any more is garbage in the model)
Agrees(g, b, a) ==
  \/ g < Len(gens') /\ ~\E c \in Conns : on'[c] = g
  \/ gens'[g].b = b /\ gens'[g].a = a

XReq ==
  /\ Exact /\ IsEv("req") /\ AtTime /\ expect = NoExpect
  /\ Rec.c \in Conns
  /\ Request(Rec.c)
  /\ expect' = IF last'.ev \in {"grant", "sleep"} THEN last' ELSE NoExpect
  /\ UNCHANGED now /\ Consume
  /\ KeepUsed

\* the outcome of the first pass through the loop of take_tokens (already computed at `req`)
XFirst ==
  /\ Exact /\ (IsEv("grant") \/ IsEv("sleep")) /\ AtTime /\ expect # NoExpect
  /\ Rec.ev = expect.ev /\ Rec.c = expect.c /\ Rec.g = expect.g
  /\ Rec.ev = "grant" => Rec.n = expect.n /\ Rec.cnt = 1
  /\ \/ Rec.g < Len(gens) /\ ~\E c \in Conns : on[c] = Rec.g
     \/ gens[Rec.g].b = Rec.b /\ gens[Rec.g].a = Rec.a
  /\ expect' = NoExpect
  /\ UNCHANGED <<vars, now>> /\ Consume
  /\ KeepUsed

\* a later pass: the sleep is over (or the turn has come)
XPoll ==
  /\ Exact /\ (IsEv("grant") \/ IsEv("sleep")) /\ AtTime /\ expect = NoExpect
  /\ Rec.c \in Conns
  /\ Poll(Rec.c)
  /\ last'.ev = Rec.ev /\ last'.g = Rec.g
  /\ Rec.ev = "grant" => last'.n = Rec.n /\ Rec.cnt = 1
  /\ Agrees(Rec.g, Rec.b, Rec.a)
  /\ UNCHANGED <<now, expect>> /\ Consume
  /\ KeepUsed

\* the task inside take_tokens() of connection c was cancelled
XCancel ==
  /\ Exact /\ IsEv("cancel") /\ AtTime /\ expect = NoExpect
  /\ Rec.c \in Conns
  /\ Cancel(Rec.c)
  /\ UNCHANGED <<now, expect>> /\ Consume
  /\ KeepUsed

\* Network.initialize() was called again: nothing the property talks about changes
XReinit ==
  /\ Exact /\ IsEv("reinit") /\ AtTime /\ expect = NoExpect
  /\ last' = [ev |-> "reinit", c |-> 0, n |-> 0, g |-> CurIdx]
  /\ UNCHANGED <<gens, pc, on, rem, queue, since, bypass, acct, changes, cancels, stuck>>
  /\ UNCHANGED <<now, expect>> /\ Consume
  /\ KeepUsed

XSet ==
  /\ Exact /\ IsEv("set") /\ AtTime /\ expect = NoExpect
  /\ Rec.k >= 0
  /\ SetLimit(Rec.k)
  /\ Agrees(Len(gens'), Rec.b, Rec.a)
  /\ UNCHANGED <<now, expect>> /\ Consume
  /\ KeepUsed

----------------------------------------------------------------------------
Done ==
  /\ l = Len(T) + 1
  /\ PrintT(<<"ACCEPT", tid, {}>>)
  /\ l' = l + 1
  /\ UNCHANGED <<vars, tid, now, expect, used>>

Finished == l = Len(T) + 2 /\ UNCHANGED tvars

TNext == TTick \/ PGrant \/ PSet \/ PSkip \/ TEnd \/ XReq \/ XFirst \/ XPoll \/ XCancel \/ XReinit \/ XSet \/ Done \/ Finished

TSpec == TInit /\ [][TNext]_tvars

----------------------------------------------------------------------------
\* The statement's properties on the recorded execution (Exact = FALSE).

\* bytes granted in any window <= allowance + one second's burst (+ clock uncertainty)
WindowBoundT ==
  \/ Cur.k = 0
  \/ /\ acct.cur <= Cur.k * TPS + Slack + Jit * Cur.k
     /\ \A p \in acct.past : p.w <= p.mx * TPS + Slack + Jit * p.mx

\* the bucket of every limiter object is within [0, one second of traffic] whenever it is observed
\* (b = -1: the recorder could not observe a bucket)
BucketCappedT == \A i \in 1..Len(gens) :
  (gens[i].k # 0 /\ gens[i].b # -1) => (gens[i].b >= 0 /\ gens[i].b <= Cap(gens[i]))

GrantsPositiveT == last.ev = "grant" => last.n > 0

UnlimitedNotThrottledT == (last.ev \in {"grant", "pending"} /\ last.k = 0) => last.waited <= Jit

\* (only when the recording loop was timely: every due poll ran before the clock moved on)
BoundedWaitT == (T[1].timely = 1 /\ last.ev \in {"grant", "pending"} /\ last.k # 0) => last.waited <= WaitBoundOf(last.k)
=============================================================================

SPECIFICATION FairSpec
CONSTANTS
  Conns = {1, 2}
  Limits = {1, 2}
  TPS = 16
  Min = 2
  UMin = 8
  Interval = 4
  Deltas = {1, 4}
  MaxChanges = 1
  MaxCancels = 1
  SkipCancelled = TRUE
  FastPath = FALSE
  Timely = TRUE
  StaleFullBucket = TRUE
  StaleRateOnChange = FALSE
  Fifo = TRUE
  StallBound = 8
  BypassBound = 1
  Slack = 2
INVARIANT TypeOK
PROPERTY EventuallyGranted
PROPERTY SomebodyGranted
CHECK_DEADLOCK TRUE

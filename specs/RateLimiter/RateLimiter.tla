---------------------------- MODULE RateLimiter ----------------------------
(***************************************************************************)
(* C20 - configured bandwidth limits are never exceeded and never stall a  *)
(* transfer.                                                               *)
(*                                                                         *)
(* Mirrors src/aioslsk/network/rate_limiter.py (LimitedRateLimiter.refill, *)
(* take_tokens, add_tokens, copy_tokens; UnlimitedRateLimiter) and         *)
(* Network.set_upload_speed_limit / set_download_speed_limit               *)
(* (network/network.py:349-375): a limit change builds a NEW limiter       *)
(* object, copies the tokens, and hands it to the connections; a           *)
(* connection that is inside old.take_tokens() keeps polling the OLD       *)
(* object until it is granted.  Such a request was issued under the old    *)
(* limit: its grant (at most one chunk per connection) is accounted to the *)
(* replaced limiter, not to the window of the new limit.                   *)
(*                                                                         *)
(* Integer model.  Time is counted in ticks, TPS ticks per second; one     *)
(* "KiB" is TPS bytes, so that a limit of k KiB/s allows exactly k bytes   *)
(* per tick and the code's                                                 *)
(*     int((limit_bps - bucket) * (now - last_refill))                     *)
(* is  ((k*TPS - bucket) * age) \div TPS  with age in ticks.  With         *)
(* TPS = 1024 these are the real units (limit_bps = k*1024) and the float  *)
(* arithmetic of the code is exact on clocks that read multiples of        *)
(* 1/1024 s.  Smaller TPS give a scaled model of the same algorithm.       *)
(*                                                                         *)
(* A limiter object is [k, b, a]: limit in KiB/s (0 = UnlimitedRateLimiter)*)
(* bucket, and age = now - last_refill capped at one second (an age of one *)
(* second or more always fills the bucket completely, so older is equal).  *)
(* The state is time-translation invariant; no absolute clock is kept.     *)
(***************************************************************************)
EXTENDS Integers, Sequences, FiniteSets, TLC

CONSTANTS
  Conns,        \* connection ids (file connections sharing the limiter)
  Limits,       \* limits that can be configured, KiB/s; 0 = unlimited
  TPS,          \* ticks per second = bytes per "KiB" (1024 = real units)
  Min,          \* LimitedRateLimiter.MIN_BUCKET_SIZE   (128)
  UMin,         \* UnlimitedRateLimiter.MIN_BUCKET_SIZE (8192)
  Interval,     \* ticks a poller sleeps (INTERVAL = 0.01 s -> 11 ticks of 1/1024 s)
  Deltas,       \* clock advances, ticks (> 0); equal readings = no Tick between two actions
  MaxChanges,   \* bound on the number of limit changes in a behaviour
  MaxCancels,   \* bound on the number of cancelled take_tokens() calls in a behaviour
  Timely,       \* TRUE: the loop runs a due poll before the clock moves on (needed for bounded wait)
  \* ---- named deviations: the position that mirrors the code / the repaired position ----
  StaleFullBucket,   \* TRUE (code): refill() on a full bucket returns early WITHOUT moving
                     \*   last_refill, so the next refill credits the time the bucket sat full
                     \* FALSE (repair): taking from a full bucket restarts the accrual period
  StaleRateOnChange, \* TRUE (code): copy_tokens carries last_refill over, so the time since the
                     \*   last refill of the OLD limiter is later credited at the NEW limit's rate
                     \* FALSE (repair): the old limiter's accrual is settled at its own rate when
                     \*   it is replaced and the new limiter starts accruing at the change
  Fifo,              \* FALSE (code): every waiter polls on its own; whoever polls first after
                     \*   the bucket reached Min wins, a waiter can be bypassed for ever
                     \* TRUE (repair): waiters of one limiter are served first-come first-served
  FastPath,          \* FALSE: a call made while somebody waits for tokens queues behind the waiters
                     \* TRUE (a "fast path" in front of the queue): a call that finds tokens takes them at
                     \*   once although another connection has been waiting for exactly those tokens; a
                     \*   competitor whose calls arrive between "enough tokens accrued" and the waiter's
                     \*   next poll overtakes it again and again
  SkipCancelled,     \* TRUE (asyncio.Lock): a waiter cancelled while queued leaves the queue, the turn
                     \*   goes to the next live waiter
                     \* FALSE (a hand-rolled queue that pops one future and wakes it only if it is not
                     \*   done): the turn handed to a cancelled waiter is lost - nobody polls, everybody
                     \*   behind it and every later caller of that limiter waits for ever
  StallBound,   \* ticks: some waiter of a limiter => that limiter grants within StallBound (Timely)
  BypassBound,  \* grants of a limiter that may overtake one waiting request
  Slack         \* bytes of resolution of WindowBound (0 = exact; Min = one chunk)

ASSUME TPS \in Nat \ {0} /\ Min \in Nat \ {0} /\ Interval \in Nat \ {0} /\ 0 \notin Deltas

AgeCap == TPS
Unl == [k |-> 0, b |-> 0, a |-> AgeCap]     \* UnlimitedRateLimiter(): bucket 0, last_refill 0.0 for ever
Fresh(k) == [k |-> k, b |-> 0, a |-> AgeCap] \* LimitedRateLimiter(k): bucket 0, last_refill 0.0
Cap(lim) == lim.k * TPS                       \* limit_bps

MinOf(x, y) == IF x < y THEN x ELSE y
MaxOf(x, y) == IF x > y THEN x ELSE y

\* int((limit_bps - bucket) * time_passed) without leaving 32 bits: d = q*TPS + r
Credit(d, a) == (d \div TPS) * a + ((d % TPS) * a) \div TPS

\* rate_limiter.py:107-110
AddTokens(lim, n) == [lim EXCEPT !.b = MinOf(Cap(lim), lim.b + n)]

\* rate_limiter.py:84-96 (without the return value)
Refill(lim) ==
  IF lim.b = Cap(lim) THEN lim                                         \* :85-86 early return
  ELSE IF lim.b < Cap(lim)
       THEN [AddTokens(lim, Credit(Cap(lim) - lim.b, lim.a)) EXCEPT !.a = 0]   \* :89-94
       ELSE [lim EXCEPT !.a = 0]

\* rate_limiter.py:112-114 and UnlimitedRateLimiter.copy_tokens (pass); create_limiter :17-25
NewLimiter(k, old) ==
  IF k = 0 THEN Unl
  ELSE IF StaleRateOnChange \/ old.k = 0
       THEN [AddTokens(Fresh(k), old.b) EXCEPT !.a = old.a]
       ELSE [AddTokens(Fresh(k), Refill(old).b) EXCEPT !.a = 0]

----------------------------------------------------------------------------
\* Accounting of granted bytes (the property's observable).  For a window that starts with
\* grant i and ends with grant j:   bytes(i..j) - allowance(t_i..t_j)  <=  one second's burst,
\* allowance = integral of the configured limit, burst = the largest limit in force inside the
\* window.  The largest left-hand side over all window starts is kept incrementally
\* (Kadane): `cur` for windows starting in the present limit epoch, `past` = {[w, mx]} for
\* windows that started under earlier limits (mx = largest limit since).  A window that
\* touches an unlimited epoch is not bounded.  A past entry whose w falls to <= 0 is
\* dominated by a window starting later and is dropped.
NoAcct == [cur |-> 0, past |-> {}]

AcctDrain(ac, k, amount) ==
  IF k = 0 THEN ac
  ELSE [cur  |-> MaxOf(ac.cur - amount, 0),
        past |-> {[w |-> p.w - amount, mx |-> p.mx] : p \in {x \in ac.past : x.w - amount > 0}}]

AcctGrant(ac, k, n) ==
  IF k = 0 THEN ac
  ELSE [cur |-> ac.cur + n, past |-> {[w |-> p.w + n, mx |-> p.mx] : p \in ac.past}]

AcctSet(ac, kOld, kNew) ==
  IF kNew = 0 \/ kOld = 0 THEN NoAcct
  ELSE IF kNew = kOld THEN ac
  ELSE [cur  |-> 0,
        past |-> {[w |-> p.w, mx |-> MaxOf(p.mx, kNew)] : p \in ac.past}
                 \cup (IF ac.cur > 0 THEN {[w |-> ac.cur, mx |-> MaxOf(kOld, kNew)]} ELSE {})]

\* largest excess over "allowance + one second's burst" of any window ending now (<= 0 is fine)
AcctExcess(ac, k) ==
  IF k = 0 THEN 0
  ELSE LET S == {ac.cur - k * TPS} \cup {p.w - p.mx * TPS : p \in ac.past}
       IN CHOOSE m \in S : \A y \in S : y <= m

----------------------------------------------------------------------------
VARIABLES
  gens,     \* sequence of limiter objects; the last one is Network._upload_rate_limiter
  pc,       \* c -> "idle" | "sleeping" (in take_tokens, asleep for rem[c] more ticks) | "queued" (Fifo)
  on,       \* c -> index in gens of the limiter c is waiting on, 0 when idle
  rem,      \* c -> ticks until the sleep of c is over (0 = due now)
  queue,    \* Fifo only: connections waiting for their turn, arrival order
  since,    \* c -> ticks since c started waiting or its limiter last granted (capped)
  bypass,   \* c -> grants of c's limiter to others since c started waiting (capped)
  acct,     \* accounting of granted bytes, see above
  changes,  \* limit changes so far
  cancels,  \* cancelled calls so far
  stuck,    \* limiters (indices) whose turn was handed to a cancelled waiter and lost
  last      \* what the last step showed at the API: [ev, c, n, g] (for action properties / traces)

vars == <<gens, pc, on, rem, queue, since, bypass, acct, changes, cancels, stuck, last>>

CurIdx == Len(gens)
Cur == gens[CurIdx]
Waiting(c) == pc[c] # "idle"
WaitersOn(g) == {c \in Conns : Waiting(c) /\ on[c] = g}

Init ==
  /\ \E k \in Limits : gens = <<IF k = 0 THEN Unl ELSE Fresh(k)>>
  /\ pc = [c \in Conns |-> "idle"]
  /\ on = [c \in Conns |-> 0]
  /\ rem = [c \in Conns |-> 0]
  /\ queue = <<>>
  /\ since = [c \in Conns |-> 0]
  /\ bypass = [c \in Conns |-> 0]
  /\ acct = NoAcct
  /\ changes = 0
  /\ cancels = 0
  /\ stuck = {}
  /\ last = [ev |-> "init", c |-> 0, n |-> 0, g |-> 1]

\* replaced limiter objects nobody waits on are garbage: normalise them
Collect(gs, onf) ==
  [i \in 1..Len(gs) |-> IF i < Len(gs) /\ ~\E c \in Conns : onf[c] = i THEN Unl ELSE gs[i]]

\* queue holds connection ids (> 0, waiting for their turn on limiter on[x]) and, only with
\* ~SkipCancelled, dead entries -g left behind by a waiter of limiter g that was cancelled
OfLimiter(g, x) == IF x > 0 THEN on[x] = g ELSE x = -g
RemoveFirst(sq, v) ==
  LET i == CHOOSE i \in 1..Len(sq) : sq[i] = v /\ \A j \in 1..(i - 1) : sq[j] # v
  IN SubSeq(sq, 1, i - 1) \o SubSeq(sq, i + 1, Len(sq))

\* c stops polling limiter g (granted, or cancelled): the turn goes to the head of g's queue; it
\* runs at the same clock reading
HandOver(c, g) ==
  LET nextq == SelectSeq(queue, LAMBDA x : OfLimiter(g, x)) IN
  IF Fifo /\ nextq # <<>>
  THEN IF Head(nextq) > 0
       THEN /\ pc' = [pc EXCEPT ![c] = "idle", ![Head(nextq)] = "sleeping"]
            /\ rem' = [rem EXCEPT ![c] = 0, ![Head(nextq)] = 0]
            /\ queue' = RemoveFirst(queue, Head(nextq))
            /\ UNCHANGED stuck
       ELSE \* handed to a cancelled waiter: nobody is woken, the polling role stays taken
            /\ pc' = [pc EXCEPT ![c] = "idle"]
            /\ rem' = [rem EXCEPT ![c] = 0]
            /\ queue' = RemoveFirst(queue, Head(nextq))
            /\ stuck' = stuck \cup {g}
  ELSE /\ pc' = [pc EXCEPT ![c] = "idle"]
       /\ rem' = [rem EXCEPT ![c] = 0]
       /\ UNCHANGED <<queue, stuck>>

\* c (not waiting, or due) runs refill + the test in take_tokens on limiter g:
\* rate_limiter.py:98-105.  Either granted (returns Min) or asleep for Interval.
Attempt(c, g) ==
  LET r0 == Refill(gens[g])
      \* the deviation: with the repair, taking from a full bucket restarts accrual
      r  == IF ~StaleFullBucket /\ r0.b = Cap(r0) THEN [r0 EXCEPT !.a = 0] ELSE r0
  IN
  IF r.b >= Min
  THEN \* granted
       LET onN == [on EXCEPT ![c] = 0]
           others == WaitersOn(g) \ {c}
       IN
       /\ gens' = Collect([gens EXCEPT ![g] = [r EXCEPT !.b = r.b - Min]], onN)
       /\ on' = onN
       /\ acct' = IF g = CurIdx THEN AcctGrant(acct, Cur.k, Min) ELSE acct   \* in-flight request of a replaced limiter
       /\ since' = [x \in Conns |-> IF x = c \/ x \in others THEN 0 ELSE since[x]]
       /\ bypass' = [x \in Conns |-> IF x = c THEN 0
                                     ELSE IF x \in others THEN MinOf(bypass[x] + 1, BypassBound + 1)
                                     ELSE bypass[x]]
       /\ last' = [ev |-> "grant", c |-> c, n |-> Min, g |-> g]
       /\ IF pc[c] = "idle" /\ others # {}
            THEN \* (FastPath) c was never in the queue: the turn stays where it is
                 UNCHANGED <<pc, rem, queue, stuck>>
            ELSE HandOver(c, g)
  ELSE \* bucket empty: sleep INTERVAL and poll again
       /\ gens' = [gens EXCEPT ![g] = r]
       /\ pc' = [pc EXCEPT ![c] = "sleeping"]
       /\ on' = [on EXCEPT ![c] = g]
       /\ rem' = [rem EXCEPT ![c] = Interval]
       /\ since' = IF Waiting(c) THEN since ELSE [since EXCEPT ![c] = 0]
       /\ bypass' = IF Waiting(c) THEN bypass ELSE [bypass EXCEPT ![c] = 0]
       /\ last' = [ev |-> "sleep", c |-> c, n |-> 0, g |-> g]
       /\ UNCHANGED <<queue, acct, stuck>>

\* connection.py:716 / :743  `await self.<dir>_rate_limiter.take_tokens()`
Request(c) ==
  /\ pc[c] = "idle"
  /\ UNCHANGED <<changes, cancels>>
  /\ IF Cur.k = 0
       THEN \* UnlimitedRateLimiter.take_tokens: returns at once
            /\ last' = [ev |-> "grant", c |-> c, n |-> UMin, g |-> CurIdx]
            /\ UNCHANGED <<gens, pc, on, rem, queue, since, bypass, acct, stuck>>
       ELSE IF Fifo /\ (WaitersOn(CurIdx) # {} \/ CurIdx \in stuck)
               /\ ~(FastPath /\ Refill(Cur).b >= Min)
            THEN /\ pc' = [pc EXCEPT ![c] = "queued"]
                 /\ on' = [on EXCEPT ![c] = CurIdx]
                 /\ queue' = Append(queue, c)
                 /\ since' = [since EXCEPT ![c] = 0]
                 /\ bypass' = [bypass EXCEPT ![c] = 0]
                 /\ last' = [ev |-> "queued", c |-> c, n |-> 0, g |-> CurIdx]
                 /\ UNCHANGED <<gens, rem, acct, stuck>>
            ELSE Attempt(c, CurIdx)

\* the sleep of c is over: next iteration of the loop in take_tokens
Poll(c) ==
  /\ pc[c] = "sleeping" /\ rem[c] = 0
  /\ UNCHANGED <<changes, cancels>>
  /\ Attempt(c, on[c])

\* the clock moves on
Tick(d) ==
  /\ Timely => \A c \in Conns : pc[c] = "sleeping" => rem[c] >= d
  /\ gens' = [i \in 1..Len(gens) |-> IF gens[i].k = 0 THEN gens[i]
                                      ELSE [gens[i] EXCEPT !.a = MinOf(AgeCap, gens[i].a + d)]]
  /\ rem' = [c \in Conns |-> MaxOf(rem[c] - d, 0)]
  /\ since' = [c \in Conns |-> IF Waiting(c) /\ Timely THEN MinOf(since[c] + d, StallBound + 1) ELSE since[c]]
  /\ acct' = AcctDrain(acct, Cur.k, Cur.k * d)
  /\ last' = [ev |-> "tick", c |-> 0, n |-> d, g |-> CurIdx]
  /\ UNCHANGED <<pc, on, queue, bypass, changes, cancels, stuck>>

\* network.py:349-361: new limiter, copy_tokens, handed to the connections
SetLimit(k) ==
  /\ changes < MaxChanges
  /\ changes' = changes + 1
  /\ acct' = AcctSet(acct, Cur.k, k)
  /\ last' = [ev |-> "set", c |-> 0, n |-> k, g |-> CurIdx + 1]
  \* with the repair the replaced object's accrual is settled (other.refill()) before the copy
  /\ LET oldR == IF StaleRateOnChange \/ Cur.k = 0 THEN Cur ELSE Refill(Cur)
     IN gens' = Collect(Append([gens EXCEPT ![CurIdx] = oldR], NewLimiter(k, Cur)), on)
  /\ UNCHANGED <<pc, on, rem, queue, since, bypass, cancels, stuck>>

\* the task that is inside take_tokens() for connection c is cancelled (transfer aborted, paused or
\* removed, connection closed): CancelledError at `await asyncio.sleep` or while waiting for its turn
Cancel(c) ==
  /\ Waiting(c)
  /\ cancels < MaxCancels
  /\ cancels' = cancels + 1
  /\ LET g == on[c]
         onN == [on EXCEPT ![c] = 0]
     IN /\ on' = onN
        /\ gens' = Collect(gens, onN)
        /\ last' = [ev |-> "cancel", c |-> c, n |-> 0, g |-> g]
        /\ IF pc[c] = "queued"
             THEN /\ queue' = IF SkipCancelled THEN SelectSeq(queue, LAMBDA x : x # c)
                              ELSE [i \in 1..Len(queue) |-> IF queue[i] = c THEN -g ELSE queue[i]]
                  /\ pc' = [pc EXCEPT ![c] = "idle"]
                  /\ rem' = [rem EXCEPT ![c] = 0]
                  /\ UNCHANGED stuck
             ELSE HandOver(c, g)       \* `async with` / `finally` releases the turn
  /\ since' = [since EXCEPT ![c] = 0]
  /\ bypass' = [bypass EXCEPT ![c] = 0]
  /\ UNCHANGED <<acct, changes>>

\* Environment: the network is initialised again (SoulSeekClient.connect() at start and on every
\* reconnect -> Network.initialize()).  The limits are applied by set_*_speed_limit() /
\* load_speed_limits() only (USAGE.rst "a method needs to be called before they are applied"):
\* the limit in force, the limiter objects and the waiting connections are untouched.
Reinit ==
  /\ last.ev # "reinit"
  /\ last' = [ev |-> "reinit", c |-> 0, n |-> 0, g |-> CurIdx]
  /\ UNCHANGED <<gens, pc, on, rem, queue, since, bypass, acct, changes, cancels, stuck>>

Next ==
  \/ \E c \in Conns : Request(c) \/ Poll(c) \/ Cancel(c)
  \/ Reinit
  \/ \E d \in Deltas : Tick(d)
  \/ \E k \in Limits : SetLimit(k)

Spec == Init /\ [][Next]_vars

\* the loop is live and the clock advances; requests and limit changes are the environment's
FairSpec == Spec /\ WF_vars(\E d \in Deltas : Tick(d)) /\ \A c \in Conns : WF_vars(Poll(c))

----------------------------------------------------------------------------
\* Properties

TypeOK ==
  /\ Len(gens) = changes + 1
  /\ \A i \in 1..Len(gens) : gens[i].k \in (Limits \cup {0}) /\ gens[i].a \in 0..AgeCap /\ gens[i].b \in Nat
  /\ \A c \in Conns : pc[c] \in {"idle", "sleeping", "queued"} /\ on[c] \in 0..Len(gens) /\ rem[c] \in 0..Interval
  /\ \A c \in Conns : Waiting(c) <=> on[c] # 0

\* The bucket never holds more than one second of traffic.
BucketCapped == \A i \in 1..Len(gens) : gens[i].b >= 0 /\ gens[i].b <= Cap(gens[i])

\* Bytes granted in any window never exceed the allowance of the window plus one second's burst.
WindowBound == AcctExcess(acct, Cur.k) <= Slack

\* With no limit a request is answered at once, with a full chunk, and nobody ever waits on an
\* unlimited limiter.
UnlimitedNotThrottled ==
  /\ \A c \in Conns : Waiting(c) => gens[on[c]].k # 0
  /\ [][\A c \in Conns : (Cur.k = 0 /\ pc[c] = "idle" /\ last'.ev \in {"grant", "sleep", "queued"} /\ last'.c = c)
            => (last'.ev = "grant" /\ last'.n = UMin /\ pc'[c] = "idle")]_vars

\* Every grant hands out a positive number of bytes.
GrantsPositive == [][last'.ev = "grant" => last'.n > 0]_vars

\* `last` only reports the step that was taken; it is not part of the fingerprint
View == <<gens, pc, on, rem, queue, since, bypass, acct, changes, cancels, stuck>>

\* Never stalling, as a step bound in virtual time (Timely loop).
\* Derivation of the bound in real units (TPS = 1024, Min = 128, Interval = 11, k >= 1 KiB/s):
\* an empty bucket (b < 128) accrues (1024k - b)/1024 > 0.87 bytes per tick; the connection at the
\* head of the queue polls every 11 ticks and a refill loses less than one byte to int():
\* >= 8 bytes per poll, so 128 bytes are there after at most 16 polls = 176 ticks; a call that
\* arrives in between adds one more truncation each.  StallBound = 512 ticks (half a second) is
\* used for the real-unit model, and with first-come first-served service a request has at most
\* |Conns| - 1 requests in front of it: it returns within |Conns| * 512 ticks.  The trace spec
\* judges real executions against the rounder |Conns| seconds.
\* While somebody waits on a limiter, that limiter grants at least every StallBound ticks ...
NoStall == \A c \in Conns : Waiting(c) => since[c] <= StallBound
\* ... and a waiting request is overtaken by at most BypassBound grants of its limiter; together:
\* each request returns within (BypassBound + 1) * StallBound ticks.
BoundedBypass == \A c \in Conns : bypass[c] <= BypassBound

\* The same as liveness under fairness: a waiting transfer is always eventually granted.
EventuallyGranted == \A c \in Conns : Waiting(c) ~> ~Waiting(c)
SomebodyGranted == (\E c \in Conns : Waiting(c)) ~> (last.ev = "grant" \/ \A c \in Conns : ~Waiting(c))
=============================================================================

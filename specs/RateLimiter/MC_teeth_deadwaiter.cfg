SPECIFICATION Spec
CONSTANTS
  Conns = {1, 2}
  Limits = {1}
  TPS = 16
  Min = 2
  UMin = 8
  Interval = 4
  Deltas = {4}
  MaxChanges = 0
  MaxCancels = 1
  SkipCancelled = FALSE
  FastPath = FALSE
  Timely = TRUE
  StaleFullBucket = TRUE
  StaleRateOnChange = FALSE
  Fifo = TRUE
  StallBound = 8
  BypassBound = 1
  Slack = 2
VIEW View
INVARIANT TypeOK
INVARIANT BucketCapped
INVARIANT WindowBound
INVARIANT NoStall
INVARIANT BoundedBypass
PROPERTY UnlimitedNotThrottled
PROPERTY GrantsPositive
CHECK_DEADLOCK TRUE

SPECIFICATION TSpec
CONSTANTS
  Conns = {1, 2, 3, 4}
  Limits = {0, 1}
  TPS = 1024
  Min = 128
  UMin = 8192
  Interval = 11
  Deltas = {1}
  MaxChanges = 100000
  MaxCancels = 100000
  SkipCancelled = TRUE
  FastPath = FALSE
  Timely = FALSE
  StallBound = 1024
  BypassBound = 3
  Slack = 128
  Exact = FALSE
  StaleFullBucket = TRUE
  StaleRateOnChange = TRUE
  Fifo = FALSE
CONSTRAINT WindowBoundT
CONSTRAINT BucketCappedT
CONSTRAINT GrantsPositiveT
CONSTRAINT UnlimitedNotThrottledT
CONSTRAINT BoundedWaitT
CHECK_DEADLOCK FALSE

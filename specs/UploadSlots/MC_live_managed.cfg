\* teeth: the limit a cycle used is noted only by the idle poll: limit lowered, an upload ends (cycle at the lower
\* limit), limit raised back - the poll sees nothing new, EventuallyStarted fails.
SPECIFICATION FairSpec
CONSTANTS
  UploadIds = {1, 3}
  PerUser = 2
  MaxSlots = 1
  InitSlots = {1}
  InitTruth = {"unknown"}
  AnyInitAttr = FALSE
  Statuses = {"unknown", "offline", "away", "online"}
  SlotBudget = 2
  AttrBudget = 0
  LifeBudget = 1
  TrackMgmt = TRUE
  GrantAll = FALSE
  UseUploadingUsers = TRUE
  CountInitializing = TRUE
  UseOfflineFilter = TRUE
  WStatus = 1
  WFriend = 5
  WPriv = 100
  StateChangeNotifies = TRUE
  SlotsChangeNotifies = TRUE
  ManagedEveryCycle = FALSE
  TaskEndNotifies = TRUE
  RequeueTail = FALSE
  TrackPerUser = TRUE
PROPERTY EventuallyStarted
CHECK_DEADLOCK FALSE

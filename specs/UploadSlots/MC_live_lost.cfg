\* teeth: a state change that requests no cycle (lost request) violates EventuallyStarted.
SPECIFICATION FairSpec
CONSTANTS
  UploadIds = {1, 3}
  PerUser = 2
  MaxSlots = 2
  InitSlots = {1}
  InitTruth = {"unknown"}
  AnyInitAttr = FALSE
  Statuses = {"unknown", "offline", "away", "online"}
  SlotBudget = 0
  AttrBudget = 0
  LifeBudget = 2
  TrackMgmt = TRUE
  GrantAll = FALSE
  UseUploadingUsers = TRUE
  CountInitializing = TRUE
  UseOfflineFilter = TRUE
  WStatus = 1
  WFriend = 5
  WPriv = 100
  StateChangeNotifies = FALSE
  SlotsChangeNotifies = TRUE
  ManagedEveryCycle = TRUE
  TaskEndNotifies = TRUE
  RequeueTail = FALSE
  TrackPerUser = TRUE
PROPERTY EventuallyStarted
CHECK_DEADLOCK FALSE

\* quick, exhaustive: priority / offline focus. 2 users with every initial status/friend/privilege, one
\* attribute change at any moment, one slot.
SPECIFICATION Spec
CONSTANTS
  UploadIds = {1, 3}
  PerUser = 2
  MaxSlots = 2
  InitSlots = {1}
  AnyInitAttr = TRUE
  Statuses = {"unknown", "offline", "away", "online"}
  SlotBudget = 0
  AttrBudget = 1
  LifeBudget = 0
  TrackMgmt = TRUE
  GrantAll = FALSE
  UseUploadingUsers = TRUE
  CountInitializing = TRUE
  UseOfflineFilter = TRUE
  WStatus = 1
  WFriend = 5
  WPriv = 100
  StateChangeNotifies = TRUE
  SlotsChangeNotifies = FALSE
INVARIANT TypeOK
INVARIANT OnePerUser
INVARIANT FlagsIffQueued
INVARIANT WakeIffRunnable
INVARIANT NoDoubleTask
INVARIANT TaskOnlyQueued
INVARIANT OneTaskPerUser
PROPERTY StartRespectsLimit
PROPERTY NeverOffline
PROPERTY PriorityHolds
PROPERTY CycleFillsSlots
CHECK_DEADLOCK FALSE

\* teeth: a task that goes on after putting its upload back in the queue violates EventuallyStarted (code position otherwise).
SPECIFICATION FairSpec
CONSTANTS
  UploadIds = {1}
  PerUser = 2
  MaxSlots = 1
  InitSlots = {1}
  InitTruth = {"unknown"}
  AnyInitAttr = FALSE
  Statuses = {"unknown", "offline", "away", "online"}
  SlotBudget = 0
  AttrBudget = 0
  LifeBudget = 1
  TrackMgmt = TRUE
  GrantAll = FALSE
  UseUploadingUsers = TRUE
  CountInitializing = TRUE
  UseOfflineFilter = TRUE
  WStatus = 1
  WFriend = 5
  WPriv = 100
  StateChangeNotifies = TRUE
  SlotsChangeNotifies = TRUE
  ManagedEveryCycle = TRUE
  TaskEndNotifies = FALSE
  RequeueTail = TRUE
  TrackPerUser = TRUE
PROPERTY EventuallyStarted
CHECK_DEADLOCK FALSE

\* teeth: watching a user by its LAST transfer only forgets an offline user that still has a queued upload: NeverOffline / KnowledgeKept.
SPECIFICATION Spec
CONSTANTS
  UploadIds = {1, 2, 3}
  PerUser = 2
  MaxSlots = 2
  InitSlots = {0}
  InitTruth = {"unknown"}
  AnyInitAttr = FALSE
  Statuses = {"unknown", "offline", "away", "online"}
  SlotBudget = 1
  AttrBudget = 1
  LifeBudget = 2
  TrackMgmt = TRUE
  GrantAll = FALSE
  UseUploadingUsers = TRUE
  CountInitializing = TRUE
  UseOfflineFilter = TRUE
  WStatus = 1
  WFriend = 5
  WPriv = 100
  StateChangeNotifies = TRUE
  SlotsChangeNotifies = TRUE
  ManagedEveryCycle = TRUE
  TaskEndNotifies = FALSE
  RequeueTail = FALSE
  TrackPerUser = FALSE
INVARIANT TypeOK
INVARIANT OnePerUser
INVARIANT FlagsIffQueued
INVARIANT WakeIffRunnable
INVARIANT NoDoubleTask
INVARIANT TaskOnlyQueued
INVARIANT OneTaskPerUser
INVARIANT KnowledgeKept
INVARIANT NoTaskWhileInFlight
PROPERTY StartRespectsLimit
PROPERTY NeverOffline
PROPERTY PriorityHolds
PROPERTY CycleFillsSlots
CHECK_DEADLOCK FALSE

\* thorough, exhaustive: as MC_prio plus one attribute change at any moment.
SPECIFICATION Spec
CONSTANTS
  UploadIds = {1, 3}
  PerUser = 2
  MaxSlots = 1
  InitSlots = {0}
  InitTruth = {"unknown"}
  AnyInitAttr = TRUE
  Statuses = {"unknown", "offline", "away", "online"}
  SlotBudget = 1
  AttrBudget = 1
  LifeBudget = 0
  TrackMgmt = TRUE
  GrantAll = FALSE
  UseUploadingUsers = TRUE
  CountInitializing = TRUE
  UseOfflineFilter = TRUE
  WStatus = 1
  WFriend = 5
  WPriv = 100
  StateChangeNotifies = TRUE
  SlotsChangeNotifies = TRUE
  ManagedEveryCycle = TRUE
  TaskEndNotifies = FALSE
  RequeueTail = FALSE
  TrackPerUser = TRUE
INVARIANT TypeOK
INVARIANT OnePerUser
INVARIANT FlagsIffQueued
INVARIANT WakeIffRunnable
INVARIANT NoDoubleTask
INVARIANT TaskOnlyQueued
INVARIANT OneTaskPerUser
INVARIANT KnowledgeKept
INVARIANT NoTaskWhileInFlight
PROPERTY StartRespectsLimit
PROPERTY NeverOffline
PROPERTY PriorityHolds
PROPERTY CycleFillsSlots
CHECK_DEADLOCK FALSE

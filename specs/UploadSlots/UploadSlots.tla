---------------------------- MODULE UploadSlots ----------------------------
(***************************************************************************)
(* C05 - active uploads never exceed the slot limit or one per user;       *)
(* priority holds; an eligible queued upload is eventually started.        *)
(*                                                                         *)
(* Mirrors src/aioslsk/transfer/manager.py:                                *)
(*   _management_job / request_management_cycle (517-540), manage_transfers*)
(*   (542-567), _get_queued_transfers (596-647), _prioritize_uploads       *)
(*   (649-675), get_free_upload_slots (384-387), the first stretch of      *)
(*   _initialize_upload (887) and tasks.BackgroundTask.runner.             *)
(*                                                                         *)
(* The asyncio ready queue is part of the model (DESIGN appendix A): the   *)
(* management job's wake-ups and the first steps of the initialize-upload  *)
(* tasks are handles in one FIFO.  A task created by a cycle sits in front *)
(* of every later wake-up of the management job, so "the task runs before  *)
(* the 50 ms sleep ends" is a consequence of the queue, not an assumption. *)
(*                                                                         *)
(* Handles: 0 = wake-up of the management task, u > 0 = first step of the  *)
(* initialize-upload task of upload u.                                     *)
(*                                                                         *)
(* Environment steps (peers, server messages, the application changing     *)
(* settings or calling abort/pause/queue) are atomic and may happen        *)
(* between any two handles; finite budgets bound them in the exhaustive    *)
(* configurations (Unbounded = 99 switches a budget off).                  *)
(*                                                                         *)
(* What the client knows about a user comes from the server and only while *)
(* the client has the user watched (AddUser ... RemoveUser): `truth` is    *)
(* the server's view, `watch` what manage_user_tracking (504-523) has      *)
(* asked for, `status` what the client's User object says (it is dropped   *)
(* with the tracking entry: the user store is weak), `told` what the       *)
(* statement of C05 goes by: the last status the server told the client,   *)
(* forgotten only when the client stops watching a user that has no        *)
(* unfinished upload.                                                      *)
(*                                                                         *)
(* `tail[u]`: the task that ran upload u is still busy after the state     *)
(* change that ended the attempt (_upload_file tells the peer              *)
(* PeerUploadFailed after fail()).  manage_transfers never starts a second *)
(* task while one is in flight (573-575), so a cycle skips such an upload. *)
(*                                                                         *)
(* Where the code deviates from C05 the deviation is a CONSTANT switch:    *)
(* TaskEndNotifies = FALSE is the code (nothing requests a cycle when a    *)
(* task ends): an upload re-queued while its old task was in flight is     *)
(* skipped and then forgotten, EventuallyStarted fails (MC_live_code.cfg), *)
(* finding C05:...:task-in-flight.  TRUE is the repaired design            *)
(* (MC_live.cfg).  SlotsChangeNotifies = TRUE since fix fbca5b4 (the 1 s   *)
(* poll of the limit).  The other switches only serve to show that each    *)
(* property has teeth (MC_teeth_*.cfg, MC_live_*.cfg).                     *)
(***************************************************************************)
EXTENDS Naturals, Sequences, FiniteSets, TLC

CONSTANTS
  UploadIds,            \* set of upload ids (positive integers)
  PerUser,              \* upload u belongs to user ((u - 1) \div PerUser) + 1
  MaxSlots,             \* limits range over 0..MaxSlots
  InitSlots,            \* set of initial limits
  AnyInitAttr,          \* TRUE: any initial server status/friend/privilege; FALSE: status from InitTruth / not friend / not privileged
  InitTruth,            \* statuses a user may have on the server initially when AnyInitAttr = FALSE
  Statuses,             \* subset of {"unknown", "offline", "away", "online"} containing "unknown"
  SlotBudget,           \* how many limit changes the environment makes   (Unbounded = no bound)
  AttrBudget,           \* how many status / friend / privilege changes
  LifeBudget,           \* how many life-cycle events (negotiated, complete, fail, back, abort, pause, resume, re-request)
  TrackMgmt,            \* TRUE: the management machinery is modelled; FALSE (trace spec): only the property-relevant core
  \* --- switches that put the model in the position of the code (or of a broken variant) ---
  GrantAll,             \* FALSE = uploads[:free_upload_slots]; TRUE = every eligible upload gets a task
  UseUploadingUsers,    \* TRUE = users with an INITIALIZING/UPLOADING upload are skipped
  CountInitializing,    \* TRUE = is_processing() counts INITIALIZING
  UseOfflineFilter,     \* TRUE = uploads of OFFLINE users are skipped
  WStatus, WFriend, WPriv,   \* rank weights of _prioritize_uploads (1, 5, 100)
  StateChangeNotifies,  \* TRUE = on_transfer_state_changed requests a management cycle
  SlotsChangeNotifies,  \* TRUE = the idle management job polls the limit (fix fbca5b4); FALSE = it only waits for requests
  ManagedEveryCycle,    \* TRUE = code: every cycle notes the limit it used; FALSE = only the poll does (broken variant)
  TaskEndNotifies,      \* FALSE = code: the end of an initialize-upload task requests nothing
  RequeueTail,          \* FALSE = code: a task that puts its upload back in the queue returns at once
  TrackPerUser          \* TRUE = code: a user is watched as long as ANY of its transfers is unfinished

Uploads == UploadIds
Owner(u) == ((u - 1) \div PerUser) + 1
Users == {Owner(u) : u \in Uploads}

Unbounded == 99
States == {"NONE", "QUEUED", "INITIALIZING", "UPLOADING", "COMPLETE", "FAILED", "ABORTED", "PAUSED"}
Active == {"INITIALIZING", "UPLOADING"}

VARIABLES
  slots,      \* settings.transfers.limits.upload_slots
  status,     \* user -> status as the client knows it (User.status)
  friend,     \* user -> in settings.users.friends
  priv,       \* user -> User.privileged
  st,         \* upload -> state ("NONE": not asked for yet)
  order,      \* uploads in the order they were added to TransferManager._transfers
  ready,      \* the asyncio ready queue (handles, FIFO)
  mq,         \* items in _management_queue (maxsize 1)
  mpc,        \* management task: "waiting" (in queue.get), "sleeping" (timer pending), "due" (timer fired, wake-up in ready)
  flags,      \* _management_flags
  managed,    \* _managed_upload_slots: the limit the last cycle used (what the idle poll compares with)
  grantLim,   \* the limit the last granting cycle saw, while its tasks are still waiting for their first step (else 0)
  tail,       \* upload -> its previous task is still in flight (after the state change that ended the attempt)
  truth,      \* user -> status on the server ("unknown": no such user)
  watch,      \* user -> "no" | "asked" (AddUser sent) | "yes" (answered): what the client has the server watch
  told,       \* user -> last status the server told the client, forgotten only with good reason (see Forget)
  slotLeft, attrLeft, lifeLeft

attrs == <<slots, status, friend, priv>>
know == <<truth, watch, told>>
mgmt == <<mq, mpc, flags, managed>>
vars == <<slots, status, friend, priv, st, order, ready, mq, mpc, flags, managed, grantLim, tail, truth, watch, told,
          slotLeft, attrLeft, lifeLeft>>

Max(a, b) == IF a >= b THEN a ELSE b
Min(a, b) == IF a <= b THEN a ELSE b

ActiveSet(s) == {u \in Uploads : s[u] \in Active}
TaskCount(r, u) == Cardinality({i \in DOMAIN r : r[i] = u})
NumTasks(r) == Cardinality({i \in DOMAIN r : r[i] # 0})
taskFor == [u \in Uploads |-> TaskCount(ready, u) > 0]     \* an initialize-upload task exists, first step not yet run
DropTask(r, u) == SelectSeq(r, LAMBDA h : h # u)

\* friends are watched from the log-on on (UserManager.track_friends), the others not yet
Init ==
  /\ slots \in InitSlots
  /\ IF AnyInitAttr
       THEN /\ truth \in [Users -> Statuses] /\ friend \in [Users -> BOOLEAN] /\ priv \in [Users -> BOOLEAN]
       ELSE /\ truth \in [Users -> InitTruth] /\ friend = [o \in Users |-> FALSE] /\ priv = [o \in Users |-> FALSE]
  /\ watch = [o \in Users |-> IF friend[o] THEN "yes" ELSE "no"]
  /\ status = [o \in Users |-> IF friend[o] THEN truth[o] ELSE "unknown"]
  /\ told = status
  /\ tail = [u \in Uploads |-> FALSE]
  /\ st = [u \in Uploads |-> "NONE"]
  /\ order = <<>>
  /\ ready = <<>>
  /\ mq = 0 /\ mpc = "waiting" /\ flags = {} /\ managed = slots
  /\ grantLim = 0
  /\ slotLeft = SlotBudget /\ attrLeft = AttrBudget /\ lifeLeft = LifeBudget

----------------------------------------------------------------------------
\* request_management_cycle (535-540): set the flag, put_nowait, QueueFull is swallowed.  A put on the
\* empty queue of a task blocked in queue.get() schedules that task's wake-up; the item stays in
\* the queue (full) until the task really runs.  `r` is the ready queue after the caller's own effect.
Req(r) ==
  IF TrackMgmt
    THEN /\ flags' = flags \cup {"transfer"}
         /\ IF mq = 0
              THEN /\ mq' = 1
                   /\ ready' = IF mpc = "waiting" THEN Append(r, 0) ELSE r
              ELSE /\ mq' = mq /\ ready' = r
         /\ UNCHANGED <<mpc, managed>>
    ELSE ready' = r /\ UNCHANGED mgmt

NoReq(r) == ready' = r /\ UNCHANGED mgmt

\* every state change reaches TransferManager.on_transfer_state_changed (1146-1149)
Notify(r) == IF StateChangeNotifies THEN Req(r) ELSE NoReq(r)

GrantLimAfter(r) == IF NumTasks(r) = 0 THEN 0 ELSE grantLim

\* upload u goes to state s by something else than its own task's first step.  Leaving QUEUED this
\* way is abort/pause (state.py: _cancel_transfer_tasks - a task that has not started never runs).
\* `tl` says what becomes of the in-flight marker: "keep", "set" (the task goes on after this change) or
\* "clear" (abort / pause cancel the task and wait for it).
Change(u, s, tl) ==
  LET r == DropTask(ready, u) IN
  /\ st' = [st EXCEPT ![u] = s]
  /\ order' = IF st[u] = "NONE" THEN Append(order, u) ELSE order
  /\ grantLim' = GrantLimAfter(r)
  /\ tail' = IF tl = "keep" THEN tail ELSE [tail EXCEPT ![u] = (tl = "set")]
  /\ Notify(r)
  /\ UNCHANGED <<attrs, know>>

\* --- environment: peers and the user of the library ----------------------------------------------
\* _on_peer_transfer_queue (1167-1237): a new upload is added and queued; a FAILED / COMPLETE one is re-queued
QueueRequest(u) == st[u] \in {"NONE", "COMPLETE", "FAILED"} /\ Change(u, "QUEUED", "keep")
\* TransferManager.queue on a paused / aborted upload
Resume(u) == st[u] \in {"PAUSED", "ABORTED"} /\ Change(u, "QUEUED", "keep")
\* PeerTransferReply(allowed), file connection, offset received -> _upload_file: start_transferring
Negotiated(u) == st[u] = "INITIALIZING" /\ Change(u, "UPLOADING", "keep")
Complete(u) == st[u] = "UPLOADING" /\ Change(u, "COMPLETE", "keep")
\* reply not allowed (968-970): the task returns; write error while uploading (_upload_file): the task
\* goes on to tell the peer PeerUploadFailed - over a connection it may first have to make
Fail(u) == st[u] \in Active /\ Change(u, "FAILED", IF st[u] = "UPLOADING" THEN "set" ELSE "keep")
\* request undeliverable, reply timeout, file connection failed, no offset (948-998): queue() and return
BackToQueue(u) == st[u] = "INITIALIZING" /\ Change(u, "QUEUED", IF RequeueTail THEN "set" ELSE "keep")
Abort(u) == st[u] \in {"QUEUED", "INITIALIZING", "UPLOADING", "PAUSED"} /\ Change(u, "ABORTED", "clear")
Pause(u) == st[u] \in {"QUEUED", "INITIALIZING", "UPLOADING"} /\ Change(u, "PAUSED", "clear")

\* the task that was still in flight ends (Transfer._transfer_task_complete only clears the slot)
TailEnds(u) ==
  /\ tail[u]
  /\ tail' = [tail EXCEPT ![u] = FALSE]
  /\ IF TaskEndNotifies THEN Req(ready) ELSE NoReq(ready)
  /\ UNCHANGED <<attrs, know, st, order, grantLim>>

SetSlots(n) ==
  /\ n \in 0..MaxSlots /\ n # slots
  /\ slots' = n
  /\ NoReq(ready)                 \* assigning the setting raises no event; see Poll
  /\ UNCHANGED <<status, friend, priv, st, order, grantLim, tail, know>>

Unfinished(o) == \E u \in Uploads : Owner(u) = o /\ st[u] \in {"QUEUED", "INITIALIZING", "UPLOADING", "PAUSED"}
HasTransfers(o) == \E u \in Uploads : Owner(u) = o /\ st[u] # "NONE"

\* The client stops watching users `os` (RemoveUser): the tracking entry and with it the User object go,
\* status falls back to UNKNOWN.  For C05 the word of the server stands unless the user has no unfinished
\* upload left - only then is not knowing any more a good excuse.
ToldAfterForget(os) == [o \in Users |-> IF o \in os /\ ~Unfinished(o) THEN "unknown" ELSE told[o]]

\* the server changes its mind about a user; it tells the client (GetUserStatus) only if the user is watched
StatusChange(o, s) ==
  /\ s \in Statuses \ {"unknown"} /\ s # truth[o]
  /\ truth' = [truth EXCEPT ![o] = s]
  /\ IF watch[o] = "yes"
       THEN /\ status' = [status EXCEPT ![o] = s] /\ told' = [told EXCEPT ![o] = s]
            /\ Req(ready)                               \* TransferManager._on_get_user_status
       ELSE /\ UNCHANGED <<status, told>> /\ NoReq(ready)
  /\ UNCHANGED <<slots, friend, priv, st, order, grantLim, tail, watch>>

\* the AddUser response arrives (user/manager.py _on_add_user; transfer manager requests a cycle)
Tracked(o) ==
  /\ watch[o] = "asked"
  /\ watch' = [watch EXCEPT ![o] = "yes"]
  /\ status' = [status EXCEPT ![o] = truth[o]]
  /\ told' = [told EXCEPT ![o] = truth[o]]
  /\ Req(ready)
  /\ UNCHANGED <<slots, friend, priv, st, order, grantLim, tail, truth>>

\* settings.users.friends is read at cycle time; the user manager (un)watches the friend within a second
FriendChange(o) ==
  /\ friend' = [friend EXCEPT ![o] = ~friend[o]]
  /\ IF ~friend[o]
       THEN /\ watch' = [watch EXCEPT ![o] = IF @ = "no" THEN "asked" ELSE @]
            /\ UNCHANGED <<status, told>>
       ELSE IF Unfinished(o)
         THEN UNCHANGED <<watch, status, told>>
         ELSE /\ watch' = [watch EXCEPT ![o] = "no"]
              /\ status' = [status EXCEPT ![o] = "unknown"]
              /\ told' = ToldAfterForget({o})
  /\ NoReq(ready)
  /\ UNCHANGED <<slots, priv, st, order, grantLim, tail, truth>>

\* PrivilegedUsers (kept by name in the user manager); requests nothing
PrivChange(o) ==
  /\ priv' = [priv EXCEPT ![o] = ~priv[o]]
  /\ NoReq(ready)
  /\ UNCHANGED <<slots, status, friend, st, order, grantLim, tail, know>>

----------------------------------------------------------------------------
\* --- the management cycle: _get_queued_transfers + _prioritize_uploads + manage_transfers ---------
Counted == IF CountInitializing THEN Active ELSE {"UPLOADING"}            \* Transfer.is_processing
ProcessingUsers == {Owner(u) : u \in {x \in Uploads : st[x] \in Counted}}  \* uploading_users (602-605)

\* the loop of 610-631 over self._transfers, one queued upload per user
RECURSIVE Pick(_, _, _)
Pick(i, seen, acc) ==
  IF i > Len(order) THEN acc
  ELSE LET u == order[i]
           o == Owner(u) IN
       IF \/ UseOfflineFilter /\ status[o] = "offline"
          \/ UseUploadingUsers /\ o \in ProcessingUsers
          \/ o \in seen
         THEN Pick(i + 1, seen, acc)
         ELSE IF st[u] = "QUEUED" THEN Pick(i + 1, seen \cup {o}, Append(acc, u))
                                  ELSE Pick(i + 1, seen, acc)

Picked == Pick(1, {}, <<>>)

CodeRank(o) == (IF status[o] \in {"online", "away"} THEN WStatus ELSE 0)
             + (IF friend[o] THEN WFriend ELSE 0)
             + (IF priv[o] THEN WPriv ELSE 0)

PosIn(s, u) == CHOOSE i \in DOMAIN s : s[i] = u

\* ranking.sort(key=rank) is stable; reversed(): descending rank, equal ranks in reverse pick order
Prioritized ==
  SortSeq(Picked, LAMBDA a, b : \/ CodeRank(Owner(a)) > CodeRank(Owner(b))
                                \/ CodeRank(Owner(a)) = CodeRank(Owner(b)) /\ PosIn(Picked, a) > PosIn(Picked, b))

FreeSlots == LET used == Cardinality({u \in Uploads : st[u] \in Counted})
             IN IF slots > used THEN slots - used ELSE 0                   \* get_free_upload_slots

\* uploads[:free_upload_slots], then `if upload._transfer_task and not ...done(): continue` (571-575)
CodeGrants == SelectSeq(IF GrantAll THEN Prioritized ELSE SubSeq(Prioritized, 1, Min(FreeSlots, Len(Prioritized))),
                        LAMBDA u : ~tail[u])

\* manage_user_tracking (504-523): users with an unfinished transfer are (kept) watched, users whose transfers
\* are all finished are not watched any more for their transfers (a friend stays watched as a friend).
LastOf(o) == LET idx == {i \in DOMAIN order : Owner(order[i]) = o}
             IN order[CHOOSE i \in idx : \A j \in idx : j <= i]
WatchNeeded(o) == IF TrackPerUser THEN Unfinished(o)
                  ELSE st[LastOf(o)] \in {"QUEUED", "INITIALIZING", "UPLOADING", "PAUSED"}   \* broken variant
Dropped == {o \in Users : HasTransfers(o) /\ ~WatchNeeded(o) /\ ~friend[o] /\ watch[o] # "no"}
WatchAfterCycle == [o \in Users |-> IF HasTransfers(o) /\ WatchNeeded(o) /\ watch[o] = "no" THEN "asked"
                                     ELSE IF o \in Dropped THEN "no" ELSE watch[o]]

\* the management task runs: BackgroundTask.runner loops into _management_job.  With an item in the
\* queue nothing suspends between queue.get() and the final sleep (manage_user_tracking only enqueues
\* tracking requests), so the whole cycle is one step.  Without an item the task blocks in get().
MgmtStep ==
  /\ ready # <<>> /\ Head(ready) = 0
  /\ IF mq = 1
       THEN /\ mq' = 0 /\ flags' = {} /\ mpc' = "sleeping"
            /\ managed' = IF ManagedEveryCycle THEN slots ELSE managed
            /\ ready' = Tail(ready) \o CodeGrants
            /\ grantLim' = IF NumTasks(Tail(ready) \o CodeGrants) = 0 THEN 0
                           ELSE IF CodeGrants # <<>> THEN slots ELSE grantLim
            \* the tracking requests are served behind the cycle; the decision above used the old knowledge
            /\ watch' = WatchAfterCycle
            /\ status' = [o \in Users |-> IF o \in Dropped THEN "unknown" ELSE status[o]]
            /\ told' = ToldAfterForget(Dropped)
       ELSE /\ mpc' = "waiting" /\ ready' = Tail(ready)
            /\ UNCHANGED <<mq, flags, managed, grantLim, watch, status, told>>
  /\ UNCHANGED <<slots, friend, priv, st, order, tail, truth>>

\* asyncio.sleep(>= 0.05 s) ends: the timer's handle goes to the tail of the ready queue
TimerDue ==
  /\ mpc = "sleeping"
  /\ mpc' = "due" /\ ready' = Append(ready, 0)
  /\ UNCHANGED <<attrs, know, st, order, mq, flags, managed, grantLim, tail>>

\* the idle job's wait for a request times out (1 s): if the limit is not the one the last cycle used, a cycle runs
\* although nothing asked for one (_management_job 523-536)
Poll ==
  /\ SlotsChangeNotifies
  /\ mpc = "waiting" /\ mq = 0 /\ slots # managed
  /\ mq' = 1 /\ ready' = Append(ready, 0) /\ flags' = flags \cup {"transfer"}
  /\ managed' = IF ManagedEveryCycle THEN managed ELSE slots
  /\ UNCHANGED <<attrs, know, st, order, mpc, grantLim, tail>>

\* first step of _initialize_upload (887): `await transfer.state.initialize()`.  The transfer's lock is
\* free (state methods of an upload never hold it across a real wait while it is QUEUED), so the
\* transition happens in this step.  If the upload is not QUEUED any more initialize() returns False -
\* the code ignores that and goes on negotiating (see TaskOnlyQueued: unreachable here).
TaskFirstStep(u) ==
  /\ ready # <<>> /\ Head(ready) = u /\ u # 0
  /\ LET r == Tail(ready) IN
       IF st[u] = "QUEUED"
         THEN /\ st' = [st EXCEPT ![u] = "INITIALIZING"]
              /\ grantLim' = GrantLimAfter(r)
              /\ Notify(r)
         ELSE /\ NoReq(r) /\ grantLim' = GrantLimAfter(r) /\ UNCHANGED st
  /\ UNCHANGED <<attrs, know, order, tail>>

\* --- next-state relation: one named disjunct per action, so that TLC's labels carry the arguments ------
budgets == <<slotLeft, attrLeft, lifeLeft>>
Spend(left) == IF left = Unbounded THEN left' = left ELSE left > 0 /\ left' = left - 1
SpendLife == Spend(lifeLeft) /\ UNCHANGED <<slotLeft, attrLeft>>
SpendAttr == Spend(attrLeft) /\ UNCHANGED <<slotLeft, lifeLeft>>
SpendSlot == Spend(slotLeft) /\ UNCHANGED <<attrLeft, lifeLeft>>

Cycle == MgmtStep /\ UNCHANGED budgets
FirstStep(u) == TaskFirstStep(u) /\ UNCHANGED budgets
TailEnd(u) == TailEnds(u) /\ UNCHANGED budgets
LoopStep == Cycle \/ \E u \in Uploads : FirstStep(u)
\* a task that is in flight comes to an end (its waits are all bounded by timeouts)
TailStep == \E u \in Uploads : TailEnd(u)
TimerStep == TimerDue /\ UNCHANGED budgets
PollStep == Poll /\ UNCHANGED budgets

ERequest(u) == st[u] = "NONE" /\ QueueRequest(u) /\ UNCHANGED budgets
ERequeue(u) == st[u] # "NONE" /\ QueueRequest(u) /\ SpendLife
EResume(u) == Resume(u) /\ SpendLife
ENegotiated(u) == Negotiated(u) /\ SpendLife
EComplete(u) == Complete(u) /\ SpendLife
EFail(u) == Fail(u) /\ SpendLife
EBackToQueue(u) == BackToQueue(u) /\ SpendLife
EAbort(u) == Abort(u) /\ SpendLife
EPause(u) == Pause(u) /\ SpendLife
ESetSlots(n) == SetSlots(n) /\ SpendSlot
EStatus(o, s) == StatusChange(o, s) /\ SpendAttr
ETracked(o) == Tracked(o) /\ UNCHANGED budgets
EFriend(o) == FriendChange(o) /\ SpendAttr
EPriv(o) == PrivChange(o) /\ SpendAttr

Next ==
  \/ Cycle
  \/ TimerStep
  \/ PollStep
  \/ \E u \in Uploads : \/ FirstStep(u) \/ ERequest(u) \/ ERequeue(u) \/ EResume(u) \/ ENegotiated(u) \/ EComplete(u)
                         \/ EFail(u) \/ EBackToQueue(u) \/ EAbort(u) \/ EPause(u) \/ TailEnd(u)
  \/ \E n \in 0..MaxSlots : ESetSlots(n)
  \/ \E o \in Users : EFriend(o) \/ EPriv(o) \/ ETracked(o) \/ \E s \in Statuses : EStatus(o, s)

Spec == Init /\ [][Next]_vars
\* the event loop keeps running (ready handles are run, due timers fire); the environment owes nothing
FairSpec == Spec /\ WF_vars(LoopStep) /\ WF_vars(TimerStep) /\ WF_vars(TailStep) /\ WF_vars(PollStep)

----------------------------------------------------------------------------
\* Properties (from the statement of C05, not from the code)

TypeOK ==
  /\ slots \in 0..MaxSlots
  /\ status \in [Users -> Statuses] /\ friend \in [Users -> BOOLEAN] /\ priv \in [Users -> BOOLEAN]
  /\ truth \in [Users -> Statuses] /\ told \in [Users -> Statuses] /\ watch \in [Users -> {"no", "asked", "yes"}]
  /\ tail \in [Uploads -> BOOLEAN]
  /\ st \in [Uploads -> States]
  /\ managed \in 0..MaxSlots /\ mq \in 0..1 /\ mpc \in {"waiting", "sleeping", "due"} /\ flags \subseteq {"transfer"}
  /\ Len(ready) <= Cardinality(Uploads) + 1
  /\ \A i \in DOMAIN ready : ready[i] \in Uploads \cup {0}

\* uploads that become "being initialised or uploading" in this step
Starts == {u \in Uploads : st[u] \notin Active /\ st'[u] \in Active}
\* uploads that are handed a slot in this step (an initialize-upload task is created)
Granted == {u \in Uploads : TaskCount(ready', u) > TaskCount(ready, u)}

\* Whenever an upload starts, the uploads being initialised or uploading fit the limit - the current
\* one, or the one in force when the slot was handed out if the limit was lowered since ("for uploads
\* started after the limit took that value").
StartRespectsLimit ==
  [][Starts # {} => Cardinality(ActiveSet(st')) <= Max(slots', grantLim)]_vars

OnePerUser == \A o \in Users : Cardinality({u \in ActiveSet(st) : Owner(u) = o}) <= 1

\* offline users (going by what the server told, see `told`) never get a slot; and nothing starts that was
\* not handed a slot
NeverOffline ==
  [][/\ \A u \in Granted : told[Owner(u)] # "offline"
     /\ \A u \in Starts : TaskCount(ready, u) > 0]_vars

\* privileged > friend > online/away > unknown; ties are unconstrained
Rank(o) == IF priv[o] THEN 3 ELSE IF friend[o] THEN 2 ELSE IF told[o] \in {"online", "away"} THEN 1 ELSE 0

\* a queued upload whose user may be given a slot
Eligible(v) ==
  /\ st[v] = "QUEUED"
  /\ told[Owner(v)] # "offline"
  /\ \A w \in Uploads : Owner(w) = Owner(v) => st[w] \notin Active /\ TaskCount(ready, w) = 0

PriorityHolds ==
  [][\A u \in Granted : \A v \in Uploads :
        (/\ Eligible(v) /\ Owner(v) # Owner(u)
         /\ \A w \in Granted : Owner(w) # Owner(v))
        => Rank(Owner(u)) >= Rank(Owner(v))]_vars

\* a slot that is really free: not used, not promised to a task that has not yet run
FreeNow == slots > Cardinality(ActiveSet(st)) + NumTasks(ready)
Startable(v) == Eligible(v) /\ FreeNow

\* an eligible queued upload is started while a slot stays free
EventuallyStarted == \A v \in Uploads : Startable(v) ~> ~Startable(v)

\* --- model sanity (not part of C05's statement) -----------------------------------------------------
FlagsIffQueued == TrackMgmt => ((flags # {}) <=> (mq = 1))
WakeIffRunnable == TrackMgmt => (TaskCount(ready, 0) = IF mpc = "due" \/ (mpc = "waiting" /\ mq = 1) THEN 1 ELSE 0)
\* no second task for an upload whose first has not run, and a pending task's upload is still QUEUED:
\* two cycles can not both start the same upload (or the same user) before the first task's first step
NoDoubleTask == \A u \in Uploads : TaskCount(ready, u) <= 1
TaskOnlyQueued == \A u \in Uploads : TaskCount(ready, u) > 0 => st[u] = "QUEUED"
OneTaskPerUser == \A u, w \in Uploads : (u # w /\ Owner(u) = Owner(w)) => ~(TaskCount(ready, u) > 0 /\ TaskCount(ready, w) > 0)
\* a cycle leaves no startable upload behind
\* (unless a task still in flight stood in the way)
CycleFillsSlots == [][(mq = 1 /\ mq' = 0 /\ \A u \in Uploads : ~tail[u]) => \A v \in Uploads : ~(Startable(v))']_vars
\* what the client knows is what the statement goes by: nothing is forgotten while it matters
KnowledgeKept == \A o \in Users : Unfinished(o) => status[o] = told[o]
NoTaskWhileInFlight == \A u \in Uploads : ~(tail[u] /\ TaskCount(ready, u) > 0)
=============================================================================

---------------------------- MODULE UploadSlots ----------------------------
(***************************************************************************)
(* C05 - active uploads never exceed the slot limit or one per user;       *)
(* priority holds; an eligible queued upload is eventually started.        *)
(*                                                                         *)
(* Mirrors src/aioslsk/transfer/manager.py:                                *)
(*   _management_job / request_management_cycle (517-540), manage_transfers*)
(*   (542-567), _get_queued_transfers (596-647), _prioritize_uploads       *)
(*   (649-675), get_free_upload_slots (384-387), the first stretch of      *)
(*   _initialize_upload (887) and tasks.BackgroundTask.runner.             *)
(*                                                                         *)
(* The asyncio ready queue is part of the model (DESIGN appendix A): the   *)
(* management job's wake-ups and the first steps of the initialize-upload  *)
(* tasks are handles in one FIFO.  A task created by a cycle sits in front *)
(* of every later wake-up of the management job, so "the task runs before  *)
(* the 50 ms sleep ends" is a consequence of the queue, not an assumption. *)
(*                                                                         *)
(* Handles: 0 = wake-up of the management task, u > 0 = first step of the  *)
(* initialize-upload task of upload u.                                     *)
(*                                                                         *)
(* Environment steps (peers, server messages, the application changing     *)
(* settings or calling abort/pause/queue) are atomic and may happen        *)
(* between any two handles; finite budgets bound them in the exhaustive    *)
(* configurations (Unbounded = 99 switches a budget off).                  *)
(*                                                                         *)
(* Where the code deviates from C05 the deviation is a CONSTANT switch:    *)
(* SlotsChangeNotifies = FALSE is the code (assigning the limit requests   *)
(* no cycle): EventuallyStarted fails (MC_live_code.cfg), finding          *)
(* C05:set-upload-slots:raised-limit-not-applied.  TRUE is the repaired    *)
(* design (MC_live.cfg).  The other switches only serve to show that each  *)
(* property has teeth (MC_teeth_*.cfg).                                    *)
(***************************************************************************)
EXTENDS Naturals, Sequences, FiniteSets, TLC

CONSTANTS
  UploadIds,            \* set of upload ids (positive integers)
  PerUser,              \* upload u belongs to user ((u - 1) \div PerUser) + 1
  MaxSlots,             \* limits range over 0..MaxSlots
  InitSlots,            \* set of initial limits
  AnyInitAttr,          \* TRUE: any initial status/friend/privilege; FALSE: all unknown / not friend / not privileged
  Statuses,             \* subset of {"unknown", "offline", "away", "online"} containing "unknown"
  SlotBudget,           \* how many limit changes the environment makes   (Unbounded = no bound)
  AttrBudget,           \* how many status / friend / privilege changes
  LifeBudget,           \* how many life-cycle events (negotiated, complete, fail, back, abort, pause, resume, re-request)
  TrackMgmt,            \* TRUE: the management machinery is modelled; FALSE (trace spec): only the property-relevant core
  \* --- switches that put the model in the position of the code (or of a broken variant) ---
  GrantAll,             \* FALSE = uploads[:free_upload_slots]; TRUE = every eligible upload gets a task
  UseUploadingUsers,    \* TRUE = users with an INITIALIZING/UPLOADING upload are skipped
  CountInitializing,    \* TRUE = is_processing() counts INITIALIZING
  UseOfflineFilter,     \* TRUE = uploads of OFFLINE users are skipped
  WStatus, WFriend, WPriv,   \* rank weights of _prioritize_uploads (1, 5, 100)
  StateChangeNotifies,  \* TRUE = on_transfer_state_changed requests a management cycle
  SlotsChangeNotifies   \* FALSE = code: assigning settings.transfers.limits.upload_slots requests nothing

Uploads == UploadIds
Owner(u) == ((u - 1) \div PerUser) + 1
Users == {Owner(u) : u \in Uploads}

Unbounded == 99
States == {"NONE", "QUEUED", "INITIALIZING", "UPLOADING", "COMPLETE", "FAILED", "ABORTED", "PAUSED"}
Active == {"INITIALIZING", "UPLOADING"}

VARIABLES
  slots,      \* settings.transfers.limits.upload_slots
  status,     \* user -> status as the client knows it (User.status)
  friend,     \* user -> in settings.users.friends
  priv,       \* user -> User.privileged
  st,         \* upload -> state ("NONE": not asked for yet)
  order,      \* uploads in the order they were added to TransferManager._transfers
  ready,      \* the asyncio ready queue (handles, FIFO)
  mq,         \* items in _management_queue (maxsize 1)
  mpc,        \* management task: "waiting" (in queue.get), "sleeping" (timer pending), "due" (timer fired, wake-up in ready)
  flags,      \* _management_flags
  grantLim,   \* the limit the last granting cycle saw, while its tasks are still waiting for their first step (else 0)
  slotLeft, attrLeft, lifeLeft

attrs == <<slots, status, friend, priv>>
mgmt == <<mq, mpc, flags>>
vars == <<slots, status, friend, priv, st, order, ready, mq, mpc, flags, grantLim, slotLeft, attrLeft, lifeLeft>>

Max(a, b) == IF a >= b THEN a ELSE b
Min(a, b) == IF a <= b THEN a ELSE b

ActiveSet(s) == {u \in Uploads : s[u] \in Active}
TaskCount(r, u) == Cardinality({i \in DOMAIN r : r[i] = u})
NumTasks(r) == Cardinality({i \in DOMAIN r : r[i] # 0})
taskFor == [u \in Uploads |-> TaskCount(ready, u) > 0]     \* an initialize-upload task exists, first step not yet run
DropTask(r, u) == SelectSeq(r, LAMBDA h : h # u)

Init ==
  /\ slots \in InitSlots
  /\ IF AnyInitAttr
       THEN /\ status \in [Users -> Statuses] /\ friend \in [Users -> BOOLEAN] /\ priv \in [Users -> BOOLEAN]
       ELSE /\ status = [o \in Users |-> "unknown"] /\ friend = [o \in Users |-> FALSE] /\ priv = [o \in Users |-> FALSE]
  /\ st = [u \in Uploads |-> "NONE"]
  /\ order = <<>>
  /\ ready = <<>>
  /\ mq = 0 /\ mpc = "waiting" /\ flags = {}
  /\ grantLim = 0
  /\ slotLeft = SlotBudget /\ attrLeft = AttrBudget /\ lifeLeft = LifeBudget

----------------------------------------------------------------------------
\* request_management_cycle (535-540): set the flag, put_nowait, QueueFull is swallowed.  A put on the
\* empty queue of a task blocked in queue.get() schedules that task's wake-up; the item stays in
\* the queue (full) until the task really runs.  `r` is the ready queue after the caller's own effect.
Req(r) ==
  IF TrackMgmt
    THEN /\ flags' = flags \cup {"transfer"}
         /\ IF mq = 0
              THEN /\ mq' = 1
                   /\ ready' = IF mpc = "waiting" THEN Append(r, 0) ELSE r
              ELSE /\ mq' = mq /\ ready' = r
         /\ UNCHANGED mpc
    ELSE ready' = r /\ UNCHANGED mgmt

NoReq(r) == ready' = r /\ UNCHANGED mgmt

\* every state change reaches TransferManager.on_transfer_state_changed (1146-1149)
Notify(r) == IF StateChangeNotifies THEN Req(r) ELSE NoReq(r)

GrantLimAfter(r) == IF NumTasks(r) = 0 THEN 0 ELSE grantLim

\* upload u goes to state s by something else than its own task's first step.  Leaving QUEUED this
\* way is abort/pause (state.py: _cancel_transfer_tasks - a task that has not started never runs).
Change(u, s) ==
  LET r == DropTask(ready, u) IN
  /\ st' = [st EXCEPT ![u] = s]
  /\ order' = IF st[u] = "NONE" THEN Append(order, u) ELSE order
  /\ grantLim' = GrantLimAfter(r)
  /\ Notify(r)
  /\ UNCHANGED attrs

\* --- environment: peers and the user of the library ----------------------------------------------
\* _on_peer_transfer_queue (1167-1237): a new upload is added and queued; a FAILED / COMPLETE one is re-queued
QueueRequest(u) == st[u] \in {"NONE", "COMPLETE", "FAILED"} /\ Change(u, "QUEUED")
\* TransferManager.queue on a paused / aborted upload
Resume(u) == st[u] \in {"PAUSED", "ABORTED"} /\ Change(u, "QUEUED")
\* PeerTransferReply(allowed), file connection, offset received -> _upload_file: start_transferring
Negotiated(u) == st[u] = "INITIALIZING" /\ Change(u, "UPLOADING")
Complete(u) == st[u] = "UPLOADING" /\ Change(u, "COMPLETE")
\* reply not allowed (922-924) / write error while uploading (1027-1029)
Fail(u) == st[u] \in Active /\ Change(u, "FAILED")
\* request undeliverable, reply timeout, file connection failed, no offset (902-952)
BackToQueue(u) == st[u] = "INITIALIZING" /\ Change(u, "QUEUED")
Abort(u) == st[u] \in {"QUEUED", "INITIALIZING", "UPLOADING", "PAUSED"} /\ Change(u, "ABORTED")
Pause(u) == st[u] \in {"QUEUED", "INITIALIZING", "UPLOADING"} /\ Change(u, "PAUSED")

SetSlots(n) ==
  /\ n \in 0..MaxSlots /\ n # slots
  /\ slots' = n
  /\ IF SlotsChangeNotifies THEN Req(ready) ELSE NoReq(ready)
  /\ UNCHANGED <<status, friend, priv, st, order, grantLim>>

\* AddUser / GetUserStatus responses (user/manager.py 375-399); the transfer manager requests a cycle (1156-1165)
StatusChange(o, s) ==
  /\ s \in Statuses \ {"unknown"} /\ s # status[o]
  /\ status' = [status EXCEPT ![o] = s]
  /\ Req(ready)
  /\ UNCHANGED <<slots, friend, priv, st, order, grantLim>>

\* settings.users.friends is read at cycle time; nothing is requested by the change itself
FriendChange(o) ==
  /\ friend' = [friend EXCEPT ![o] = ~friend[o]]
  /\ NoReq(ready)
  /\ UNCHANGED <<slots, status, priv, st, order, grantLim>>

\* AddPrivilegedUser / PrivilegedUsers / GetUserStatus.privileged; the first two request nothing
PrivChange(o) ==
  /\ priv' = [priv EXCEPT ![o] = ~priv[o]]
  /\ NoReq(ready)
  /\ UNCHANGED <<slots, status, friend, st, order, grantLim>>

----------------------------------------------------------------------------
\* --- the management cycle: _get_queued_transfers + _prioritize_uploads + manage_transfers ---------
Counted == IF CountInitializing THEN Active ELSE {"UPLOADING"}            \* Transfer.is_processing
ProcessingUsers == {Owner(u) : u \in {x \in Uploads : st[x] \in Counted}}  \* uploading_users (602-605)

\* the loop of 610-631 over self._transfers, one queued upload per user
RECURSIVE Pick(_, _, _)
Pick(i, seen, acc) ==
  IF i > Len(order) THEN acc
  ELSE LET u == order[i]
           o == Owner(u) IN
       IF \/ UseOfflineFilter /\ status[o] = "offline"
          \/ UseUploadingUsers /\ o \in ProcessingUsers
          \/ o \in seen
         THEN Pick(i + 1, seen, acc)
         ELSE IF st[u] = "QUEUED" THEN Pick(i + 1, seen \cup {o}, Append(acc, u))
                                  ELSE Pick(i + 1, seen, acc)

Picked == Pick(1, {}, <<>>)

CodeRank(o) == (IF status[o] \in {"online", "away"} THEN WStatus ELSE 0)
             + (IF friend[o] THEN WFriend ELSE 0)
             + (IF priv[o] THEN WPriv ELSE 0)

PosIn(s, u) == CHOOSE i \in DOMAIN s : s[i] = u

\* ranking.sort(key=rank) is stable; reversed(): descending rank, equal ranks in reverse pick order
Prioritized ==
  SortSeq(Picked, LAMBDA a, b : \/ CodeRank(Owner(a)) > CodeRank(Owner(b))
                                \/ CodeRank(Owner(a)) = CodeRank(Owner(b)) /\ PosIn(Picked, a) > PosIn(Picked, b))

FreeSlots == LET used == Cardinality({u \in Uploads : st[u] \in Counted})
             IN IF slots > used THEN slots - used ELSE 0                   \* get_free_upload_slots

CodeGrants == IF GrantAll THEN Prioritized ELSE SubSeq(Prioritized, 1, Min(FreeSlots, Len(Prioritized)))

\* the management task runs: BackgroundTask.runner loops into _management_job.  With an item in the
\* queue nothing suspends between queue.get() and the final sleep (manage_user_tracking only enqueues
\* tracking requests), so the whole cycle is one step.  Without an item the task blocks in get().
MgmtStep ==
  /\ ready # <<>> /\ Head(ready) = 0
  /\ IF mq = 1
       THEN /\ mq' = 0 /\ flags' = {} /\ mpc' = "sleeping"
            /\ ready' = Tail(ready) \o CodeGrants
            /\ grantLim' = IF NumTasks(Tail(ready) \o CodeGrants) = 0 THEN 0
                           ELSE IF CodeGrants # <<>> THEN slots ELSE grantLim
       ELSE /\ mpc' = "waiting" /\ ready' = Tail(ready)
            /\ UNCHANGED <<mq, flags, grantLim>>
  /\ UNCHANGED <<attrs, st, order>>

\* asyncio.sleep(>= 0.05 s) ends: the timer's handle goes to the tail of the ready queue
TimerDue ==
  /\ mpc = "sleeping"
  /\ mpc' = "due" /\ ready' = Append(ready, 0)
  /\ UNCHANGED <<attrs, st, order, mq, flags, grantLim>>

\* first step of _initialize_upload (887): `await transfer.state.initialize()`.  The transfer's lock is
\* free (state methods of an upload never hold it across a real wait while it is QUEUED), so the
\* transition happens in this step.  If the upload is not QUEUED any more initialize() returns False -
\* the code ignores that and goes on negotiating (see TaskOnlyQueued: unreachable here).
TaskFirstStep(u) ==
  /\ ready # <<>> /\ Head(ready) = u /\ u # 0
  /\ LET r == Tail(ready) IN
       IF st[u] = "QUEUED"
         THEN /\ st' = [st EXCEPT ![u] = "INITIALIZING"]
              /\ grantLim' = GrantLimAfter(r)
              /\ Notify(r)
         ELSE /\ NoReq(r) /\ grantLim' = GrantLimAfter(r) /\ UNCHANGED st
  /\ UNCHANGED <<attrs, order>>

\* --- next-state relation: one named disjunct per action, so that TLC's labels carry the arguments ------
budgets == <<slotLeft, attrLeft, lifeLeft>>
Spend(left) == IF left = Unbounded THEN left' = left ELSE left > 0 /\ left' = left - 1
SpendLife == Spend(lifeLeft) /\ UNCHANGED <<slotLeft, attrLeft>>
SpendAttr == Spend(attrLeft) /\ UNCHANGED <<slotLeft, lifeLeft>>
SpendSlot == Spend(slotLeft) /\ UNCHANGED <<attrLeft, lifeLeft>>

Cycle == MgmtStep /\ UNCHANGED budgets
FirstStep(u) == TaskFirstStep(u) /\ UNCHANGED budgets
LoopStep == Cycle \/ \E u \in Uploads : FirstStep(u)
TimerStep == TimerDue /\ UNCHANGED budgets

ERequest(u) == st[u] = "NONE" /\ QueueRequest(u) /\ UNCHANGED budgets
ERequeue(u) == st[u] # "NONE" /\ QueueRequest(u) /\ SpendLife
EResume(u) == Resume(u) /\ SpendLife
ENegotiated(u) == Negotiated(u) /\ SpendLife
EComplete(u) == Complete(u) /\ SpendLife
EFail(u) == Fail(u) /\ SpendLife
EBackToQueue(u) == BackToQueue(u) /\ SpendLife
EAbort(u) == Abort(u) /\ SpendLife
EPause(u) == Pause(u) /\ SpendLife
ESetSlots(n) == SetSlots(n) /\ SpendSlot
EStatus(o, s) == StatusChange(o, s) /\ SpendAttr
EFriend(o) == FriendChange(o) /\ SpendAttr
EPriv(o) == PrivChange(o) /\ SpendAttr

Next ==
  \/ Cycle
  \/ TimerStep
  \/ \E u \in Uploads : \/ FirstStep(u) \/ ERequest(u) \/ ERequeue(u) \/ EResume(u) \/ ENegotiated(u) \/ EComplete(u)
                         \/ EFail(u) \/ EBackToQueue(u) \/ EAbort(u) \/ EPause(u)
  \/ \E n \in 0..MaxSlots : ESetSlots(n)
  \/ \E o \in Users : EFriend(o) \/ EPriv(o) \/ \E s \in Statuses : EStatus(o, s)

Spec == Init /\ [][Next]_vars
\* the event loop keeps running (ready handles are run, due timers fire); the environment owes nothing
FairSpec == Spec /\ WF_vars(LoopStep) /\ WF_vars(TimerStep)

----------------------------------------------------------------------------
\* Properties (from the statement of C05, not from the code)

TypeOK ==
  /\ slots \in 0..MaxSlots
  /\ status \in [Users -> Statuses] /\ friend \in [Users -> BOOLEAN] /\ priv \in [Users -> BOOLEAN]
  /\ st \in [Uploads -> States]
  /\ mq \in 0..1 /\ mpc \in {"waiting", "sleeping", "due"} /\ flags \subseteq {"transfer"}
  /\ Len(ready) <= Cardinality(Uploads) + 1
  /\ \A i \in DOMAIN ready : ready[i] \in Uploads \cup {0}

\* uploads that become "being initialised or uploading" in this step
Starts == {u \in Uploads : st[u] \notin Active /\ st'[u] \in Active}
\* uploads that are handed a slot in this step (an initialize-upload task is created)
Granted == {u \in Uploads : TaskCount(ready', u) > TaskCount(ready, u)}

\* Whenever an upload starts, the uploads being initialised or uploading fit the limit - the current
\* one, or the one in force when the slot was handed out if the limit was lowered since ("for uploads
\* started after the limit took that value").
StartRespectsLimit ==
  [][Starts # {} => Cardinality(ActiveSet(st')) <= Max(slots', grantLim)]_vars

OnePerUser == \A o \in Users : Cardinality({u \in ActiveSet(st) : Owner(u) = o}) <= 1

\* offline users never get a slot; and nothing starts that was not handed a slot
NeverOffline ==
  [][/\ \A u \in Granted : status[Owner(u)] # "offline"
     /\ \A u \in Starts : TaskCount(ready, u) > 0]_vars

\* privileged > friend > online/away > unknown; ties are unconstrained
Rank(o) == IF priv[o] THEN 3 ELSE IF friend[o] THEN 2 ELSE IF status[o] \in {"online", "away"} THEN 1 ELSE 0

\* a queued upload whose user may be given a slot
Eligible(v) ==
  /\ st[v] = "QUEUED"
  /\ status[Owner(v)] # "offline"
  /\ \A w \in Uploads : Owner(w) = Owner(v) => st[w] \notin Active /\ TaskCount(ready, w) = 0

PriorityHolds ==
  [][\A u \in Granted : \A v \in Uploads :
        (/\ Eligible(v) /\ Owner(v) # Owner(u)
         /\ \A w \in Granted : Owner(w) # Owner(v))
        => Rank(Owner(u)) >= Rank(Owner(v))]_vars

\* a slot that is really free: not used, not promised to a task that has not yet run
FreeNow == slots > Cardinality(ActiveSet(st)) + NumTasks(ready)
Startable(v) == Eligible(v) /\ FreeNow

\* an eligible queued upload is started while a slot stays free
EventuallyStarted == \A v \in Uploads : Startable(v) ~> ~Startable(v)

\* --- model sanity (not part of C05's statement) -----------------------------------------------------
FlagsIffQueued == TrackMgmt => ((flags # {}) <=> (mq = 1))
WakeIffRunnable == TrackMgmt => (TaskCount(ready, 0) = IF mpc = "due" \/ (mpc = "waiting" /\ mq = 1) THEN 1 ELSE 0)
\* no second task for an upload whose first has not run, and a pending task's upload is still QUEUED:
\* two cycles can not both start the same upload (or the same user) before the first task's first step
NoDoubleTask == \A u \in Uploads : TaskCount(ready, u) <= 1
TaskOnlyQueued == \A u \in Uploads : TaskCount(ready, u) > 0 => st[u] = "QUEUED"
OneTaskPerUser == \A u, w \in Uploads : (u # w /\ Owner(u) = Owner(w)) => ~(TaskCount(ready, u) > 0 /\ TaskCount(ready, w) > 0)
\* a cycle leaves no startable upload behind
CycleFillsSlots == [][(mq = 1 /\ mq' = 0) => \A v \in Uploads : ~(Startable(v))']_vars
=============================================================================

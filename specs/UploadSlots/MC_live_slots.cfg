\* teeth (defect C05-1, fixed in fbca5b4): a limit change that leads to no cycle violates EventuallyStarted.
SPECIFICATION FairSpec
CONSTANTS
  UploadIds = {1}
  PerUser = 2
  MaxSlots = 1
  InitSlots = {0}
  InitTruth = {"unknown"}
  AnyInitAttr = FALSE
  Statuses = {"unknown", "offline", "away", "online"}
  SlotBudget = 1
  AttrBudget = 0
  LifeBudget = 0
  TrackMgmt = TRUE
  GrantAll = FALSE
  UseUploadingUsers = TRUE
  CountInitializing = TRUE
  UseOfflineFilter = TRUE
  WStatus = 1
  WFriend = 5
  WPriv = 100
  StateChangeNotifies = TRUE
  SlotsChangeNotifies = FALSE
  ManagedEveryCycle = TRUE
  TaskEndNotifies = TRUE
  RequeueTail = FALSE
  TrackPerUser = TRUE
PROPERTY EventuallyStarted
CHECK_DEADLOCK FALSE

\* simulation only: 5 users, 8 uploads, limits 0..4, plain start.
SPECIFICATION Spec
CONSTANTS
  UploadIds = {1, 2, 3, 5, 6, 7, 9, 10}
  PerUser = 2
  MaxSlots = 4
  InitSlots = {1, 2, 4}
  InitTruth = {"unknown", "offline", "online"}
  AnyInitAttr = FALSE
  Statuses = {"unknown", "offline", "away", "online"}
  SlotBudget = 99
  AttrBudget = 99
  LifeBudget = 99
  TrackMgmt = TRUE
  GrantAll = FALSE
  UseUploadingUsers = TRUE
  CountInitializing = TRUE
  UseOfflineFilter = TRUE
  WStatus = 1
  WFriend = 5
  WPriv = 100
  StateChangeNotifies = TRUE
  SlotsChangeNotifies = TRUE
  ManagedEveryCycle = TRUE
  TaskEndNotifies = FALSE
  RequeueTail = FALSE
  TrackPerUser = TRUE
INVARIANT TypeOK
INVARIANT OnePerUser
INVARIANT FlagsIffQueued
INVARIANT WakeIffRunnable
INVARIANT NoDoubleTask
INVARIANT TaskOnlyQueued
INVARIANT OneTaskPerUser
INVARIANT KnowledgeKept
INVARIANT NoTaskWhileInFlight
PROPERTY StartRespectsLimit
PROPERTY NeverOffline
PROPERTY PriorityHolds
PROPERTY CycleFillsSlots
CHECK_DEADLOCK FALSE

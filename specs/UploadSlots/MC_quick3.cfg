\* thorough, exhaustive: 2 users, 3 uploads (user 1 has two), limit 1 changed once, unbounded life cycles, plain attributes.
SPECIFICATION Spec
CONSTANTS
  UploadIds = {1, 2, 3}
  PerUser = 2
  MaxSlots = 2
  InitSlots = {1}
  InitTruth = {"unknown"}
  AnyInitAttr = FALSE
  Statuses = {"unknown", "offline", "away", "online"}
  SlotBudget = 1
  AttrBudget = 0
  LifeBudget = 99
  TrackMgmt = TRUE
  GrantAll = FALSE
  UseUploadingUsers = TRUE
  CountInitializing = TRUE
  UseOfflineFilter = TRUE
  WStatus = 1
  WFriend = 5
  WPriv = 100
  StateChangeNotifies = TRUE
  SlotsChangeNotifies = TRUE
  ManagedEveryCycle = TRUE
  TaskEndNotifies = FALSE
  RequeueTail = FALSE
  TrackPerUser = TRUE
INVARIANT TypeOK
INVARIANT OnePerUser
INVARIANT FlagsIffQueued
INVARIANT WakeIffRunnable
INVARIANT NoDoubleTask
INVARIANT TaskOnlyQueued
INVARIANT OneTaskPerUser
INVARIANT KnowledgeKept
INVARIANT NoTaskWhileInFlight
PROPERTY StartRespectsLimit
PROPERTY NeverOffline
PROPERTY PriorityHolds
PROPERTY CycleFillsSlots
CHECK_DEADLOCK FALSE

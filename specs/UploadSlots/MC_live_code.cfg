\* liveness with every switch in the position of the code BEFORE fix 9f39a0c (TaskEndNotifies = FALSE): EventuallyStarted is violated; the
\* counterexample re-queues an upload whose old task is still in flight, the cycle skips it, the task ends, nothing follows.
SPECIFICATION FairSpec
CONSTANTS
  UploadIds = {1}
  PerUser = 2
  MaxSlots = 1
  InitSlots = {1}
  InitTruth = {"unknown"}
  AnyInitAttr = FALSE
  Statuses = {"unknown", "offline", "away", "online"}
  SlotBudget = 0
  AttrBudget = 0
  LifeBudget = 3
  TrackMgmt = TRUE
  GrantAll = FALSE
  UseUploadingUsers = TRUE
  CountInitializing = TRUE
  UseOfflineFilter = TRUE
  WStatus = 1
  WFriend = 5
  WPriv = 100
  StateChangeNotifies = TRUE
  SlotsChangeNotifies = TRUE
  ManagedEveryCycle = TRUE
  TaskEndNotifies = FALSE
  RequeueTail = FALSE
  TrackPerUser = TRUE
PROPERTY EventuallyStarted
CHECK_DEADLOCK FALSE

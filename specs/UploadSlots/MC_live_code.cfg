\* liveness with every switch in the position of the CODE: EventuallyStarted is violated, the counterexample
\* ends with the limit being raised and nothing requesting a cycle (finding C05:set-upload-slots:raised-limit-not-applied).
SPECIFICATION FairSpec
CONSTANTS
  UploadIds = {1}
  PerUser = 2
  MaxSlots = 1
  InitSlots = {0}
  AnyInitAttr = FALSE
  Statuses = {"unknown", "offline", "away", "online"}
  SlotBudget = 1
  AttrBudget = 0
  LifeBudget = 0
  TrackMgmt = TRUE
  GrantAll = FALSE
  UseUploadingUsers = TRUE
  CountInitializing = TRUE
  UseOfflineFilter = TRUE
  WStatus = 1
  WFriend = 5
  WPriv = 100
  StateChangeNotifies = TRUE
  SlotsChangeNotifies = FALSE
PROPERTY EventuallyStarted
CHECK_DEADLOCK FALSE

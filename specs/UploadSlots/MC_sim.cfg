\* simulation only (not exhaustive): 4 users, 7 uploads, limits 0..3, plain start, every attribute changes, no budgets.
SPECIFICATION Spec
CONSTANTS
  UploadIds = {1, 2, 3, 4, 5, 7, 8}
  PerUser = 2
  MaxSlots = 3
  InitSlots = {0, 1, 2, 3}
  InitTruth = {"unknown", "offline", "online"}
  AnyInitAttr = FALSE
  Statuses = {"unknown", "offline", "away", "online"}
  SlotBudget = 99
  AttrBudget = 99
  LifeBudget = 99
  TrackMgmt = TRUE
  GrantAll = FALSE
  UseUploadingUsers = TRUE
  CountInitializing = TRUE
  UseOfflineFilter = TRUE
  WStatus = 1
  WFriend = 5
  WPriv = 100
  StateChangeNotifies = TRUE
  SlotsChangeNotifies = TRUE
  ManagedEveryCycle = TRUE
  TaskEndNotifies = FALSE
  RequeueTail = FALSE
  TrackPerUser = TRUE
INVARIANT TypeOK
INVARIANT OnePerUser
INVARIANT FlagsIffQueued
INVARIANT WakeIffRunnable
INVARIANT NoDoubleTask
INVARIANT TaskOnlyQueued
INVARIANT OneTaskPerUser
INVARIANT KnowledgeKept
INVARIANT NoTaskWhileInFlight
PROPERTY StartRespectsLimit
PROPERTY NeverOffline
PROPERTY PriorityHolds
PROPERTY CycleFillsSlots
CHECK_DEADLOCK FALSE

------------------------- MODULE UploadSlotsTrace -------------------------
(***************************************************************************)
(* Trace validation for C05: executions of a real SoulSeekClient (real     *)
(* TransferManager, UserManager, SharesManager, Network) against scripted  *)
(* peers, recorded by harness/props/c05.py, are checked against            *)
(* UploadSlots.                                                            *)
(*                                                                         *)
(* Records (JSON).  Every record has t (virtual time, microseconds since   *)
(* the start of the scenario), slots and users = <<[f, p], ...>> (what     *)
(* settings.users.friends / User.privileged say for user 1, 2, ... right   *)
(* after the event).                                                       *)
(*   init : told          first record; told = statuses the server has     *)
(*                        told so far                                      *)
(*   st   : u, old, new, busy   a TransferStateListener of upload u was    *)
(*                        told; busy: a task of this upload other than the *)
(*                        one making the change is in flight               *)
(*   attr                 the limit, a friend or a privilege changed       *)
(*   told : o, s          the client received the status of user o from    *)
(*                        the server (AddUser / GetUserStatus response)    *)
(*   forget : o           the client told the server to stop watching user *)
(*                        o (RemoveUser)                                   *)
(*   call : u             the application called abort() / pause() for     *)
(*   ret  : u             upload u / that call returned.  In between the   *)
(*                        upload is on its way out: it is no candidate for *)
(*                        a slot (the cycle skips transfers whose state    *)
(*                        change is in progress)                           *)
(*   req  : u             a PeerTransferRequest for upload u left the      *)
(*                        uploader                                         *)
(*   end                  the scenario was left alone for more than Bound  *)
(*                                                                         *)
(* A user's status is what the server told the client (variable `told`);   *)
(* after a `forget` it is unknown again only if the user has no unfinished *)
(* upload at that moment - what the client's own User object says is not   *)
(* consulted, so forgetting a user too early does not excuse anything.     *)
(*                                                                         *)
(* Only what C05 constrains is constrained: which uploads start when.  The *)
(* management machinery (queue, flags, sleeps) is NOT part of the trace    *)
(* spec (TrackMgmt = FALSE).  The one unobservable step is the decision to *)
(* hand out slots; it is the silent action TGrant, which may choose ANY    *)
(* sequence of queued uploads - the properties of UploadSlots, used as     *)
(* constraints, decide whether that choice was acceptable.  A hand-out and *)
(* the starts it causes happen at one instant of virtual time.             *)
(*                                                                         *)
(* "Eventually started" is checked in its bounded-time form: no upload is  *)
(* startable (eligible user, free slot) for longer than Bound.             *)
(***************************************************************************)
EXTENDS UploadSlots, Integers, Json, IOUtils

CONSTANT Bound          \* microseconds

Traces == JsonDeserialize(IOEnv.TRACE_FILE)

VARIABLES tid, l, now, reqSeen, leaving, stallSince, cause, why, culprit, marks

tvars == <<vars, tid, l, now, reqSeen, leaving, stallSince, cause, why, culprit, marks>>

T == Traces[tid]
Rec == T[l]

\* users are 1..N in the design spec and in the log
FriendOf(rec, o) == IF o <= Len(rec.users) THEN rec.users[o][1] ELSE FALSE
PrivOf(rec, o) == IF o <= Len(rec.users) THEN rec.users[o][2] ELSE FALSE

AttrsFrom(rec) ==
  /\ slots' = rec.slots
  /\ friend' = [o \in Users |-> FriendOf(rec, o)]
  /\ priv' = [o \in Users |-> PrivOf(rec, o)]

AttrsAgree(rec) ==
  /\ slots = rec.slots
  /\ \A o \in Users : friend[o] = FriendOf(rec, o) /\ priv[o] = PrivOf(rec, o)

\* in the trace spec the client's own knowledge is not a separate thing: status = told
SetTold(f) == told' = f /\ status' = f /\ UNCHANGED <<truth, watch>>

TInit ==
  /\ tid \in 1..Len(Traces)
  /\ l = 2
  /\ Len(Traces[tid]) >= 1 /\ Traces[tid][1].ev = "init"
  /\ slots = Traces[tid][1].slots
  /\ told = [o \in Users |-> IF o <= Len(Traces[tid][1].told) THEN Traces[tid][1].told[o] ELSE "unknown"]
  /\ status = told
  /\ truth = told
  /\ watch = [o \in Users |-> "no"]
  /\ tail = [u \in Uploads |-> FALSE]
  /\ friend = [o \in Users |-> FriendOf(Traces[tid][1], o)]
  /\ priv = [o \in Users |-> PrivOf(Traces[tid][1], o)]
  /\ st = [u \in Uploads |-> "NONE"]
  /\ order = <<>>
  /\ ready = <<>>
  /\ mq = 0 /\ mpc = "waiting" /\ flags = {} /\ managed = slots
  /\ grantLim = 0
  /\ slotLeft = 0 /\ attrLeft = 0 /\ lifeLeft = 0
  /\ now = Traces[tid][1].t
  /\ reqSeen = {}
  /\ leaving = {}
  /\ stallSince = -1
  /\ cause = "none"
  /\ why = [u \in Uploads |-> <<"none", FALSE>>]
  /\ culprit = "none"
  /\ marks = {}

IsEv(e) == l <= Len(T) /\ Rec.ev = e

\* Virtual time never runs backwards, and it does not advance while a hand-out has not been followed
\* by its starts (the first step of a created task is already in the ready queue).
\* Time advances in a step of its own (TAdvance), so that a stall is judged at the new time BEFORE the event at that
\* time can end it.
TimeOK(t) == t = now

\* stall bookkeeping: since when has some upload been startable, and which kind of event made it so
\* An upload whose abort / pause is under way is no candidate.  While such an upload is still QUEUED it may have been
\* the one of its user that was handed the slot (one per user, the first queued one) - a hand-out that never shows,
\* because the abort / pause cancels the task before its first step; so the user's other uploads are no candidates
\* either until the call has returned.
OnTheWayOut(v) == \/ v \in leaving
                  \/ \E w \in leaving : Owner(w) = Owner(v) /\ st[w] = "QUEUED"
EligibleT(v) == Eligible(v) /\ ~OnTheWayOut(v)
SomeStartable == \E v \in Uploads : Startable(v) /\ ~OnTheWayOut(v)
\* For the report: `cause` is the kind of event that began the stall, `culprit` the last change of the (lowest)
\* upload that is startable and is not started.
Stall(kind) ==
  /\ IF SomeStartable'
       THEN IF SomeStartable THEN UNCHANGED <<stallSince, cause>>
                             ELSE stallSince' = now' /\ cause' = kind
       ELSE stallSince' = -1 /\ cause' = "none"
  /\ culprit' = IF SomeStartable'
                  THEN LET c == {v \in Uploads : (Startable(v) /\ ~OnTheWayOut(v))'}
                           b == {v \in c : why'[v][2]}          \* ... preferably one whose own task was in the way
                           d == IF b # {} THEN b ELSE c
                       IN why'[CHOOSE v \in d : \A w \in d : v <= w][1]
                  ELSE "none"

Consume == l' = l + 1 /\ now' = Rec.t /\ UNCHANGED <<tid, marks>>
Keep == UNCHANGED leaving
KeepWhy == UNCHANGED why

Old(s) == IF s = "VIRGIN" THEN "NONE" ELSE s

\* a state listener was told (old, new) for upload u
TSt ==
  /\ IsEv("st")
  /\ TimeOK(Rec.t)
  /\ Rec.u \in Uploads
  /\ LET u == Rec.u IN
       /\ st[u] = Old(Rec.old)
       /\ AttrsAgree(Rec)
       /\ \/ TaskFirstStep(u)
          \/ QueueRequest(u) \/ Resume(u) \/ Negotiated(u) \/ Complete(u) \/ Fail(u) \/ BackToQueue(u)
          \/ Abort(u) \/ Pause(u)
          \* any other change that does not make the upload active is none of C05's business (C03 judges edges)
          \/ (Rec.new \notin Active /\ Rec.new # "NONE" /\ Change(u, Rec.new, "keep"))
       /\ st'[u] = Rec.new
       /\ reqSeen' = IF Rec.new = "INITIALIZING" THEN reqSeen ELSE reqSeen \ {u}
  /\ UNCHANGED budgets
  /\ Consume /\ Keep
  /\ why' = [why EXCEPT ![Rec.u] = <<"st:" \o Rec.old \o "->" \o Rec.new \o (IF Rec.busy THEN ":task-in-flight" ELSE ""),
                                      Rec.busy>>]
  /\ Stall("st:" \o Rec.old \o "->" \o Rec.new \o (IF Rec.busy THEN ":task-in-flight" ELSE ""))

\* the limit or a user attribute changed
TAttr ==
  /\ IsEv("attr")
  /\ TimeOK(Rec.t)
  /\ AttrsFrom(Rec)
  /\ UNCHANGED <<status, know, st, order, ready, mgmt, grantLim, tail, budgets, reqSeen>>
  /\ Consume /\ Keep /\ KeepWhy
  /\ Stall(IF Rec.slots > slots THEN "slots-raised" ELSE "attr")

\* the server told the client the status of a user
TTold ==
  /\ IsEv("told")
  /\ TimeOK(Rec.t)
  /\ Rec.o \in Users /\ Rec.s \in Statuses
  /\ AttrsAgree(Rec)
  /\ SetTold([told EXCEPT ![Rec.o] = Rec.s])
  /\ UNCHANGED <<slots, friend, priv, st, order, ready, mgmt, grantLim, tail, budgets, reqSeen>>
  /\ Consume /\ Keep /\ KeepWhy
  /\ Stall("told-" \o Rec.s)

\* the client has the server stop watching a user: what was told is void only if the user has no
\* unfinished upload (UploadSlots!ToldAfterForget)
TForget ==
  /\ IsEv("forget")
  /\ TimeOK(Rec.t)
  /\ Rec.o \in Users
  /\ AttrsAgree(Rec)
  /\ SetTold(ToldAfterForget({Rec.o}))
  /\ UNCHANGED <<slots, friend, priv, st, order, ready, mgmt, grantLim, tail, budgets, reqSeen>>
  /\ Consume /\ Keep /\ KeepWhy
  /\ Stall("forget")

\* a PeerTransferRequest left the uploader: only for an upload that is being initialised, once
TReq ==
  /\ IsEv("req")
  /\ TimeOK(Rec.t)
  /\ Rec.u \in Uploads
  /\ st[Rec.u] = "INITIALIZING"
  /\ Rec.u \notin reqSeen
  /\ reqSeen' = reqSeen \cup {Rec.u}
  /\ UNCHANGED <<vars, stallSince, cause, why, culprit>>
  /\ Consume /\ Keep

TEnd ==
  /\ IsEv("end")
  /\ TimeOK(Rec.t)
  /\ UNCHANGED <<vars, reqSeen, stallSince, cause, why, culprit>>
  /\ Consume /\ Keep

\* the application asks for upload u to be aborted / paused; the call returns
TCall ==
  /\ IsEv("call")
  /\ TimeOK(Rec.t)
  /\ leaving' = leaving \cup {Rec.u}
  /\ UNCHANGED <<vars, reqSeen, why>>
  /\ Consume
  /\ Stall("call")

TRet ==
  /\ IsEv("ret")
  /\ TimeOK(Rec.t)
  /\ leaving' = leaving \ {Rec.u}
  /\ UNCHANGED <<vars, reqSeen, why>>
  /\ Consume
  /\ Stall("ret")

\* uploads that start (QUEUED -> INITIALIZING) in the records from l on that carry the same time stamp
RECURSIVE InitsFrom(_, _)
InitsFrom(i, t) ==
  IF i > Len(T) \/ T[i].t # t THEN <<>>
  ELSE IF T[i].ev = "st" /\ T[i].new = "INITIALIZING" THEN <<T[i].u>> \o InitsFrom(i + 1, t)
       ELSE InitsFrom(i + 1, t)

\* silent: slots are handed to a sequence of queued uploads (the management cycle's decision).  The
\* sequence is free; since a hand-out is followed by its starts at the same instant, it is a prefix of
\* the starts recorded for this instant.
TGrant ==
  /\ l <= Len(T)
  /\ TimeOK(Rec.t)
  /\ LET inits == InitsFrom(l, Rec.t) IN
     \E n \in 1..Len(inits) :
       LET perm == SubSeq(inits, 1, n) IN
         /\ \A i \in 1..n : perm[i] \in Uploads /\ st[perm[i]] = "QUEUED" /\ TaskCount(ready, perm[i]) = 0
         /\ \A i, j \in 1..n : i # j => perm[i] # perm[j]
         /\ ready' = ready \o perm
         /\ grantLim' = slots
  /\ now' = Rec.t
  /\ UNCHANGED <<attrs, know, st, order, mgmt, tail, budgets, tid, l, reqSeen, leaving, why, marks>>
  /\ Stall("grant")

\* silent: virtual time moves on to the time stamp of the next record
TAdvance ==
  /\ l <= Len(T)
  /\ Rec.t > now /\ NumTasks(ready) = 0
  /\ now' = Rec.t
  /\ UNCHANGED <<vars, tid, l, reqSeen, leaving, stallSince, cause, why, culprit, marks>>

Done ==
  /\ l = Len(T) + 1
  /\ NumTasks(ready) = 0
  /\ PrintT(<<"ACCEPT", tid, marks>>)
  /\ l' = l + 1
  /\ UNCHANGED <<vars, tid, now, reqSeen, leaving, stallSince, cause, why, culprit, marks>>

Finished == l = Len(T) + 2 /\ UNCHANGED tvars

TNext == TAdvance \/ TSt \/ TAttr \/ TTold \/ TForget \/ TCall \/ TRet \/ TReq \/ TEnd \/ TGrant \/ Done \/ Finished

TSpec == TInit /\ [][TNext]_tvars

----------------------------------------------------------------------------
\* the properties of UploadSlots as constraints (a path that breaks one is cut, see harness/tlc.py)
StartRespectsLimitC == Starts # {} => Cardinality(ActiveSet(st')) <= Max(slots', grantLim)
NeverOfflineC ==
  /\ \A u \in Granted : told[Owner(u)] # "offline"
  /\ \A u \in Starts : TaskCount(ready, u) > 0
PriorityHoldsC ==
  \A u \in Granted : \A v \in Uploads :
     (/\ EligibleT(v) /\ Owner(v) # Owner(u)
      /\ \A w \in Granted : Owner(w) # Owner(v))
     => Rank(Owner(u)) >= Rank(Owner(v))

\* bounded-time form of EventuallyStarted
EventuallyStartedB == stallSince >= 0 => now - stallSince <= Bound

\* the same as temporal formulas for TraceDiag.cfg
StartRespectsLimitT == [][StartRespectsLimitC]_tvars
NeverOfflineT == [][NeverOfflineC]_tvars
PriorityHoldsT == [][PriorityHoldsC]_tvars
=============================================================================

------------------------- MODULE UploadSlotsTrace -------------------------
(***************************************************************************)
(* Trace validation for C05: executions of a real SoulSeekClient (real     *)
(* TransferManager, UserManager, SharesManager, Network) against scripted  *)
(* peers, recorded by harness/props/c05.py, are checked against            *)
(* UploadSlots.                                                            *)
(*                                                                         *)
(* Records (JSON).  Every record has t (virtual time, microseconds since   *)
(* the start of the scenario), slots and users = <<[s, f, p], ...>> (what  *)
(* User.status / settings.users.friends / User.privileged say for user     *)
(* 1, 2, ... right after the event).                                       *)
(*   init                 first record                                     *)
(*   st   : u, old, new   a TransferStateListener of upload u was told     *)
(*   attr                 the limit or a user attribute changed            *)
(*   req  : u             a PeerTransferRequest for upload u left the      *)
(*                        uploader                                         *)
(*   end                  the scenario was left alone for more than Bound  *)
(*                                                                         *)
(* Only what C05 constrains is constrained: which uploads start when.  The *)
(* management machinery (queue, flags, sleeps) is NOT part of the trace    *)
(* spec (TrackMgmt = FALSE).  The one unobservable step is the decision to *)
(* hand out slots; it is the silent action TGrant, which may choose ANY    *)
(* sequence of queued uploads - the properties of UploadSlots, used as     *)
(* constraints, decide whether that choice was acceptable.  A hand-out and *)
(* the starts it causes happen at one instant of virtual time.             *)
(*                                                                         *)
(* "Eventually started" is checked in its bounded-time form: no upload is  *)
(* startable (eligible user, free slot) for longer than Bound.             *)
(***************************************************************************)
EXTENDS UploadSlots, Integers, Json, IOUtils

CONSTANT Bound          \* microseconds

Traces == JsonDeserialize(IOEnv.TRACE_FILE)

VARIABLES tid, l, now, reqSeen, stallSince, cause, marks

tvars == <<vars, tid, l, now, reqSeen, stallSince, cause, marks>>

T == Traces[tid]
Rec == T[l]

\* users are 1..N in the design spec and in the log
StatusOf(rec, o) == IF o <= Len(rec.users) THEN rec.users[o][1] ELSE "unknown"
FriendOf(rec, o) == IF o <= Len(rec.users) THEN rec.users[o][2] ELSE FALSE
PrivOf(rec, o) == IF o <= Len(rec.users) THEN rec.users[o][3] ELSE FALSE

AttrsFrom(rec) ==
  /\ slots' = rec.slots
  /\ status' = [o \in Users |-> StatusOf(rec, o)]
  /\ friend' = [o \in Users |-> FriendOf(rec, o)]
  /\ priv' = [o \in Users |-> PrivOf(rec, o)]

AttrsAgree(rec) ==
  /\ slots = rec.slots
  /\ \A o \in Users : status[o] = StatusOf(rec, o) /\ friend[o] = FriendOf(rec, o) /\ priv[o] = PrivOf(rec, o)

TInit ==
  /\ tid \in 1..Len(Traces)
  /\ l = 2
  /\ Len(Traces[tid]) >= 1 /\ Traces[tid][1].ev = "init"
  /\ slots = Traces[tid][1].slots
  /\ status = [o \in Users |-> StatusOf(Traces[tid][1], o)]
  /\ friend = [o \in Users |-> FriendOf(Traces[tid][1], o)]
  /\ priv = [o \in Users |-> PrivOf(Traces[tid][1], o)]
  /\ st = [u \in Uploads |-> "NONE"]
  /\ order = <<>>
  /\ ready = <<>>
  /\ mq = 0 /\ mpc = "waiting" /\ flags = {}
  /\ grantLim = 0
  /\ slotLeft = 0 /\ attrLeft = 0 /\ lifeLeft = 0
  /\ now = Traces[tid][1].t
  /\ reqSeen = {}
  /\ stallSince = -1
  /\ cause = "none"
  /\ marks = {}

IsEv(e) == l <= Len(T) /\ Rec.ev = e

\* Virtual time never runs backwards, and it does not advance while a hand-out has not been followed
\* by its starts (the first step of a created task is already in the ready queue).
TimeOK(t) == t >= now /\ (t > now => NumTasks(ready) = 0)

\* stall bookkeeping: since when has some upload been startable, and which kind of event made it so
SomeStartable == \E v \in Uploads : Startable(v)
Stall(kind) ==
  IF SomeStartable'
    THEN IF SomeStartable THEN UNCHANGED <<stallSince, cause>>
                          ELSE stallSince' = now' /\ cause' = kind
    ELSE stallSince' = -1 /\ cause' = "none"

Consume == l' = l + 1 /\ now' = Rec.t /\ UNCHANGED <<tid, marks>>

Old(s) == IF s = "VIRGIN" THEN "NONE" ELSE s

\* a state listener was told (old, new) for upload u
TSt ==
  /\ IsEv("st")
  /\ TimeOK(Rec.t)
  /\ Rec.u \in Uploads
  /\ LET u == Rec.u IN
       /\ st[u] = Old(Rec.old)
       /\ AttrsAgree(Rec)
       /\ \/ TaskFirstStep(u)
          \/ QueueRequest(u) \/ Resume(u) \/ Negotiated(u) \/ Complete(u) \/ Fail(u) \/ BackToQueue(u)
          \/ Abort(u) \/ Pause(u)
          \* any other change that does not make the upload active is none of C05's business (C03 judges edges)
          \/ (Rec.new \notin Active /\ Rec.new # "NONE" /\ Change(u, Rec.new))
       /\ st'[u] = Rec.new
       /\ reqSeen' = IF Rec.new = "INITIALIZING" THEN reqSeen ELSE reqSeen \ {u}
  /\ UNCHANGED budgets
  /\ Consume /\ Stall("st")

\* the limit or a user attribute changed
TAttr ==
  /\ IsEv("attr")
  /\ TimeOK(Rec.t)
  /\ AttrsFrom(Rec)
  /\ UNCHANGED <<st, order, ready, mgmt, grantLim, budgets, reqSeen>>
  /\ Consume
  /\ Stall(IF Rec.slots > slots THEN "slots-raised" ELSE "attr")

\* a PeerTransferRequest left the uploader: only for an upload that is being initialised, once
TReq ==
  /\ IsEv("req")
  /\ TimeOK(Rec.t)
  /\ Rec.u \in Uploads
  /\ st[Rec.u] = "INITIALIZING"
  /\ Rec.u \notin reqSeen
  /\ reqSeen' = reqSeen \cup {Rec.u}
  /\ UNCHANGED <<vars, stallSince, cause>>
  /\ Consume

TEnd ==
  /\ IsEv("end")
  /\ TimeOK(Rec.t)
  /\ UNCHANGED <<vars, reqSeen, stallSince, cause>>
  /\ Consume

\* uploads that start (QUEUED -> INITIALIZING) in the records from l on that carry the same time stamp
RECURSIVE InitsFrom(_, _)
InitsFrom(i, t) ==
  IF i > Len(T) \/ T[i].t # t THEN <<>>
  ELSE IF T[i].ev = "st" /\ T[i].new = "INITIALIZING" THEN <<T[i].u>> \o InitsFrom(i + 1, t)
       ELSE InitsFrom(i + 1, t)

\* silent: slots are handed to a sequence of queued uploads (the management cycle's decision).  The
\* sequence is free; since a hand-out is followed by its starts at the same instant, it is a prefix of
\* the starts recorded for this instant.
TGrant ==
  /\ l <= Len(T)
  /\ TimeOK(Rec.t)
  /\ LET inits == InitsFrom(l, Rec.t) IN
     \E n \in 1..Len(inits) :
       LET perm == SubSeq(inits, 1, n) IN
         /\ \A i \in 1..n : perm[i] \in Uploads /\ st[perm[i]] = "QUEUED" /\ TaskCount(ready, perm[i]) = 0
         /\ \A i, j \in 1..n : i # j => perm[i] # perm[j]
         /\ ready' = ready \o perm
         /\ grantLim' = slots
  /\ now' = Rec.t
  /\ UNCHANGED <<attrs, st, order, mgmt, budgets, tid, l, reqSeen, marks>>
  /\ Stall("grant")

\* Known finding (open): a raised limit is not applied until something else requests a cycle.  The
\* stall it causes - and only that one - is tolerated and marked.
Tolerate ==
  /\ l <= Len(T)
  /\ stallSince >= 0 /\ cause = "slots-raised"
  /\ Rec.t - stallSince > Bound          \* only when the clean path is about to be cut
  /\ "set-upload-slots:raised-limit-not-applied" \notin marks
  /\ marks' = marks \cup {"set-upload-slots:raised-limit-not-applied"}
  /\ UNCHANGED <<vars, tid, l, now, reqSeen, stallSince, cause>>

Done ==
  /\ l = Len(T) + 1
  /\ NumTasks(ready) = 0
  /\ PrintT(<<"ACCEPT", tid, marks>>)
  /\ l' = l + 1
  /\ UNCHANGED <<vars, tid, now, reqSeen, stallSince, cause, marks>>

Finished == l = Len(T) + 2 /\ UNCHANGED tvars

TNext == TSt \/ TAttr \/ TReq \/ TEnd \/ TGrant \/ Tolerate \/ Done \/ Finished

TSpec == TInit /\ [][TNext]_tvars

----------------------------------------------------------------------------
\* the properties of UploadSlots as constraints (a path that breaks one is cut, see harness/tlc.py)
StartRespectsLimitC == Starts # {} => Cardinality(ActiveSet(st')) <= Max(slots', grantLim)
NeverOfflineC ==
  /\ \A u \in Granted : status[Owner(u)] # "offline"
  /\ \A u \in Starts : TaskCount(ready, u) > 0
PriorityHoldsC ==
  \A u \in Granted : \A v \in Uploads :
     (/\ Eligible(v) /\ Owner(v) # Owner(u)
      /\ \A w \in Granted : Owner(w) # Owner(v))
     => Rank(Owner(u)) >= Rank(Owner(v))

\* bounded-time form of EventuallyStarted
Tolerated == cause = "slots-raised" /\ "set-upload-slots:raised-limit-not-applied" \in marks
EventuallyStartedB == stallSince >= 0 => (now - stallSince <= Bound \/ Tolerated)

\* the same as temporal formulas for TraceDiag.cfg
StartRespectsLimitT == [][StartRespectsLimitC]_tvars
NeverOfflineT == [][NeverOfflineC]_tvars
PriorityHoldsT == [][PriorityHoldsC]_tvars
=============================================================================

\* thorough, exhaustive: 2 users / 3 uploads, every initial attribute combination, one attribute change, one life-cycle event.
SPECIFICATION Spec
CONSTANTS
  UploadIds = {1, 2, 3}
  PerUser = 2
  MaxSlots = 2
  InitSlots = {1}
  AnyInitAttr = TRUE
  Statuses = {"unknown", "offline", "away", "online"}
  SlotBudget = 0
  AttrBudget = 1
  LifeBudget = 1
  TrackMgmt = TRUE
  GrantAll = FALSE
  UseUploadingUsers = TRUE
  CountInitializing = TRUE
  UseOfflineFilter = TRUE
  WStatus = 1
  WFriend = 5
  WPriv = 100
  StateChangeNotifies = TRUE
  SlotsChangeNotifies = FALSE
INVARIANT TypeOK
INVARIANT OnePerUser
INVARIANT FlagsIffQueued
INVARIANT WakeIffRunnable
INVARIANT NoDoubleTask
INVARIANT TaskOnlyQueued
INVARIANT OneTaskPerUser
PROPERTY StartRespectsLimit
PROPERTY NeverOffline
PROPERTY PriorityHolds
PROPERTY CycleFillsSlots
CHECK_DEADLOCK FALSE

\* thorough: liveness, 2 users / 3 uploads, repaired position for the limit change.
SPECIFICATION FairSpec
CONSTANTS
  UploadIds = {1, 2, 3}
  PerUser = 2
  MaxSlots = 2
  InitSlots = {0, 1}
  AnyInitAttr = FALSE
  Statuses = {"unknown", "offline", "away", "online"}
  SlotBudget = 1
  AttrBudget = 1
  LifeBudget = 2
  TrackMgmt = TRUE
  GrantAll = FALSE
  UseUploadingUsers = TRUE
  CountInitializing = TRUE
  UseOfflineFilter = TRUE
  WStatus = 1
  WFriend = 5
  WPriv = 100
  StateChangeNotifies = TRUE
  SlotsChangeNotifies = TRUE
PROPERTY EventuallyStarted
CHECK_DEADLOCK FALSE

SPECIFICATION TSpec
CONSTANTS
  UploadIds = {1, 2, 3, 4, 5, 6, 7, 8, 9, 10}
  PerUser = 2
  MaxSlots = 4
  InitSlots = {0}
  InitTruth = {"unknown"}
  AnyInitAttr = FALSE
  Statuses = {"unknown", "offline", "away", "online"}
  SlotBudget = 0
  AttrBudget = 0
  LifeBudget = 0
  TrackMgmt = FALSE
  GrantAll = FALSE
  UseUploadingUsers = TRUE
  CountInitializing = TRUE
  UseOfflineFilter = TRUE
  WStatus = 1
  WFriend = 5
  WPriv = 100
  StateChangeNotifies = TRUE
  SlotsChangeNotifies = TRUE
  ManagedEveryCycle = TRUE
  TaskEndNotifies = FALSE
  RequeueTail = FALSE
  TrackPerUser = TRUE
  Bound = 2000000
CONSTRAINT OnePerUser
CONSTRAINT EventuallyStartedB
ACTION_CONSTRAINT StartRespectsLimitC
ACTION_CONSTRAINT NeverOfflineC
ACTION_CONSTRAINT PriorityHoldsC
CHECK_DEADLOCK FALSE

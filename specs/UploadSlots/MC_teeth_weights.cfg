\* teeth: friend weight below the status weight violates PriorityHolds.
SPECIFICATION Spec
CONSTANTS
  UploadIds = {1, 2, 3}
  PerUser = 2
  MaxSlots = 2
  InitSlots = {0, 1}
  InitTruth = {"unknown"}
  AnyInitAttr = FALSE
  Statuses = {"unknown", "offline", "away", "online"}
  SlotBudget = 1
  AttrBudget = 2
  LifeBudget = 1
  TrackMgmt = TRUE
  GrantAll = FALSE
  UseUploadingUsers = TRUE
  CountInitializing = TRUE
  UseOfflineFilter = TRUE
  WStatus = 1
  WFriend = 0
  WPriv = 100
  StateChangeNotifies = TRUE
  SlotsChangeNotifies = TRUE
  ManagedEveryCycle = TRUE
  TaskEndNotifies = FALSE
  RequeueTail = FALSE
  TrackPerUser = TRUE
INVARIANT TypeOK
INVARIANT OnePerUser
INVARIANT FlagsIffQueued
INVARIANT WakeIffRunnable
INVARIANT NoDoubleTask
INVARIANT TaskOnlyQueued
INVARIANT OneTaskPerUser
INVARIANT KnowledgeKept
INVARIANT NoTaskWhileInFlight
PROPERTY StartRespectsLimit
PROPERTY NeverOffline
PROPERTY PriorityHolds
PROPERTY CycleFillsSlots
CHECK_DEADLOCK FALSE

\* liveness under weak fairness of the event loop, REPAIRED position (TaskEndNotifies = TRUE: the end of a task
\* requests a cycle): EventuallyStarted must hold. 2 users, limit 1, three life-cycle events.
SPECIFICATION FairSpec
CONSTANTS
  UploadIds = {1, 3}
  PerUser = 2
  MaxSlots = 2
  InitSlots = {1}
  InitTruth = {"unknown"}
  AnyInitAttr = FALSE
  Statuses = {"unknown", "offline", "away", "online"}
  SlotBudget = 0
  AttrBudget = 0
  LifeBudget = 3
  TrackMgmt = TRUE
  GrantAll = FALSE
  UseUploadingUsers = TRUE
  CountInitializing = TRUE
  UseOfflineFilter = TRUE
  WStatus = 1
  WFriend = 5
  WPriv = 100
  StateChangeNotifies = TRUE
  SlotsChangeNotifies = TRUE
  ManagedEveryCycle = TRUE
  TaskEndNotifies = TRUE
  RequeueTail = FALSE
  TrackPerUser = TRUE
PROPERTY EventuallyStarted
CHECK_DEADLOCK FALSE

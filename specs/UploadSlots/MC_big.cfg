\* thorough, exhaustive: 3 users, 4 uploads, limit 2, two life-cycle events.
SPECIFICATION Spec
CONSTANTS
  UploadIds = {1, 2, 3, 5}
  PerUser = 2
  MaxSlots = 2
  InitSlots = {2}
  InitTruth = {"unknown"}
  AnyInitAttr = FALSE
  Statuses = {"unknown", "offline", "away", "online"}
  SlotBudget = 0
  AttrBudget = 0
  LifeBudget = 2
  TrackMgmt = TRUE
  GrantAll = FALSE
  UseUploadingUsers = TRUE
  CountInitializing = TRUE
  UseOfflineFilter = TRUE
  WStatus = 1
  WFriend = 5
  WPriv = 100
  StateChangeNotifies = TRUE
  SlotsChangeNotifies = TRUE
  ManagedEveryCycle = TRUE
  TaskEndNotifies = FALSE
  RequeueTail = FALSE
  TrackPerUser = TRUE
INVARIANT TypeOK
INVARIANT OnePerUser
INVARIANT FlagsIffQueued
INVARIANT WakeIffRunnable
INVARIANT NoDoubleTask
INVARIANT TaskOnlyQueued
INVARIANT OneTaskPerUser
INVARIANT KnowledgeKept
INVARIANT NoTaskWhileInFlight
PROPERTY StartRespectsLimit
PROPERTY NeverOffline
PROPERTY PriorityHolds
PROPERTY CycleFillsSlots
CHECK_DEADLOCK FALSE

SPECIFICATION SpecNoLook
CONSTANTS
  Users = {"u1"}
  Dirs = {"D3"}
  Files = {"f3"}
  Variants = {"exact"}
  Modes = {"everyone", "friends"}
  UserSets = {{}}
  BlockSets = {}
  PhraseSets <- PS_None
  InitShared = {{"D3"}}
  FriendUsers = {"u1"}
  InitSess = {TRUE, FALSE}
  MaxSess = 2
  MaxCfg = 2
  MaxReq = 1
  MaxEnv = 0
  UploadSlots = 2
  LockByHolder = TRUE
  FoldExcluded = TRUE
  DirReplyLocks = TRUE
  ScanDirCycles = TRUE
  AlwaysAccumulate = FALSE
  TickReportsAlways = TRUE
  FlagsTakenAtStart = TRUE
  RevertWithinTick = FALSE
INVARIANT TypeOK
INVARIANT HolderIsInnermost
INVARIANT ReasonOnlyWhenAborted
INVARIANT VisibleOnlyIfEntitledByMode
INVARIANT VisibleOnlyIfEntitledByModeAll
INVARIANT NoExcludedPhrase
INVARIANT NoExcludedPhraseAll
INVARIANT NoReplyToSearchBlocked
INVARIANT NoReplyToSearchBlockedAll
INVARIANT NoGrantForUnentitled
INVARIANT BytesOnlyWhileUploading
INVARIANT Convergence
PROPERTY NoUploadForUnentitled
PROPERTY RequestedStays
CHECK_DEADLOCK FALSE

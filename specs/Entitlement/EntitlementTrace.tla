-------------------------- MODULE EntitlementTrace --------------------------
(***************************************************************************)
(* Trace validation for C08.  A batch of executions of a real, logged-in   *)
(* SoulSeekClient (SharesManager, TransferManager, SearchManager,          *)
(* PeerManager, UserManager) against scripted peers, recorded by           *)
(* harness/props/c08.py, is checked against Entitlement.                   *)
(*                                                                         *)
(* What is taken from the log and what is judged:                          *)
(*  - configuration changes are the design spec's ...Cfg actions with the  *)
(*    logged arguments; the index (holder/owner per file) is *bound from   *)
(*    the log* (public attributes of SharesManager), it is C07's subject;  *)
(*  - replies (search / shares / directory contents), request outcomes,    *)
(*    upload creations, state changes, offers and file bytes are bound     *)
(*    from what the peers and the public listeners saw, and the design     *)
(*    spec's property formulas are evaluated on them;                      *)
(*  - a `quiescent` record is taken by the recorder after it has let more  *)
(*    than one user-management period and several management cycles pass   *)
(*    since the last change: there Convergence is judged.                  *)
(*                                                                         *)
(* Verdict.  Every step evaluates every property of Entitlement on the     *)
(* step (action properties) and on the state it leads to (invariants).  A  *)
(* property that is false adds a *mark* naming the property, the surface   *)
(* and the input class to `marks`; the path goes on (the state is bound    *)
(* from the log, so one defect does not hide the next).  Done prints the   *)
(* marks: a trace is clean iff it is consumed entirely with marks = {}.    *)
(* Each mark is a fingerprint: the check turns it into a VIOLATION unless  *)
(* it is listed as an open known finding.  An event no action explains     *)
(* ends the path early (rejected trace; TraceDiag.cfg says where).         *)
(* TraceStrict.cfg has the properties as CONSTRAINT lines instead: it      *)
(* accepts exactly the traces with no mark (used to cross-check).          *)
(*                                                                         *)
(* Event records (JSON), all with ev; uploads are named by u, f, d, v      *)
(* (user, file, alias directory, path form):                               *)
(*   init      shared, mode, dusers, friends, hold, own, so, sess          *)
(*   session on                SessionInitialized / SessionDestroyed seen  *)
(*   setmode d m | setusers d us | add d m us | remove d | scan | scandir d*)
(*   scanstart | scandirstart  scan() / scan_directory_files() was called  *)
(*   friend u on | block u fl | excluded ps     each with hold, own, so    *)
(*   tick kind                 FriendListChanged / BlockListChanged seen   *)
(*   search u q replied normal locked other | shares ... | dir u f ...     *)
(*   req kind u ...            a PeerTransferQueue/-Request was sent       *)
(*   created u f d v res       TransferAddedEvent (upload); res = file the *)
(*                             record's local path is                      *)
(*   st u f d v old new reason state listener                              *)
(*   qreply / treply u f d v allowed why   frames seen by the peer         *)
(*   offer u f d v             PeerTransferRequest seen by the peer        *)
(*   bytes u f d v n           file content written on a file connection   *)
(*   abort / pause u f d v     TransferManager.abort / pause called        *)
(*   rmcall / removed u f d v  TransferManager.remove called / TransferRemovedEvent seen *)
(*   env what                  the peer accepted / finished / refused      *)
(*   quiescent ups             [u f d v st reason] of every upload record  *)
(***************************************************************************)
EXTENDS Entitlement, Json, IOUtils

Traces == JsonDeserialize(IOEnv.TRACE_FILE)

VARIABLES tid, l,
          marks,       \* fingerprints of the property violations seen so far on this trace
          lastChange,  \* ev of the last configuration change (input class of Convergence marks)
          staleItems,  \* files whose item names a SharedDirectory object other than the one holding it
                       \* (from the log; only used to name the input class of a mark)
          anyRemove    \* a shared directory was removed earlier in this execution (input class only)

tvars == <<vars, tid, l, marks, lastChange, staleItems, anyRemove>>

Tr == Traces[tid]
Rec == Tr[l]

SetOf(seq) == {seq[i] : i \in 1..Len(seq)}
FromRec(r, S) == [x \in S |-> r[x]]
PhrasesOf(seq) == {<<seq[i][1], seq[i][2]>> : i \in 1..Len(seq)}

TInit ==
  /\ tid \in 1..Len(Traces)
  /\ l = 2
  /\ Len(Traces[tid]) >= 1 /\ Traces[tid][1].ev = "init"
  /\ LET r == Traces[tid][1] IN
       /\ shared = SetOf(r.shared)
       /\ mode = FromRec(r.mode, Dirs)
       /\ dusers = [d \in Dirs |-> SetOf(r.dusers[d])]
       /\ holder = FromRec(r.hold, Files)
       /\ owner = FromRec(r.own, Files)
       /\ friends = SetOf(r.friends)
  /\ blocked = [u \in Users |-> {}]
  /\ ctxFriends = friends /\ ctxBlocked = blocked
  /\ winFriends = friends /\ winUnblk = Users
  /\ excluded = {}
  /\ up = [t \in T |-> NoUp]
  /\ flag = FALSE
  /\ obs = NoObs
  /\ cpc = "idle" /\ pend = {} /\ okSince = {}      \* the cycles are not seen; okSince runs from one
  /\ nCfg = 0 /\ nReq = 0 /\ nEnv = 0               \* quiescent point to the next (AlwaysAccumulate)
  /\ sess = Traces[tid][1].sess /\ nSess = 0
  /\ marks = {}
  /\ lastChange = "none"
  /\ staleItems = SetOf(Traces[tid][1].so)
  /\ anyRemove = FALSE

IsEv(e) == l <= Len(Tr) /\ Rec.ev = e
IndexFromLog == holder' = FromRec(Rec.hold, Files) /\ owner' = FromRec(Rec.own, Files) /\ staleItems' = SetOf(Rec.so)

----------------------------------------------------------------------------
\* Judging a step: the design spec's properties, with the input class that names the finding

\* Marks are short (PrintT must keep each on one line): <surface>:<what>[:<input class>]

\* f's item names another directory (object) as its owner than the shared directory holding it
StaleOwner(f) == f \in staleItems \/ (holder[f] # None /\ owner[f] # Inner(f))
ClassOf(fs) == IF \E f \in fs : StaleOwner(f) THEN ":stale-owner" ELSE ":plain"

BadListed == {f \in obs.normal : ~(Inner(f) # None => Allows(obs.u, Inner(f), friends))}
\* ... or the same file is also listed as locked: a second, left-over item of it answers the query
ListClass == IF \E f \in BadListed : StaleOwner(f) THEN ":stale-owner"
             ELSE IF BadListed \cap obs.locked # {} THEN ":also-listed-locked"
             ELSE IF anyRemove THEN ":after-remove" ELSE ":plain"
BadExcluded == {ph \in excluded : \E f \in obs.normal \cup obs.locked : ph[1] \in HasW(f)}

StateMarks ==
  (IF ~VisibleOnlyIfEntitledByMode
     THEN {IF obs.k = "dir"
             THEN "dir-reply:locked-file-listed" \o (IF \E f \in BadListed : StaleOwner(f) THEN ":stale-owner" ELSE "")
           ELSE obs.k \o "-reply:restricted-as-normal" \o ListClass} ELSE {})
  \cup (IF ~NoExcludedPhrase
     THEN {"search-reply:excluded-phrase" \o
           (IF \A ph \in BadExcluded : ~ph[2] THEN ":not-lower-case" ELSE ":lower-case")} ELSE {})
  \cup (IF ~NoReplyToSearchBlocked THEN {"search-reply:to-search-blocked-user"} ELSE {})
  \cup (IF ~NoGrantForUnentitled THEN {obs.k \o ":granted-to-unentitled"} ELSE {})
  \cup (IF ~BytesOnlyWhileUploading THEN {"bytes:upload-not-under-way"} ELSE {})

\* evaluated on a step (up, up')
StepClass(t) ==
  IF "up" \in blocked[UserOf(t)] THEN ":blocked-user"
  ELSE IF Inner(FileOf(t)) = None THEN ":unshared-file"
  ELSE ClassOf({FileOf(t)})
StepMarks ==
  UNION {
    (IF up[t].st = "NONE" /\ up'[t].st # "NONE" /\ ~UploadStep(t) THEN {"upload-created:unentitled" \o StepClass(t)} ELSE {})
    \cup (IF up[t].st \in {"FAILED", "COMPLETE", "ABORTED"} /\ up'[t].st = "QUEUED" /\ ~UploadStep(t)
            THEN {"upload-requeued:unentitled:" \o up[t].st \o StepClass(t)} ELSE {})
    \cup (IF up[t].st = "QUEUED" /\ up'[t].st = "INITIALIZING" /\ ~UploadStep(t)
            THEN {"upload-started:unentitled" \o StepClass(t)} ELSE {})
    \cup (IF up[t].st = "ABORTED" /\ up[t].reason = "Requested" /\ up'[t] # up[t] /\ up'[t].st # "NONE"
            THEN {"user-abort:" \o (IF up'[t].st = "ABORTED" THEN "reason-rewritten" ELSE "left-ABORTED-to-" \o up'[t].st)}
            ELSE {})
    : t \in T }

\* evaluated at a quiescent point, on the state after it
ConvClass(t) ==
  (IF lastChange = "scandir" THEN ":after-scandir" ELSE "")
  \o (IF StaleOwner(FileOf(t)) THEN ":stale-owner" ELSE "")
ConvMarks ==
  UNION {
    IF up[t].st \notin Unfinished THEN {}
    ELSE (IF ~EntitledFile(UserOf(t), FileOf(t)) /\ up[t].st # "ABORTED"
            THEN {"conv:not-aborted" \o (IF "up" \in blocked[UserOf(t)] THEN ":blocked" ELSE "") \o ConvClass(t)} ELSE {})
         \cup (IF up[t].st = "ABORTED" /\ ~ReasonTrue(t)
            THEN {"conv:stale-reason:" \o up[t].reason \o ConvClass(t)} ELSE {})
    : t \in T }

\* the agreement between the marks and the design spec's formulas is itself checked (Trace*.cfg):
\* no mark <=> every property holds
StateMarksAgree == (StateMarks = {}) <=>
  (VisibleOnlyIfEntitledByMode /\ NoExcludedPhrase /\ NoReplyToSearchBlocked /\ NoGrantForUnentitled /\ BytesOnlyWhileUploading)
ConvMarksAgree == Quiet => ((ConvMarks = {}) <=> (\A t \in T : Converged(t)))
StepMarksAgree == (StepMarks = {}) <=> (NoUploadForUnentitledA /\ RequestedStaysA)

\* every event action ends with this: consume the record, judge the step and the state it leads to
Judge(extra) ==
  /\ l' = l + 1 /\ UNCHANGED tid
  /\ marks' = marks \cup extra \cup StateMarks' \cup StepMarks \cup (IF Quiet' THEN ConvMarks' ELSE {})

----------------------------------------------------------------------------
\* ---- configuration changes: the design spec's action, the index from the log ----
Changed == lastChange' = Rec.ev
TSetMode == UNCHANGED anyRemove /\ IsEv("setmode") /\ SetModeCfg(Rec.d, Rec.m) /\ IndexFromLog /\ Changed /\ Judge({})
TSetUsers == UNCHANGED anyRemove /\ IsEv("setusers") /\ SetUsersCfg(Rec.d, SetOf(Rec.us)) /\ IndexFromLog /\ Changed /\ Judge({})
TAdd == UNCHANGED anyRemove /\ IsEv("add") /\ AddDirCfg(Rec.d, Rec.m, SetOf(Rec.us)) /\ IndexFromLog /\ Changed /\ Judge({})
TRemove == IsEv("remove") /\ RemoveDirCfg(Rec.d) /\ IndexFromLog /\ Changed /\ anyRemove' = TRUE /\ Judge({})
TScan == UNCHANGED anyRemove /\ IsEv("scan") /\ ScanAllCfg /\ IndexFromLog /\ Changed /\ Judge({})
TScanDir == UNCHANGED anyRemove /\ IsEv("scandir") /\ ScanDirCfg(Rec.d) /\ IndexFromLog /\ Changed /\ Judge({})
TFriend == UNCHANGED anyRemove /\ IsEv("friend") /\ SetFriendCfg(Rec.u, Rec.on) /\ IndexFromLog /\ Changed /\ Judge({})
TBlock == UNCHANGED anyRemove /\ IsEv("block") /\ SetBlockCfg(Rec.u, SetOf(Rec.fl)) /\ IndexFromLog /\ Changed /\ Judge({})
TExcluded == UNCHANGED anyRemove /\ IsEv("excluded") /\ SetExcludedCfg(PhrasesOf(Rec.ps)) /\ IndexFromLog /\ UNCHANGED lastChange /\ Judge({})

Keep == UNCHANGED <<shared, mode, dusers, holder, owner, friends, blocked, excluded, sess, nSess, nCfg, nReq, nEnv, lastChange,
                   staleItems, anyRemove, cpc, pend>>
\* the recorded steps that are not design-spec actions keep okSince the way those do
Acc == okSince' = okSince \cup EntPairs
KeepUsr == UNCHANGED <<ctxFriends, ctxBlocked, winFriends, winUnblk>>

\* the user-management job reported a difference (one record per event class; each half of the
\* job's context is followed separately, so that the order and grouping of the two events is free)
TTick ==
  /\ IsEv("tick")
  /\ \/ /\ Rec.kind = "friends"
        /\ ctxFriends' = friends /\ winFriends' = friends
        /\ UNCHANGED <<ctxBlocked, winUnblk>>
     \/ /\ Rec.kind = "blocked"
        /\ ctxBlocked' = blocked /\ winUnblk' = {u \in Users : "up" \notin blocked[u]}
        /\ UNCHANGED <<ctxFriends, winFriends>>
  /\ flag' = TRUE /\ obs' = NoObs
  /\ Keep /\ Acc /\ UNCHANGED up /\ Judge({})

\* ---- replies ----
TListing ==
  /\ IsEv("search") \/ IsEv("shares") \/ IsEv("dir")
  /\ obs' = [k |-> Rec.ev, u |-> Rec.u, replied |-> Rec.replied,
             normal |-> SetOf(Rec.normal), locked |-> SetOf(Rec.locked)]
  /\ Keep /\ KeepUsr /\ Acc /\ UNCHANGED <<up, flag>>
  \* every listed name is one of the files of the tree
  /\ Judge(IF Rec.other = 0 THEN {} ELSE {Rec.ev \o "-reply:lists-unknown-name"})

\* ---- uploads ----
Key(r) == <<r.u, <<r.f, r.d, r.v>>>>
Known(r) == Key(r) \in T

\* scan() / scan_directory_files() was called: the index changes while the call runs (its result is
\* in the scan / scandir record written when it is over); from here on a change is under way
TChangeBegins ==
  /\ IsEv("scanstart") \/ IsEv("scandirstart")
  /\ flag' = TRUE /\ obs' = NoObs
  /\ Keep /\ KeepUsr /\ Acc /\ UNCHANGED up /\ Judge({})

\* markers: a request was sent / the peer did its part; they explain what follows, no more
TMarker ==
  /\ IsEv("req") \/ IsEv("env") \/ IsEv("pause")
  /\ obs' = NoObs
  /\ Keep /\ KeepUsr /\ Acc /\ UNCHANGED <<up, flag>> /\ Judge({})

\* TransferAddedEvent for an upload
TCreated ==
  /\ IsEv("created")
  /\ obs' = NoObs
  /\ Keep /\ KeepUsr /\ Acc /\ UNCHANGED flag
  /\ IF Known(Rec) /\ up[Key(Rec)].st = "NONE"
       THEN /\ Put(Key(Rec), "VIRGIN", "none")
            \* the record's local path is the file the remote path names
            /\ Judge(IF Rec.res = Rec.f THEN {} ELSE {"upload-created:local-path-is-another-file"})
       ELSE /\ UNCHANGED up
            /\ Judge({IF Known(Rec) THEN "upload-created:second-record-same-user-path"
                      ELSE "upload-created:path-names-no-shared-file"})

\* a state listener was told old -> new; the reason is read right then (records for paths that
\* name no shared file were marked when they were created and are not followed)
TState ==
  /\ IsEv("st")
  /\ obs' = NoObs
  /\ Keep /\ KeepUsr /\ Acc /\ UNCHANGED flag
  /\ IF Known(Rec) /\ up[Key(Rec)].st # "NONE"
       THEN /\ Rec.new \in UpStates \ {"NONE"} /\ Rec.reason \in Reasons
            /\ up' = [up EXCEPT ![Key(Rec)] = [st |-> Rec.new, reason |-> Rec.reason,
                                                ua |-> IF Rec.new = "ABORTED" THEN up[Key(Rec)].ua ELSE FALSE]]
            /\ Judge(IF up[Key(Rec)].st = Rec.old THEN {}
                     ELSE {"state-listener:old-state-not-the-last-reported"})
       ELSE UNCHANGED up /\ Judge({})

\* TransferManager.abort - or remove, which aborts first - was called for the record (the abort takes
\* effect if one is possible)
TAbortCall ==
  /\ IsEv("abort") \/ IsEv("rmcall")
  /\ obs' = NoObs
  /\ Keep /\ KeepUsr /\ Acc /\ UNCHANGED flag
  /\ IF Known(Rec)
       THEN up' = [up EXCEPT ![Key(Rec)].ua = @ \/ up[Key(Rec)].st \in {"QUEUED", "INITIALIZING", "UPLOADING", "PAUSED"}]
       ELSE UNCHANGED up
  /\ Judge({})

\* SessionInitializedEvent / SessionDestroyedEvent seen: logged in / the session is gone.  What is
\* promised after a change holds from the next quiescent point with a session on.
TSession ==
  /\ IsEv("session")
  /\ sess' = Rec.on /\ nSess' = nSess
  /\ flag' = TRUE /\ obs' = NoObs
  /\ UNCHANGED <<shared, mode, dusers, holder, owner, friends, blocked, excluded, nCfg, nReq, nEnv, lastChange,
                 staleItems, anyRemove, cpc, pend, up>>
  /\ KeepUsr /\ Acc /\ Judge({})

\* TransferRemovedEvent: the record is no longer in the list of transfers
TRemoved ==
  /\ IsEv("removed")
  /\ obs' = NoObs
  /\ Keep /\ KeepUsr /\ Acc /\ UNCHANGED flag
  /\ IF Known(Rec) THEN up' = [up EXCEPT ![Key(Rec)] = NoUp] ELSE UNCHANGED up
  /\ Judge({})

\* a call of the public API raised: an observation
TError ==
  /\ IsEv("error")
  /\ obs' = NoObs
  /\ Keep /\ KeepUsr /\ Acc /\ UNCHANGED <<up, flag>>
  /\ Judge({"exception:" \o Rec.what})

\* PeerTransferQueueFailed / PeerTransferReply seen by the peer
TReply ==
  /\ IsEv("qreply") \/ IsEv("treply")
  /\ obs' = IF Known(Rec) THEN [k |-> Rec.ev, u |-> Rec.u, p |-> <<Rec.f, Rec.d, Rec.v>>,
                               allowed |-> Rec.allowed, why |-> Rec.why]
            ELSE NoObs
  /\ Keep /\ KeepUsr /\ Acc /\ UNCHANGED <<up, flag>>
  \* nothing that names no file of a shared directory is ever granted
  /\ Judge(IF ~Known(Rec) /\ Rec.allowed THEN {Rec.ev \o ":granted:path-names-no-shared-file"} ELSE {})

\* our PeerTransferRequest (the offer to start uploading) seen by the peer
TOffer ==
  /\ IsEv("offer")
  /\ obs' = NoObs
  /\ Keep /\ KeepUsr /\ Acc /\ UNCHANGED <<up, flag>>
  /\ Judge(IF Known(Rec) /\ up[Key(Rec)].st \in {"INITIALIZING", "UPLOADING"} THEN {}
           ELSE {"offer:upload-not-under-way"})

\* file content written on a file connection (logged when written)
TBytes ==
  /\ IsEv("bytes")
  /\ obs' = IF Known(Rec) THEN [k |-> "bytes", u |-> Rec.u, p |-> <<Rec.f, Rec.d, Rec.v>>] ELSE NoObs
  /\ Keep /\ KeepUsr /\ Acc /\ UNCHANGED <<up, flag>>
  /\ Judge(IF Known(Rec) THEN {} ELSE {"bytes:no-known-upload"})

\* The recorder let the user-management job and the management job run after the last change.
\* The settings must have been seen; states must be what the listeners were told; the reasons are
\* read now (they may be rewritten without a state change).
UpsOf(r) == {<<Key(r[i]), r[i]>> : i \in 1..Len(r)}
TQuiescent ==
  /\ IsEv("quiescent")
  /\ \A x \in UpsOf(Rec.ups) : x[1] \in T /\ x[2].reason \in Reasons /\ x[2].st \in UpStates
  /\ up' = [t \in T |-> IF \E x \in UpsOf(Rec.ups) : x[1] = t
                        THEN LET x == CHOOSE y \in UpsOf(Rec.ups) : y[1] = t IN
                             [st |-> x[2].st, reason |-> x[2].reason, ua |-> up[t].ua /\ x[2].st = "ABORTED"]
                        ELSE up[t]]
  \* whatever the user-management job has not reported by now it will never report
  /\ ctxFriends' = friends /\ ctxBlocked' = blocked
  /\ winFriends' = friends /\ winUnblk' = {u \in Users : "up" \notin blocked[u]}
  /\ flag' = FALSE
  /\ obs' = NoObs
  /\ okSince' = {}
  /\ Keep
  \* (that the user-management job reports a change with an event is not what is promised: what the
  \* uploads have come to by now is - Convergence is judged on the state after this step)
  /\ Judge(IF \A x \in UpsOf(Rec.ups) : up[x[1]].st = x[2].st THEN {}
           ELSE {"quiescent:state-changed-without-notification"})

Done ==
  /\ l = Len(Tr) + 1
  \* one line per mark (PrintT wraps long values; lines of several workers must not interleave)
  /\ IF marks = {} THEN PrintT(<<"ACCEPT", tid, {}>>) ELSE \A m \in marks : PrintT(<<"ACCEPT", tid, {m}>>)
  /\ l' = l + 1
  /\ UNCHANGED <<vars, tid, marks, lastChange, staleItems, anyRemove>>

Finished == l = Len(Tr) + 2 /\ UNCHANGED tvars

TNext ==
  \/ TSetMode \/ TSetUsers \/ TAdd \/ TRemove \/ TScan \/ TScanDir \/ TFriend \/ TBlock \/ TExcluded
  \/ TTick \/ TListing \/ TChangeBegins \/ TMarker \/ TCreated \/ TState \/ TAbortCall \/ TReply \/ TOffer \/ TBytes
  \/ TQuiescent \/ TSession \/ TRemoved \/ TError \/ Done \/ Finished

TSpec == TInit /\ [][TNext]_tvars

\* TraceStrict.cfg: the design spec's properties as constraints; NoMark says the same through marks
NoUploadForUnentitledC == NoUploadForUnentitledA
RequestedStaysC == RequestedStaysA
NoMark == marks = {}
StepMarksAgreeP == [][l' = l + 1 /\ l <= Len(Tr) => StepMarksAgree]_tvars
=============================================================================

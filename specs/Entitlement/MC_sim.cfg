SPECIFICATION Spec
CONSTANTS
  Users = {"u1", "u2", "u3"}
  Dirs = {"D1", "D2", "D3", "D4"}
  Files = {"f1", "f2", "f3", "f4"}
  Variants = {"exact"}
  Modes = {"everyone", "friends", "users"}
  UserSets = {{}, {"u1"}, {"u2", "u3"}}
  BlockSets = {{"up"}, {"search"}, {"up", "search", "shares"}}
  PhraseSets <- PS_Big
  InitShared = {{"D1"}, {"D1", "D3"}, {"D1", "D2", "D3"}, {"D2", "D3"}, {"D1", "D2", "D4"}}
  FriendUsers = {"u1", "u2"}
  InitSess = {TRUE}
  MaxSess = 0
  MaxCfg = 7
  MaxReq = 4
  MaxEnv = 3
  UploadSlots = 2
  LockByHolder = TRUE
  FoldExcluded = TRUE
  DirReplyLocks = TRUE
  ScanDirCycles = TRUE
  AlwaysAccumulate = FALSE
  TickReportsAlways = TRUE
  FlagsTakenAtStart = TRUE
  RevertWithinTick = FALSE
INVARIANT TypeOK
INVARIANT VisibleOnlyIfEntitledByMode
INVARIANT NoExcludedPhrase
INVARIANT NoReplyToSearchBlocked
INVARIANT NoGrantForUnentitled
INVARIANT Convergence
PROPERTY NoUploadForUnentitled
PROPERTY RequestedStays
CHECK_DEADLOCK FALSE

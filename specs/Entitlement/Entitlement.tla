----------------------------- MODULE Entitlement -----------------------------
(***************************************************************************)
(* C08 - files are only offered and uploaded to users entitled to them.    *)
(*                                                                         *)
(* Mirrors                                                                 *)
(*   shares/manager.py   add/update/remove_shared_directory, scan,         *)
(*                       scan_directory_files, is_directory_locked,        *)
(*                       is_item_locked, query (visible/locked split,      *)
(*                       excluded phrases), create_shares_reply,           *)
(*                       create_directory_reply, get_shared_item(_cache)   *)
(*   transfer/manager.py _on_peer_transfer_queue, _on_peer_transfer_request*)
(*                       _add_upload, _management_job, manage_shares_      *)
(*                       changed, _evaluate_aborted_state, manage_transfers*)
(*   search/manager.py   _query_shares_and_reply (block gate)              *)
(*   peer.py             _on_peer_shares_request, _on_peer_directory_      *)
(*                       contents_req                                      *)
(*   user/manager.py     _management_job (1 s job: settings -> events)     *)
(*                                                                         *)
(* The little index state needed (which shared directory holds a file's    *)
(* item, which directory the item names as its owner) is modelled here;    *)
(* the full index is the business of SharesIndex (C07).                    *)
(*                                                                         *)
(* The universe is fixed (it is the tree the harness builds on disk):      *)
(*      D1/x/f1    D1/in/f2  (D2 = D1/in)    D1/in/deep/f4  (D4 = D2/deep) *)
(*      D3/f3                                                              *)
(* so D4 is nested inside D2 inside D1.  The CONSTANTS choose subsets.     *)
(***************************************************************************)
EXTENDS Naturals, FiniteSets, Sequences, TLC

CONSTANTS
  Users,          \* subset of {"u1","u2","u3"}
  Dirs,           \* subset of {"D1","D2","D3","D4"}: directories that may be shared
  Files,          \* subset of {"f1","f2","f3","f4"}
  Variants,       \* forms of a requested remote path: "exact" plus decorations ("case","sep","fwd")
  Modes,          \* share modes used by configuration changes
  UserSets,       \* values used for SharedDirectory.users
  BlockSets,      \* non-empty flag sets used by Block (flags: "up","search","shares")
  PhraseSets,     \* values used by SetExcluded; a phrase is <<word, sentInLowerCase>>
  InitShared,     \* set of initial `shared` values
  FriendUsers,    \* users whose friendship may change
  InitSess,       \* initial values of `sess` (FALSE: started, not logged in yet)
  MaxSess,        \* bound on logins + losses of the session
  MaxCfg, MaxReq, MaxEnv,   \* bounds on configuration changes / peer requests / peer+user transfer actions
  UploadSlots,
  \* ---- deviation switches: TRUE = repaired design, FALSE = what the pinned code does ----
  LockByHolder,   \* fixes/C08-2: lock decided by the shared directory that holds the item (TRUE) or by
                  \*        the directory recorded in the item (item.shared_directory) (FALSE)
  FoldExcluded,   \* fixes/C08-1: excluded phrase compared case-insensitively (TRUE) or as sent (FALSE)
  DirReplyLocks,  \* fixes/C08-4: directory-contents reply leaves out files locked for the asker (TRUE)
  ScanDirCycles,  \* fixes/C08-3: scan_directory_files requests a shares cycle (TRUE)
  AlwaysAccumulate, \* FALSE in the design models; TRUE in the trace spec, which does not see the cycles and
                  \*        lets `okSince` run from one quiescent point to the next
  TickReportsAlways, \* the user-management job reports a changed friends list whether there is a session or
                  \*        not (TRUE, the code); FALSE: only with a session, the change is remembered silently
  FlagsTakenAtStart, \* _management_job copies and clears the request flags before the work of the cycle
                  \*        (TRUE, the code) or clears them when the cycle is over (FALSE): a request made
                  \*        while the cycle is suspended is then lost
  \* ---- environment assumption ----
  RevertWithinTick \* TRUE: the friends/block list may be changed back to the value the user-management
                  \*       job saw last before that job runs again (a change the 1 s poll can never see)

None == "none"
AllModes == {"everyone", "friends", "users"}
Flags == {"up", "search", "shares"}

ParentOf(d) == CASE d = "D2" -> "D1" [] d = "D4" -> "D2" [] OTHER -> None
HomeOf(f) == CASE f = "f1" -> "D1" [] f = "f2" -> "D2" [] f = "f3" -> "D3" [] f = "f4" -> "D4"
\* Character strings occurring in the file's (lower-cased) query path: the words wa, wb and "all" (in
\* every path), which are also what is searched for, and strings that are no words: pa / pb are cut
\* out of the inside of the words wa / wb, sp runs from the end of wa over the separator into the next
\* word (only f1 has that sequence).  An excluded phrase may be any of them.
HasW(f) == CASE f = "f1" -> {"wa", "all", "pa", "sp"} [] f = "f2" -> {"wa", "wb", "all", "pa", "pb"}
             [] f = "f3" -> {"wb", "all", "pb"} [] f = "f4" -> {"wb", "all", "pb"}
Queries == {"wa", "wb", "all"}

\* values for the set-valued constants (cfg files cannot spell tuples)
PS_None == {{}}
PS_Small == {{}, {<<"wa", TRUE>>}, {<<"wa", FALSE>>}}
PS_Big == {{}, {<<"wa", TRUE>>}, {<<"wa", FALSE>>}, {<<"wb", FALSE>>}, {<<"wa", TRUE>>, <<"wb", FALSE>>},
           {<<"pa", TRUE>>}, {<<"sp", TRUE>>}, {<<"sp", FALSE>>, <<"pb", TRUE>>}}

RECURSIVE ChainOf(_)
ChainOf(d) == IF d = None THEN {} ELSE {d} \cup ChainOf(ParentOf(d))
\* directories (shareable or not) that contain f
Above(f) == ChainOf(HomeOf(f))
Under(f, d) == d \in Above(f)

\* abstract remote paths: file f addressed through the alias of directory d, in form v
Paths == {<<f, d, v>> : f \in Files, d \in Dirs, v \in Variants}
ValidPaths == {p \in Paths : p[2] \in Above(p[1])}
T == {<<u, p>> : u \in Users, p \in ValidPaths}
UserOf(t) == t[1]
PathOf(t) == t[2]
FileOf(t) == t[2][1]

UpStates == {"NONE", "VIRGIN", "QUEUED", "INITIALIZING", "UPLOADING", "COMPLETE", "FAILED", "ABORTED", "PAUSED"}
Reasons == {"none", "Requested", "Blocked", "FileNotShared"}
Unfinished == {"QUEUED", "INITIALIZING", "UPLOADING", "ABORTED", "PAUSED"}
Processing == {"INITIALIZING", "UPLOADING"}

VARIABLES
  shared,      \* set of currently shared directories
  mode,        \* share mode per directory (kept after removal: the object lives on in its items)
  dusers,      \* SharedDirectory.users per directory
  holder,      \* per file: the shared directory whose `items` holds the file's item, or none
  owner,       \* per file: item.shared_directory (gives the alias = the valid remote path), or none
  friends,     \* settings.users.friends
  blocked,     \* settings.users.blocked: user -> set of flags
  ctxFriends,  \* what the user-management job saw last (UserManagementContext)
  ctxBlocked,
  winFriends,  \* users that were a friend at some moment since that job last reported a change
  winUnblk,    \* users that were not blocked for uploads at some moment since then
  excluded,    \* SearchManager.excluded_search_phrases
  up,          \* upload records: T -> [st, reason, ua]
  flag,        \* _RequestFlag.SHARES_CHANGE is requested
  obs,         \* what the peers saw as the result of the last step (reset by every other step)
  cpc,         \* the management job: "idle" or "eval" (inside a cycle, between its start and manage_transfers)
  pend,        \* aborts the running cycle has decided on and is still waiting for: set of <<upload, reason>>
  okSince,     \* <<user, file>> pairs entitled at some moment since the running cycle began
  sess,        \* the client is logged in (a session exists); it runs and answers peers without one too
  nSess, nCfg, nReq, nEnv

cfgvars == <<shared, mode, dusers, friends, blocked, excluded>>
idxvars == <<holder, owner>>
usrvars == <<friends, blocked, ctxFriends, ctxBlocked, winFriends, winUnblk>>
vars == <<shared, mode, dusers, holder, owner, friends, blocked, ctxFriends, ctxBlocked, winFriends, winUnblk,
          excluded, up, flag, obs, cpc, pend, okSince, sess, nSess, nCfg, nReq, nEnv>>

NoObs == [k |-> "none"]
NoUp == [st |-> "NONE", reason |-> "none", ua |-> FALSE]

----------------------------------------------------------------------------
\* Reference notions, written from the property statement

RECURSIVE InnerFrom(_, _)
InnerFrom(d, sh) == IF d = None THEN None ELSE IF d \in sh THEN d ELSE InnerFrom(ParentOf(d), sh)
\* the innermost shared directory containing f
Inner(f) == InnerFrom(HomeOf(f), shared)

Allows(u, d, fr) ==
  \/ mode[d] = "everyone"
  \/ mode[d] = "friends" /\ u \in fr
  \/ mode[d] = "users" /\ u \in dusers[d]

\* u may see / fetch f as far as the share modes are concerned
EntitledByMode(u, f) == Inner(f) # None /\ Allows(u, Inner(f), friends)

\* u is entitled to file f: not blocked for uploads, f lies in a shared directory, and the mode of
\* the innermost shared directory containing f admits u
EntitledFileWith(u, f, fr, unb) == unb /\ Inner(f) # None /\ Allows(u, Inner(f), fr)
EntitledFile(u, f) == EntitledFileWith(u, f, friends, "up" \notin blocked[u])

\* the remote path p is one under which the file is offered right now
Offered(p) == p[3] = "exact" /\ holder[p[1]] # None /\ owner[p[1]] = p[2]
\* u is entitled to fetch what the remote path p names
Entitled(u, p) == Offered(p) /\ EntitledFile(u, p[1])

\* Timing note of the design: a change of settings.users reaches queued and running uploads with the
\* next user-management tick plus one cycle.  Until then the scheduler may act on any value the
\* friends list / block list had since the user-management job last reported a change.
EntitledFileCtx(u, f) == EntitledFileWith(u, f, winFriends, u \in winUnblk)
\* The same goes for the shared directories and one cycle: what manage_transfers starts at the end of a
\* cycle was evaluated at its beginning; a change made while the cycle is suspended (waiting for the
\* task of an upload it aborts) is for the next cycle.  `okSince` collects who was entitled to what at
\* some moment of the running cycle.
EntPairs == {x \in Users \X Files : EntitledFileCtx(x[1], x[2])}
\* every step but the two ends of a cycle adds the state it starts from (the last state of the cycle is
\* the one CycleEnd looks at itself)
OkAcc == okSince' = IF cpc = "eval" \/ AlwaysAccumulate THEN okSince \cup EntPairs ELSE {}
\* nothing can happen inside a cycle that is not waiting for anything
MayInterleave == cpc = "idle" \/ pend # {}

----------------------------------------------------------------------------
\* What the code computes

LockDir(f) == IF LockByHolder THEN holder[f] ELSE owner[f]
\* is_item_locked -> is_directory_locked (live friends list)
CodeLocked(u, f) == ~Allows(u, LockDir(f), friends)
\* get_shared_item_cache: walk the shared directories' items, compare remote paths exactly
CodeFinds(p) == p[3] = "exact" /\ holder[p[1]] # None /\ owner[p[1]] = p[2]
\* find_shared_item(remote_path, username) is not None
CodeShared(u, p) == CodeFinds(p) /\ ~CodeLocked(u, p[1])

\* query(): phrase test is `phrase in path.lower()`
PhraseHits(ph, f) == ph[1] \in HasW(f) /\ (FoldExcluded \/ ph[2])
CodeExcluded(f) == \E ph \in excluded : PhraseHits(ph, f)

----------------------------------------------------------------------------
Init ==
  /\ shared \in InitShared
  /\ mode \in [Dirs -> Modes]
  /\ dusers \in [Dirs -> UserSets]
  /\ holder = [f \in Files |-> InnerFrom(HomeOf(f), shared)]     \* scanned at start
  /\ owner = holder
  /\ friends \in {{}, {"u1"} \cap Users}
  /\ blocked = [u \in Users |-> {}]
  /\ ctxFriends = friends /\ ctxBlocked = blocked
  /\ winFriends = friends /\ winUnblk = Users
  /\ excluded = {}
  /\ up = [t \in T |-> NoUp]
  /\ flag = FALSE
  /\ obs = NoObs
  /\ cpc = "idle" /\ pend = {} /\ okSince = {}
  /\ sess \in InitSess /\ nSess = 0
  /\ nCfg = 0 /\ nReq = 0 /\ nEnv = 0

Cfg == nCfg < MaxCfg /\ nCfg' = nCfg + 1 /\ obs' = NoObs /\ UNCHANGED <<up, nReq, nEnv, cpc, pend, sess, nSess>> /\ OkAcc
       /\ MayInterleave
SameIndex == UNCHANGED <<holder, owner>>

\* ---- shared directories (each emits SharedDirectoryChangeEvent -> SHARES_CHANGE) ----
\* Every change is split into its configuration part (...Cfg) and what it does to the index, so that
\* the trace spec can take the index from the log (it is C07's subject, not C08's).

\* update_shared_directory(share_mode=)
SetModeCfg(d, m) ==
  /\ d \in shared /\ m # mode[d]
  /\ mode' = [mode EXCEPT ![d] = m]
  /\ flag' = TRUE
  /\ Cfg /\ UNCHANGED <<shared, dusers, friends, blocked, ctxFriends, ctxBlocked, winFriends, winUnblk, excluded>>
SetMode(d, m) == SetModeCfg(d, m) /\ SameIndex

\* update_shared_directory(users=)
SetUsersCfg(d, us) ==
  /\ d \in shared /\ us # dusers[d]
  /\ dusers' = [dusers EXCEPT ![d] = us]
  /\ flag' = TRUE
  /\ Cfg /\ UNCHANGED <<shared, mode, friends, blocked, ctxFriends, ctxBlocked, winFriends, winUnblk, excluded>>
SetUsers(d, us) == SetUsersCfg(d, us) /\ SameIndex

\* what add_shared_directory does to the index: items of the innermost shared parent that lie
\* under d move into d's item set; the items themselves (and so item.shared_directory) are untouched
IndexAfterAdd(d) ==
  LET par == InnerFrom(ParentOf(d), shared) IN
  /\ holder' = [f \in Files |-> IF par # None /\ holder[f] = par /\ Under(f, d) THEN d ELSE holder[f]]
  /\ owner' = owner

\* add_shared_directory: no scan
AddDirCfg(d, m, us) ==
  /\ d \in Dirs \ shared
  /\ shared' = shared \cup {d}
  /\ mode' = [mode EXCEPT ![d] = m]
  /\ dusers' = [dusers EXCEPT ![d] = us]
  /\ flag' = TRUE
  /\ Cfg /\ UNCHANGED <<friends, blocked, ctxFriends, ctxBlocked, winFriends, winUnblk, excluded>>
AddDir(d, m, us) == AddDirCfg(d, m, us) /\ IndexAfterAdd(d)

\* remove_shared_directory: the items go (unchanged) to the innermost remaining parent, or are dropped
IndexAfterRemove(d) ==
  LET par == InnerFrom(ParentOf(d), shared \ {d}) IN
  /\ holder' = [f \in Files |-> IF holder[f] = d THEN par ELSE holder[f]]
  /\ owner' = [f \in Files |-> IF holder[f] = d /\ par = None THEN None ELSE owner[f]]

RemoveDirCfg(d) ==
  /\ d \in shared
  /\ shared' = shared \ {d}
  /\ flag' = TRUE
  /\ Cfg /\ UNCHANGED <<mode, dusers, friends, blocked, ctxFriends, ctxBlocked, winFriends, winUnblk, excluded>>
RemoveDir(d) == RemoveDirCfg(d) /\ IndexAfterRemove(d)

\* scan(): every shared directory is walked (skipping shared children); items are re-created with
\* the scanned directory as owner; ScanCompleteEvent -> SHARES_CHANGE
IndexAfterScanAll ==
  /\ holder' = [f \in Files |-> Inner(f)]
  /\ owner' = [f \in Files |-> Inner(f)]

ScanAllCfg ==
  /\ flag' = TRUE
  /\ Cfg /\ UNCHANGED <<shared, mode, dusers, friends, blocked, ctxFriends, ctxBlocked, winFriends, winUnblk, excluded>>
ScanAll == ScanAllCfg /\ IndexAfterScanAll

\* scan_directory_files(d): only d is walked; no event is emitted by the pinned code
IndexAfterScanDir(d) ==
  /\ holder' = [f \in Files |-> IF Inner(f) = d THEN d ELSE IF holder[f] = d THEN None ELSE holder[f]]
  /\ owner' = [f \in Files |-> IF Inner(f) = d THEN d ELSE IF holder[f] = d THEN None ELSE owner[f]]

ScanDirCfg(d) ==
  /\ d \in shared
  /\ flag' = (flag \/ ScanDirCycles)
  /\ Cfg /\ UNCHANGED <<shared, mode, dusers, friends, blocked, ctxFriends, ctxBlocked, winFriends, winUnblk, excluded>>
ScanDir(d) == ScanDirCfg(d) /\ IndexAfterScanDir(d)

\* ---- settings (picked up by the user-management job) ----

SetFriendCfg(u, on) ==
  /\ (u \in friends) # on
  /\ friends' = IF on THEN friends \cup {u} ELSE friends \ {u}
  /\ RevertWithinTick \/ friends' # ctxFriends
  /\ winFriends' = IF on THEN winFriends \cup {u} ELSE winFriends
  /\ Cfg /\ UNCHANGED <<shared, mode, dusers, blocked, ctxFriends, ctxBlocked, winUnblk, excluded, flag>>
SetFriend(u, on) == SetFriendCfg(u, on) /\ SameIndex

\* Block(u, {}) is unblocking
SetBlockCfg(u, fl) ==
  /\ blocked[u] # fl
  /\ blocked' = [blocked EXCEPT ![u] = fl]
  /\ RevertWithinTick \/ blocked' # ctxBlocked
  /\ winUnblk' = IF "up" \notin fl THEN winUnblk \cup {u} ELSE winUnblk
  /\ Cfg /\ UNCHANGED <<shared, mode, dusers, friends, ctxFriends, ctxBlocked, winFriends, excluded, flag>>
SetBlock(u, fl) == SetBlockCfg(u, fl) /\ SameIndex

\* ExcludedSearchPhrases from the server
SetExcludedCfg(ps) ==
  /\ ps # excluded
  /\ excluded' = ps
  /\ Cfg /\ UNCHANGED <<shared, mode, dusers, friends, blocked, ctxFriends, ctxBlocked, winFriends, winUnblk, flag>>
SetExcluded(ps) == SetExcludedCfg(ps) /\ SameIndex

\* user/manager.py:264-296  a tick that sees a difference emits FriendListChanged/BlockListChanged;
\* both are listened to by the transfer manager (-> SHARES_CHANGE)
UserMgmtTick ==
  /\ ctxFriends # friends \/ ctxBlocked # blocked
  /\ ctxFriends' = friends /\ ctxBlocked' = blocked
  /\ winFriends' = friends /\ winUnblk' = {u \in Users : "up" \notin blocked[u]}
  /\ flag' = (flag \/ ctxBlocked # blocked \/ TickReportsAlways \/ sess)
  /\ obs' = NoObs
  /\ UNCHANGED <<shared, mode, dusers, holder, owner, friends, blocked, excluded, up, cpc, pend, sess, nSess, nCfg, nReq, nEnv>>
  /\ OkAcc /\ MayInterleave

\* The session comes and goes (login; loss of the server connection).  The managers keep running: peers
\* are answered, the settings are watched and the uploads managed without a session as with one.
SessionStep(on) ==
  /\ sess # on /\ sess' = on
  /\ nSess < MaxSess /\ nSess' = nSess + 1
  /\ obs' = NoObs
  /\ UNCHANGED <<shared, mode, dusers, holder, owner, friends, blocked, ctxFriends, ctxBlocked, winFriends, winUnblk,
                 excluded, up, flag, cpc, pend, nCfg, nReq, nEnv>>
  /\ OkAcc /\ MayInterleave
Login == SessionStep(TRUE)
ServerLoss == SessionStep(FALSE)

----------------------------------------------------------------------------
\* Replies seen by the peers

Observe == UNCHANGED <<shared, mode, dusers, holder, owner, friends, blocked, ctxFriends, ctxBlocked,
                       winFriends, winUnblk, excluded, up, flag, cpc, pend, sess, nSess, nCfg, nReq, nEnv>>
           /\ OkAcc /\ MayInterleave

Indexed == {f \in Files : holder[f] # None}
NoReply == [replied |-> FALSE, normal |-> {}, locked |-> {}]

\* search/manager.py:185-243 + shares query(): block gate, excluded phrases, visible/locked split
SearchReply(u, q) ==
  LET found == {f \in Indexed : q \in HasW(f) /\ ~CodeExcluded(f)} IN
  IF ~sess \/ "search" \in blocked[u] \/ found = {} THEN NoReply      \* (searches are answered with a session only)
  ELSE [replied |-> TRUE, normal |-> {f \in found : ~CodeLocked(u, f)}, locked |-> {f \in found : CodeLocked(u, f)}]

\* peer.py:62-80 + create_shares_reply: decided per shared directory, lists that directory's items
SharesReply(u) ==
  IF "shares" \in blocked[u] THEN NoReply
  ELSE [replied |-> TRUE, normal |-> {f \in Indexed : Allows(u, holder[f], friends)},
        locked |-> {f \in Indexed : ~Allows(u, holder[f], friends)}]

\* peer.py:107-125 + create_directory_reply: the directory of file f is asked for (by its current
\* remote name); the pinned code lists its files without looking at the asker
DirReply(u, f) ==
  IF "shares" \in blocked[u] THEN NoReply
  ELSE [replied |-> TRUE, normal |-> IF f \notin Indexed \/ (DirReplyLocks /\ CodeLocked(u, f)) THEN {} ELSE {f},
        locked |-> {}]

Seen(kind, u, r) == [k |-> kind, u |-> u, replied |-> r.replied, normal |-> r.normal, locked |-> r.locked]

SearchFrom(u, q) == obs' = Seen("search", u, SearchReply(u, q)) /\ Observe
SharesFrom(u) == obs' = Seen("shares", u, SharesReply(u)) /\ Observe
DirFrom(u, f) == f \in Indexed /\ obs' = Seen("dir", u, DirReply(u, f)) /\ Observe

----------------------------------------------------------------------------
\* Requests for uploads

\* `ua` remembers that the user asked for the abort (TransferManager.abort) that made it ABORTED
Put(t, s, r) == up' = [up EXCEPT ![t] = [st |-> s, reason |-> r, ua |-> FALSE]]
CanFail(s) == s \in {"QUEUED", "INITIALIZING", "UPLOADING", "PAUSED"}

Req == nReq < MaxReq /\ nReq' = nReq + 1
      /\ UNCHANGED <<shared, mode, dusers, holder, owner, friends, blocked, ctxFriends, ctxBlocked, winFriends, winUnblk, excluded,
                     flag, cpc, pend, sess, nSess, nCfg, nEnv>>
      /\ OkAcc /\ MayInterleave

Refusal(kind, u, p, why) == [k |-> kind, u |-> u, p |-> p, allowed |-> FALSE, why |-> why]

\* transfer/manager.py:1167-1237  PeerTransferQueue from u for path p
QueueRequest(u, p) ==
  LET t == <<u, p>> IN
  /\ Req
  /\ IF "up" \in blocked[u]
       THEN obs' = Refusal("qreply", u, p, "FileNotShared") /\ UNCHANGED up
     ELSE IF up[t].st = "NONE"
       THEN IF CodeShared(u, p)
              THEN Put(t, "QUEUED", "none") /\ obs' = NoObs
              ELSE obs' = Refusal("qreply", u, p, "FileNotShared") /\ UNCHANGED up
     ELSE IF ~CodeShared(u, p)
       THEN /\ obs' = Refusal("qreply", u, p, "FileNotShared")
            /\ IF CanFail(up[t].st) THEN Put(t, "FAILED", "none") ELSE UNCHANGED up
     ELSE IF up[t].st = "ABORTED"
       THEN obs' = Refusal("qreply", u, p, "Cancelled") /\ UNCHANGED up
     ELSE IF up[t].st \in {"FAILED", "COMPLETE"}
       THEN Put(t, "QUEUED", "none") /\ obs' = NoObs
     ELSE obs' = NoObs /\ UNCHANGED up

\* transfer/manager.py:1277-1382  PeerTransferRequest (direction = upload) from u for path p
TransferRequest(u, p) ==
  LET t == <<u, p>> IN
  /\ Req
  /\ IF "up" \in blocked[u]
       THEN obs' = Refusal("treply", u, p, "FileNotShared") /\ UNCHANGED up
     ELSE IF up[t].st = "NONE"
       THEN IF CodeShared(u, p)
              THEN Put(t, "QUEUED", "none") /\ obs' = Refusal("treply", u, p, "Queued")
              ELSE obs' = Refusal("treply", u, p, "FileNotShared") /\ UNCHANGED up
     ELSE IF ~CodeShared(u, p)
       THEN /\ obs' = Refusal("treply", u, p, "FileNotShared")
            /\ IF CanFail(up[t].st) THEN Put(t, "FAILED", "none") ELSE UNCHANGED up
     ELSE /\ UNCHANGED up
          /\ obs' = CASE up[t].st \in {"PAUSED", "ABORTED"} -> Refusal("treply", u, p, "Cancelled")
                      [] up[t].st = "COMPLETE" -> Refusal("treply", u, p, "Complete")
                      [] up[t].st = "QUEUED" -> Refusal("treply", u, p, "Queued")
                      [] OTHER -> NoObs

----------------------------------------------------------------------------
\* The transfer management cycle

\* _evaluate_aborted_state written out (transfer/manager.py:1542-1579)
AbortReasonFor(t) ==
  IF up[t].reason = "Requested" THEN "Requested"
  ELSE IF "up" \in blocked[UserOf(t)] THEN "Blocked"
  ELSE IF ~CodeShared(UserOf(t), PathOf(t)) THEN "FileNotShared"
  ELSE "none"

\* manage_shares_changed (569-594) for one upload
Evaluated(t) ==
  IF up[t].st \notin Unfinished THEN up[t]
  ELSE LET r == AbortReasonFor(t)
           aborted == up[t].st = "ABORTED" IN
       IF aborted # (r # "none")
         THEN IF aborted THEN [st |-> "QUEUED", reason |-> "none", ua |-> FALSE]
              ELSE [st |-> "ABORTED", reason |-> r, ua |-> FALSE]
         ELSE IF r # "none" THEN [up[t] EXCEPT !.reason = r] ELSE up[t]

\* _management_job (transfer/manager.py:517-533).  The cycle is not atomic: manage_shares_changed decides
\* for every upload at once (the loop has no await) and then awaits the transitions together; aborting an
\* upload that is under way cancels its task and waits for it (the task still has to close its
\* connection), so the job is suspended there and anything may happen meanwhile.  A request made in that
\* window (configuration change, user-management tick) sets SHARES_CHANGE again for the next cycle -
\* because the flags of this cycle were copied and cleared when it began.
CycleBegin ==
  /\ cpc = "idle"
  /\ flag \/ \E t \in T : up[t].st = "QUEUED"          \* a cycle that does nothing is not a step
  /\ LET ev == [t \in T |-> IF flag THEN Evaluated(t) ELSE up[t]]
         \* an UPLOADING upload has a file connection to close (an INITIALIZING one only while its
         \* connection is still being made: not modelled)
         slow == {t \in T : up[t].st = "UPLOADING" /\ ev[t].st = "ABORTED"} IN
     \E held \in SUBSET slow :                         \* which of them take time is up to the network
       /\ up' = [t \in T |-> IF t \in held THEN up[t] ELSE ev[t]]
       /\ pend' = {<<t, ev[t].reason>> : t \in held}
  /\ flag' = IF FlagsTakenAtStart THEN FALSE ELSE flag
  /\ cpc' = "eval"
  /\ okSince' = EntPairs
  /\ obs' = NoObs
  /\ UNCHANGED <<shared, mode, dusers, holder, owner, friends, blocked, ctxFriends, ctxBlocked, winFriends, winUnblk, excluded,
                 sess, nSess, nCfg, nReq, nEnv>>

\* the task of an upload the cycle aborts has ended: the transition is made, if it still can be
AbortDone(x) ==
  /\ x \in pend
  /\ pend' = pend \ {x}
  /\ IF up[x[1]].st \in {"QUEUED", "INITIALIZING", "UPLOADING", "PAUSED"}
       THEN Put(x[1], "ABORTED", x[2]) ELSE UNCHANGED up
  /\ obs' = NoObs /\ OkAcc
  /\ UNCHANGED <<shared, mode, dusers, holder, owner, friends, blocked, ctxFriends, ctxBlocked, winFriends, winUnblk, excluded,
                 flag, cpc, sess, nSess, nCfg, nReq, nEnv>>

\* (all the waiting aborts at once or one after the other makes no difference to what can interleave)
AbortsDone == \E x \in pend : AbortDone(x)

\* manage_transfers: queued uploads are started, one per user, for users that have nothing in progress,
\* while slots are free.  Which of the eligible ones is the business of C05; any admissible subset is
\* allowed here.
CycleEnd ==
  LET busy == {UserOf(t) : t \in {x \in T : up[x].st \in Processing}}
      free == UploadSlots - Cardinality({x \in T : up[x].st \in Processing})
      cand == {t \in T : up[t].st = "QUEUED" /\ UserOf(t) \notin busy} IN
  /\ cpc = "eval" /\ pend = {}
  /\ \E S \in SUBSET cand :
       /\ Cardinality(S) <= (IF free > 0 THEN free ELSE 0)
       /\ \A a, b \in S : UserOf(a) = UserOf(b) => a = b
       /\ up' = [t \in T |-> IF t \in S THEN [st |-> "INITIALIZING", reason |-> "none", ua |-> FALSE] ELSE up[t]]
  /\ flag' = IF FlagsTakenAtStart THEN flag ELSE FALSE
  /\ cpc' = "idle"
  /\ okSince' = {}
  /\ obs' = NoObs
  /\ UNCHANGED <<shared, mode, dusers, holder, owner, friends, blocked, ctxFriends, ctxBlocked, winFriends, winUnblk, excluded,
                 pend, sess, nSess, nCfg, nReq, nEnv>>

----------------------------------------------------------------------------
\* The peer's and the user's part in a running upload

Env == nEnv < MaxEnv /\ nEnv' = nEnv + 1
      /\ UNCHANGED <<shared, mode, dusers, holder, owner, friends, blocked, ctxFriends, ctxBlocked, winFriends, winUnblk, excluded,
                     flag, cpc, pend, sess, nSess, nCfg, nReq>>
      /\ OkAcc /\ MayInterleave

\* the peer accepts our PeerTransferRequest, a file connection is made, the file is written
PeerAccept(t) ==
  /\ up[t].st = "INITIALIZING"
  /\ Put(t, "UPLOADING", "none")
  /\ obs' = [k |-> "bytes", u |-> UserOf(t), p |-> PathOf(t)]
  /\ Env

\* the peer has everything and closes the file connection
PeerFinish(t) ==
  /\ up[t].st = "UPLOADING"
  /\ Put(t, "COMPLETE", "none")
  /\ obs' = NoObs
  /\ Env

\* the peer refuses our PeerTransferRequest
PeerReject(t) ==
  /\ up[t].st = "INITIALIZING"
  /\ Put(t, "FAILED", "none")
  /\ obs' = NoObs
  /\ Env

\* TransferManager.abort
UserAbort(t) ==
  /\ up[t].st \in {"QUEUED", "INITIALIZING", "UPLOADING", "PAUSED"}
  /\ up' = [up EXCEPT ![t] = [st |-> "ABORTED", reason |-> "Requested", ua |-> TRUE]]
  /\ obs' = NoObs
  /\ Env

\* TransferManager.pause
UserPause(t) ==
  /\ up[t].st \in {"QUEUED", "INITIALIZING", "UPLOADING"}
  /\ Put(t, "PAUSED", "none")
  /\ obs' = NoObs
  /\ Env

\* TransferManager.remove: the record is aborted (if it can be) and taken out of the list of transfers.
\* It may land inside a suspended cycle like any other step; the cycle must still deal with the others.
UserRemove(t) ==
  /\ up[t].st # "NONE"
  /\ up' = [up EXCEPT ![t] = NoUp]
  /\ obs' = NoObs
  /\ Env

----------------------------------------------------------------------------
Change ==
  \/ \E d \in Dirs, m \in Modes : SetMode(d, m)
  \/ \E d \in Dirs, us \in UserSets : SetUsers(d, us)
  \/ \E d \in Dirs, m \in Modes, us \in UserSets : AddDir(d, m, us)
  \/ \E d \in Dirs : RemoveDir(d)
  \/ ScanAll
  \/ \E d \in Dirs : ScanDir(d)
  \/ \E u \in FriendUsers, on \in BOOLEAN : SetFriend(u, on)
  \/ \E u \in Users, fl \in BlockSets \cup {{}} : SetBlock(u, fl)
  \/ \E ps \in PhraseSets : SetExcluded(ps)
  \/ UserMgmtTick
  \/ Login \/ ServerLoss
  \/ \E t \in T : QueueRequest(t[1], t[2]) \/ TransferRequest(t[1], t[2])
  \/ CycleBegin \/ CycleEnd
  \/ AbortsDone
  \/ \E t \in T : PeerAccept(t) \/ PeerFinish(t) \/ PeerReject(t) \/ UserAbort(t) \/ UserPause(t) \/ UserRemove(t)

Look ==
  \/ \E u \in Users, q \in Queries : SearchFrom(u, q)
  \/ \E u \in Users : SharesFrom(u)
  \/ \E u \in Users, f \in Files : DirFrom(u, f)

\* The exhaustive configurations leave the Look steps out (they change nothing but `obs`) and check
\* the reply properties for every asker in every state instead (the ...All invariants below).
Next == Change \/ Look
Spec == Init /\ [][Next]_vars
SpecNoLook == Init /\ [][Change]_vars

----------------------------------------------------------------------------
\* Properties

TypeOK ==
  /\ shared \subseteq Dirs
  /\ mode \in [Dirs -> AllModes]
  /\ holder \in [Files -> Dirs \cup {None}] /\ owner \in [Files -> Dirs \cup {None}]
  /\ friends \subseteq Users /\ ctxFriends \subseteq Users
  /\ friends \cup ctxFriends \subseteq winFriends /\ winUnblk \subseteq Users
  /\ \A u \in Users : blocked[u] \subseteq Flags
  /\ \A t \in T : up[t].st \in UpStates /\ up[t].reason \in Reasons
  /\ flag \in BOOLEAN /\ sess \in BOOLEAN /\ cpc \in {"idle", "eval"}
  /\ \A x \in pend : x[1] \in T /\ x[2] \in Reasons
  /\ cpc = "idle" => pend = {}

\* the index attributes every indexed file to the innermost shared directory containing it
\* (what SharesIndex/C07 establishes; used here to read "the directory of f" off the index)
HolderIsInnermost == \A f \in Files : holder[f] # None => holder[f] = Inner(f)

\* a reason is only carried by an aborted upload
ReasonOnlyWhenAborted == \A t \in T : up[t].reason # "none" => up[t].st = "ABORTED"

Listing == obs.k \in {"search", "shares", "dir"}

\* A file in a directory shared with friends or with named users is never listed as a normal
\* (downloadable) result or share for anyone else.
ListingOK(u, r) == \A f \in r.normal : Inner(f) # None => Allows(u, Inner(f), friends)
VisibleOnlyIfEntitledByMode == Listing => ListingOK(obs.u, obs)
VisibleOnlyIfEntitledByModeAll ==
  \A u \in Users :
    /\ \A q \in Queries : ListingOK(u, SearchReply(u, q))
    /\ ListingOK(u, SharesReply(u))
    /\ \A f \in Files : ListingOK(u, DirReply(u, f))

\* Search replies never contain a file whose path contains an excluded phrase, whatever its case.
ExcludedOK(r) == \A f \in r.normal \cup r.locked : \A ph \in excluded : ph[1] \notin HasW(f)
NoExcludedPhrase == obs.k = "search" => ExcludedOK(obs)
NoExcludedPhraseAll == \A u \in Users, q \in Queries : ExcludedOK(SearchReply(u, q))

\* ... nor go to a user blocked for searches.
NoReplyToSearchBlocked == (obs.k = "search" /\ obs.replied) => "search" \notin blocked[obs.u]
NoReplyToSearchBlockedAll ==
  \A u \in Users, q \in Queries : SearchReply(u, q).replied => "search" \notin blocked[u]

\* a request is never granted on the spot to somebody not entitled
NoGrantForUnentitled ==
  (obs.k \in {"qreply", "treply"} /\ obs.allowed) => Entitled(obs.u, obs.p)

\* An upload record is created, is queued again, or leaves QUEUED, only for a user entitled to the
\* file.  Creation and re-queueing are judged against the settings of that moment; being started by
\* the scheduler is judged against what the scheduler can know (see EntitledFileCtx).
UploadStep(t) ==
  /\ (up[t].st = "NONE" /\ up'[t].st # "NONE") => EntitledFile(UserOf(t), FileOf(t))
  /\ (up[t].st \in {"FAILED", "COMPLETE", "ABORTED"} /\ up'[t].st = "QUEUED") => EntitledFile(UserOf(t), FileOf(t))
  /\ (up[t].st = "QUEUED" /\ up'[t].st = "INITIALIZING") =>
        (EntitledFileCtx(UserOf(t), FileOf(t)) \/ <<UserOf(t), FileOf(t)>> \in okSince)
NoUploadForUnentitledA == \A t \in T : UploadStep(t)
NoUploadForUnentitled == [][NoUploadForUnentitledA]_vars

\* bytes of a file are written for an upload that is under way (not for an aborted/finished one)
BytesOnlyWhileUploading ==
  obs.k = "bytes" => up[<<obs.u, obs.p>>].st \in {"INITIALIZING", "UPLOADING"}

\* Uploads aborted on the user's request stay aborted (and keep saying so).
RequestedStaysA == \A t \in T : (up[t].st = "ABORTED" /\ up[t].reason = "Requested") =>
                                     (up'[t] = up[t] \/ up'[t].st = "NONE")        \* (or are removed)
RequestedStays == [][RequestedStaysA]_vars

\* Convergence: once the user-management job has seen the settings and a management cycle has run
\* after the last change, every unfinished upload that is not permitted is ABORTED, every aborted
\* upload carries a reason that is true, hence none is still ABORTED for a reason that no longer holds.
NotSharedTo(u, p) == ~(Offered(p) /\ Inner(p[1]) # None /\ Allows(u, Inner(p[1]), friends))
ReasonTrue(t) ==
  \/ up[t].reason = "Requested" /\ up[t].ua
  \/ up[t].reason = "Blocked" /\ "up" \in blocked[UserOf(t)]
  \/ up[t].reason = "FileNotShared" /\ NotSharedTo(UserOf(t), PathOf(t))
Converged(t) ==
  up[t].st \in Unfinished =>
    /\ ~EntitledFile(UserOf(t), FileOf(t)) => up[t].st = "ABORTED"
    /\ up[t].st = "ABORTED" => ReasonTrue(t)
\* (judged while logged in: a change made without a session counts from the next login on)
Quiet == ~flag /\ cpc = "idle" /\ ctxFriends = friends /\ ctxBlocked = blocked /\ sess
Convergence == Quiet => \A t \in T : Converged(t)
=============================================================================

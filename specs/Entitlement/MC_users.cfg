SPECIFICATION SpecNoLook
CONSTANTS
  Users = {"u1", "u2"}
  Dirs = {"D3"}
  Files = {"f3"}
  Variants = {"exact"}
  Modes = {"friends", "users"}
  UserSets = {{}, {"u1"}}
  BlockSets = {{"up"}}
  PhraseSets <- PS_None
  InitShared = {{"D3"}}
  FriendUsers = {"u1"}
  InitSess = {TRUE}
  MaxSess = 0
  MaxCfg = 3
  MaxReq = 1
  MaxEnv = 1
  UploadSlots = 2
  LockByHolder = TRUE
  FoldExcluded = TRUE
  DirReplyLocks = TRUE
  ScanDirCycles = TRUE
  AlwaysAccumulate = FALSE
  TickReportsAlways = TRUE
  FlagsTakenAtStart = TRUE
  RevertWithinTick = FALSE
INVARIANT TypeOK
INVARIANT HolderIsInnermost
INVARIANT ReasonOnlyWhenAborted
INVARIANT VisibleOnlyIfEntitledByMode
INVARIANT VisibleOnlyIfEntitledByModeAll
INVARIANT NoExcludedPhrase
INVARIANT NoExcludedPhraseAll
INVARIANT NoReplyToSearchBlocked
INVARIANT NoReplyToSearchBlockedAll
INVARIANT NoGrantForUnentitled
INVARIANT BytesOnlyWhileUploading
INVARIANT Convergence
PROPERTY NoUploadForUnentitled
PROPERTY RequestedStays
CHECK_DEADLOCK FALSE

SPECIFICATION TSpec
CONSTANTS
  Users = {"u1", "u2", "u3"}
  Dirs = {"D1", "D2", "D3", "D4"}
  Files = {"f1", "f2", "f3", "f4"}
  Variants = {"exact", "case", "sep", "fwd"}
  Modes = {"everyone", "friends", "users"}
  UserSets = {{}}
  BlockSets = {{"up"}}
  PhraseSets <- PS_None
  InitShared = {{}}
  FriendUsers = {"u1", "u2", "u3"}
  InitSess = {TRUE}
  MaxSess = 0
  MaxCfg = 1000000
  MaxReq = 1000000
  MaxEnv = 1000000
  UploadSlots = 2
  LockByHolder = TRUE
  FoldExcluded = TRUE
  DirReplyLocks = TRUE
  ScanDirCycles = TRUE
  AlwaysAccumulate = TRUE
  TickReportsAlways = TRUE
  FlagsTakenAtStart = TRUE
  RevertWithinTick = FALSE
INVARIANT VisibleOnlyIfEntitledByMode
INVARIANT NoExcludedPhrase
INVARIANT NoReplyToSearchBlocked
INVARIANT NoGrantForUnentitled
INVARIANT BytesOnlyWhileUploading
INVARIANT Convergence
PROPERTY NoUploadForUnentitled
PROPERTY RequestedStays
INVARIANT NoMark
CHECK_DEADLOCK TRUE

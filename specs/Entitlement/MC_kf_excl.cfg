SPECIFICATION SpecNoLook
CONSTANTS
  Users = {"u2"}
  Dirs = {"D1", "D3"}
  Files = {"f1", "f3"}
  Variants = {"exact"}
  Modes = {"everyone", "friends"}
  UserSets = {{}}
  BlockSets = {{"search"}}
  PhraseSets <- PS_Big
  InitShared = {{"D1", "D3"}}
  FriendUsers = {}
  InitSess = {TRUE}
  MaxSess = 0
  MaxCfg = 3
  MaxReq = 0
  MaxEnv = 0
  UploadSlots = 2
  LockByHolder = TRUE
  FoldExcluded = FALSE
  DirReplyLocks = TRUE
  ScanDirCycles = TRUE
  AlwaysAccumulate = FALSE
  TickReportsAlways = TRUE
  FlagsTakenAtStart = TRUE
  RevertWithinTick = FALSE
INVARIANT TypeOK
INVARIANT HolderIsInnermost
INVARIANT ReasonOnlyWhenAborted
INVARIANT VisibleOnlyIfEntitledByMode
INVARIANT VisibleOnlyIfEntitledByModeAll
INVARIANT NoExcludedPhrase
INVARIANT NoExcludedPhraseAll
INVARIANT NoReplyToSearchBlocked
INVARIANT NoReplyToSearchBlockedAll
INVARIANT NoGrantForUnentitled
INVARIANT BytesOnlyWhileUploading
INVARIANT Convergence
PROPERTY NoUploadForUnentitled
PROPERTY RequestedStays
CHECK_DEADLOCK FALSE

SPECIFICATION Spec
CONSTANTS
  T = {1, 2, 3}
  StartKinds = {"dq", "di", "df", "uq"}
  MaxTasks = 9
  MaxCycles = 5
  MaxOps = 3
  MaxEnv = 9
  MaxRequeue = 2
  MaxOffers = 2
  MaxSplit = 1
  SkipOccupied = TRUE
  CallbackOwnOnly = TRUE
  RemoveCancels = TRUE
  CycleSkipsLocked = TRUE
  OfferSkipsLocked = TRUE
  OfferSkipsOccupied = TRUE
  StartRechecks = TRUE
INVARIANT TypeOK
INVARIANT AtMostOneNegotiation
INVARIANT SlotsTrackLive
INVARIANT QuietNoTasks
PROPERTY QuietAfterReturn
CHECK_DEADLOCK FALSE

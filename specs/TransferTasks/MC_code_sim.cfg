SPECIFICATION Spec
CONSTANTS
  T = {1, 2, 3}
  StartKinds = {"dq", "di", "df", "uq"}
  MaxTasks = 9
  MaxCycles = 5
  MaxOps = 3
  MaxEnv = 9
  MaxRequeue = 2
  MaxOffers = 2
  SkipOccupied = FALSE
  CallbackOwnOnly = FALSE
  RemoveCancels = FALSE
  CycleSkipsLocked = FALSE
  OfferSkipsLocked = FALSE
  OfferSkipsOccupied = FALSE
CHECK_DEADLOCK FALSE

SPECIFICATION Spec
CONSTANTS
  T = {1}
  StartKinds = {"uq"}
  MaxTasks = 4
  MaxCycles = 2
  MaxOps = 1
  MaxEnv = 7
  MaxRequeue = 1
  MaxOffers = 1
  MaxSplit = 0
  SkipOccupied = TRUE
  CallbackOwnOnly = TRUE
  RemoveCancels = TRUE
  CycleSkipsLocked = TRUE
  OfferSkipsLocked = TRUE
  OfferSkipsOccupied = TRUE
  StartRechecks = TRUE
INVARIANT TypeOK
INVARIANT AtMostOneNegotiation
INVARIANT SlotsTrackLive
INVARIANT QuietNoTasks
PROPERTY QuietAfterReturn
CHECK_DEADLOCK FALSE

------------------------- MODULE TransferTasksTrace -------------------------
(***************************************************************************)
(* Trace validation for C06.  A batch of executions of a real, logged-in   *)
(* SoulSeekClient (TransferManager + Network on the simulated network, in  *)
(* virtual time), recorded by harness/props/c06.py, is judged with the     *)
(* property formulas of TransferTasks.                                     *)
(*                                                                         *)
(* What C06 constrains is observable: which negotiation tasks are live     *)
(* (asyncio.all_tasks), what the transfer's slots point at                 *)
(* (Transfer.get_tasks()), frames written about the transfer's file,       *)
(* connections opened on its behalf, its fields, and the call / return of  *)
(* abort / pause / remove / queue.  The recorder logs exactly that after   *)
(* every event; the variables of TransferTasks are BOUND from the log and  *)
(* the formulas AtMostOneNegotiation, SlotsTrackLive, QuietNoTasks and     *)
(* QuietStep of the design spec decide (as constraints: a path that breaks *)
(* one is cut and the trace is not accepted).  How the code gets from one  *)
(* logged state to the next (pcs, ready queue) is not constrained here -   *)
(* the property does not talk about it.  The bookkeeping of the quiet      *)
(* interval re-uses Returned of the design spec.                           *)
(*                                                                         *)
(* Record (JSON object; every record has every key):                       *)
(*   ev    "init" | "stim" | "call" | "ret" | "msg" | "conn" | "notify" |   *)
(*         "tick"                                                          *)
(*   t     transfer the event is about (0: none)                           *)
(*   o     call/ret: "abort" | "pause" | "remove" | "queue";  stim: its name *)
(*   val   ret: "ok" | "refused" | "exc:<Type>"                             *)
(*   what  msg / conn: frame class or "connect"                            *)
(*   ts    conn: transfers the connection activity is attributed to        *)
(*   amb   conn: TRUE when it could only be attributed to the peer: it is  *)
(*         on behalf of a quiet transfer only if ALL of ts are quiet       *)
(*   told  <<t, f>> pairs: the peer has told field f (remQ | piq) of t and  *)
(*         the client has not taken it over yet                            *)
(*   nT    number of negotiation tasks seen so far (ids are 1..nT in       *)
(*         creation order)                                                 *)
(*   s     per transfer (padded to Len = Cardinality(T)):                  *)
(*         [present, rq, tt, lrq, ltt, loth, f]  slots (0 = empty), ids of *)
(*         live tasks per kind (loth: any other task found working for the *)
(*         transfer, whatever its name), field snapshot                    *)
(***************************************************************************)
EXTENDS TransferTasks, Json, IOUtils

Traces == JsonDeserialize(IOEnv.TRACE_FILE)

VARIABLES tid, l

tvars == <<vars, tid, l>>

Tr == Traces[tid]
Rec == Tr[l]

Range(q) == {q[i] : i \in 1..Len(q)}

TaskOf(s, n) ==
  [k \in TaskIds |->
     IF \E t \in T : k \in Range(s[t].lrq)
       THEN [t |-> CHOOSE t \in T : k \in Range(s[t].lrq), kind |-> "rq", pc |-> "live", canc |-> FALSE]
     ELSE IF \E t \in T : k \in Range(s[t].ltt)
       THEN [t |-> CHOOSE t \in T : k \in Range(s[t].ltt), kind |-> "init", pc |-> "live", canc |-> FALSE]
     ELSE IF \E t \in T : k \in Range(s[t].loth)
       THEN [t |-> CHOOSE t \in T : k \in Range(s[t].loth), kind |-> "oth", pc |-> "live", canc |-> FALSE]
     ELSE IF k <= n THEN [t |-> 0, kind |-> "none", pc |-> "ended", canc |-> FALSE]
     ELSE NoTask]

\* the logged projection after the event
Bind(r) ==
  /\ x' = [t \in T |-> r.s[t].f]
  /\ present' = [t \in T |-> r.s[t].present]
  /\ rqSlot' = [t \in T |-> r.s[t].rq]
  /\ ttSlot' = [t \in T |-> r.s[t].tt]
  /\ task' = TaskOf(r.s, r.nT)
  /\ nT' = r.nT
  /\ UNCHANGED <<kind0, cbq, pconn>>

TInit ==
  /\ tid \in 1..Len(Traces)
  /\ l = 2
  /\ Len(Traces[tid]) >= 1 /\ Traces[tid][1].ev = "init"
  /\ LET r == Traces[tid][1] IN
       /\ kind0 = [t \in T |-> r.kinds[t]]
       /\ x = [t \in T |-> r.s[t].f]
       /\ present = [t \in T |-> r.s[t].present]
       /\ rqSlot = [t \in T |-> r.s[t].rq]
       /\ ttSlot = [t \in T |-> r.s[t].tt]
       /\ task = TaskOf(r.s, r.nT)
       /\ nT = r.nT
  /\ cbq = <<>>
  /\ op = [t \in T |-> IdleOp]
  /\ quiet = [t \in T |-> 0]
  /\ acted = {}
  /\ pconn = FALSE
  /\ cnt = [cyc |-> 0, ops |-> 0, env |-> 0, req |-> 0, off |-> 0, split |-> 0, sel |-> {}]

IsEv(e) == l <= Len(Tr) /\ Rec.ev = e
\* "the peer is telling field f of t" lasts from the stimulus record that sends the frame to the first record in
\* which the client has taken the value over (its reader loop may be held up behind an earlier frame whose handler
\* waits for a state lock): every record in that span carries <<t, f>> in told
Marks == {Told(Rec.told[i][1], Rec.told[i][2]) : i \in 1..Len(Rec.told)}
Consume == l' = l + 1 /\ UNCHANGED tid

\* the user calls abort / pause / remove / queue on t: what happens to t during the call is the user's own doing,
\* a quiet interval of t is suspended (op[t].waits remembers it: a refused queue() resumes it)
TCall ==
  /\ IsEv("call") /\ Rec.t \in T /\ Rec.o \in {"abort", "pause", "remove", "queue"}
  /\ op[Rec.t].pc = "idle"        \* (a call on another transfer may be parked in its file removal)
  /\ op' = [op EXCEPT ![Rec.t] = [o |-> Rec.o, pc |-> "await", ok |-> FALSE, waits |-> {quiet[Rec.t]}]]
  /\ quiet' = [quiet EXCEPT ![Rec.t] = 0]
  /\ cnt' = IF Rec.o = "queue" THEN cnt ELSE [cnt EXCEPT !.ops = @ + 1]
  /\ acted' = Marks
  /\ Bind(Rec) /\ Consume

\* the call returns.  "ok": performed (abort -> ABORTED, pause -> PAUSED, remove -> no longer in the list,
\* queue -> QUEUED, the legitimate re-queue that ends the quiet interval); "refused": InvalidStateTransition,
\* nothing was done: no quiet interval starts, resp. the suspended one goes on.  Anything else (another
\* exception) is not a behaviour of the specification.
TRet ==
  /\ IsEv("ret") /\ Rec.t \in T
  /\ op[Rec.t].pc = "await" /\ op[Rec.t].o = Rec.o
  /\ Rec.val \in {"ok", "refused"}
  /\ Rec.val = "refused" => Rec.o # "remove"
  /\ Rec.val = "ok" =>
        CASE Rec.o = "abort"  -> Rec.s[Rec.t].f.st = "ABORTED"
          [] Rec.o = "pause"  -> Rec.s[Rec.t].f.st = "PAUSED"
          [] Rec.o = "remove" -> ~Rec.s[Rec.t].present
          [] Rec.o = "queue"  -> TRUE
  /\ IF Rec.o = "queue"
       THEN /\ quiet' = [quiet EXCEPT ![Rec.t] = IF Rec.val = "ok" THEN 0 ELSE CHOOSE n \in op[Rec.t].waits : TRUE]
            /\ op' = [op EXCEPT ![Rec.t] = IdleOp]
       ELSE Returned(Rec.t, Rec.o, Rec.val = "ok", cnt.ops)
  /\ acted' = Marks
  /\ UNCHANGED cnt
  /\ Bind(Rec) /\ Consume

\* a harness stimulus (management-cycle trigger, connect outcome, peer frame ...) and what the client had done
\* when the ready queue was empty again
\* "offer-begin": the uploader offers the file (PeerTransferRequest).  For a download that is FAILED and still in the
\* list this is the peer legitimately re-queueing it (TransferTasks.PeerOffer: queue(remotely), initialize-download)
\* - also when it got there from PAUSED by the peer's own queue failure: the quiet interval ends.  ABORTED, PAUSED
\* and removed transfers are refused and stay quiet.
TStim ==
  /\ IsEv("stim")
  /\ acted' = Marks
  /\ quiet' = IF Rec.o = "offer-begin" /\ Rec.t \in T /\ present[Rec.t] /\ x[Rec.t].st = "FAILED"
                THEN [quiet EXCEPT ![Rec.t] = 0] ELSE quiet
  /\ UNCHANGED <<op, cnt>>
  /\ Bind(Rec) /\ Consume

\* a frame about t's file was written (PeerTransferQueue, PeerTransferRequest, PeerPlaceInQueueRequest,
\* PeerTransferReply allowing the transfer, PeerUploadFailed, ticket / offset on a file connection)
TMsg ==
  /\ IsEv("msg") /\ Rec.t \in T
  /\ acted' = {Rec.t} \cup Marks
  /\ UNCHANGED <<op, quiet, cnt>>
  /\ Bind(Rec) /\ Consume

\* a connection was opened / requested (GetPeerAddress, ConnectToPeer, connect attempt)
TConn ==
  /\ IsEv("conn")
  /\ LET ts == Range(Rec.ts) \cap T IN
       acted' = (IF Rec.amb THEN (IF \A t \in ts : quiet[t] # 0 THEN ts ELSE {}) ELSE ts) \cup Marks
  /\ UNCHANGED <<op, quiet, cnt>>
  /\ Bind(Rec) /\ Consume

\* a state listener was told / virtual time passed: only the projection is taken
TObserve ==
  /\ IsEv("notify") \/ IsEv("tick")
  /\ acted' = Marks
  /\ UNCHANGED <<op, quiet, cnt>>
  /\ Bind(Rec) /\ Consume

Done ==
  /\ l = Len(Tr) + 1
  /\ PrintT(<<"ACCEPT", tid, {}>>)
  /\ l' = l + 1
  /\ UNCHANGED <<vars, tid>>

Finished == l = Len(Tr) + 2 /\ UNCHANGED tvars

TEvent == TCall \/ TRet \/ TStim \/ TMsg \/ TConn \/ TObserve
TNext == TEvent \/ Done \/ Finished

TSpec == TInit /\ [][TNext]_tvars

\* Classification run (TraceWhy.cfg, same constraints): the same transition relation, but a step that breaks a
\* property says which one before the constraint cuts it.  Used only to name the failure of every rejected
\* trace of a batch in one TLC start; the verdict is the absence of ACCEPT under TSpec.
Verdict ==
  IF ~AtMostOneNegotiation' THEN "AtMostOneNegotiation"
  ELSE IF ~SlotsTrackLive' THEN "SlotsTrackLive"
  ELSE IF ~QuietNoTasks' THEN "QuietNoTasks"
  ELSE IF ~QuietStep THEN "QuietAfterReturn"
  ELSE "ok"
WNext == (TEvent /\ (Verdict = "ok" \/ PrintT(<<"REJECT", tid, l, Verdict>>))) \/ Done \/ Finished
WSpec == TInit /\ [][WNext]_tvars

\* QuietAfterReturn as an action constraint / property over the trace variables
QuietAfterReturnT == [][QuietStep]_tvars
=============================================================================

SPECIFICATION Spec
CONSTANTS
  T = {1}
  StartKinds = {"dq", "di", "df", "uq"}
  MaxTasks = 4
  MaxCycles = 2
  MaxOps = 1
  MaxEnv = 2
  MaxRequeue = 1
  MaxOffers = 1
  MaxSplit = 1
  SkipOccupied = FALSE
  CallbackOwnOnly = FALSE
  RemoveCancels = FALSE
  CycleSkipsLocked = FALSE
  OfferSkipsLocked = FALSE
  OfferSkipsOccupied = FALSE
  StartRechecks = FALSE
INVARIANT TypeOK
INVARIANT AtMostOneNegotiation
INVARIANT SlotsTrackLive
INVARIANT QuietNoTasks
PROPERTY QuietAfterReturn
CHECK_DEADLOCK FALSE

SPECIFICATION Spec
CONSTANTS
  T = {1}
  StartKinds = {"dq", "di", "df", "uq"}
  MaxTasks = 4
  MaxCycles = 2
  MaxOps = 1
  MaxEnv = 2
  MaxRequeue = 1
  MaxOffers = 1
  MaxSplit = 1
  SkipOccupied = TRUE
  CallbackOwnOnly = TRUE
  RemoveCancels = TRUE
  CycleSkipsLocked = TRUE
  OfferSkipsLocked = TRUE
  OfferSkipsOccupied = TRUE
  StartRechecks = FALSE
INVARIANT TypeOK
INVARIANT AtMostOneNegotiation
INVARIANT SlotsTrackLive
INVARIANT QuietNoTasks
PROPERTY QuietAfterReturn
CHECK_DEADLOCK FALSE

---------------------------- MODULE TransferTasks ----------------------------
(***************************************************************************)
(* C06 - after abort / pause / remove has returned nothing more happens    *)
(* for that transfer; at most one background negotiation per transfer and  *)
(* kind is in flight, so cancelling the transfer cancels all of it.        *)
(*                                                                         *)
(* Mirrors, for the transfers exchanged with ONE peer:                     *)
(*   transfer/manager.py  manage_transfers, _get_queued_transfers,         *)
(*                        _queue_remotely, _initialize_download,           *)
(*                        _initialize_upload, abort / pause / remove /     *)
(*                        queue, _on_peer_transfer_request                 *)
(*   transfer/model.py    cancel_tasks, _remotely_queue_task /             *)
(*                        _transfer_task and their done-callbacks          *)
(*   transfer/state.py    abort / pause (cancel, await, [remove file],     *)
(*                        transition), queue, initialize, ...              *)
(*   network/network.py   create_peer_connection in fallback mode (direct  *)
(*                        attempt, then indirect through the server)       *)
(*                                                                         *)
(* A background task is a pc; an action runs it from one suspending await  *)
(* to the next.  The asyncio facts the property depends on are explicit:   *)
(* task.cancel() only flags the task (CancelDelivered is its next step);   *)
(* a done-callback runs one ready-slot after the task ended (cbq);         *)
(* a management cycle (Cycle) may run at ANY of these points - it is woken *)
(* by any state change of any transfer, by peer status messages, by the    *)
(* server's AddUser reply, or by its own timer.                            *)
(*                                                                         *)
(* Deviations of the code from the property are CONSTANT switches; TRUE is *)
(* the repaired position, FALSE what the pinned code does:                 *)
(*   SkipOccupied     manage_transfers starts no task while the slot still *)
(*                    holds a live one              (F06-1, manager 550ff) *)
(*   CallbackOwnOnly  a done-callback clears the slot only if the slot     *)
(*                    still points at the task that ended (model 360-364)  *)
(*   RemoveCancels    remove() cancels the background tasks also when the  *)
(*                    transfer is in a state that refuses abort (F06-2)    *)
(*   CycleSkipsLocked manage_transfers starts no task for a transfer whose *)
(*                    abort / pause is in progress (state lock held)       *)
(*   OfferSkipsLocked _on_peer_transfer_request starts no                  *)
(*                    initialize-download for such a transfer either       *)
(*   OfferSkipsOccupied  ... nor while the transfer-task slot still holds  *)
(*                    a live task (a repeated offer with a new ticket)     *)
(*   StartRechecks    a cycle that waits between selecting transfers and   *)
(*                    starting their tasks looks at them again (the pinned *)
(*                    code never waits there: trivially TRUE)              *)
(***************************************************************************)
EXTENDS Naturals, Sequences, FiniteSets, TLC

CONSTANTS
  T,                 \* transfer ids; numeric order = order in TransferManager._transfers
  StartKinds,        \* flavours a transfer may start in: "dq" download QUEUED, "di" download INCOMPLETE with
                     \* a partial local file, "df" download FAILED without reason (auto-retried), "uq" upload QUEUED
  MaxTasks,          \* bound on the number of tasks ever created
  MaxCycles,         \* bound on management cycles
  MaxOps,            \* bound on abort / pause / remove calls
  MaxEnv,            \* bound on environment steps (connect outcomes, peer frames, timeouts)
  MaxRequeue,        \* bound on user re-queues
  MaxOffers,         \* bound on frames from the peer (offers, queue-failed, re-queue, upload-failed, place replies) and
                     \* losses of the peer connection
  MaxSplit,          \* bound on cycles that wait between selecting and starting
  SkipOccupied, CallbackOwnOnly, RemoveCancels, CycleSkipsLocked, OfferSkipsLocked, OfferSkipsOccupied, StartRechecks

TaskIds == 1..MaxTasks

VARIABLES
  kind0,    \* [T -> StartKinds]  flavour (fixes the direction)
  x,        \* [T -> [st, failR, abortR, remQ, qatt, lfile, piq]]  the transfer's observable fields
  present,  \* [T -> BOOLEAN]  still in TransferManager._transfers
  rqSlot,   \* [T -> 0..MaxTasks]  Transfer._remotely_queue_task (0 = None)
  ttSlot,   \* [T -> 0..MaxTasks]  Transfer._transfer_task
  task,     \* [TaskIds -> [t, kind, pc, canc]]  every task ever created; pc "none" = id not used yet
  nT,       \* number of tasks created
  cbq,      \* Seq(TaskIds): ended tasks whose done-callback has not run yet (FIFO, as the ready queue)
  op,       \* [T -> [o, pc, ok, waits]]  the user call in progress on t
  quiet,    \* [T -> 0..MaxOps]  n > 0: in the quiet interval that began with the return of the n-th user call
            \*                   (abort/pause/remove) and lasts until the next legitimate re-queue / user call; 0: not quiet
  acted,    \* transfers on whose behalf THIS step wrote a protocol message or opened a connection; plus markers
            \* Told(t, field): in this step the PEER told us the value of a field that is its to tell (remQ, piq)
  pconn,    \* an established peer (P) connection to the peer exists and is re-used by send_peer_messages
  cnt       \* budget counters; cnt.sel: what the management job has selected and not yet started (CycleSelect)

vars == <<kind0, x, present, rqSlot, ttSlot, task, nT, cbq, op, quiet, acted, pconn, cnt>>

Dir(t) == IF kind0[t] = "uq" THEN "up" ELSE "down"

\* marker in `acted` (numbers, so that TLC can keep them in one set with transfer ids; transfer ids are < 100)
Told(t, f) == IF f = "remQ" THEN 100 + t ELSE IF f = "piq" THEN 200 + t ELSE 300 + t

NoTask == [t |-> 0, kind |-> "none", pc |-> "none", canc |-> FALSE]
IdleOp == [o |-> "none", pc |-> "idle", ok |-> FALSE, waits |-> {}]

Live(k) == task[k].pc \notin {"none", "ended"}
LiveOf(t, kd) == {k \in TaskIds : Live(k) /\ task[k].t = t /\ task[k].kind = kd}
LiveRQ(t) == LiveOf(t, "rq")
LiveTT(t) == LiveOf(t, "init")
\* any other task working on behalf of the transfer (found by what it holds / does, whatever its name): the design
\* has none - everything done for a transfer is done by the task in one of its two slots
LiveOther(t) == LiveOf(t, "oth")
\* i-th oldest live task of transfer t and kind kd (0 if there is none): how the environment addresses tasks
Nth(t, kd, i) == LET S == LiveOf(t, kd) IN
                   IF Cardinality(S) < i THEN 0
                   ELSE CHOOSE k \in S : Cardinality({j \in S : j < k}) = i - 1

InitX(kd) ==
  CASE kd = "dq" -> [st |-> "QUEUED",     failR |-> FALSE, abortR |-> FALSE, remQ |-> FALSE, qatt |-> 0, lfile |-> FALSE, piq |-> 0]
    [] kd = "di" -> [st |-> "INCOMPLETE", failR |-> FALSE, abortR |-> FALSE, remQ |-> FALSE, qatt |-> 0, lfile |-> TRUE, piq |-> 0]
    [] kd = "df" -> [st |-> "FAILED",     failR |-> FALSE, abortR |-> FALSE, remQ |-> FALSE, qatt |-> 0, lfile |-> FALSE, piq |-> 0]
    [] kd = "uq" -> [st |-> "QUEUED",     failR |-> FALSE, abortR |-> FALSE, remQ |-> FALSE, qatt |-> 0, lfile |-> TRUE, piq |-> 0]

Init ==
  /\ kind0 \in [T -> StartKinds]
  /\ x = [t \in T |-> InitX(kind0[t])]
  /\ present = [t \in T |-> TRUE]
  /\ rqSlot = [t \in T |-> 0]
  /\ ttSlot = [t \in T |-> 0]
  /\ task = [k \in TaskIds |-> NoTask]
  /\ nT = 0
  /\ cbq = <<>>
  /\ op = [t \in T |-> IdleOp]
  /\ quiet = [t \in T |-> 0]
  /\ acted = {}
  /\ pconn = FALSE
  /\ cnt = [cyc |-> 0, ops |-> 0, env |-> 0, req |-> 0, off |-> 0, split |-> 0, sel |-> {}]

----------------------------------------------------------------------------
\* transfer/state.py: what a state method does to the fields (a refused call changes nothing)

QueueFrom == {"INITIALIZING", "COMPLETE", "INCOMPLETE", "FAILED", "PAUSED", "ABORTED"}
AbortFrom == {"QUEUED", "INITIALIZING", "DOWNLOADING", "UPLOADING", "INCOMPLETE", "PAUSED"}
PauseFrom == {"QUEUED", "INITIALIZING", "DOWNLOADING", "UPLOADING", "INCOMPLETE"}
FailFrom  == {"QUEUED", "INITIALIZING", "DOWNLOADING", "UPLOADING", "INCOMPLETE", "PAUSED"}

DoQueue(r, remotely) ==
  IF r.st \in QueueFrom
    THEN [r EXCEPT !.st = "QUEUED", !.remQ = remotely,
                   !.failR = IF r.st \in {"FAILED", "ABORTED"} THEN FALSE ELSE @,
                   !.abortR = IF r.st \in {"FAILED", "ABORTED"} THEN FALSE ELSE @]
    ELSE r
DoInitialize(r) == IF r.st \in {"QUEUED", "INCOMPLETE"} THEN [r EXCEPT !.st = "INITIALIZING"] ELSE r
DoStart(r, d) == IF r.st = "INITIALIZING"
                   THEN [r EXCEPT !.st = IF d = "up" THEN "UPLOADING" ELSE "DOWNLOADING", !.remQ = FALSE, !.qatt = 0]
                   ELSE r
DoComplete(r) == IF r.st \in {"DOWNLOADING", "UPLOADING"} THEN [r EXCEPT !.st = "COMPLETE"] ELSE r
DoIncomplete(r) == IF r.st = "DOWNLOADING" THEN [r EXCEPT !.st = "INCOMPLETE"] ELSE r
DoFail(r, reason) == IF r.st \in FailFrom THEN [r EXCEPT !.st = "FAILED", !.failR = reason] ELSE r

Min(a, b) == IF a < b THEN a ELSE b
Sorted(S) == [i \in 1..Cardinality(S) |-> CHOOSE k \in S : Cardinality({j \in S : j < k}) = i - 1]

----------------------------------------------------------------------------
\* scheduling points

\* a user call is suspended in `await gather(cancelled tasks)`: only loop-internal handles run
OpAwaiting == \E t \in T : op[t].pc = "await"
CancelPending == \E k \in TaskIds : Live(k) /\ task[k].canc
\* the ready queue is empty: the harness / the network / the user can act
Quiescent == cbq = <<>> /\ ~OpAwaiting /\ ~CancelPending

End(tk, k) == [tk EXCEPT ![k].pc = "ended"]

----------------------------------------------------------------------------
\* manager.py:542-567  manage_transfers

Locked(t) == op[t].pc \in {"await", "rmfile"} /\ op[t].ok      \* the state lock of t is held by abort/pause

EligibleDown(t) ==
  /\ Dir(t) = "down" /\ present[t] /\ ~x[t].remQ
  /\ x[t].st \in {"QUEUED", "INCOMPLETE"} \/ (x[t].st = "FAILED" /\ ~x[t].failR)

SlotFree(s) == s = 0 \/ ~Live(s)

StartsRQ(t) ==
  /\ EligibleDown(t)
  /\ SkipOccupied => SlotFree(rqSlot[t])
  /\ CycleSkipsLocked => ~Locked(t)

\* one upload per user at a time: the first QUEUED upload in list order, unless an upload is being processed
UploadProcessing == \E u \in T : Dir(u) = "up" /\ present[u] /\ x[u].st \in {"INITIALIZING", "UPLOADING"}
QueuedUploads == {u \in T : Dir(u) = "up" /\ present[u] /\ x[u].st = "QUEUED"}
StartsUL(t) ==
  /\ ~UploadProcessing /\ t \in QueuedUploads /\ \A u \in QueuedUploads : t <= u
  /\ SkipOccupied => SlotFree(ttSlot[t])
  /\ CycleSkipsLocked => ~Locked(t)

Starters == {t \in T : StartsRQ(t) \/ StartsUL(t)}

\* Tasks are created for the transfers in S: downloads (queue-remotely) in list order first, then the upload
\* (initialize-upload).  Position of t in that order:
Before(S, t) == Cardinality({u \in S : Dir(u) = "down" /\ (u < t \/ Dir(t) = "up")})
NewId(S, t) == nT + Before(S, t) + 1

\* Each new task runs to its first suspending await in the same loop iteration burst:
\*  queue-remotely: send_peer_messages -> get_peer_connection: re-use the P connection and write PeerTransferQueue
\*                  (remotely_queued := True, task ends), else GetPeerAddress + direct connect attempt
\*  initialize-upload: state.initialize() (refused - and ignored - if the transfer is no longer QUEUED), then
\*                  PeerTransferRequest on the P connection or connect first
StartTasks(S) ==
  /\ nT + Cardinality(S) <= MaxTasks
  /\ nT' = nT + Cardinality(S)
  /\ task' = [k \in TaskIds |->
                IF \E t \in S : NewId(S, t) = k
                  THEN LET t == CHOOSE t \in S : NewId(S, t) = k IN
                         IF Dir(t) = "down"
                           THEN [t |-> t, kind |-> "rq", pc |-> IF pconn THEN "ended" ELSE "direct", canc |-> FALSE]
                           ELSE [t |-> t, kind |-> "init", pc |-> IF pconn THEN "reply" ELSE "direct", canc |-> FALSE]
                  ELSE task[k]]
  /\ rqSlot' = [t \in T |-> IF t \in S /\ Dir(t) = "down" THEN NewId(S, t) ELSE rqSlot[t]]
  /\ ttSlot' = [t \in T |-> IF t \in S /\ Dir(t) = "up" THEN NewId(S, t) ELSE ttSlot[t]]
  /\ x' = [t \in T |-> IF t \in S /\ Dir(t) = "down" /\ pconn THEN [x[t] EXCEPT !.remQ = TRUE, !.qatt = 0]
                       ELSE IF t \in S /\ Dir(t) = "up" THEN DoInitialize(x[t]) ELSE x[t]]
  /\ cbq' = cbq \o Sorted({NewId(S, t) : t \in {u \in S : Dir(u) = "down" /\ pconn}})
  /\ acted' = S

\* the management job is not between selecting and starting (it is ONE task: cycles do not overlap)
Idle == cnt.sel = {}

\* a cycle that selects and starts without suspending in between (manage_transfers as one synchronous call)
Cycle ==
  /\ Idle /\ cnt.cyc < MaxCycles
  /\ cnt' = [cnt EXCEPT !.cyc = @ + 1]
  /\ StartTasks(Starters)
  /\ UNCHANGED <<kind0, present, op, quiet, pconn>>

\* A cycle may also have to wait between selecting the transfers and starting their tasks (a file-system or other
\* executor round trip, any await): everything else goes on meanwhile - in particular a user call on a selected
\* transfer that has nothing to cancel completes at once.  What was selected must then be looked at again
\* (StartRechecks); a cycle that does not suspend is the special case in which nothing can have changed.
CycleSelect ==
  /\ Idle /\ cnt.cyc < MaxCycles /\ cnt.split < MaxSplit /\ Starters # {}
  /\ cnt' = [cnt EXCEPT !.cyc = @ + 1, !.split = @ + 1, !.sel = Starters]
  /\ acted' = {}
  /\ UNCHANGED <<kind0, x, present, rqSlot, ttSlot, task, nT, cbq, op, quiet, pconn>>

CycleStart ==
  /\ ~Idle
  /\ cnt' = [cnt EXCEPT !.sel = {}]
  /\ StartTasks(IF StartRechecks THEN cnt.sel \cap Starters ELSE cnt.sel)
  /\ UNCHANGED <<kind0, present, op, quiet, pconn>>

----------------------------------------------------------------------------
\* model.py:360-364  the done-callback of an ended task, one ready-slot later

DoneCallback ==
  /\ cbq # <<>>
  /\ LET k == Head(cbq)  t == task[k].t IN
       /\ rqSlot' = IF task[k].kind = "rq" /\ (CallbackOwnOnly => rqSlot[t] = k)
                      THEN [rqSlot EXCEPT ![t] = 0] ELSE rqSlot
       /\ ttSlot' = IF task[k].kind = "init" /\ (CallbackOwnOnly => ttSlot[t] = k)
                      THEN [ttSlot EXCEPT ![t] = 0] ELSE ttSlot
  /\ cbq' = Tail(cbq)
  /\ acted' = {}
  /\ UNCHANGED <<kind0, x, present, task, nT, op, quiet, pconn, cnt>>

\* a cancelled task gets CancelledError at its next step and ends (a transferring task first closes its
\* file connection: no message, nothing opened)
CancelDelivered(k) ==
  /\ Live(k) /\ task[k].canc
  /\ task' = End(task, k)
  /\ cbq' = Append(cbq, k)
  /\ acted' = {}
  /\ UNCHANGED <<kind0, x, present, rqSlot, ttSlot, nT, op, quiet, pconn, cnt>>

----------------------------------------------------------------------------
\* environment steps: each lets ONE task run from its pc to the next suspending await.
\* Tasks are addressed as (transfer, kind, i-th oldest live task of that kind).

EnvBudget == Quiescent /\ cnt.env < MaxEnv /\ cnt' = [cnt EXCEPT !.env = @ + 1]

\* the task ends: pc, done-callback queued
Ends(k) == task' = End(task, k) /\ cbq' = Append(cbq, k)

\* queue-remotely / initialize-upload: outcome of the direct attempt for the P connection
\* network.py:806-848 (ok: PeerInit + the message are written), 556-581 (failure: ConnectToPeer to the server)
Direct(t, kd, i, res) ==
  /\ EnvBudget
  /\ LET k == Nth(t, kd, i) IN
       /\ k # 0 /\ task[k].pc = "direct"
       /\ acted' = {t}
       /\ IF res = "fail"
            THEN /\ task' = [task EXCEPT ![k].pc = "indirect"]
                 /\ UNCHANGED <<x, cbq, pconn>>
            ELSE /\ pconn' = TRUE
                 /\ IF kd = "rq"
                      THEN /\ Ends(k)                                         \* manager.py:725-728
                           /\ x' = [x EXCEPT ![t].remQ = TRUE, ![t].qatt = 0]
                      ELSE /\ task' = [task EXCEPT ![k].pc = "reply"]         \* manager.py:907-915
                           /\ UNCHANGED <<x, cbq>>
  /\ UNCHANGED <<kind0, present, rqSlot, ttSlot, nT, op, quiet>>

\* outcome of the indirect attempt (peer pierces / CannotConnect or the 60 s timeout)
\* failure: manager.py:720-723 (queue_attempts += 1, state.queue()) resp. 902-905 (state.queue())
Indirect(t, kd, i, res) ==
  /\ EnvBudget
  /\ LET k == Nth(t, kd, i) IN
       /\ k # 0 /\ task[k].pc = "indirect"
       /\ IF res = "fail"
            THEN /\ Ends(k)
                 /\ acted' = {}
                 /\ x' = [x EXCEPT ![t] = DoQueue(IF kd = "rq" THEN [x[t] EXCEPT !.qatt = Min(@ + 1, 2)] ELSE x[t], FALSE)]
                 /\ UNCHANGED pconn
            ELSE /\ pconn' = TRUE
                 /\ acted' = {t}
                 /\ IF kd = "rq"
                      THEN /\ Ends(k)
                           /\ x' = [x EXCEPT ![t].remQ = TRUE, ![t].qatt = 0]
                      ELSE /\ task' = [task EXCEPT ![k].pc = "reply"]
                           /\ UNCHANGED <<x, cbq>>
  /\ UNCHANGED <<kind0, present, rqSlot, ttSlot, nT, op, quiet>>

\* frames the peer sends on a P connection it opened itself (network quiescent; also while a call is parked in its
\* file removal)
PeerFrame == Quiescent /\ cnt.off < MaxOffers /\ cnt' = [cnt EXCEPT !.off = @ + 1]

\* manager.py:1277-1435  the peer offers to upload file t to us (PeerTransferRequest, direction download).  It may
\* repeat the offer with a new ticket while the first is still being processed (INITIALIZING, waiting up to 60 s
\* for the file connection): ignored.  A live initialize-download can also sit in the slot of a transfer that is
\* QUEUED again (a failing remote-queue attempt calls state.queue() on INITIALIZING): the handler must not
\* overwrite it (OfferSkipsOccupied).  The frame can arrive while an abort of t is parked in its file removal:
\* the handler looks at the state value only, so it would start initialize-download, whose first step waits for
\* the state lock and which goes on after the abort has returned - unless OfferSkipsLocked.
PeerOffer(t) ==
  /\ PeerFrame
  /\ Dir(t) = "down"
  /\ pconn' = TRUE
  /\ IF /\ present[t] /\ x[t].st \in {"QUEUED", "INCOMPLETE", "FAILED"}
        /\ ~(Locked(t) /\ OfferSkipsLocked)
        /\ OfferSkipsOccupied => SlotFree(ttSlot[t])
       THEN /\ nT < MaxTasks
            /\ nT' = nT + 1
            \* FAILED is first re-queued by the peer (queue(remotely=True)); then initialize-download starts:
            \* state.initialize(), PeerTransferReply(allowed) written, wait for the file connection
            \* (with the state lock held by an abort the task is created and waits: nothing changes yet)
            /\ x' = IF Locked(t) THEN x
                    ELSE [x EXCEPT ![t] = DoInitialize(IF x[t].st = "FAILED" THEN DoQueue(x[t], TRUE) ELSE x[t])]
            /\ task' = [task EXCEPT ![nT + 1] = [t |-> t, kind |-> "init", pc |-> "waitfile", canc |-> FALSE]]
            /\ ttSlot' = [ttSlot EXCEPT ![t] = nT + 1]
            /\ quiet' = [quiet EXCEPT ![t] = 0]
            /\ acted' = IF Locked(t) THEN {} ELSE {t}
       ELSE \* not in the list / ABORTED / PAUSED / COMPLETE: a refusal is written (not a message on t's behalf);
            \* being processed, slot occupied or changing state: ignored
            /\ acted' = {}
            /\ UNCHANGED <<x, task, nT, ttSlot, quiet>>
  /\ UNCHANGED <<kind0, present, rqSlot, cbq, op>>

\* manager.py _on_peer_transfer_queue_failed: the peer refuses to queue download t -> state.fail(reason).  The reason
\* is a free-form protocol string; r = "empty" is the legal boundary value '' - still a reason: a download that
\* FAILED with a reason is never retried.  While an abort holds the state lock the handler waits and is then
\* dispatched on ABORTED, where fail is refused.  PAUSED -> FAILED is a documented edge: a paused download is
\* failed by the peer's word (Told(t, "fail")) - and stays quiet: a queue failure is no re-queue.
PeerQueueFailed(t, r) ==
  /\ PeerFrame
  /\ Dir(t) = "down" /\ present[t]
  /\ pconn' = TRUE
  /\ x' = IF Locked(t) THEN x ELSE [x EXCEPT ![t] = DoFail(x[t], TRUE)]
  /\ acted' = {Told(t, "fail")}
  /\ UNCHANGED <<kind0, present, rqSlot, ttSlot, task, nT, cbq, op, quiet>>

\* manager.py _on_peer_transfer_queue for an upload we already have: FAILED / COMPLETE are re-queued by the peer
\* (legitimate; neither is a quiet state of a transfer still in the list), ABORTED is answered with a refusal,
\* everything else is ignored
PeerQueue(t) ==
  /\ PeerFrame
  /\ Dir(t) = "up" /\ present[t]
  /\ pconn' = TRUE
  /\ x' = IF x[t].st \in {"FAILED", "COMPLETE"} THEN [x EXCEPT ![t] = DoQueue(x[t], FALSE)] ELSE x
  /\ acted' = {}
  /\ UNCHANGED <<kind0, present, rqSlot, ttSlot, task, nT, cbq, op, quiet>>

\* manager.py _on_peer_upload_failed / _on_peer_place_in_queue_reply: the peer tells us where download t stands in
\* ITS queue.  These two fields mirror the peer; its telling is not something done on the transfer's behalf.
PeerTells(t, f) ==
  /\ PeerFrame
  /\ Dir(t) = "down" /\ present[t]
  /\ pconn' = TRUE
  /\ x' = IF f = "remQ" THEN [x EXCEPT ![t].remQ = FALSE] ELSE [x EXCEPT ![t].piq = 1]
  /\ acted' = {Told(t, f)}
  /\ UNCHANGED <<kind0, present, rqSlot, ttSlot, task, nT, cbq, op, quiet>>

\* the peer closes its peer connections (it went away; a later message to it needs a new connection)
PConnLost ==
  /\ PeerFrame /\ pconn
  /\ pconn' = FALSE
  /\ acted' = {}
  /\ UNCHANGED <<kind0, x, present, rqSlot, ttSlot, task, nT, cbq, op, quiet>>

\* initialize-download: the peer's file connection arrives (offset written, DOWNLOADING) or the 60 s wait ends
\* manager.py:814-851
FileConn(t, i, res) ==
  /\ EnvBudget
  /\ LET k == Nth(t, "init", i) IN
       /\ k # 0 /\ task[k].pc = "waitfile"
       /\ IF res = "ok"
            THEN /\ task' = [task EXCEPT ![k].pc = "xfer"]
                 /\ x' = [x EXCEPT ![t] = [DoStart(x[t], "down") EXCEPT !.lfile = TRUE]]
                 /\ acted' = {t}
                 /\ UNCHANGED cbq
            ELSE /\ Ends(k)
                 /\ x' = [x EXCEPT ![t] = DoQueue(x[t], FALSE)]
                 /\ acted' = {}
  /\ UNCHANGED <<kind0, present, rqSlot, ttSlot, nT, op, quiet, pconn>>

\* initialize-upload: the peer's PeerTransferReply (manager.py:907-936)
Reply(t, i, res) ==
  /\ EnvBudget
  /\ LET k == Nth(t, "init", i) IN
       /\ k # 0 /\ task[k].pc = "reply"
       /\ CASE res = "allow" -> /\ task' = [task EXCEPT ![k].pc = "fdirect"]       \* GetPeerAddress + connect (F)
                                /\ acted' = {t}
                                /\ UNCHANGED <<x, cbq>>
            [] res = "deny"  -> /\ Ends(k)
                                /\ x' = [x EXCEPT ![t] = DoFail(x[t], TRUE)]
                                /\ acted' = {}
            [] res = "timeout" -> /\ Ends(k)
                                  /\ x' = [x EXCEPT ![t] = DoQueue(x[t], FALSE)]
                                  /\ acted' = {}
  /\ UNCHANGED <<kind0, present, rqSlot, ttSlot, nT, op, quiet, pconn>>

\* initialize-upload: the file connection (direct, then indirect); on success the ticket is written and the
\* task waits for the offset (manager.py:926-952)
FDirect(t, i, res) ==
  /\ EnvBudget
  /\ LET k == Nth(t, "init", i) IN
       /\ k # 0 /\ task[k].pc = "fdirect"
       /\ task' = [task EXCEPT ![k].pc = IF res = "ok" THEN "offset" ELSE "findirect"]
       /\ acted' = {t}
  /\ UNCHANGED <<kind0, x, present, rqSlot, ttSlot, nT, cbq, op, quiet, pconn>>

FIndirect(t, i, res) ==
  /\ EnvBudget
  /\ LET k == Nth(t, "init", i) IN
       /\ k # 0 /\ task[k].pc = "findirect"
       /\ IF res = "ok"
            THEN /\ task' = [task EXCEPT ![k].pc = "offset"]
                 /\ acted' = {t}
                 /\ UNCHANGED <<x, cbq>>
            ELSE /\ Ends(k)
                 /\ x' = [x EXCEPT ![t] = DoQueue(x[t], FALSE)]
                 /\ acted' = {}
  /\ UNCHANGED <<kind0, present, rqSlot, ttSlot, nT, op, quiet, pconn>>

\* initialize-upload: the offset arrives (UPLOADING, data is written) or the peer closes (queue())
Offset(t, i, res) ==
  /\ EnvBudget
  /\ LET k == Nth(t, "init", i) IN
       /\ k # 0 /\ task[k].pc = "offset"
       /\ IF res = "ok"
            THEN /\ task' = [task EXCEPT ![k].pc = "xfer"]
                 /\ x' = [x EXCEPT ![t] = DoStart(x[t], "up")]
                 /\ acted' = {t}
                 /\ UNCHANGED cbq
            ELSE /\ Ends(k)
                 /\ x' = [x EXCEPT ![t] = DoQueue(x[t], FALSE)]
                 /\ acted' = {}
  /\ UNCHANGED <<kind0, present, rqSlot, ttSlot, nT, op, quiet, pconn>>

\* the file transfer ends: all bytes moved (COMPLETE), the peer closes the file connection early ("break":
\* download FAILED with reason Cancelled, upload write error), or the connection is reset ("reset": download
\* INCOMPLETE, which the scheduler retries; upload write error).  An upload that breaks is FAILED without reason and
\* the transfer task itself tells the peer (PeerUploadFailed): at once on the existing P connection, else it first
\* has to connect (the task stays live in the slot meanwhile)           manager.py:1010-1068, 1114-1144
Xfer(t, i, res) ==
  /\ EnvBudget
  /\ LET k == Nth(t, "init", i) IN
       /\ k # 0 /\ task[k].pc = "xfer"
       /\ IF res # "done" /\ Dir(t) = "up"
            THEN /\ acted' = {t}
                 /\ x' = [x EXCEPT ![t] = DoFail(x[t], FALSE)]
                 /\ IF pconn THEN Ends(k)
                             ELSE task' = [task EXCEPT ![k].pc = "ndirect"] /\ UNCHANGED cbq
            ELSE /\ Ends(k)
                 /\ acted' = {}
                 /\ x' = [x EXCEPT ![t] = CASE res = "done" -> DoComplete(x[t])
                                            [] res = "break" -> DoFail(x[t], TRUE)
                                            [] res = "reset" -> DoIncomplete(x[t])]
  /\ UNCHANGED <<kind0, present, rqSlot, ttSlot, nT, op, quiet, pconn>>

\* the connection for the PeerUploadFailed notification: direct, then indirect; whatever the outcome the task ends
Notify(t, i, stage, res) ==
  /\ EnvBudget
  /\ LET k == Nth(t, "init", i) IN
       /\ k # 0 /\ task[k].pc = stage
       /\ IF res = "ok"
            THEN /\ pconn' = TRUE /\ acted' = {t} /\ Ends(k)
            ELSE IF stage = "ndirect"
                   THEN /\ task' = [task EXCEPT ![k].pc = "nindirect"] /\ acted' = {t} /\ UNCHANGED <<cbq, pconn>>
                   ELSE /\ Ends(k) /\ acted' = {} /\ UNCHANGED pconn
  /\ UNCHANGED <<kind0, x, present, rqSlot, ttSlot, nT, op, quiet>>

----------------------------------------------------------------------------
\* user calls: manager.py abort / pause / remove, state.py abort / pause

\* model.py:331-344 cancel_tasks(): cancels exactly what the two slots hold
SlotTasks(t) == {k \in {rqSlot[t], ttSlot[t]} \ {0} : Live(k)}

RemovesFile(t, o) == o \in {"abort", "remove"} /\ Dir(t) = "down" /\ x[t].lfile

\* The n-th user call returns: abort / pause that were performed, and every remove, start a quiet interval.
Returned(t, o, ok, n) ==
  /\ quiet' = [quiet EXCEPT ![t] = IF ok \/ o = "remove" THEN n ELSE 0]
  /\ op' = [op EXCEPT ![t] = IdleOp]

\* what the return of the call leaves behind (Transfer.transition, manager.remove)
Finish(t, o, ok, n) ==
  /\ x' = [x EXCEPT ![t] = IF ~ok THEN @
                           ELSE IF o = "pause" THEN [@ EXCEPT !.st = "PAUSED"]
                           ELSE [@ EXCEPT !.st = "ABORTED", !.abortR = TRUE,
                                          !.lfile = IF Dir(t) = "down" THEN FALSE ELSE @]]
  /\ present' = IF o = "remove" THEN [present EXCEPT ![t] = FALSE] ELSE present
  /\ Returned(t, o, ok, n)

\* The call runs without suspending up to `await gather(*cancelled tasks)`; with nothing to cancel gather() does
\* not suspend and the call goes straight on to the file removal (which does) or to its end.
Call(t, o) ==
  /\ Quiescent
  /\ cnt.ops < MaxOps /\ cnt' = [cnt EXCEPT !.ops = @ + 1]
  /\ present[t] /\ \A u \in T : op[u].pc = "idle"            \* one user call at a time
  /\ LET ok == IF o = "pause" THEN x[t].st \in PauseFrom ELSE x[t].st \in AbortFrom
         cancels == IF ok \/ (o = "remove" /\ RemoveCancels) THEN SlotTasks(t) ELSE {} IN
       /\ task' = [k \in TaskIds |-> IF k \in cancels THEN [task[k] EXCEPT !.canc = TRUE] ELSE task[k]]
       /\ IF cancels # {}
            THEN /\ op' = [op EXCEPT ![t] = [o |-> o, pc |-> "await", ok |-> ok, waits |-> cancels]]
                 \* RemoveCancels takes the transfer out of the list before awaiting: no cycle sees it any more;
                 \* a new user call on t is the user's own doing: the quiet interval ends, the return starts the next
                 /\ present' = IF o = "remove" /\ ~ok THEN [present EXCEPT ![t] = FALSE] ELSE present
                 /\ quiet' = [quiet EXCEPT ![t] = 0]
                 /\ UNCHANGED x
            ELSE IF ok /\ RemovesFile(t, o)
                   THEN /\ op' = [op EXCEPT ![t] = [o |-> o, pc |-> "rmfile", ok |-> ok, waits |-> {}]]
                        /\ quiet' = [quiet EXCEPT ![t] = 0]
                        /\ UNCHANGED <<x, present>>
                   ELSE Finish(t, o, ok, cnt.ops + 1)
  /\ acted' = {}
  /\ UNCHANGED <<kind0, rqSlot, ttSlot, nT, cbq, pconn>>

\* the awaited tasks have ended and their callbacks have run (the gather callback is registered after the
\* slot callback): abort of a download with a local file goes on to remove it in the executor (suspends for
\* real time: anything can happen meanwhile), everything else finishes at once
Awaited(t) == \A k \in op[t].waits : ~Live(k) /\ \A j \in 1..Len(cbq) : cbq[j] # k

OpCancelled(t) ==
  /\ op[t].pc = "await" /\ Awaited(t)
  /\ IF op[t].ok /\ RemovesFile(t, op[t].o)
       THEN /\ op' = [op EXCEPT ![t].pc = "rmfile"]
            /\ UNCHANGED <<x, present, quiet>>
       ELSE Finish(t, op[t].o, op[t].ok, cnt.ops)
  /\ acted' = {}
  /\ UNCHANGED <<kind0, rqSlot, ttSlot, task, nT, cbq, pconn, cnt>>

FileGone(t) ==
  /\ op[t].pc = "rmfile" /\ cbq = <<>> /\ ~CancelPending
  /\ Finish(t, op[t].o, op[t].ok, cnt.ops)
  /\ acted' = {}
  /\ UNCHANGED <<kind0, rqSlot, ttSlot, task, nT, cbq, pconn, cnt>>

\* the user puts the transfer back in the queue (manager.py:273-303): ends the quiet interval
Requeue(t) ==
  /\ Quiescent /\ cnt.req < MaxRequeue /\ cnt' = [cnt EXCEPT !.req = @ + 1]
  /\ present[t] /\ op[t].pc = "idle" /\ x[t].st \in QueueFrom \ {"INITIALIZING"}
  /\ x' = [x EXCEPT ![t] = DoQueue(x[t], FALSE)]
  /\ quiet' = [quiet EXCEPT ![t] = 0]
  /\ acted' = {}
  /\ UNCHANGED <<kind0, present, rqSlot, ttSlot, task, nT, cbq, op, pconn>>

Next ==
  \/ Cycle \/ CycleSelect \/ CycleStart
  \/ DoneCallback
  \/ \E k \in TaskIds : CancelDelivered(k)
  \/ \E t \in T, kd \in {"rq", "init"}, i \in 1..2, res \in {"ok", "fail"} : Direct(t, kd, i, res) \/ Indirect(t, kd, i, res)
  \/ \E t \in T : PeerOffer(t) \/ PeerQueue(t)
  \/ \E t \in T, r \in {"text", "empty"} : PeerQueueFailed(t, r)
  \/ \E t \in T, f \in {"remQ", "piq"} : PeerTells(t, f)
  \/ PConnLost
  \/ \E t \in T, i \in 1..2, stage \in {"ndirect", "nindirect"}, res \in {"ok", "fail"} : Notify(t, i, stage, res)
  \/ \E t \in T, i \in 1..2, res \in {"ok", "timeout"} : FileConn(t, i, res)
  \/ \E t \in T, i \in 1..2, res \in {"allow", "deny", "timeout"} : Reply(t, i, res)
  \/ \E t \in T, i \in 1..2, res \in {"ok", "fail"} : FDirect(t, i, res) \/ FIndirect(t, i, res) \/ Offset(t, i, res)
  \/ \E t \in T, i \in 1..2, res \in {"done", "break", "reset"} : Xfer(t, i, res)
  \/ \E t \in T, o \in {"abort", "pause", "remove"} : Call(t, o)
  \/ \E t \in T : OpCancelled(t) \/ FileGone(t) \/ Requeue(t)

Spec == Init /\ [][Next]_vars

----------------------------------------------------------------------------
\* Properties (C06)

TypeOK ==
  /\ \A t \in T : rqSlot[t] \in 0..MaxTasks /\ ttSlot[t] \in 0..MaxTasks
  /\ nT \in 0..MaxTasks
  /\ \A k \in TaskIds : (task[k].pc = "none") = (k > nT)
  /\ acted \subseteq T \cup {Told(t, f) : t \in T, f \in {"remQ", "piq", "fail"}}

\* at any time at most one background negotiation per transfer and kind is in flight
AtMostOneNegotiation == \A t \in T : Cardinality(LiveRQ(t)) <= 1 /\ Cardinality(LiveTT(t)) <= 1

\* every live task is reachable from its slot, so cancelling the transfer cancels all of it
SlotsTrackLive == \A t \in T : LiveRQ(t) \subseteq {rqSlot[t]} /\ LiveTT(t) \subseteq {ttSlot[t]} /\ LiveOther(t) = {}

\* once abort / pause / remove has returned, no task of the transfer is live ...
QuietNoTasks == \A t \in T : quiet[t] # 0 => LiveRQ(t) = {} /\ LiveTT(t) = {} /\ LiveOther(t) = {}

\* ... no message about its file is written, no connection is opened on its behalf, none of its fields
\* changes - until it is legitimately re-queued (which resets quiet)
\* (the one exception: a field that mirrors the peer's queue changes in a step in which the peer tells it)
SameExcept(r1, r2, f) == DOMAIN r1 = DOMAIN r2 /\ \A g \in DOMAIN r1 \ {f} : r1[g] = r2[g]
QuietStep == \A t \in T : (quiet[t] # 0 /\ quiet'[t] = quiet[t]) =>
                /\ t \notin acted'
                /\ \/ x'[t] = x[t]
                   \/ \E f \in {"remQ", "piq"} : Told(t, f) \in acted' /\ SameExcept(x'[t], x[t], f)
                   \/ /\ Told(t, "fail") \in acted' /\ x[t].st = "PAUSED" /\ x'[t].st = "FAILED"
                      /\ DOMAIN x'[t] = DOMAIN x[t]
                      /\ \A g \in DOMAIN x[t] \ {"st", "failR"} : x'[t][g] = x[t][g]
QuietAfterReturn == [][QuietStep]_vars
=============================================================================

SPECIFICATION WSpec
CONSTANTS
  T = {1, 2, 3}
  StartKinds = {"dq", "di", "df", "uq"}
  MaxTasks = 96
  MaxCycles = 0
  MaxOps = 0
  MaxEnv = 0
  MaxRequeue = 0
  MaxOffers = 0
  MaxSplit = 1
  SkipOccupied = TRUE
  CallbackOwnOnly = TRUE
  RemoveCancels = TRUE
  CycleSkipsLocked = TRUE
  OfferSkipsLocked = TRUE
  OfferSkipsOccupied = TRUE
  StartRechecks = TRUE
CONSTRAINT AtMostOneNegotiation
CONSTRAINT SlotsTrackLive
CONSTRAINT QuietNoTasks
ACTION_CONSTRAINT QuietStep
CHECK_DEADLOCK FALSE

SPECIFICATION Spec
CONSTANTS
  T = {1}
  StartKinds = {"dq"}
  MaxTasks = 4
  MaxCycles = 2
  MaxOps = 1
  MaxEnv = 3
  MaxRequeue = 1
  MaxOffers = 2
  MaxSplit = 0
  SkipOccupied = TRUE
  CallbackOwnOnly = TRUE
  RemoveCancels = TRUE
  CycleSkipsLocked = TRUE
  OfferSkipsLocked = TRUE
  OfferSkipsOccupied = FALSE
  StartRechecks = TRUE
INVARIANT TypeOK
INVARIANT AtMostOneNegotiation
INVARIANT SlotsTrackLive
INVARIANT QuietNoTasks
PROPERTY QuietAfterReturn
CHECK_DEADLOCK FALSE

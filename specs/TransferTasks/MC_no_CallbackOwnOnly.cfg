SPECIFICATION Spec
CONSTANTS
  T = {1}
  StartKinds = {"dq", "di", "df", "uq"}
  MaxTasks = 4
  MaxCycles = 3
  MaxOps = 2
  MaxEnv = 4
  MaxRequeue = 1
  MaxOffers = 1
  MaxSplit = 0
  SkipOccupied = TRUE
  CallbackOwnOnly = FALSE
  RemoveCancels = TRUE
  CycleSkipsLocked = TRUE
  OfferSkipsLocked = TRUE
  OfferSkipsOccupied = TRUE
  StartRechecks = TRUE
INVARIANT TypeOK
INVARIANT AtMostOneNegotiation
INVARIANT SlotsTrackLive
INVARIANT QuietNoTasks
PROPERTY QuietAfterReturn
CHECK_DEADLOCK FALSE

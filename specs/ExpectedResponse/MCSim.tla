------------------------------ MODULE MCSim ------------------------------
(* Schedule generation by simulation.  TLC's simulator picks uniformly among ALL successor   *)
(* states; at an iteration boundary there are many more feeds and registrations than the one *)
(* "let the loop run", so every stimulus would be spent at the first boundary.  Here the     *)
(* class of what the environment does next is drawn into `pick` (TLC!RandomElement), so that *)
(* stimuli are spread over the run.  SimNext => Next (pick aside): every simulated behaviour *)
(* is a behaviour of ExpectedResponse!Spec; the S-actions carry the same parameters.         *)
EXTENDS MC

VARIABLE pick

Busy == Len(ready) > 1 \/ dueNow # <<>>
Cls == IF Busy THEN (IF pick <= 50 THEN {"pass"} ELSE IF pick <= 64 THEN {"reg"} ELSE IF pick <= 78 THEN {"feed"}
                     ELSE IF pick <= 90 THEN {"cancel"} ELSE {"due"})
       ELSE (IF pick <= 35 THEN {"reg"} ELSE IF pick <= 65 THEN {"feed"} ELSE {"reg", "feed", "cancel", "due"})
Redraw == pick' = RandomElement(1..100)

SReg(c, s, api, fails) == "reg" \in Cls /\ (fails => pick % 3 = 0) /\ Reg(c, s, api, fails) /\ Redraw
SFeed(b) == "feed" \in Cls /\ Len(b) = 1 + (pick % MaxBatch) /\ Feed(b) /\ Redraw
SCancel(c) == "cancel" \in Cls /\ Cancel(c) /\ Redraw
SDue(c) == "due" \in Cls /\ Due(c) /\ Redraw
SDStep == DStep /\ Redraw              \* always possible: a class with nothing enabled cannot end the run
SObserve == Observe /\ Redraw
SRun == Run /\ UNCHANGED pick

SimNext ==
  \/ \E c \in Callers, s \in Specs, api \in Apis, fails \in BOOLEAN : SReg(c, s, api, fails)
  \/ \E b \in Batches : SFeed(b)
  \/ \E c \in Callers : SCancel(c) \/ SDue(c)
  \/ SObserve
  \/ SDStep
  \/ SRun

SimSpec == (Init /\ pick = 50) /\ [][SimNext]_<<vars, pick>>
=============================================================================

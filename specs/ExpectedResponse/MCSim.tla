------------------------------ MODULE MCSim ------------------------------
(* Schedule generation by simulation.  TLC's simulator picks uniformly among ALL successor   *)
(* states; at an iteration boundary there are many more feeds and registrations than the one *)
(* "let the loop run", so every stimulus would be spent at the first boundary.  Here the     *)
(* class of what the environment does next is drawn into `pick` (TLC!RandomElement), so that *)
(* stimuli are spread over the run.  SimNext => Next (pick aside): every simulated behaviour *)
(* is a behaviour of ExpectedResponse!Spec; the S-actions carry the same parameters.         *)
EXTENDS MC

VARIABLE pick

Busy == Len(ready) > 1 \/ dueNow # <<>>
Cls == IF Busy THEN (IF pick <= 50 THEN {"pass"} ELSE IF pick <= 64 THEN {"reg"} ELSE IF pick <= 78 THEN {"feed"}
                     ELSE IF pick <= 88 THEN {"cancel"} ELSE IF pick <= 96 THEN {"due"} ELSE {"release"})
       ELSE (IF pick <= 30 THEN {"reg"} ELSE IF pick <= 55 THEN {"feed"} ELSE IF pick <= 70 THEN {"release", "cancel", "due"}
             ELSE {"reg", "feed", "cancel", "due", "release"})
Redraw == pick' = RandomElement(1..100)

SReg(c, s, api, fails, tm) == "reg" \in Cls /\ (fails => pick % 3 = 0) /\ Reg(c, s, api, fails, tm) /\ Redraw
SFeed(b, sl) == "feed" \in Cls /\ Len(b) = 1 + (pick % MaxBatch) /\ (sl > 0 => pick % 2 = 0) /\ Feed(b, sl) /\ Redraw
SRelease(conn) == "release" \in Cls /\ Release(conn) /\ Redraw
SCancel(c) == "cancel" \in Cls /\ Cancel(c) /\ Redraw
SDue(c) == "due" \in Cls /\ Due(c) /\ Redraw
SElapse(c) == "due" \in Cls /\ Elapse(c) /\ Redraw
SDStep == DStep /\ Redraw              \* always possible: a class with nothing enabled cannot end the run
SObserve == Observe /\ Redraw
SRun == Run /\ UNCHANGED pick

SimNext ==
  \/ \E c \in Callers, s \in Specs, api \in Apis, fails \in BOOLEAN, tm \in Timeouts : SReg(c, s, api, fails, tm)
  \/ \E b \in Batches, sl \in 0..MaxBatch : SFeed(b, sl)
  \/ \E c \in Callers : SCancel(c) \/ SDue(c) \/ SElapse(c)
  \/ \E conn \in Conns : SRelease(conn)
  \/ SObserve
  \/ SDStep
  \/ SRun

SimSpec == (Init /\ pick = 50) /\ [][SimNext]_<<vars, pick>>
=============================================================================

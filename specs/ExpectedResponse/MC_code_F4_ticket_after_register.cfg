\* the pinned code (F4_ticket_after_register): expected to violate AllAnsweredCompleted
SPECIFICATION Spec
CONSTANTS
  Callers = {1}
  Specs <- SpecsC
  Msgs <- MsgsC
  Apis = {"wait", "exec"}
  Timeouts = {"short"}
  MaxElapse = 0
  MaxFeeds = 2
  MaxBatch = 2
  MaxCancel = 0
  MaxDue = 1
  MaxSlow = 0
  MaxSendFail = 0
  SendHops = 4
  SkipDoneFutures = TRUE
  GuardSetException = TRUE
  AllFieldMatchers = TRUE
  TicketBeforeRegister = FALSE
  LiveListAtCompletion = TRUE
  ReleaseWhenSendCancelled = TRUE
  TimeoutForwarded = TRUE
  RegisterAfterSend = TRUE
INVARIANT TypeOK
INVARIANT OnlyMatching
INVARIANT FirstMatching
INVARIANT AllAnsweredCompleted
INVARIANT AtMostOnce
INVARIANT TimeoutIsTimeout
INVARIANT NoResidue
INVARIANT DeliveryUnbroken
PROPERTY WaiterOnce
CHECK_DEADLOCK FALSE

\* a design in which wait_for_peer_message always waits the library's 10 s (seeded change C12-c3): expected to violate TimeoutIsTimeout
SPECIFICATION Spec
CONSTANTS
  Callers = {1}
  Specs <- SpecsT
  Msgs <- MsgsT
  Apis = {"wait"}
  Timeouts = {"long"}
  MaxElapse = 1
  MaxFeeds = 1
  MaxBatch = 1
  MaxCancel = 0
  MaxDue = 2
  MaxSlow = 0
  MaxSendFail = 0
  SendHops = 4
  SkipDoneFutures = TRUE
  GuardSetException = TRUE
  AllFieldMatchers = TRUE
  TicketBeforeRegister = TRUE
  LiveListAtCompletion = TRUE
  ReleaseWhenSendCancelled = TRUE
  TimeoutForwarded = FALSE
  RegisterAfterSend = TRUE
INVARIANT TypeOK
INVARIANT OnlyMatching
INVARIANT FirstMatching
INVARIANT AllAnsweredCompleted
INVARIANT AtMostOnce
INVARIANT TimeoutIsTimeout
INVARIANT NoResidue
INVARIANT DeliveryUnbroken
PROPERTY WaiterOnce
CHECK_DEADLOCK FALSE

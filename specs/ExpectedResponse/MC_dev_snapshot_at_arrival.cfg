\* a design that collects the not-done waiters when the message comes in, before its handlers run (seeded change C12-b2): expected to violate DeliveryUnbroken
SPECIFICATION Spec
CONSTANTS
  Callers = {1, 2}
  Specs <- SpecsG
  Msgs <- MsgsG
  Apis = {"wait"}
  Timeouts = {"short"}
  MaxElapse = 0
  MaxFeeds = 1
  MaxBatch = 1
  MaxCancel = 1
  MaxDue = 1
  MaxSlow = 1
  MaxSendFail = 0
  SendHops = 4
  SkipDoneFutures = TRUE
  GuardSetException = TRUE
  AllFieldMatchers = TRUE
  TicketBeforeRegister = TRUE
  LiveListAtCompletion = FALSE
  ReleaseWhenSendCancelled = TRUE
  TimeoutForwarded = TRUE
  RegisterAfterSend = TRUE
INVARIANT TypeOK
INVARIANT OnlyMatching
INVARIANT FirstMatching
INVARIANT AllAnsweredCompleted
INVARIANT AtMostOnce
INVARIANT TimeoutIsTimeout
INVARIANT NoResidue
INVARIANT DeliveryUnbroken
PROPERTY WaiterOnce
CHECK_DEADLOCK FALSE

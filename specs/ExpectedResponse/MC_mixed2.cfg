\* thorough: peers, the ticket-bearing command, wait + exec; exhaustive
SPECIFICATION Spec
CONSTANTS
  Callers = {1, 2}
  Specs <- SpecsP
  Msgs <- MsgsP
  Apis = {"wait", "exec"}
  MaxFeeds = 2
  MaxBatch = 2
  MaxCancel = 1
  MaxDue = 1
  MaxSlow = 0
  MaxSendFail = 1
  SendHops = 4
  SkipDoneFutures = TRUE
  GuardSetException = TRUE
  AllFieldMatchers = TRUE
  TicketBeforeRegister = TRUE
  LiveListAtCompletion = TRUE
INVARIANT TypeOK
INVARIANT OnlyMatching
INVARIANT FirstMatching
INVARIANT AllAnsweredCompleted
INVARIANT AtMostOnce
INVARIANT TimeoutIsTimeout
INVARIANT NoResidue
INVARIANT DeliveryUnbroken
PROPERTY WaiterOnce
CHECK_DEADLOCK FALSE

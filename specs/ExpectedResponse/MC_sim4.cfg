\* thorough: simulation (MCSim), 4 callers
SPECIFICATION SimSpec
CONSTANTS
  Callers = {1, 2, 3, 4}
  Specs <- SpecsSim
  Msgs <- MsgsSim
  Apis = {"wait", "fut", "exec", "place"}
  Timeouts = {"short", "long"}
  MaxElapse = 2
  MaxFeeds = 4
  MaxBatch = 3
  MaxCancel = 2
  MaxDue = 2
  MaxSlow = 1
  MaxSendFail = 1
  SendHops = 4
  SkipDoneFutures = TRUE
  GuardSetException = TRUE
  AllFieldMatchers = TRUE
  TicketBeforeRegister = TRUE
  LiveListAtCompletion = TRUE
  ReleaseWhenSendCancelled = TRUE
  TimeoutForwarded = TRUE
  RegisterAfterSend = TRUE
INVARIANT TypeOK
INVARIANT OnlyMatching
INVARIANT FirstMatching
INVARIANT AllAnsweredCompleted
INVARIANT AtMostOnce
INVARIANT TimeoutIsTimeout
INVARIANT NoResidue
INVARIANT DeliveryUnbroken
CHECK_DEADLOCK FALSE

------------------------------- MODULE MC -------------------------------
(* Catalogues of waiter specs and messages for the model-checking configs of *)
(* ExpectedResponse (TLC configuration files cannot hold records).           *)
EXTENDS ExpectedResponse

Sp(conn, cls, m1, m2) == [conn |-> conn, cls |-> cls, m1 |-> m1, m2 |-> m2, late |-> FALSE, ex |-> FALSE, pl |-> FALSE]
Ms(conn, cls, f1, f2) == [conn |-> conn, cls |-> cls, f1 |-> f1, f2 |-> f2]
\* shapes for which the library has a command (commands.py): one literal, two literals, none;
\* and the command whose first matcher is the ticket it generates in send()
Ex(s) == [s EXCEPT !.ex = TRUE]
Late(conn, cls, m2) == [conn |-> conn, cls |-> cls, m1 |-> "v1", m2 |-> m2, late |-> TRUE, ex |-> TRUE, pl |-> FALSE]
\* the shape of the place-in-queue negotiation: a peer, the file name as literal
Pl(s) == [s EXCEPT !.pl = TRUE]

\* one connection, one class: what matters is the match matrix
\*            (1,1)  (2,2)  (1,2)
\*  any/any     x      x      x
\*  v1/any      x             x
\*  p1/v2                     x      ((1,1) too when a predicate ends matching early)
SpecsQ == {Ex(Sp("S", "A", "any", "any")), Ex(Sp("S", "A", "v1", "any")), Sp("S", "A", "p1", "v2")}
MsgsQ  == {Ms("S", "A", 1, 1), Ms("S", "A", 2, 2), Ms("S", "A", 1, 2)}

\* the smallest catalogue with "matches both / matches one" (graph cover, 2 callers)
SpecsG == {Sp("S", "A", "any", "any"), Sp("S", "A", "v1", "any")}
MsgsG  == {Ms("S", "A", 1, 1), Ms("S", "A", 2, 2)}
SpecsG2 == {Ex(Sp("S", "A", "any", "any")), Ex(Sp("S", "A", "v1", "any"))}

\* catalogue for the code-position configs: each of the four deviations is reachable
SpecsC == {Ex(Sp("S", "A", "any", "any")), Ex(Sp("S", "A", "v1", "any")), Sp("S", "A", "p1", "v2"), Late("P1", "B", "v1")}
MsgsC  == {Ms("S", "A", 1, 1), Ms("S", "A", 2, 2), Ms("P1", "B", 1, 1)}

\* timeouts on both sides of the library's 10 s, for server and peer waits
SpecsT == {Sp("P1", "A", "v1", "any"), Sp("S", "A", "v1", "any")}
MsgsT  == {Ms("P1", "A", 1, 1), Ms("S", "A", 1, 1)}

\* the negotiation next to a plain wait for the same reply
SpecsN == {Pl(Sp("P1", "A", "v1", "any")), Sp("P1", "A", "v1", "any")}
MsgsN  == {Ms("P1", "A", 1, 1), Ms("P1", "A", 2, 1)}

\* a command whose expected reply carries our own user name (room message / ticker echo): the harness lets
\* field value 1 of the second field stand for the name we are logged in with, value 2 for somebody else's -
\* and may edit settings.credentials.username (the name for the NEXT login) to that other name meanwhile
SpecsO == {Ex(Sp("S", "A", "v1", "v1"))}
MsgsO  == {Ms("S", "A", 1, 1), Ms("S", "A", 1, 2)}

\* every spec against every message (1 caller, 1 message): the matching relation
SpecsAll == {Sp(c, k, a, b) : c \in {"S", "P1"}, k \in {"A", "B"}, a \in {"any", "v1", "v2", "p1", "p2"},
                              b \in {"any", "v1", "v2", "p2"}}
MsgsAll  == {Ms(c, k, a, b) : c \in {"S", "P1", "P2"}, k \in {"A", "B"}, a \in {1, 2}, b \in {1, 2}}

\* peers and the ticket-bearing command
SpecsP == {Ex(Sp("P1", "A", "any", "any")), Sp("P1", "A", "v1", "any"), Sp("P2", "A", "v1", "any"), Late("P1", "B", "v1")}
MsgsP  == {Ms("P1", "A", 1, 1), Ms("P2", "A", 1, 2), Ms("P1", "B", 1, 1), Ms("P1", "B", 2, 1)}

\* a mix for simulation
SpecsSim == {Ex(Sp("S", "A", "any", "any")), Ex(Sp("S", "A", "v1", "any")), Ex(Sp("S", "A", "v2", "v2")),
             Sp("S", "A", "p1", "v2"), Sp("S", "A", "any", "v1"), Ex(Sp("S", "B", "v1", "any")),
             Ex(Sp("P1", "A", "any", "any")), Sp("P1", "A", "v1", "any"), Sp("P2", "A", "v1", "any"),
             Sp("P1", "A", "p2", "v1"), Late("P1", "B", "v1"), Sp("P1", "B", "v1", "v1"),
             Pl(Sp("P1", "A", "v2", "any")), Pl(Sp("P2", "A", "v1", "any"))}
MsgsSim  == {Ms("S", "A", 1, 1), Ms("S", "A", 2, 2), Ms("S", "A", 1, 2), Ms("S", "B", 1, 1),
             Ms("P1", "A", 1, 1), Ms("P1", "A", 2, 1), Ms("P2", "A", 1, 2), Ms("P1", "B", 1, 1), Ms("P1", "B", 2, 1)}

=============================================================================

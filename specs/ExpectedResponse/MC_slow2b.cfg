\* thorough: 2 messages in batches <= 2; 2 callers, a listener of MessageReceivedEvent that suspends (slow listener) for one message, one cancel and one timeout that may land inside the suspension, registrations too; exhaustive (2.8e5 states)
SPECIFICATION Spec
CONSTANTS
  Callers = {1, 2}
  Specs <- SpecsG
  Msgs <- MsgsG
  Apis = {"wait"}
  Timeouts = {"short"}
  MaxElapse = 0
  MaxFeeds = 2
  MaxBatch = 2
  MaxCancel = 1
  MaxDue = 1
  MaxSlow = 1
  MaxSendFail = 0
  SendHops = 4
  SkipDoneFutures = TRUE
  GuardSetException = TRUE
  AllFieldMatchers = TRUE
  TicketBeforeRegister = TRUE
  LiveListAtCompletion = TRUE
  ReleaseWhenSendCancelled = TRUE
  TimeoutForwarded = TRUE
  RegisterAfterSend = TRUE
INVARIANT TypeOK
INVARIANT OnlyMatching
INVARIANT FirstMatching
INVARIANT AllAnsweredCompleted
INVARIANT AtMostOnce
INVARIANT TimeoutIsTimeout
INVARIANT NoResidue
INVARIANT DeliveryUnbroken
PROPERTY WaiterOnce
CHECK_DEADLOCK FALSE
